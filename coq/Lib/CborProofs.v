(** Theorems about the CBOR model of [Lib/Cbor.v]: encoder test vectors, head
    sizes, [decode (encode v ++ rest) = Some (v, rest)] (prefix-freeness /
    unique decodability), CBOR sequences, indefinite-length arrays,
    injectivity of [encode], well-formed output, and the strict decoder's
    re-encoding theorem. *)
From Coq Require Import List NArith ZArith Arith Bool Lia ZifyBool ZifyN ZifyNat.
From DTN Require Import Lib.Bytes Lib.Cbor.
Import ListNotations.
Local Open Scope N_scope.

Ltac Zify.zify_post_hook ::= Z.div_mod_to_equations.

Notation two64 := 18446744073709551616%N (only parsing).

(** * Encoder pinned to known vectors (RFC 8949 appendix A / cbor2.dumps) *)

Example enc_uint_0 : encode (CUint 0) = [0]. Proof. vm_compute. reflexivity. Qed.
Example enc_uint_23 : encode (CUint 23) = [23]. Proof. vm_compute. reflexivity. Qed.
Example enc_uint_24 : encode (CUint 24) = [24; 24]. Proof. vm_compute. reflexivity. Qed.
Example enc_uint_255 : encode (CUint 255) = [24; 255]. Proof. vm_compute. reflexivity. Qed.
Example enc_uint_256 : encode (CUint 256) = [25; 1; 0]. Proof. vm_compute. reflexivity. Qed.
Example enc_uint_65535 : encode (CUint 65535) = [25; 255; 255]. Proof. vm_compute. reflexivity. Qed.
Example enc_uint_65536 : encode (CUint 65536) = [26; 0; 1; 0; 0]. Proof. vm_compute. reflexivity. Qed.
Example enc_uint_2p32m1 : encode (CUint 4294967295) = [26; 255; 255; 255; 255]. Proof. vm_compute. reflexivity. Qed.
Example enc_uint_2p32 : encode (CUint 4294967296) = [27; 0; 0; 0; 1; 0; 0; 0; 0]. Proof. vm_compute. reflexivity. Qed.
Example enc_uint_max : encode (CUint 18446744073709551615) = [27; 255; 255; 255; 255; 255; 255; 255; 255].
Proof. vm_compute. reflexivity. Qed.
Example enc_nint_0 : encode (CNint 0) = [32]. Proof. vm_compute. reflexivity. Qed.
Example enc_nint_999 : encode (CNint 999) = [57; 3; 231]. Proof. vm_compute. reflexivity. Qed.
Example enc_bstr : encode (CBstr [1; 2]) = [66; 1; 2]. Proof. vm_compute. reflexivity. Qed.
Example enc_bstr_empty : encode (CBstr []) = [64]. Proof. vm_compute. reflexivity. Qed.
Example enc_tstr : encode (CTstr [195; 169]) = [98; 195; 169]. Proof. vm_compute. reflexivity. Qed.
Example enc_tstr_dtn : encode (CTstr [100; 116; 110]) = [99; 100; 116; 110]. Proof. vm_compute. reflexivity. Qed.
Example enc_arr : encode (CArr [CUint 1; CArr []]) = [130; 1; 128]. Proof. vm_compute. reflexivity. Qed.
Example enc_map : encode (CMap [(CUint 1, CBstr [97; 98])]) = [161; 1; 66; 97; 98]. Proof. vm_compute. reflexivity. Qed.
Example enc_tag : encode (CTag 24 (CBstr [])) = [216; 24; 64]. Proof. vm_compute. reflexivity. Qed.
Example enc_false : encode (CSimple 20) = [244]. Proof. vm_compute. reflexivity. Qed.
Example enc_true : encode (CSimple 21) = [245]. Proof. vm_compute. reflexivity. Qed.
Example enc_null : encode (CSimple 22) = [246]. Proof. vm_compute. reflexivity. Qed.
Example enc_undefined : encode (CSimple 23) = [247]. Proof. vm_compute. reflexivity. Qed.

(** cbor2.dumps([1,[],{1:b'ab'},-1,'é',None,True,CBORTag(24,b'')]) *)
Definition sample : cbor :=
  CArr [CUint 1; CArr []; CMap [(CUint 1, CBstr [97; 98])]; CNint 0; CTstr [195; 169];
        CSimple 22; CSimple 21; CTag 24 (CBstr [])].

Example enc_sample :
  encode sample = [136; 1; 128; 161; 1; 66; 97; 98; 32; 98; 195; 169; 246; 245; 216; 24; 64].
Proof. vm_compute. reflexivity. Qed.

Example enc_indef : encode_indef_arr [CUint 1; CArr []] = [159; 1; 128; 255].
Proof. vm_compute. reflexivity. Qed.

(** Decoder behaviour on inputs that are not in the image of [encode]. *)
Example dec_nonshortest : decode 3 [24; 1; 7] = Some (CUint 1, [7]). Proof. vm_compute. reflexivity. Qed.
Example dec_strict_nonshortest : decode_strict 3 [24; 1; 7] = None. Proof. vm_compute. reflexivity. Qed.
Example dec_indef_nested : decode 3 [159; 1; 159; 255; 130; 2; 3; 255; 9] = Some (CArr [CUint 1; CArr []; CArr [CUint 2; CUint 3]], [9]).
Proof. vm_compute. reflexivity. Qed.
Example dec_strict_indef : decode_strict 3 [159; 1; 255] = None. Proof. vm_compute. reflexivity. Qed.
Example dec_indef_bstr_rejected : decode 3 [95; 65; 1; 255] = None. Proof. vm_compute. reflexivity. Qed.
Example dec_indef_map_rejected : decode 3 [191; 1; 2; 255] = None. Proof. vm_compute. reflexivity. Qed.
Example dec_break_rejected : decode 3 [255] = None. Proof. vm_compute. reflexivity. Qed.
Example dec_float_rejected : decode 3 [249; 0; 0] = None. Proof. vm_compute. reflexivity. Qed.
Example dec_simple2_rejected : decode 3 [248; 32] = None. Proof. vm_compute. reflexivity. Qed.
Example dec_truncated : decode 3 [130; 1] = None. Proof. vm_compute. reflexivity. Qed.
Example dec_huge_count : decode 3 [155; 255; 255; 255; 255; 255; 255; 255; 255; 1] = None. Proof. vm_compute. reflexivity. Qed.
Example dec_huge_len : decode 3 [91; 255; 255; 255; 255; 255; 255; 255; 255; 1] = None. Proof. vm_compute. reflexivity. Qed.
Example dec_not_octet : decode 3 [256] = None. Proof. vm_compute. reflexivity. Qed.
Example dec_no_fuel : decode 1 [129; 1] = None. Proof. vm_compute. reflexivity. Qed.
Example dec_all_trailing : decode_all 3 [1; 2] = None. Proof. vm_compute. reflexivity. Qed.
Example dec_all_ok : decode_all 3 [130; 1; 2] = Some (CArr [CUint 1; CUint 2]). Proof. vm_compute. reflexivity. Qed.
Example dec_seq_ok : decode_seq 3 [1; 128; 246] = Some [CUint 1; CArr []; CSimple 22]. Proof. vm_compute. reflexivity. Qed.

(** * Head sizes *)

Ltac ltb_cases :=
  repeat match goal with
         | |- context [N.ltb ?a ?b] => destruct (N.ltb_spec a b)
         end.

Theorem head_length m n : length (head m n) = head_len n.
Proof. unfold head, head_len. ltb_cases; cbn [length]; rewrite ?be_length; reflexivity. Qed.
Print Assumptions head_length.

Theorem head_len_mono a b : a <= b -> (head_len a <= head_len b)%nat.
Proof. intros Hab. unfold head_len. ltb_cases; lia. Qed.
Print Assumptions head_len_mono.

(** the form used by the fragment-size arguments *)
Theorem head_len_bstr_bound len n : len <= n -> (head_len len <= head_len n)%nat.
Proof. apply head_len_mono. Qed.
Print Assumptions head_len_bstr_bound.

Theorem head_len_bounds n : (1 <= head_len n <= 9)%nat.
Proof. unfold head_len. ltb_cases; lia. Qed.
Print Assumptions head_len_bounds.

Lemma head_len_small n : n < 24 -> head_len n = 1%nat.
Proof. intros Hn. unfold head_len. ltb_cases; lia. Qed.

Theorem encode_uint_length n : length (encode (CUint n)) = head_len n.
Proof. cbn [encode]. apply head_length. Qed.
Print Assumptions encode_uint_length.

Theorem encode_nint_length n : length (encode (CNint n)) = head_len n.
Proof. cbn [encode]. apply head_length. Qed.
Print Assumptions encode_nint_length.

Theorem encode_bstr_length bs :
  length (encode (CBstr bs)) = (head_len (N.of_nat (length bs)) + length bs)%nat.
Proof. cbn [encode]. rewrite app_length, head_length. reflexivity. Qed.
Print Assumptions encode_bstr_length.

Theorem encode_tstr_length bs :
  length (encode (CTstr bs)) = (head_len (N.of_nat (length bs)) + length bs)%nat.
Proof. cbn [encode]. rewrite app_length, head_length. reflexivity. Qed.
Print Assumptions encode_tstr_length.

Theorem encode_arr_length l :
  length (encode (CArr l)) = (head_len (N.of_nat (length l)) + length (encode_seq l))%nat.
Proof. rewrite encode_CArr, app_length, head_length. reflexivity. Qed.
Print Assumptions encode_arr_length.

Theorem encode_map_length kvs :
  length (encode (CMap kvs)) = (head_len (N.of_nat (length kvs)) + length (encode_pairs kvs))%nat.
Proof. rewrite encode_CMap, app_length, head_length. reflexivity. Qed.
Print Assumptions encode_map_length.

Theorem encode_tag_length t v : length (encode (CTag t v)) = (head_len t + length (encode v))%nat.
Proof. cbn [encode]. rewrite app_length, head_length. reflexivity. Qed.
Print Assumptions encode_tag_length.

Theorem encode_seq_length_cons x l :
  length (encode_seq (x :: l)) = (length (encode x) + length (encode_seq l))%nat.
Proof. rewrite encode_seq_cons, app_length. reflexivity. Qed.
Print Assumptions encode_seq_length_cons.

Theorem encode_indef_arr_length l : length (encode_indef_arr l) = (2 + length (encode_seq l))%nat.
Proof. unfold encode_indef_arr. cbn [length]. rewrite app_length. cbn [length]. lia. Qed.
Print Assumptions encode_indef_arr_length.

(** * The first octet *)

Definition head_info (n : N) : N :=
  if n <? 24 then n else if n <? 256 then 24 else if n <? 65536 then 25
  else if n <? 4294967296 then 26 else 27.

Definition head_arg (n : N) : bytes :=
  if n <? 24 then [] else if n <? 256 then be 1 n else if n <? 65536 then be 2 n
  else if n <? 4294967296 then be 4 n else be 8 n.

Lemma head_eq m n : head m n = (m * 32 + head_info n) :: head_arg n.
Proof. unfold head, head_info, head_arg. ltb_cases; reflexivity. Qed.

Lemma head_info_le n : head_info n <= 27.
Proof. unfold head_info. ltb_cases; lia. Qed.

Lemma head_arg_wf n : wf_bytes (head_arg n).
Proof. unfold head_arg. ltb_cases; try apply be_wf. constructor. Qed.

Lemma head_wf m n : m < 8 -> wf_bytes (head m n).
Proof.
  intros Hm. rewrite head_eq. constructor; [|apply head_arg_wf].
  unfold wf_byte. pose proof (head_info_le n). lia.
Qed.

Lemma hd_error_app {A} (l l' : list A) b : hd_error l = Some b -> hd_error (l ++ l') = Some b.
Proof. destruct l; cbn; [discriminate|tauto]. Qed.

(** Every encoding is non-empty and starts with an octet below 252; in
    particular never with the break octet 0xff. *)
Theorem encode_hd v : exists b, hd_error (encode v) = Some b /\ b < 252.
Proof.
  assert (H : forall m n X, m < 8 -> exists b, hd_error (head m n ++ X) = Some b /\ b < 252).
  { intros m n X Hm. rewrite head_eq. cbn [app hd_error]. eexists. split; [reflexivity|].
    pose proof (head_info_le n). lia. }
  destruct v; cbn [encode]; try (apply H; lia);
    try (rewrite <- (app_nil_r (head _ _)); apply H; lia).
Qed.
Print Assumptions encode_hd.

Theorem encode_nonempty v : encode v <> [].
Proof. destruct (encode_hd v) as (b & Hb & _). intros E. rewrite E in Hb. discriminate. Qed.
Print Assumptions encode_nonempty.

Theorem encode_not_break v : hd_error (encode v) <> Some 255.
Proof. destruct (encode_hd v) as (b & Hb & Hlt). rewrite Hb. intros E. injection E as E. lia. Qed.
Print Assumptions encode_not_break.

Lemma encode_length_pos v : (1 <= length (encode v))%nat.
Proof. pose proof (encode_nonempty v). destruct (encode v); [congruence|cbn [length]; lia]. Qed.

Lemma encode_seq_length_ge l : (length l <= length (encode_seq l))%nat.
Proof.
  induction l as [|x l IH]; [cbn; lia|].
  rewrite encode_seq_cons, app_length. cbn [length]. pose proof (encode_length_pos x). lia.
Qed.

Lemma encode_pairs_length_ge kvs : (2 * length kvs <= length (encode_pairs kvs))%nat.
Proof.
  induction kvs as [|[k w] l IH]; [cbn; lia|].
  rewrite encode_pairs_cons, !app_length. cbn [length].
  pose proof (encode_length_pos k). pose proof (encode_length_pos w). lia.
Qed.

(** * Decoding a head *)

Lemma decode_head_short m i tl :
  m < 8 -> i < 24 -> decode_head ((m * 32 + i) :: tl) = Some (m, i, 1%nat, tl).
Proof.
  intros Hm Hi. unfold decode_head. cbv zeta.
  assert (E1 : (256 <=? m * 32 + i) = false) by lia.
  assert (E2 : (m * 32 + i) / 32 = m) by lia.
  assert (E3 : (m * 32 + i) mod 32 = i) by lia.
  assert (E4 : (i <? 24) = true) by lia.
  rewrite E1, E2, E3, E4. reflexivity.
Qed.

Lemma info_width_range i k : info_width i = Some k -> 24 <= i <= 27.
Proof.
  unfold info_width.
  destruct (N.eqb_spec i 24); [lia|]. destruct (N.eqb_spec i 25); [lia|].
  destruct (N.eqb_spec i 26); [lia|]. destruct (N.eqb_spec i 27); [lia|]. discriminate.
Qed.

Lemma decode_head_long m i k n rest :
  m < 8 -> info_width i = Some k -> n < 256 ^ N.of_nat k ->
  decode_head ((m * 32 + i) :: be k n ++ rest) = Some (m, n, S k, rest).
Proof.
  intros Hm Hi Hn. pose proof (info_width_range i k Hi) as Hr.
  unfold decode_head. cbv zeta.
  assert (E1 : (256 <=? m * 32 + i) = false) by lia.
  assert (E2 : (m * 32 + i) / 32 = m) by lia.
  assert (E3 : (m * 32 + i) mod 32 = i) by lia.
  assert (E4 : (i <? 24) = false) by lia.
  rewrite E1, E2, E3, E4, Hi, (take_be_app k n rest Hn). reflexivity.
Qed.

Lemma decode_head_head m n rest :
  m < 8 -> n < two64 -> decode_head (head m n ++ rest) = Some (m, n, head_len n, rest).
Proof.
  intros Hm Hn. unfold head, head_len. ltb_cases; cbn [app].
  - apply decode_head_short; assumption.
  - apply (decode_head_long m 24 1); [assumption|reflexivity|]. change (256 ^ N.of_nat 1) with 256. assumption.
  - apply (decode_head_long m 25 2); [assumption|reflexivity|]. change (256 ^ N.of_nat 2) with 65536. assumption.
  - apply (decode_head_long m 26 4); [assumption|reflexivity|]. change (256 ^ N.of_nat 4) with 4294967296. assumption.
  - apply (decode_head_long m 27 8); [assumption|reflexivity|]. change (256 ^ N.of_nat 8) with two64. assumption.
Qed.

Lemma indef_start_head m n rest : indef_start (head m n ++ rest) = None.
Proof.
  rewrite head_eq. cbn [app indef_start]. pose proof (head_info_le n) as Hi.
  destruct (N.eqb_spec (m * 32 + head_info n) 159) as [E|E]; [lia|reflexivity].
Qed.

Lemma head_okb_head strict m n rest : head_okb strict (head m n ++ rest) m n (head_len n) = true.
Proof.
  unfold head_okb. destruct strict; [|reflexivity].
  rewrite <- (head_length m n), firstn_app, Nat.sub_diag, firstn_all. cbn [firstn].
  rewrite app_nil_r. apply bytes_eqb_eq. reflexivity.
Qed.

Lemma step_head dec strict m n rest :
  m < 8 -> n < two64 -> step dec strict (head m n ++ rest) = dispatch dec m n (head_len n) rest.
Proof.
  intros Hm Hn. unfold step.
  replace (if strict then None else indef_start (head m n ++ rest)) with (@None bytes)
    by (destruct strict; [reflexivity | symmetry; apply indef_start_head]).
  rewrite (decode_head_head m n rest Hm Hn), head_okb_head. reflexivity.
Qed.

Lemma take_n_app bs rest : take_n (N.of_nat (length bs)) (bs ++ rest) = Some (bs, rest).
Proof.
  unfold take_n. rewrite app_length.
  destruct (N.ltb_spec (N.of_nat (length bs + length rest)) (N.of_nat (length bs))) as [H|H]; [lia|].
  rewrite Nnat.Nat2N.id, firstn_app, skipn_app, Nat.sub_diag, firstn_all, skipn_all.
  cbn [firstn skipn app]. rewrite app_nil_r. reflexivity.
Qed.

(** * Item loops, generically in the nested decoder *)

Section Loops.
  Variable dec : bytes -> option (cbor * bytes).

  Lemma dec_items_encode l :
    (forall x, In x l -> forall rest, dec (encode x ++ rest) = Some (x, rest)) ->
    forall rest, dec_items dec (length l) (encode_seq l ++ rest) = Some (l, rest).
  Proof.
    induction l as [|x l IH]; intros Hdec rest; cbn [length dec_items].
    - reflexivity.
    - rewrite encode_seq_cons, <- app_assoc, (Hdec x (or_introl eq_refl)).
      rewrite IH; [reflexivity|]. intros y Hy. apply Hdec. right. exact Hy.
  Qed.

  Lemma dec_pairs_encode kvs :
    (forall k w, In (k, w) kvs -> forall rest, dec (encode k ++ rest) = Some (k, rest)) ->
    (forall k w, In (k, w) kvs -> forall rest, dec (encode w ++ rest) = Some (w, rest)) ->
    forall rest, dec_pairs dec (length kvs) (encode_pairs kvs ++ rest) = Some (kvs, rest).
  Proof.
    induction kvs as [|[k w] l IH]; intros Hk Hw rest; cbn [length dec_pairs].
    - reflexivity.
    - rewrite encode_pairs_cons, <- !app_assoc.
      rewrite (Hk k w (or_introl eq_refl)), (Hw k w (or_introl eq_refl)).
      rewrite IH; [reflexivity| |].
      + intros k' w' Hin. apply (Hk k' w'). right. exact Hin.
      + intros k' w' Hin. apply (Hw k' w'). right. exact Hin.
  Qed.

  Lemma dec_until_break_step cnt bs b :
    hd_error bs = Some b -> b <> 255 ->
    dec_until_break dec (S cnt) bs =
    match dec bs with
    | None => None
    | Some (v, rest) =>
        match dec_until_break dec cnt rest with
        | None => None
        | Some (l, rest') => Some (v :: l, rest')
        end
    end.
  Proof.
    intros Hb Hne. destruct bs as [|b' tl]; [discriminate|]. cbn [hd_error] in Hb.
    injection Hb as ->. cbn [dec_until_break].
    destruct (N.eqb_spec b 255) as [E|E]; [contradiction|reflexivity].
  Qed.

  Lemma dec_until_break_encode l :
    (forall x, In x l -> forall rest, dec (encode x ++ rest) = Some (x, rest)) ->
    forall cnt rest, (length l < cnt)%nat ->
    dec_until_break dec cnt (encode_seq l ++ 255 :: rest) = Some (l, rest).
  Proof.
    induction l as [|x l IH]; intros Hdec cnt rest Hcnt; (destruct cnt as [|cnt]; [cbn [length] in Hcnt; lia|]).
    - cbn [encode_seq map concat app dec_until_break]. rewrite N.eqb_refl. reflexivity.
    - cbn [length] in Hcnt. rewrite encode_seq_cons, <- app_assoc.
      destruct (encode_hd x) as (b & Hb & Hlt).
      rewrite (dec_until_break_step cnt _ b); [|apply hd_error_app, Hb|lia].
      rewrite (Hdec x (or_introl eq_refl)).
      rewrite IH; [reflexivity| |lia]. intros y Hy. apply Hdec. right. exact Hy.
  Qed.

  Lemma dec_seq_encode l :
    (forall x, In x l -> forall rest, dec (encode x ++ rest) = Some (x, rest)) ->
    forall cnt, (length l <= cnt)%nat -> dec_seq dec cnt (encode_seq l) = Some l.
  Proof.
    induction l as [|x l IH]; intros Hdec cnt Hcnt.
    - destruct cnt; reflexivity.
    - destruct cnt as [|cnt]; [cbn [length] in Hcnt; lia|]. cbn [length] in Hcnt.
      rewrite encode_seq_cons.
      destruct (encode x ++ encode_seq l) as [|b tl] eqn:E.
      { apply app_eq_nil in E as [E _]. destruct (encode_nonempty x E). }
      cbn [dec_seq]. rewrite <- E, (Hdec x (or_introl eq_refl)).
      rewrite IH; [reflexivity| |lia]. intros y Hy. apply Hdec. right. exact Hy.
  Qed.

  (** One step inverts one constructor, given that [dec] inverts the children. *)
  Lemma step_encode strict v :
    wf v ->
    (forall c, (depth c < depth v)%nat -> wf c -> forall rest, dec (encode c ++ rest) = Some (c, rest)) ->
    forall rest, step dec strict (encode v ++ rest) = Some (v, rest).
  Proof.
    intros Hwf Hdec rest.
    destruct v as [n|n|bs|bs|l|kvs|t w|n].
    - cbn [encode wf] in *. rewrite step_head by lia. reflexivity.
    - cbn [encode wf] in *. rewrite step_head by lia. reflexivity.
    - cbn [encode wf] in *. destruct Hwf as [Hl Hb].
      rewrite <- app_assoc, step_head by lia. unfold dispatch. rewrite take_n_app. reflexivity.
    - cbn [encode wf] in *. destruct Hwf as [Hl Hb].
      rewrite <- app_assoc, step_head by lia. unfold dispatch. rewrite take_n_app. reflexivity.
    - apply wf_CArr in Hwf as [Hl Hall]. rewrite Forall_forall in Hall.
      rewrite encode_CArr, <- app_assoc, step_head by lia. unfold dispatch.
      pose proof (encode_seq_length_ge l) as Hge.
      destruct (N.ltb_spec (N.of_nat (length (encode_seq l ++ rest))) (N.of_nat (length l))) as [H|H];
        [rewrite app_length in H; lia|].
      rewrite Nnat.Nat2N.id, dec_items_encode; [reflexivity|].
      intros x Hx rest'. apply Hdec; [apply depth_CArr_In, Hx | apply Hall, Hx].
    - apply wf_CMap in Hwf as [Hl Hall]. rewrite Forall_forall in Hall.
      rewrite encode_CMap, <- app_assoc, step_head by lia. unfold dispatch.
      pose proof (encode_pairs_length_ge kvs) as Hge.
      destruct (N.ltb_spec (N.of_nat (length (encode_pairs kvs ++ rest))) (2 * N.of_nat (length kvs))) as [H|H];
        [rewrite app_length in H; lia|].
      rewrite Nnat.Nat2N.id, dec_pairs_encode; [reflexivity| |].
      + intros k w' Hin rest'. apply Hdec; [apply (depth_CMap_In kvs k w' Hin) | apply (Hall (k, w') Hin)].
      + intros k w' Hin rest'. apply Hdec; [apply (depth_CMap_In kvs k w' Hin) | apply (Hall (k, w') Hin)].
    - cbn [encode] in *. apply wf_CTag in Hwf as [Ht Hw].
      rewrite <- app_assoc, step_head by lia. unfold dispatch.
      rewrite Hdec; [reflexivity | cbn [depth]; lia | exact Hw].
    - cbn [encode wf] in *. rewrite step_head by lia. unfold dispatch.
      rewrite (head_len_small n Hwf). reflexivity.
  Qed.

  Lemma step_indef strict tl :
    strict = false ->
    step dec strict (159 :: tl) =
    match dec_until_break dec (length tl) tl with
    | None => None
    | Some (l, rest) => Some (CArr l, rest)
    end.
  Proof. intros ->. reflexivity. Qed.
End Loops.

(** * Main theorem: decoding inverts encoding, whatever follows *)

Theorem decode_gen_encode strict : forall fuel v rest,
  wf v -> (depth v <= fuel)%nat -> decode_gen strict fuel (encode v ++ rest) = Some (v, rest).
Proof.
  induction fuel as [|f IH]; intros v rest Hwf Hd.
  - pose proof (depth_pos v). lia.
  - rewrite decode_gen_S. apply step_encode; [exact Hwf|].
    intros c Hc Hwfc rest'. apply IH; [exact Hwfc|lia].
Qed.
Print Assumptions decode_gen_encode.

(** fuel = nesting depth suffices *)
Theorem decode_encode_depth v rest fuel :
  wf v -> (depth v <= fuel)%nat -> decode fuel (encode v ++ rest) = Some (v, rest).
Proof. intros Hwf Hd. apply decode_gen_encode; assumption. Qed.
Print Assumptions decode_encode_depth.

Theorem decode_encode v rest fuel :
  wf v -> (size v <= fuel)%nat -> decode fuel (encode v ++ rest) = Some (v, rest).
Proof. intros Hwf Hs. apply decode_encode_depth; [exact Hwf|]. pose proof (depth_le_size v). lia. Qed.
Print Assumptions decode_encode.

Theorem decode_strict_encode v rest fuel :
  wf v -> (depth v <= fuel)%nat -> decode_strict fuel (encode v ++ rest) = Some (v, rest).
Proof. intros Hwf Hd. apply decode_gen_encode; assumption. Qed.
Print Assumptions decode_strict_encode.

Theorem decode_all_encode v fuel : wf v -> (depth v <= fuel)%nat -> decode_all fuel (encode v) = Some v.
Proof.
  intros Hwf Hd. unfold decode_all. rewrite <- (app_nil_r (encode v)).
  rewrite decode_encode_depth by assumption. reflexivity.
Qed.
Print Assumptions decode_all_encode.

(** non-vacuity of the hypotheses *)
Example sample_wf : wf sample /\ (depth sample <= 3)%nat /\ (size sample <= 12)%nat.
Proof. split; [apply wfb_spec; vm_compute; reflexivity | vm_compute; lia]. Qed.

(** * Injectivity of the encoder *)

Theorem encode_inj a b : wf a -> wf b -> encode a = encode b -> a = b.
Proof.
  intros Ha Hb E.
  pose proof (decode_encode_depth a [] (Nat.max (depth a) (depth b)) Ha (Nat.le_max_l _ _)) as Da.
  pose proof (decode_encode_depth b [] (Nat.max (depth a) (depth b)) Hb (Nat.le_max_r _ _)) as Db.
  rewrite E, Db in Da. injection Da as ->. reflexivity.
Qed.
Print Assumptions encode_inj.

(** prefix-freeness stated directly *)
Theorem encode_prefix_free a b ra rb :
  wf a -> wf b -> encode a ++ ra = encode b ++ rb -> a = b /\ ra = rb.
Proof.
  intros Ha Hb E.
  pose proof (decode_encode_depth a ra (Nat.max (depth a) (depth b)) Ha (Nat.le_max_l _ _)) as Da.
  pose proof (decode_encode_depth b rb (Nat.max (depth a) (depth b)) Hb (Nat.le_max_r _ _)) as Db.
  rewrite E, Db in Da. injection Da as -> ->. split; reflexivity.
Qed.
Print Assumptions encode_prefix_free.

(** * CBOR sequences and indefinite-length arrays *)

Theorem decode_seq_encode_seq l fuel :
  Forall wf l -> Forall (fun v => (depth v <= fuel)%nat) l ->
  decode_seq fuel (encode_seq l) = Some l.
Proof.
  intros Hwf Hd. rewrite Forall_forall in Hwf, Hd. unfold decode_seq.
  apply dec_seq_encode; [|apply encode_seq_length_ge].
  intros x Hx rest. apply decode_encode_depth; [apply Hwf, Hx | apply Hd, Hx].
Qed.
Print Assumptions decode_seq_encode_seq.

Theorem decode_seq_strict_encode_seq l fuel :
  Forall wf l -> Forall (fun v => (depth v <= fuel)%nat) l ->
  decode_seq_strict fuel (encode_seq l) = Some l.
Proof.
  intros Hwf Hd. rewrite Forall_forall in Hwf, Hd. unfold decode_seq_strict.
  apply dec_seq_encode; [|apply encode_seq_length_ge].
  intros x Hx rest. apply decode_strict_encode; [apply Hwf, Hx | apply Hd, Hx].
Qed.
Print Assumptions decode_seq_strict_encode_seq.

(** No bound on the number of items is needed here: the count is not
    transmitted. *)
Theorem decode_indef l rest fuel :
  Forall wf l -> Forall (fun v => (depth v <= fuel)%nat) l ->
  decode (S fuel) (encode_indef_arr l ++ rest) = Some (CArr l, rest).
Proof.
  intros Hwf Hd. rewrite Forall_forall in Hwf, Hd.
  unfold decode. rewrite decode_gen_S. unfold encode_indef_arr.
  cbn [app]. rewrite <- app_assoc. cbn [app].
  rewrite step_indef by reflexivity.
  rewrite dec_until_break_encode; [reflexivity| |].
  - intros x Hx rest'. apply decode_gen_encode; [apply Hwf, Hx | apply Hd, Hx].
  - rewrite app_length. cbn [length]. pose proof (encode_seq_length_ge l). lia.
Qed.
Print Assumptions decode_indef.

Lemma depth_CArr_le l fuel : (depth (CArr l) <= S fuel)%nat <-> Forall (fun v => (depth v <= fuel)%nat) l.
Proof.
  cbn [depth]. induction l as [|x l IH]; cbn [fold_right].
  - split; [constructor|lia].
  - split.
    + intros H. constructor; [lia|]. apply IH. lia.
    + intros H. inversion H as [|? ? Hx Hl]; subst. apply IH in Hl. lia.
Qed.

(** the same with the fuel expressed through the decoded value *)
Theorem decode_indef_depth l rest fuel :
  Forall wf l -> (depth (CArr l) <= fuel)%nat ->
  decode fuel (encode_indef_arr l ++ rest) = Some (CArr l, rest).
Proof.
  intros Hwf Hd. destruct fuel as [|f]; [cbn [depth] in Hd; lia|].
  apply decode_indef; [exact Hwf|]. apply depth_CArr_le. exact Hd.
Qed.
Print Assumptions decode_indef_depth.

Example decode_indef_nonvacuous :
  Forall wf [sample; CUint 7] /\ (depth (CArr [sample; CUint 7]) <= 4)%nat.
Proof.
  split; [|vm_compute; lia].
  repeat constructor; try (apply wfb_spec; vm_compute; reflexivity).
Qed.

(** * The encoder produces octets *)

Theorem encode_wf v : wf v -> wf_bytes (encode v).
Proof.
  induction v as [n|n|bs|bs|l IH|kvs IH|t w IH|n] using cbor_ind'; intros Hwf.
  - cbn [encode]. apply head_wf. lia.
  - cbn [encode]. apply head_wf. lia.
  - cbn [encode wf] in *. apply wf_bytes_app. split; [apply head_wf; lia | tauto].
  - cbn [encode wf] in *. apply wf_bytes_app. split; [apply head_wf; lia | tauto].
  - apply wf_CArr in Hwf as [_ Hall]. rewrite encode_CArr. apply wf_bytes_app.
    split; [apply head_wf; lia|].
    induction IH as [|x l Hx _ IHl]; [constructor|].
    inversion Hall as [|? ? Hwx Hwl]; subst.
    rewrite encode_seq_cons. apply wf_bytes_app. split; [apply Hx, Hwx | apply IHl, Hwl].
  - apply wf_CMap in Hwf as [_ Hall]. rewrite encode_CMap. apply wf_bytes_app.
    split; [apply head_wf; lia|].
    induction IH as [|[k w] l [Hk Hw] _ IHl]; [constructor|].
    inversion Hall as [|? ? [Hwk Hww] Hwl]; subst. cbn [fst snd] in *.
    rewrite encode_pairs_cons. apply wf_bytes_app. split; [apply Hk, Hwk|].
    apply wf_bytes_app. split; [apply Hw, Hww | apply IHl, Hwl].
  - cbn [encode]. apply wf_CTag in Hwf as [_ Hw]. apply wf_bytes_app.
    split; [apply head_wf; lia | apply IH, Hw].
  - cbn [encode]. apply head_wf. lia.
Qed.
Print Assumptions encode_wf.

Theorem encode_seq_wf l : Forall wf l -> wf_bytes (encode_seq l).
Proof.
  induction 1 as [|x l Hx _ IH]; [constructor|].
  rewrite encode_seq_cons. apply wf_bytes_app. split; [apply encode_wf, Hx | exact IH].
Qed.
Print Assumptions encode_seq_wf.

Theorem encode_indef_arr_wf l : Forall wf l -> wf_bytes (encode_indef_arr l).
Proof.
  intros H. unfold encode_indef_arr. constructor; [unfold wf_byte; lia|].
  apply wf_bytes_app. split; [apply encode_seq_wf, H|]. constructor; [unfold wf_byte; lia|constructor].
Qed.
Print Assumptions encode_indef_arr_wf.

(** * [length (encode v)] is itself a sufficient amount of fuel *)

Theorem size_le_length v : (size v <= length (encode v))%nat.
Proof.
  induction v as [n|n|bs|bs|l IH|kvs IH|t w IH|n] using cbor_ind'.
  - rewrite encode_uint_length. pose proof (head_len_bounds n). cbn [size]. lia.
  - rewrite encode_nint_length. pose proof (head_len_bounds n). cbn [size]. lia.
  - rewrite encode_bstr_length. pose proof (head_len_bounds (N.of_nat (length bs))). cbn [size]. lia.
  - rewrite encode_tstr_length. pose proof (head_len_bounds (N.of_nat (length bs))). cbn [size]. lia.
  - rewrite encode_arr_length. cbn [size].
    assert (H : (fold_right (fun x acc => (size x + acc)%nat) O l <= length (encode_seq l))%nat).
    { induction IH as [|x l Hx _ IHl]; [cbn; lia|].
      cbn [fold_right]. rewrite encode_seq_length_cons. lia. }
    pose proof (head_len_bounds (N.of_nat (length l))) as Hh. lia.
  - rewrite encode_map_length. cbn [size].
    assert (H : (fold_right (fun kv acc => (size (fst kv) + size (snd kv) + acc)%nat) O kvs
                 <= length (encode_pairs kvs))%nat).
    { induction IH as [|[k w] l [Hk Hw] _ IHl]; [cbn; lia|].
      cbn [fold_right fst snd] in *. rewrite encode_pairs_cons, !app_length. lia. }
    pose proof (head_len_bounds (N.of_nat (length kvs))) as Hh. lia.
  - rewrite encode_tag_length. pose proof (head_len_bounds t). cbn [size]. lia.
  - cbn [encode size]. rewrite head_length. pose proof (head_len_bounds n). lia.
Qed.
Print Assumptions size_le_length.

Theorem decode_encode_length v rest :
  wf v -> decode (length (encode v)) (encode v ++ rest) = Some (v, rest).
Proof. intros Hwf. apply decode_encode; [exact Hwf | apply size_le_length]. Qed.
Print Assumptions decode_encode_length.

(** * The strict decoder accepts only what the encoder emits *)

Lemma decode_head_inv bs m n c rest :
  decode_head bs = Some (m, n, c, rest) -> rest = skipn c bs /\ m < 8.
Proof.
  destruct bs as [|b tl]; [discriminate|]. unfold decode_head. cbv zeta.
  destruct (N.leb_spec 256 b) as [Hb|Hb]; [discriminate|].
  destruct (b mod 32 <? 24).
  { intros H. inversion H; subst. split; [reflexivity|lia]. }
  destruct (info_width (b mod 32)) as [k|]; [|discriminate].
  unfold take_be. destruct (length tl <? k)%nat; [discriminate|].
  intros H. inversion H; subst. split; [reflexivity|lia].
Qed.

Lemma head_okb_true bs m n c rest :
  decode_head bs = Some (m, n, c, rest) -> head_okb true bs m n c = true -> bs = head m n ++ rest.
Proof.
  intros Hd Hok. apply decode_head_inv in Hd as [-> _]. unfold head_okb in Hok.
  apply bytes_eqb_eq in Hok. rewrite <- Hok. symmetry. apply firstn_skipn.
Qed.

Lemma take_n_inv n bs s rest :
  take_n n bs = Some (s, rest) -> bs = s ++ rest /\ N.of_nat (length s) = n.
Proof.
  unfold take_n. destruct (N.ltb_spec (N.of_nat (length bs)) n) as [H|H]; [discriminate|].
  intros E. inversion E; subst. split; [symmetry; apply firstn_skipn|].
  rewrite firstn_length_le by lia. lia.
Qed.

Lemma major_cases m : m < 8 -> m = 0 \/ m = 1 \/ m = 2 \/ m = 3 \/ m = 4 \/ m = 5 \/ m = 6 \/ m = 7.
Proof. lia. Qed.

Section StrictInv.
  Variable dec : bytes -> option (cbor * bytes).
  Hypothesis Hdec : forall bs v rest, dec bs = Some (v, rest) -> bs = encode v ++ rest.

  Lemma dec_items_inv : forall n bs l rest,
    dec_items dec n bs = Some (l, rest) -> bs = encode_seq l ++ rest /\ length l = n.
  Proof.
    induction n as [|n IH]; intros bs l rest H; cbn [dec_items] in H.
    - inversion H; subst. split; reflexivity.
    - destruct (dec bs) as [[v r]|] eqn:E; [|discriminate].
      destruct (dec_items dec n r) as [[l' r']|] eqn:E2; [|discriminate].
      inversion H; subst. apply Hdec in E. apply IH in E2 as [E2 El]. subst bs r.
      rewrite encode_seq_cons, <- app_assoc. cbn [length]. split; [reflexivity|lia].
  Qed.

  Lemma dec_pairs_inv : forall n bs l rest,
    dec_pairs dec n bs = Some (l, rest) -> bs = encode_pairs l ++ rest /\ length l = n.
  Proof.
    induction n as [|n IH]; intros bs l rest H; cbn [dec_pairs] in H.
    - inversion H; subst. split; reflexivity.
    - destruct (dec bs) as [[k r]|] eqn:E; [|discriminate].
      destruct (dec r) as [[w r1]|] eqn:E1; [|discriminate].
      destruct (dec_pairs dec n r1) as [[l' r']|] eqn:E2; [|discriminate].
      inversion H; subst. apply Hdec in E. apply Hdec in E1. apply IH in E2 as [E2 El]. subst bs r r1.
      rewrite encode_pairs_cons, <- !app_assoc. cbn [length]. split; [reflexivity|lia].
  Qed.

  Lemma dec_seq_inv : forall cnt bs l, dec_seq dec cnt bs = Some l -> bs = encode_seq l.
  Proof.
    induction cnt as [|cnt IH]; intros bs l H.
    - destruct bs; cbn [dec_seq] in H; [|discriminate]. inversion H; subst. reflexivity.
    - destruct bs as [|b tl]; cbn [dec_seq] in H; [inversion H; subst; reflexivity|].
      destruct (dec (b :: tl)) as [[v r]|] eqn:E; [|discriminate].
      destruct (dec_seq dec cnt r) as [l'|] eqn:E2; [|discriminate].
      inversion H; subst. apply Hdec in E. apply IH in E2. subst r. rewrite E, encode_seq_cons. reflexivity.
  Qed.

  Lemma step_strict_inv bs v rest : step dec true bs = Some (v, rest) -> bs = encode v ++ rest.
  Proof.
    unfold step.
    destruct (decode_head bs) as [[[[m n] c] r]|] eqn:Eh; [|discriminate].
    destruct (head_okb true bs m n c) eqn:Hok; [|discriminate].
    pose proof (head_okb_true bs m n c r Eh Hok) as Ebs.
    apply decode_head_inv in Eh as [_ Hm].
    intros H. rewrite Ebs. clear Ebs Hok.
    destruct (major_cases m Hm) as [->|[->|[->|[->|[->|[->|[->| ->]]]]]]]; unfold dispatch in H.
    - inversion H; subst. reflexivity.
    - inversion H; subst. reflexivity.
    - destruct (take_n n r) as [[s r']|] eqn:T; [|discriminate]. inversion H; subst.
      apply take_n_inv in T as [-> <-]. cbn [encode]. rewrite <- app_assoc. reflexivity.
    - destruct (take_n n r) as [[s r']|] eqn:T; [|discriminate]. inversion H; subst.
      apply take_n_inv in T as [-> <-]. cbn [encode]. rewrite <- app_assoc. reflexivity.
    - destruct (N.of_nat (length r) <? n); [discriminate|].
      destruct (dec_items dec (N.to_nat n) r) as [[l r']|] eqn:T; [|discriminate]. inversion H; subst.
      apply dec_items_inv in T as [-> El]. rewrite encode_CArr, <- app_assoc, El, N2Nat.id. reflexivity.
    - destruct (N.of_nat (length r) <? 2 * n); [discriminate|].
      destruct (dec_pairs dec (N.to_nat n) r) as [[l r']|] eqn:T; [|discriminate]. inversion H; subst.
      apply dec_pairs_inv in T as [-> El]. rewrite encode_CMap, <- app_assoc, El, N2Nat.id. reflexivity.
    - destruct (dec r) as [[w r']|] eqn:T; [|discriminate]. inversion H; subst.
      apply Hdec in T. subst r. cbn [encode]. rewrite <- app_assoc. reflexivity.
    - destruct (c =? 1)%nat; [|discriminate]. inversion H; subst. reflexivity.
  Qed.
End StrictInv.

(** Re-encoding an item accepted by the strict decoder reproduces the octets
    that were consumed, exactly. *)
Theorem decode_canonical_reencode : forall fuel bs v rest,
  decode_strict fuel bs = Some (v, rest) -> bs = encode v ++ rest.
Proof.
  unfold decode_strict. induction fuel as [|f IH]; intros bs v rest H; [discriminate|].
  rewrite decode_gen_S in H. apply (step_strict_inv (decode_gen true f) IH). exact H.
Qed.
Print Assumptions decode_canonical_reencode.

Theorem decode_seq_strict_reencode fuel bs l : decode_seq_strict fuel bs = Some l -> bs = encode_seq l.
Proof. unfold decode_seq_strict. apply dec_seq_inv. apply decode_canonical_reencode. Qed.
Print Assumptions decode_seq_strict_reencode.

(** For well-formed values the strict decoder accepts exactly the encoder's image. *)
Theorem decode_strict_iff v bs rest :
  wf v -> ((exists fuel, decode_strict fuel bs = Some (v, rest)) <-> bs = encode v ++ rest).
Proof.
  intros Hwf. split.
  - intros [fuel H]. apply decode_canonical_reencode in H. exact H.
  - intros ->. exists (depth v). apply decode_strict_encode; [exact Hwf|lia].
Qed.
Print Assumptions decode_strict_iff.

(** * More fuel never changes a result; strict results are permissive results *)

Definition ext (d d' : bytes -> option (cbor * bytes)) : Prop :=
  forall bs r, d bs = Some r -> d' bs = Some r.

Section Mono.
  Variables d d' : bytes -> option (cbor * bytes).
  Hypothesis Hext : ext d d'.

  Lemma dec_items_mono : forall n bs r, dec_items d n bs = Some r -> dec_items d' n bs = Some r.
  Proof.
    induction n as [|n IH]; intros bs r H; cbn [dec_items] in *; [exact H|].
    destruct (d bs) as [[v r1]|] eqn:E; [|discriminate]. rewrite (Hext _ _ E).
    destruct (dec_items d n r1) as [[l r2]|] eqn:E2; [|discriminate]. rewrite (IH _ _ E2). exact H.
  Qed.

  Lemma dec_pairs_mono : forall n bs r, dec_pairs d n bs = Some r -> dec_pairs d' n bs = Some r.
  Proof.
    induction n as [|n IH]; intros bs r H; cbn [dec_pairs] in *; [exact H|].
    destruct (d bs) as [[k r1]|] eqn:E; [|discriminate]. rewrite (Hext _ _ E).
    destruct (d r1) as [[w r2]|] eqn:E1; [|discriminate]. rewrite (Hext _ _ E1).
    destruct (dec_pairs d n r2) as [[l r3]|] eqn:E2; [|discriminate]. rewrite (IH _ _ E2). exact H.
  Qed.

  Lemma dec_until_break_mono : forall cnt bs r,
    dec_until_break d cnt bs = Some r -> dec_until_break d' cnt bs = Some r.
  Proof.
    induction cnt as [|cnt IH]; intros bs r H; cbn [dec_until_break] in *; [exact H|].
    destruct bs as [|b tl]; [exact H|]. destruct (b =? 255); [exact H|].
    destruct (d (b :: tl)) as [[v r1]|] eqn:E; [|discriminate]. rewrite (Hext _ _ E).
    destruct (dec_until_break d cnt r1) as [[l r2]|] eqn:E2; [|discriminate]. rewrite (IH _ _ E2). exact H.
  Qed.

  Lemma dec_seq_mono : forall cnt bs l, dec_seq d cnt bs = Some l -> dec_seq d' cnt bs = Some l.
  Proof.
    induction cnt as [|cnt IH]; intros bs l H; destruct bs as [|b tl]; cbn [dec_seq] in *; try exact H.
    destruct (d (b :: tl)) as [[v r1]|] eqn:E; [|discriminate]. rewrite (Hext _ _ E).
    destruct (dec_seq d cnt r1) as [l'|] eqn:E2; [|discriminate]. rewrite (IH _ _ E2). exact H.
  Qed.

  Lemma dispatch_mono m n c rest r : dispatch d m n c rest = Some r -> dispatch d' m n c rest = Some r.
  Proof.
    destruct (N.ltb_spec m 8) as [Hm|Hm].
    - destruct (major_cases m Hm) as [->|[->|[->|[->|[->|[->|[->| ->]]]]]]]; unfold dispatch; try (intros H; exact H).
      + destruct (N.of_nat (length rest) <? n); [discriminate|].
        destruct (dec_items d (N.to_nat n) rest) as [[l r']|] eqn:T; [|discriminate].
        rewrite (dec_items_mono _ _ _ T). intros H; exact H.
      + destruct (N.of_nat (length rest) <? 2 * n); [discriminate|].
        destruct (dec_pairs d (N.to_nat n) rest) as [[l r']|] eqn:T; [|discriminate].
        rewrite (dec_pairs_mono _ _ _ T). intros H; exact H.
      + destruct (d rest) as [[w r']|] eqn:T; [|discriminate]. rewrite (Hext _ _ T). intros H; exact H.
    - unfold dispatch. destruct m as [|p]; [lia|].
      destruct p as [p|p|]; try (destruct p as [p|p|]); try (destruct p as [p|p|]);
        try discriminate; lia.
  Qed.

  Lemma step_mono strict bs r : step d strict bs = Some r -> step d' strict bs = Some r.
  Proof.
    unfold step. destruct (if strict then None else indef_start bs) as [tl|].
    - destruct (dec_until_break d (length tl) tl) as [[l r']|] eqn:T; [|discriminate].
      rewrite (dec_until_break_mono _ _ _ T). intros H; exact H.
    - destruct (decode_head bs) as [[[[m n] c] r']|]; [|discriminate].
      destruct (head_okb strict bs m n c); [|discriminate]. apply dispatch_mono.
  Qed.

  Lemma decode_head_not_indef bs x : decode_head bs = Some x -> indef_start bs = None.
  Proof.
    destruct bs as [|b tl]; [reflexivity|]. cbn [indef_start].
    destruct (N.eqb_spec b 159) as [->|Hb]; [|reflexivity]. vm_compute. discriminate.
  Qed.

  Lemma step_strict_sub bs r : step d true bs = Some r -> step d' false bs = Some r.
  Proof.
    unfold step.
    destruct (decode_head bs) as [[[[m n] c] r']|] eqn:Eh; [|discriminate].
    rewrite (decode_head_not_indef _ _ Eh).
    destruct (head_okb true bs m n c); [|discriminate]. cbn [head_okb]. apply dispatch_mono.
  Qed.
End Mono.

Theorem decode_gen_fuel_mono strict : forall f f', (f <= f')%nat -> ext (decode_gen strict f) (decode_gen strict f').
Proof.
  induction f as [|f IH]; intros f' Hle bs r H; [discriminate|].
  destruct f' as [|f']; [lia|]. rewrite decode_gen_S in *.
  apply (step_mono (decode_gen strict f) (decode_gen strict f')); [apply IH; lia | exact H].
Qed.
Print Assumptions decode_gen_fuel_mono.

Theorem decode_fuel_mono f f' bs r : (f <= f')%nat -> decode f bs = Some r -> decode f' bs = Some r.
Proof. intros Hle. apply (decode_gen_fuel_mono false f f' Hle). Qed.
Print Assumptions decode_fuel_mono.

Theorem decode_strict_fuel_mono f f' bs r :
  (f <= f')%nat -> decode_strict f bs = Some r -> decode_strict f' bs = Some r.
Proof. intros Hle. apply (decode_gen_fuel_mono true f f' Hle). Qed.
Print Assumptions decode_strict_fuel_mono.

(** The result does not depend on the fuel, once there is enough. *)
Theorem decode_fuel_indep f f' bs r r' : decode f bs = Some r -> decode f' bs = Some r' -> r = r'.
Proof.
  intros H H'.
  apply (decode_fuel_mono f (Nat.max f f')) in H; [|lia].
  apply (decode_fuel_mono f' (Nat.max f f')) in H'; [|lia].
  rewrite H in H'. injection H' as ->. reflexivity.
Qed.
Print Assumptions decode_fuel_indep.

Theorem decode_strict_decode : forall f bs r, decode_strict f bs = Some r -> decode f bs = Some r.
Proof.
  unfold decode_strict, decode. induction f as [|f IH]; intros bs r H; [discriminate|].
  rewrite decode_gen_S in *. apply (step_strict_sub (decode_gen true f) (decode_gen false f)); [exact IH|exact H].
Qed.
Print Assumptions decode_strict_decode.

Theorem decode_seq_fuel_mono f f' bs l : (f <= f')%nat -> decode_seq f bs = Some l -> decode_seq f' bs = Some l.
Proof.
  intros Hle. unfold decode_seq. apply dec_seq_mono. intros b r. apply decode_fuel_mono. exact Hle.
Qed.
Print Assumptions decode_seq_fuel_mono.

(** "canonical input": the strict decoder accepts it (with some fuel). Then
    whatever the permissive decoder returns re-encodes to the input. *)
Definition canonical (bs : bytes) : Prop := exists fuel r, decode_strict fuel bs = Some r.

Theorem canonical_decode_reencode bs fuel v rest :
  canonical bs -> decode fuel bs = Some (v, rest) -> bs = encode v ++ rest.
Proof.
  intros (f & r & Hs) Hd. pose proof (decode_strict_decode f bs r Hs) as Hd'.
  pose proof (decode_fuel_indep _ _ _ _ _ Hd Hd') as <-.
  apply (decode_canonical_reencode f). exact Hs.
Qed.
Print Assumptions canonical_decode_reencode.

Theorem canonical_encode v rest : wf v -> canonical (encode v ++ rest).
Proof. intros Hwf. exists (depth v), (v, rest). apply decode_strict_encode; [exact Hwf|lia]. Qed.
Print Assumptions canonical_encode.

(** * Whatever is decoded from octets is well-formed, and decoding consumes input *)

Lemma unbe_bound l : wf_bytes l -> unbe l < 256 ^ N.of_nat (length l).
Proof.
  induction l as [|b l IH] using rev_ind; intros H.
  - unfold unbe. cbn. lia.
  - apply wf_bytes_app in H as [Hl Hb]. inversion Hb as [|? ? Hb' _]; subst. unfold wf_byte in Hb'.
    specialize (IH Hl). rewrite unbe_app, app_length. cbn [length].
    replace (N.of_nat (length l + 1)) with (N.succ (N.of_nat (length l))) by lia.
    rewrite N.pow_succ_r'. set (P := 256 ^ N.of_nat (length l)) in *. lia.
Qed.

Lemma info_width_vals i k : info_width i = Some k -> k = 1%nat \/ k = 2%nat \/ k = 4%nat \/ k = 8%nat.
Proof.
  unfold info_width.
  destruct (i =? 24); [intros H; inversion H; tauto|]. destruct (i =? 25); [intros H; inversion H; tauto|].
  destruct (i =? 26); [intros H; inversion H; tauto|]. destruct (i =? 27); [intros H; inversion H; tauto|].
  discriminate.
Qed.

Lemma decode_head_wf bs m n c rest :
  wf_bytes bs -> decode_head bs = Some (m, n, c, rest) ->
  n < two64 /\ wf_bytes rest /\ (c = 1%nat -> n < 24) /\ (length rest < length bs)%nat.
Proof.
  intros Hwf. destruct bs as [|b tl]; [discriminate|]. unfold decode_head. cbv zeta.
  inversion Hwf as [|? ? Hb Htl]; subst.
  destruct (N.leb_spec 256 b) as [Hb'|Hb']; [discriminate|].
  destruct (N.ltb_spec (b mod 32) 24) as [Hi|Hi].
  { intros H. inversion H; subst. cbn [length]. repeat split; try assumption; lia. }
  destruct (info_width (b mod 32)) as [k|] eqn:Ek; [|discriminate].
  unfold take_be. destruct (Nat.ltb_spec (length tl) k) as [Hk|Hk]; [discriminate|].
  intros H. inversion H; subst. clear H.
  rewrite <- (firstn_skipn k tl) in Htl. apply wf_bytes_app in Htl as [Hf Hs].
  pose proof (unbe_bound _ Hf) as Hu. rewrite firstn_length_le in Hu by exact Hk.
  pose proof (info_width_vals _ _ Ek) as Hv.
  repeat split.
  - destruct Hv as [->|[->|[->| ->]]].
    + change (256 ^ N.of_nat 1) with 256 in Hu. lia.
    + change (256 ^ N.of_nat 2) with 65536 in Hu. lia.
    + change (256 ^ N.of_nat 4) with 4294967296 in Hu. lia.
    + change (256 ^ N.of_nat 8) with two64 in Hu. lia.
  - exact Hs.
  - intros Hc. lia.
  - rewrite skipn_length. cbn [length]. lia.
Qed.

Lemma take_n_wf n bs s rest :
  wf_bytes bs -> take_n n bs = Some (s, rest) ->
  wf_bytes s /\ wf_bytes rest /\ (length rest <= length bs)%nat /\ N.of_nat (length s) = n.
Proof.
  intros Hwf H. apply take_n_inv in H as [-> Hn]. apply wf_bytes_app in Hwf as [Hs Hr].
  rewrite app_length. repeat split; try assumption. lia.
Qed.

Lemma indef_start_inv bs tl : indef_start bs = Some tl -> bs = 159 :: tl.
Proof.
  destruct bs as [|b t]; [discriminate|]. cbn [indef_start].
  destruct (N.eqb_spec b 159) as [->|_]; [|discriminate]. intros H. inversion H; subst. reflexivity.
Qed.

Definition good (bs : bytes) : Prop := wf_bytes bs /\ N.of_nat (length bs) < two64.

Section DecWf.
  Variable dec : bytes -> option (cbor * bytes).
  Hypothesis Hdec : forall bs v rest, good bs -> dec bs = Some (v, rest) ->
    wf v /\ wf_bytes rest /\ (length rest < length bs)%nat.

  Lemma good_shrink bs rest : good bs -> wf_bytes rest -> (length rest <= length bs)%nat -> good rest.
  Proof. intros [_ Hl] Hr Hle. split; [exact Hr|lia]. Qed.

  Lemma dec_items_wf : forall n bs l rest, good bs -> dec_items dec n bs = Some (l, rest) ->
    Forall wf l /\ wf_bytes rest /\ (length l + length rest <= length bs)%nat /\ length l = n.
  Proof.
    induction n as [|n IH]; intros bs l rest Hg H; cbn [dec_items] in H.
    - inversion H; subst. destruct Hg as [Hw _]. cbn [length]. repeat split; [constructor|exact Hw|lia].
    - destruct (dec bs) as [[v r]|] eqn:E; [|discriminate].
      destruct (dec_items dec n r) as [[l' r']|] eqn:E2; [|discriminate].
      inversion H; subst. clear H.
      apply (Hdec _ _ _ Hg) in E as (Hv & Hr & Hlt).
      apply IH in E2 as (Hl & Hr' & Hlen & Hn); [|apply (good_shrink bs); [exact Hg|exact Hr|lia]].
      cbn [length]. repeat split; [constructor; assumption|exact Hr'|lia|lia].
  Qed.

  Lemma dec_pairs_wf : forall n bs l rest, good bs -> dec_pairs dec n bs = Some (l, rest) ->
    Forall (fun kv => wf (fst kv) /\ wf (snd kv)) l /\ wf_bytes rest /\
    (length l + length rest <= length bs)%nat /\ length l = n.
  Proof.
    induction n as [|n IH]; intros bs l rest Hg H; cbn [dec_pairs] in H.
    - inversion H; subst. destruct Hg as [Hw _]. cbn [length]. repeat split; [constructor|exact Hw|lia].
    - destruct (dec bs) as [[k r]|] eqn:E; [|discriminate].
      destruct (dec r) as [[w r1]|] eqn:E1; [|discriminate].
      destruct (dec_pairs dec n r1) as [[l' r']|] eqn:E2; [|discriminate].
      inversion H; subst. clear H.
      apply (Hdec _ _ _ Hg) in E as (Hk & Hr & Hlt).
      assert (Hg1 : good r) by (apply (good_shrink bs); [exact Hg|exact Hr|lia]).
      apply (Hdec _ _ _ Hg1) in E1 as (Hw & Hr1 & Hlt1).
      apply IH in E2 as (Hl & Hr' & Hlen & Hn); [|apply (good_shrink bs); [exact Hg|exact Hr1|lia]].
      cbn [length]. repeat split; [constructor; [cbn [fst snd]; split; assumption|exact Hl]|exact Hr'|lia|lia].
  Qed.

  Lemma dec_until_break_wf : forall cnt bs l rest, good bs -> dec_until_break dec cnt bs = Some (l, rest) ->
    Forall wf l /\ wf_bytes rest /\ (length l + length rest < length bs)%nat.
  Proof.
    induction cnt as [|cnt IH]; intros bs l rest Hg H; cbn [dec_until_break] in H; [discriminate|].
    destruct bs as [|b tl]; [discriminate|].
    destruct (b =? 255).
    - inversion H; subst. destruct Hg as [Hw _]. inversion Hw; subst. cbn [length].
      repeat split; [constructor|assumption|lia].
    - destruct (dec (b :: tl)) as [[v r]|] eqn:E; [|discriminate].
      destruct (dec_until_break dec cnt r) as [[l' r']|] eqn:E2; [|discriminate].
      inversion H; subst. clear H.
      apply (Hdec _ _ _ Hg) in E as (Hv & Hr & Hlt).
      apply IH in E2 as (Hl & Hr' & Hlen); [|apply (good_shrink (b :: tl)); [exact Hg|exact Hr|lia]].
      cbn [length] in *. repeat split; [constructor; assumption|exact Hr'|lia].
  Qed.

  Lemma dec_seq_wf : forall cnt bs l, good bs -> dec_seq dec cnt bs = Some l -> Forall wf l.
  Proof.
    induction cnt as [|cnt IH]; intros bs l Hg H; destruct bs as [|b tl]; cbn [dec_seq] in H;
      try discriminate; try (inversion H; subst; constructor).
    destruct (dec (b :: tl)) as [[v r]|] eqn:E; [|discriminate].
    destruct (dec_seq dec cnt r) as [l'|] eqn:E2; [|discriminate].
    inversion H; subst. clear H.
    apply (Hdec _ _ _ Hg) in E as (Hv & Hr & Hlt).
    apply IH in E2; [|apply (good_shrink (b :: tl)); [exact Hg|exact Hr|lia]].
    constructor; assumption.
  Qed.

  Lemma step_wf strict bs v rest : good bs -> step dec strict bs = Some (v, rest) ->
    wf v /\ wf_bytes rest /\ (length rest < length bs)%nat.
  Proof.
    intros Hg. unfold step. destruct (if strict then None else indef_start bs) as [tl|] eqn:Ei.
    - destruct strict; [discriminate|]. apply indef_start_inv in Ei. subst bs.
      destruct (dec_until_break dec (length tl) tl) as [[l r]|] eqn:T; [|discriminate].
      intros H. inversion H; subst. clear H.
      assert (Hgt : good tl).
      { destruct Hg as [Hw Hl]. inversion Hw; subst. cbn [length] in Hl. split; [assumption|lia]. }
      apply (dec_until_break_wf _ _ _ _ Hgt) in T as (Hl & Hr & Hlen).
      destruct Hgt as [_ Hb]. cbn [length].
      split; [apply wf_CArr; split; [lia|exact Hl] | split; [exact Hr | lia]].
    - clear Ei. destruct (decode_head bs) as [[[[m n] c] r]|] eqn:Eh; [|discriminate].
      destruct (head_okb strict bs m n c); [|discriminate].
      pose proof (decode_head_inv _ _ _ _ _ Eh) as [_ Hm].
      destruct (decode_head_wf _ _ _ _ _ (proj1 Hg) Eh) as (Hn & Hr & Hc & Hlt).
      assert (Hgr : good r) by (apply (good_shrink bs); [exact Hg|exact Hr|lia]).
      intros H.
      destruct (major_cases m Hm) as [->|[->|[->|[->|[->|[->|[->| ->]]]]]]]; unfold dispatch in H.
      + inversion H; subst. repeat split; assumption.
      + inversion H; subst. repeat split; assumption.
      + destruct (take_n n r) as [[s r']|] eqn:T; [|discriminate]. inversion H; subst. clear H.
        apply (take_n_wf _ _ _ _ Hr) in T as (Hs & Hr' & Hle & Hlen).
        cbn [wf]. rewrite Hlen. repeat split; try assumption. lia.
      + destruct (take_n n r) as [[s r']|] eqn:T; [|discriminate]. inversion H; subst. clear H.
        apply (take_n_wf _ _ _ _ Hr) in T as (Hs & Hr' & Hle & Hlen).
        cbn [wf]. rewrite Hlen. repeat split; try assumption. lia.
      + destruct (N.of_nat (length r) <? n); [discriminate|].
        destruct (dec_items dec (N.to_nat n) r) as [[l r']|] eqn:T; [|discriminate].
        inversion H; subst. clear H.
        apply (dec_items_wf _ _ _ _ Hgr) in T as (Hl & Hr' & Hle & Hlen).
        split; [apply wf_CArr; split; [lia|exact Hl] | split; [exact Hr' | lia]].
      + destruct (N.of_nat (length r) <? 2 * n); [discriminate|].
        destruct (dec_pairs dec (N.to_nat n) r) as [[l r']|] eqn:T; [|discriminate].
        inversion H; subst. clear H.
        apply (dec_pairs_wf _ _ _ _ Hgr) in T as (Hl & Hr' & Hle & Hlen).
        split; [apply wf_CMap; split; [lia|exact Hl] | split; [exact Hr' | lia]].
      + destruct (dec r) as [[w r']|] eqn:T; [|discriminate]. inversion H; subst. clear H.
        apply (Hdec _ _ _ Hgr) in T as (Hw & Hr' & Hlt').
        split; [apply wf_CTag; split; assumption | split; [exact Hr' | lia]].
      + destruct (Nat.eqb_spec c 1) as [Hc1|Hc1]; [|discriminate]. inversion H; subst. clear H.
        cbn [wf]. split; [apply Hc; reflexivity | split; [exact Hr | exact Hlt]].
  Qed.
End DecWf.

(** Decoding octets (a buffer shorter than 2^64, which every real buffer is)
    yields a well-formed item, leaves octets, and consumes at least one. *)
Theorem decode_gen_wf strict : forall fuel bs v rest,
  wf_bytes bs -> N.of_nat (length bs) < two64 ->
  decode_gen strict fuel bs = Some (v, rest) ->
  wf v /\ wf_bytes rest /\ (length rest < length bs)%nat.
Proof.
  induction fuel as [|f IH]; intros bs v rest Hw Hl H; [discriminate|].
  rewrite decode_gen_S in H. apply (step_wf (decode_gen strict f)) in H; [exact H| |split; assumption].
  intros bs' v' rest' [Hw' Hl'] H'. apply IH; assumption.
Qed.
Print Assumptions decode_gen_wf.

Theorem decode_wf fuel bs v rest :
  wf_bytes bs -> N.of_nat (length bs) < two64 -> decode fuel bs = Some (v, rest) ->
  wf v /\ wf_bytes rest /\ (length rest < length bs)%nat.
Proof. apply decode_gen_wf. Qed.
Print Assumptions decode_wf.

Theorem decode_seq_wf fuel bs l :
  wf_bytes bs -> N.of_nat (length bs) < two64 -> decode_seq fuel bs = Some l -> Forall wf l.
Proof.
  intros Hw Hl. unfold decode_seq. apply dec_seq_wf; [|split; assumption].
  intros bs' v' rest' [Hw' Hl'] H'. apply (decode_wf fuel); assumption.
Qed.
Print Assumptions decode_seq_wf.

(** Consequently decoding is a left inverse of encoding on canonical octets
    AND the decoded value can be fed back to every theorem above. *)
Theorem decode_strict_roundtrip fuel bs v rest :
  wf_bytes bs -> N.of_nat (length bs) < two64 -> decode_strict fuel bs = Some (v, rest) ->
  wf v /\ bs = encode v ++ rest.
Proof.
  intros Hw Hl H. split; [|apply (decode_canonical_reencode fuel); exact H].
  apply (decode_gen_wf true fuel bs v rest Hw Hl H).
Qed.
Print Assumptions decode_strict_roundtrip.

Example decode_wf_nonvacuous :
  let bs := encode_indef_arr [sample; CUint 7] ++ [9] in
  wf_bytes bs /\ N.of_nat (length bs) < two64 /\ decode 4 bs = Some (CArr [sample; CUint 7], [9]).
Proof. split; [apply wf_bytesb_spec; vm_compute; reflexivity | split; vm_compute; reflexivity]. Qed.

(** Status: every theorem requested for this library is proved above with
    [Qed] and is closed under the global context; nothing is left open.
    Not covered by the model (see the header of [Lib/Cbor.v]): floats,
    two-octet simple values, indefinite-length strings and maps, UTF-8
    validation of text strings, and cbor2's canonical map-key sorting. *)
