(** A model of the CBOR (RFC 8949) subset that Python [cbor2.dumps] emits and
    [cbor2.loads] accepts for the data the DTN demo agent exchanges: unsigned
    and negative integers, octet and text strings, arrays, maps, tags and the
    simple values.  Definitions and small structural lemmas only; the theorems
    are in [Lib/CborProofs.v].

    What is modelled and what is not
    - [encode] always emits definite lengths and *shortest-form* heads, which
      is what [cbor2.dumps] does for ints, lengths and tags (whether or not
      [canonical=True]); map pairs are emitted in list order (no sorting).
    - [encode_indef_arr] is the indefinite-length array framing (0x9f .. 0xff)
      that BPv7 bundles use.
    - [decode] (= [decode_gen false]) accepts: any well-formed head, shortest
      form NOT required (cbor2 accepts non-shortest heads too); definite
      bstr/tstr/array/map/tag; simple values 0..23 in the one-octet form; and
      indefinite-length *arrays* (decoded to [CArr]).
      It rejects (returns [None]): octets >= 256, reserved additional-info
      values 28..30, indefinite-length bstr/tstr/maps (0x5f, 0x7f, 0xbf), a
      stray break 0xff, two-octet simple values (0xf8 xx), floats
      (0xf9..0xfb), truncated input, and running out of fuel.  Text strings are
      kept as octets; UTF-8 validity is not checked (cbor2 would).
    - [decode_strict] (= [decode_gen true]) additionally rejects every
      non-shortest head and indefinite-length arrays, i.e. accepts exactly
      the image of [encode].
    Fuel is consumed once per nesting level, so [depth v] (<= [size v] <=
    [length (encode v)]) is always enough. *)
From Coq Require Import List NArith ZArith Arith Bool Lia ZifyBool ZifyN ZifyNat.
From DTN Require Import Lib.Bytes.
Import ListNotations.
Local Open Scope N_scope.

Ltac Zify.zify_post_hook ::= Z.div_mod_to_equations.

(** * Data items *)

Inductive cbor : Type :=
| CUint (n : N)
| CNint (n : N)                     (* the integer -1-n *)
| CBstr (bs : bytes)
| CTstr (bs : bytes)                (* UTF-8 octets *)
| CArr (l : list cbor)
| CMap (kvs : list (cbor * cbor))
| CTag (t : N) (v : cbor)
| CSimple (n : N).                  (* 20 false, 21 true, 22 null, 23 undefined *)

(** Induction principle that goes through the nested lists. *)
Section CborInd.
  Variable P : cbor -> Prop.
  Hypothesis HUint : forall n, P (CUint n).
  Hypothesis HNint : forall n, P (CNint n).
  Hypothesis HBstr : forall bs, P (CBstr bs).
  Hypothesis HTstr : forall bs, P (CTstr bs).
  Hypothesis HArr : forall l, Forall P l -> P (CArr l).
  Hypothesis HMap : forall kvs, Forall (fun kv => P (fst kv) /\ P (snd kv)) kvs -> P (CMap kvs).
  Hypothesis HTag : forall t v, P v -> P (CTag t v).
  Hypothesis HSimple : forall n, P (CSimple n).

  Fixpoint cbor_ind' (v : cbor) : P v :=
    match v with
    | CUint n => HUint n
    | CNint n => HNint n
    | CBstr bs => HBstr bs
    | CTstr bs => HTstr bs
    | CArr l =>
        HArr l ((fix go (l : list cbor) : Forall P l :=
                   match l with
                   | [] => Forall_nil _
                   | x :: t => Forall_cons x (cbor_ind' x) (go t)
                   end) l)
    | CMap kvs =>
        HMap kvs ((fix go (l : list (cbor * cbor)) : Forall (fun kv => P (fst kv) /\ P (snd kv)) l :=
                     match l with
                     | [] => Forall_nil _
                     | kv :: t =>
                         Forall_cons kv
                           (match kv as p return P (fst p) /\ P (snd p) with
                            | (k, w) => conj (cbor_ind' k) (cbor_ind' w)
                            end) (go t)
                     end) kvs)
    | CTag t w => HTag t w (cbor_ind' w)
    | CSimple n => HSimple n
    end.
End CborInd.

(** * Heads *)

Notation two64 := 18446744073709551616%N (only parsing).

(** Initial octet plus argument, shortest form (for [n < 2^64]; larger [n] are
    truncated to 8 octets and are excluded by [wf]). *)
Definition head (major n : N) : bytes :=
  if n <? 24 then [major * 32 + n]
  else if n <? 256 then (major * 32 + 24) :: be 1 n
  else if n <? 65536 then (major * 32 + 25) :: be 2 n
  else if n <? 4294967296 then (major * 32 + 26) :: be 4 n
  else (major * 32 + 27) :: be 8 n.

Definition head_len (n : N) : nat :=
  if n <? 24 then 1%nat
  else if n <? 256 then 2%nat
  else if n <? 65536 then 3%nat
  else if n <? 4294967296 then 5%nat
  else 9%nat.

(** * Encoder *)

Fixpoint encode (v : cbor) : bytes :=
  match v with
  | CUint n => head 0 n
  | CNint n => head 1 n
  | CBstr bs => head 2 (N.of_nat (length bs)) ++ bs
  | CTstr bs => head 3 (N.of_nat (length bs)) ++ bs
  | CArr l => head 4 (N.of_nat (length l)) ++ concat (map encode l)
  | CMap kvs =>
      head 5 (N.of_nat (length kvs)) ++
      concat (map (fun kv => encode (fst kv) ++ encode (snd kv)) kvs)
  | CTag t w => head 6 t ++ encode w
  | CSimple n => head 7 n
  end.

(** A CBOR sequence (RFC 8742): plain concatenation. *)
Definition encode_seq (l : list cbor) : bytes := concat (map encode l).

Definition encode_kv (kv : cbor * cbor) : bytes := encode (fst kv) ++ encode (snd kv).
Definition encode_pairs (kvs : list (cbor * cbor)) : bytes := concat (map encode_kv kvs).

(** Indefinite-length array framing (BPv7 bundles). *)
Definition encode_indef_arr (l : list cbor) : bytes := 159 :: encode_seq l ++ [255].

Lemma encode_CArr l : encode (CArr l) = head 4 (N.of_nat (length l)) ++ encode_seq l.
Proof. reflexivity. Qed.

Lemma encode_CMap kvs : encode (CMap kvs) = head 5 (N.of_nat (length kvs)) ++ encode_pairs kvs.
Proof. reflexivity. Qed.

Lemma encode_seq_nil : encode_seq [] = [].
Proof. reflexivity. Qed.

Lemma encode_seq_cons x l : encode_seq (x :: l) = encode x ++ encode_seq l.
Proof. reflexivity. Qed.

Lemma encode_seq_app a b : encode_seq (a ++ b) = encode_seq a ++ encode_seq b.
Proof. unfold encode_seq. rewrite map_app, concat_app. reflexivity. Qed.

Lemma encode_pairs_nil : encode_pairs [] = [].
Proof. reflexivity. Qed.

Lemma encode_pairs_cons k w l : encode_pairs ((k, w) :: l) = encode k ++ encode w ++ encode_pairs l.
Proof. unfold encode_pairs, encode_kv. cbn [map concat fst snd]. rewrite app_assoc. reflexivity. Qed.

(** * Well-formedness, depth, size *)

Fixpoint wf (v : cbor) : Prop :=
  match v with
  | CUint n => n < two64
  | CNint n => n < two64
  | CBstr bs => N.of_nat (length bs) < two64 /\ wf_bytes bs
  | CTstr bs => N.of_nat (length bs) < two64 /\ wf_bytes bs
  | CArr l => N.of_nat (length l) < two64 /\ fold_right (fun x acc => wf x /\ acc) True l
  | CMap kvs =>
      N.of_nat (length kvs) < two64 /\
      fold_right (fun kv acc => (wf (fst kv) /\ wf (snd kv)) /\ acc) True kvs
  | CTag t w => t < two64 /\ wf w
  | CSimple n => n < 24
  end.

Fixpoint wfb (v : cbor) : bool :=
  match v with
  | CUint n => n <? two64
  | CNint n => n <? two64
  | CBstr bs => (N.of_nat (length bs) <? two64) && wf_bytesb bs
  | CTstr bs => (N.of_nat (length bs) <? two64) && wf_bytesb bs
  | CArr l => (N.of_nat (length l) <? two64) && forallb wfb l
  | CMap kvs =>
      (N.of_nat (length kvs) <? two64) && forallb (fun kv => wfb (fst kv) && wfb (snd kv)) kvs
  | CTag t w => (t <? two64) && wfb w
  | CSimple n => n <? 24
  end.

Lemma fold_right_and_Forall {A} (Q : A -> Prop) l :
  fold_right (fun x acc => Q x /\ acc) True l <-> Forall Q l.
Proof.
  induction l as [|x l IH]; cbn [fold_right].
  - split; intros _; constructor.
  - rewrite IH. split.
    + intros [Hx Hl]. constructor; assumption.
    + intros H. inversion H; subst. split; assumption.
Qed.

Lemma wf_CArr l : wf (CArr l) <-> N.of_nat (length l) < two64 /\ Forall wf l.
Proof. cbn [wf]. rewrite fold_right_and_Forall. reflexivity. Qed.

Lemma wf_CMap kvs :
  wf (CMap kvs) <-> N.of_nat (length kvs) < two64 /\ Forall (fun kv => wf (fst kv) /\ wf (snd kv)) kvs.
Proof. cbn [wf]. rewrite (fold_right_and_Forall (fun kv => wf (fst kv) /\ wf (snd kv))). reflexivity. Qed.

Lemma wf_CTag t w : wf (CTag t w) <-> t < two64 /\ wf w.
Proof. reflexivity. Qed.

Lemma wfb_spec v : wfb v = true <-> wf v.
Proof.
  induction v as [n|n|bs|bs|l IH|kvs IH|t w IH|n] using cbor_ind'.
  - cbn [wfb wf]. lia.
  - cbn [wfb wf]. lia.
  - cbn [wfb wf]. rewrite andb_true_iff, wf_bytesb_spec, N.ltb_lt. reflexivity.
  - cbn [wfb wf]. rewrite andb_true_iff, wf_bytesb_spec, N.ltb_lt. reflexivity.
  - rewrite wf_CArr. cbn [wfb]. rewrite andb_true_iff, forallb_forall, Forall_forall.
    rewrite Forall_forall in IH. split; intros [Hl H]; (split; [lia|]); intros x Hx; apply (IH x Hx), H, Hx.
  - rewrite wf_CMap. cbn [wfb]. rewrite andb_true_iff, forallb_forall, Forall_forall.
    rewrite Forall_forall in IH. split; intros [Hl H]; (split; [lia|]); intros kv Hkv;
      specialize (H kv Hkv); destruct (IH kv Hkv) as [IHk IHw].
    + apply andb_true_iff in H as [Hk Hw]. split; [apply IHk, Hk | apply IHw, Hw].
    + destruct H as [Hk Hw]. apply andb_true_iff. split; [apply IHk, Hk | apply IHw, Hw].
  - cbn [wfb wf]. rewrite andb_true_iff, IH, N.ltb_lt. reflexivity.
  - cbn [wfb wf]. lia.
Qed.

(** Nesting depth: the fuel [decode] needs. *)
Fixpoint depth (v : cbor) : nat :=
  match v with
  | CArr l => S (fold_right (fun x acc => Nat.max (depth x) acc) O l)
  | CMap kvs => S (fold_right (fun kv acc => Nat.max (Nat.max (depth (fst kv)) (depth (snd kv))) acc) O kvs)
  | CTag _ w => S (depth w)
  | _ => 1%nat
  end.

(** Number of nodes: a coarser fuel bound ([depth v <= size v]). *)
Fixpoint size (v : cbor) : nat :=
  match v with
  | CArr l => S (fold_right (fun x acc => (size x + acc)%nat) O l)
  | CMap kvs => S (fold_right (fun kv acc => (size (fst kv) + size (snd kv) + acc)%nat) O kvs)
  | CTag _ w => S (size w)
  | _ => 1%nat
  end.

(** * Decoder *)

(** Number of argument octets selected by the additional-info field. *)
Definition info_width (info : N) : option nat :=
  if info =? 24 then Some 1%nat
  else if info =? 25 then Some 2%nat
  else if info =? 26 then Some 4%nat
  else if info =? 27 then Some 8%nat
  else None.

(** [decode_head bs = Some (major, argument, octets consumed, rest)].
    Non-shortest arguments are accepted here.  Additional info 28..31 is
    rejected (31 = indefinite/break is handled by the caller). *)
Definition decode_head (bs : bytes) : option (N * N * nat * bytes) :=
  match bs with
  | [] => None
  | b :: tl =>
      if 256 <=? b then None
      else
        let m := b / 32 in
        let info := b mod 32 in
        if info <? 24 then Some (m, info, 1%nat, tl)
        else match info_width info with
             | None => None
             | Some k =>
                 match take_be k tl with
                 | None => None
                 | Some (n, rest) => Some (m, n, S k, rest)
                 end
             end
  end.

(** Shortest-form test used by the strict decoder: the octets consumed are
    exactly [head m n]. *)
Definition head_okb (strict : bool) (bs : bytes) (m n : N) (c : nat) : bool :=
  if strict then bytes_eqb (firstn c bs) (head m n) else true.

(** [take_n n bs]: split off [n] octets (comparison done in [N] so that a huge
    announced length never gets converted to [nat]). *)
Definition take_n (n : N) (bs : bytes) : option (bytes * bytes) :=
  if N.of_nat (length bs) <? n then None
  else Some (firstn (N.to_nat n) bs, skipn (N.to_nat n) bs).

Definition indef_start (bs : bytes) : option bytes :=
  match bs with
  | b :: tl => if b =? 159 then Some tl else None
  | [] => None
  end.

Section Items.
  Variable dec : bytes -> option (cbor * bytes).

  (** exactly [n] items *)
  Fixpoint dec_items (n : nat) (bs : bytes) : option (list cbor * bytes) :=
    match n with
    | O => Some ([], bs)
    | S n' =>
        match dec bs with
        | None => None
        | Some (v, rest) =>
            match dec_items n' rest with
            | None => None
            | Some (l, rest') => Some (v :: l, rest')
            end
        end
    end.

  (** exactly [n] key/value pairs *)
  Fixpoint dec_pairs (n : nat) (bs : bytes) : option (list (cbor * cbor) * bytes) :=
    match n with
    | O => Some ([], bs)
    | S n' =>
        match dec bs with
        | None => None
        | Some (k, rest) =>
            match dec rest with
            | None => None
            | Some (w, rest') =>
                match dec_pairs n' rest' with
                | None => None
                | Some (l, rest'') => Some ((k, w) :: l, rest'')
                end
            end
        end
    end.

  (** items up to the break octet 0xff; [cnt] bounds the number of loop
      iterations (the caller passes the buffer length, which is never
      exhausted because every item consumes at least one octet). *)
  Fixpoint dec_until_break (cnt : nat) (bs : bytes) : option (list cbor * bytes) :=
    match cnt with
    | O => None
    | S cnt' =>
        match bs with
        | [] => None
        | b :: tl =>
            if b =? 255 then Some ([], tl)
            else match dec bs with
                 | None => None
                 | Some (v, rest) =>
                     match dec_until_break cnt' rest with
                     | None => None
                     | Some (l, rest') => Some (v :: l, rest')
                     end
                 end
        end
    end.

  (** a whole buffer as a CBOR sequence *)
  Fixpoint dec_seq (cnt : nat) (bs : bytes) : option (list cbor) :=
    match bs with
    | [] => Some []
    | _ :: _ =>
        match cnt with
        | O => None
        | S cnt' =>
            match dec bs with
            | None => None
            | Some (v, rest) =>
                match dec_seq cnt' rest with
                | None => None
                | Some l => Some (v :: l)
                end
            end
        end
    end.

  (** What follows a head [(m, n)] that consumed [c] octets. *)
  Definition dispatch (m n : N) (c : nat) (rest : bytes) : option (cbor * bytes) :=
    match m with
    | 0 => Some (CUint n, rest)
    | 1 => Some (CNint n, rest)
    | 2 => match take_n n rest with
           | None => None
           | Some (s, rest') => Some (CBstr s, rest')
           end
    | 3 => match take_n n rest with
           | None => None
           | Some (s, rest') => Some (CTstr s, rest')
           end
    | 4 => (* every item takes at least one octet: reject early, so that a
              huge announced count is never converted to [nat] *)
           if N.of_nat (length rest) <? n then None
           else match dec_items (N.to_nat n) rest with
                | None => None
                | Some (l, rest') => Some (CArr l, rest')
                end
    | 5 => if N.of_nat (length rest) <? 2 * n then None
           else match dec_pairs (N.to_nat n) rest with
                | None => None
                | Some (l, rest') => Some (CMap l, rest')
                end
    | 6 => match dec rest with
           | None => None
           | Some (w, rest') => Some (CTag n w, rest')
           end
    | 7 => (* one-octet simple values only; 0xf8.., floats and break rejected *)
           if (c =? 1)%nat then Some (CSimple n, rest) else None
    | _ => None
    end.

  (** One decoding step, given the decoder [dec] for nested items. *)
  Definition step (strict : bool) (bs : bytes) : option (cbor * bytes) :=
    match (if strict then None else indef_start bs) with
    | Some tl =>
        match dec_until_break (length tl) tl with
        | None => None
        | Some (l, rest) => Some (CArr l, rest)
        end
    | None =>
        match decode_head bs with
        | None => None
        | Some (m, n, c, rest) =>
            if head_okb strict bs m n c then dispatch m n c rest else None
        end
    end.
End Items.

Fixpoint decode_gen (strict : bool) (fuel : nat) (bs : bytes) {struct fuel} : option (cbor * bytes) :=
  match fuel with
  | O => None
  | S f => step (decode_gen strict f) strict bs
  end.

(** The permissive decoder (what [cbor2.loads] accepts, on the modelled subset). *)
Definition decode (fuel : nat) (bs : bytes) : option (cbor * bytes) := decode_gen false fuel bs.

(** The strict decoder: shortest heads and definite lengths only. *)
Definition decode_strict (fuel : nat) (bs : bytes) : option (cbor * bytes) := decode_gen true fuel bs.

(** The whole buffer as a CBOR sequence; [fuel] is the per-item fuel. *)
Definition decode_seq (fuel : nat) (bs : bytes) : option (list cbor) :=
  dec_seq (decode fuel) (length bs) bs.

Definition decode_seq_strict (fuel : nat) (bs : bytes) : option (list cbor) :=
  dec_seq (decode_strict fuel) (length bs) bs.

(** Exactly one item and nothing after it. *)
Definition decode_all (fuel : nat) (bs : bytes) : option cbor :=
  match decode fuel bs with
  | Some (v, []) => Some v
  | _ => None
  end.

Lemma decode_gen_S strict f bs : decode_gen strict (S f) bs = step (decode_gen strict f) strict bs.
Proof. reflexivity. Qed.

(** * Structural lemmas about depth and size *)

Lemma depth_pos v : (1 <= depth v)%nat.
Proof. destruct v; cbn [depth]; lia. Qed.

Lemma depth_CArr_In l x : In x l -> (depth x < depth (CArr l))%nat.
Proof.
  cbn [depth]. induction l as [|y l IH]; intros Hin; [destruct Hin|].
  cbn [fold_right]. destruct Hin as [->|Hin]; [lia|]. specialize (IH Hin). lia.
Qed.

Lemma depth_CMap_In kvs k w : In (k, w) kvs -> (depth k < depth (CMap kvs) /\ depth w < depth (CMap kvs))%nat.
Proof.
  cbn [depth]. induction kvs as [|y l IH]; intros Hin; [destruct Hin|].
  cbn [fold_right]. destruct Hin as [->|Hin]; [cbn [fst snd]; lia|]. specialize (IH Hin). lia.
Qed.

Lemma depth_le_size v : (depth v <= size v)%nat.
Proof.
  induction v as [n|n|bs|bs|l IH|kvs IH|t w IH|n] using cbor_ind'; cbn [depth size]; try lia.
  - apply le_n_S. induction IH as [|x l Hx _ IHl]; cbn [fold_right]; lia.
  - apply le_n_S. induction IH as [|x l [Hk Hw] _ IHl]; cbn [fold_right]; lia.
Qed.
