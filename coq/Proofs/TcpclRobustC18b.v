(** C18 (second part): the queues visible over D-Bus are consistent with the
    signals and return values in the trace of the endpoint model
    [Model/TcpclSess.v]. *)
From Coq Require Import ZArith NArith List Bool Lia ZifyBool ZifyN ZifyNat Arith.
From Coq Require Import Permutation.
From RecordUpdate Require Import RecordSet.
From DTN Require Import Lib.Bytes Model.TcpclMsg Model.TcpclSess Proofs.TcpclSessBasics
  Proofs.TcpclRobustLib.
Import ListNotations RecordSetNotations.
Local Open Scope N_scope.
Ltac Zify.zify_post_hook ::= Z.div_mod_to_equations.

Ltac has_end_split :=
  try match goal with |- context[seg_result ?f _ _ _] =>
    let He := fresh "He" in
    destruct (has_end f) eqn:He; [rewrite seg_result_end by exact He|rewrite seg_result_more by exact He]
  end.

(** * Reading the trace *)

(** Transfer ids returned by [send_bundle_data]. *)
Definition ret_of (e : event) : list N :=
  match e with ERet 1 (PStrNum id) => [id] | _ => [] end.
(** Transfer ids reported by [send_bundle_finished]. *)
Definition fin_of (e : event) : list N :=
  match e with ESig SigSendFinished [PStrNum id; PInt _; PStr _] => [id] | _ => [] end.
Definition ret_ids (tr : list event) : list N := flat_map ret_of tr.
Definition fin_ids (tr : list event) : list N := flat_map fin_of tr.

Lemma ret_ids_app a b : ret_ids (a ++ b) = ret_ids a ++ ret_ids b.
Proof. apply flat_map_app. Qed.
Lemma fin_ids_app a b : fin_ids (a ++ b) = fin_ids a ++ fin_ids b.
Proof. apply flat_map_app. Qed.

Lemma in_ret_ids id tr : In id (ret_ids tr) <-> In (ERet 1 (PStrNum id)) tr.
Proof.
  unfold ret_ids. rewrite in_flat_map. split.
  - intros [e [He Hi]]. destruct e as [| tag v | | |]; try contradiction.
    destruct tag as [|[| |]]; try contradiction. destruct v; try contradiction.
    destruct Hi as [<-|[]]. exact He.
  - intros H. exists (ERet 1 (PStrNum id)). split; [exact H|left; reflexivity].
Qed.

Lemma in_fin_ids id tr :
  In id (fin_ids tr) <-> exists len r, In (ESig SigSendFinished [PStrNum id; PInt len; PStr r]) tr.
Proof.
  unfold fin_ids. rewrite in_flat_map. split.
  - intros [e [He Hi]]. destruct e as [sg args| | | |]; try contradiction.
    destruct sg; try contradiction.
    destruct args as [|[] [|[] [|[] [|]]]]; try contradiction.
    destruct Hi as [<-|[]]. eauto.
  - intros (len & r & H). eexists. split; [exact H|left; reflexivity].
Qed.

Lemma fin_ids_flush l : fin_ids (map fin_term_ev l) = map fst l.
Proof.
  unfold fin_ids. induction l as [|a l IH]; [reflexivity|].
  cbn [map flat_map fin_of fin_term_ev app]. rewrite IH. reflexivity.
Qed.
Lemma ret_ids_flush l : ret_ids (map fin_term_ev l) = [].
Proof.
  unfold ret_ids. induction l as [|a l IH]; [reflexivity|].
  cbn [map flat_map ret_of fin_term_ev app]. exact IH.
Qed.

(** * List facts *)

Definition notin (L : list N) (x : N) : bool := negb (mem_N x L).

Lemma mem_N_In x l : mem_N x l = true <-> In x l.
Proof.
  unfold mem_N. rewrite existsb_exists. split.
  - intros [y [Hy E]]. apply N.eqb_eq in E. subst. exact Hy.
  - intros H. exists x. split; [exact H|apply N.eqb_refl].
Qed.

Lemma notin_true L x : notin L x = true <-> ~ In x L.
Proof.
  unfold notin. rewrite negb_true_iff. rewrite <- mem_N_In.
  destruct (mem_N x L); split; intros; try congruence; try tauto; try (exfalso; auto).
Qed.

Lemma filter_all (f : N -> bool) l : (forall x, In x l -> f x = true) -> filter f l = l.
Proof.
  induction l as [|y l IH]; intros H; cbn [filter]; [reflexivity|].
  rewrite (H y) by (left; reflexivity). rewrite IH; [reflexivity|].
  intros x Hx. apply H. right. exact Hx.
Qed.

Lemma remove_N_filter x l : NoDup l -> remove_N x l = filter (notin [x]) l.
Proof.
  induction l as [|y l IH]; intros ND; cbn [remove_N filter]; [reflexivity|].
  inversion ND as [|? ? Hy ND']; subst.
  unfold notin at 1. cbn [mem_N existsb orb]. rewrite orb_false_r.
  destruct (N.eqb_spec y x) as [->|Hne]; cbn [negb].
  - symmetry. apply filter_all. intros z Hz.
    apply notin_true. intros [->|[]]. contradiction.
  - rewrite IH by exact ND'. reflexivity.
Qed.

Lemma keys_dict_del {V} x (m : list (N * V)) : map fst (dict_del x m) = remove_N x (map fst m).
Proof.
  induction m as [|[k v] m IH]; cbn [dict_del map fst remove_N]; [reflexivity|].
  destruct (k =? x); cbn [map fst]; [reflexivity|]. rewrite IH. reflexivity.
Qed.

Lemma NoDup_filter' (f : N -> bool) l : NoDup l -> NoDup (filter f l).
Proof. apply NoDup_filter. Qed.

Lemma filter_filter (f g : N -> bool) l : filter f (filter g l) = filter (fun x => g x && f x) l.
Proof.
  induction l as [|x l IH]; cbn [filter]; [reflexivity|].
  destruct (g x); cbn [filter andb]; [destruct (f x)|]; rewrite IH; reflexivity.
Qed.

Lemma filter_ext_in' (f g : N -> bool) l : (forall x, In x l -> f x = g x) -> filter f l = filter g l.
Proof. apply filter_ext_in. Qed.

Lemma keys_del_all l (m : list (N * N)) :
  NoDup (map fst m) -> map fst (del_all l m) = filter (notin (map fst l)) (map fst m).
Proof.
  unfold del_all. revert m. induction l as [|it l IH]; intros m ND; cbn [fold_left map fst].
  - symmetry. apply filter_all. intros. reflexivity.
  - rewrite IH.
    + rewrite keys_dict_del, remove_N_filter by exact ND. rewrite filter_filter.
      apply filter_ext_in'. intros x _. unfold notin. cbn [mem_N existsb orb].
      rewrite orb_false_r. destruct (x =? fst it); reflexivity.
    + rewrite keys_dict_del, remove_N_filter by exact ND. apply NoDup_filter', ND.
Qed.

Lemma keys_dict_set_in {V} k (v : V) m : In k (map fst m) -> map fst (dict_set k v m) = map fst m.
Proof.
  induction m as [|[k' v'] m IH]; cbn [dict_set map fst In]; [tauto|].
  destruct (N.eqb_spec k' k) as [->|Hne]; intros H; cbn [map fst]; [reflexivity|].
  rewrite IH; [reflexivity|]. destruct H; [contradiction|assumption].
Qed.

Lemma keys_dict_set_new {V} k (v : V) m : ~ In k (map fst m) -> map fst (dict_set k v m) = map fst m ++ [k].
Proof.
  induction m as [|[k' v'] m IH]; cbn [dict_set map fst In app]; [reflexivity|].
  destruct (N.eqb_spec k' k) as [->|Hne]; intros H; [exfalso; apply H; left; reflexivity|].
  cbn [map fst]. rewrite IH; [reflexivity|]. intros Hin. apply H. right. exact Hin.
Qed.

Lemma dict_get_in {V} k (m : list (N * V)) v : dict_get k m = Some v -> In k (map fst m).
Proof.
  induction m as [|[k' v'] m IH]; cbn [dict_get map fst In]; [discriminate|].
  destruct (N.eqb_spec k' k) as [->|]; [left; reflexivity|right; auto].
Qed.

Lemma dict_get_none {V} k (m : list (N * V)) : dict_get k m = None <-> ~ In k (map fst m).
Proof.
  induction m as [|[k' v'] m IH]; cbn [dict_get map fst In]; [tauto|].
  destruct (N.eqb_spec k' k) as [->|Hne].
  - split; [discriminate|]. intros H. exfalso. apply H. left. reflexivity.
  - rewrite IH. tauto.
Qed.

Lemma NoDup_app_intro (a b : list N) :
  NoDup a -> NoDup b -> (forall x, In x a -> In x b -> False) -> NoDup (a ++ b).
Proof.
  induction a as [|x a IH]; intros Na Nb H; cbn [app]; [exact Nb|].
  inversion Na; subst. constructor.
  - rewrite in_app_iff. intros [H1|H1]; [contradiction|]. apply (H x); [left; reflexivity|exact H1].
  - apply IH; try assumption. intros y Hy. apply H. right. exact Hy.
Qed.

(** * The send queue *)

Definition tmp_id (s : ep) : list N := match tx_tmp s with Some (i, _) => [i] | None => [] end.
Definition stage_ids (s : ep) : list N := map fst (pend_start s) ++ tmp_id s ++ pend_ack s.

(** The part of the state and trace the send-queue statements speak about. *)
Record txv := mkTxv { v_keys : list N; v_next : N; v_ret : list N; v_fin : list N; v_stage : list N }.

Definition view (s : ep) : txv :=
  mkTxv (map fst (tx_map s)) (next_id s) (ret_ids (trace s)) (fin_ids (trace s)) (stage_ids s).

Record txq_v (v : txv) : Prop := {
  q_nodup : NoDup (v_keys v);
  q_lt : forall id, In id (v_ret v) -> id < v_next v;
  q_iff : forall id, In id (v_keys v) <-> (In id (v_ret v) /\ ~ In id (v_fin v));
  q_fin_nodup : NoDup (v_fin v);
  q_fin_ret : forall id, In id (v_fin v) -> In id (v_ret v);
  q_stage_nodup : NoDup (v_stage v);
  q_stage_incl : forall id, In id (v_stage v) -> In id (v_keys v)
}.

Definition txq (s : ep) : Prop := txq_v (view s).

(** Transfers [L] (queued, distinct) finish. *)
Lemma txq_finish L v :
  txq_v v -> NoDup L -> (forall id, In id L -> In id (v_keys v)) ->
  txq_v (mkTxv (filter (notin L) (v_keys v)) (v_next v) (v_ret v) (v_fin v ++ L)
               (filter (notin L) (v_stage v))).
Proof.
  intros [A B C D D' E F] NL HL. split; cbn [v_keys v_next v_ret v_fin v_stage].
  - apply NoDup_filter', A.
  - exact B.
  - intros id. rewrite filter_In, notin_true, in_app_iff, C. tauto.
  - apply NoDup_app_intro; [exact D|exact NL|].
    intros x Hx Hl. apply HL, C in Hl. tauto.
  - intros id. rewrite in_app_iff. intros [H|H]; [apply D', H|]. apply HL, C in H. tauto.
  - apply NoDup_filter', E.
  - intros id. rewrite !filter_In. intros [H1 H2]. split; [apply F, H1|exact H2].
Qed.

(** A new transfer, numbered [v_next], is queued. *)
Lemma txq_queue v stage' :
  txq_v v -> Permutation (v_next v :: v_stage v) stage' ->
  txq_v (mkTxv (v_keys v ++ [v_next v]) (v_next v + 1) (v_ret v ++ [v_next v]) (v_fin v) stage').
Proof.
  intros [A B C D D' E F] P.
  assert (Hnk : ~ In (v_next v) (v_keys v)).
  { intros H. apply C in H. destruct H as [H _]. apply B in H. lia. }
  assert (Hnf : ~ In (v_next v) (v_fin v)).
  { intros H. apply D', B in H. lia. }
  split; cbn [v_keys v_next v_ret v_fin v_stage].
  - apply NoDup_app_intro; [exact A|repeat constructor; intros []|].
    intros x Hx [<-|[]]. contradiction.
  - intros id. rewrite in_app_iff. intros [H|[<-|[]]]; [apply B in H|]; lia.
  - intros id. rewrite !in_app_iff, C. cbn [In]. split.
    + intros [[H1 H2]|[<-|[]]]; tauto.
    + intros [[H1|[<-|[]]] H2]; tauto.
  - exact D.
  - intros id H. apply in_or_app. left. apply D', H.
  - eapply Permutation_NoDup; [exact P|]. constructor; [|exact E].
    intros H. apply Hnk, F, H.
  - intros id H. apply Permutation_sym in P. apply (Permutation_in _ P) in H.
    apply in_or_app. destruct H as [<-|H]; [right; left; reflexivity|left; apply F, H].
Qed.

(** The transfers under way are reordered between the stages. *)
Lemma txq_perm v stage' :
  txq_v v -> Permutation (v_stage v) stage' ->
  txq_v (mkTxv (v_keys v) (v_next v) (v_ret v) (v_fin v) stage').
Proof.
  intros [A B C D D' E F] P. split; cbn [v_keys v_next v_ret v_fin v_stage]; try assumption.
  - eapply Permutation_NoDup; eassumption.
  - intros id H. apply Permutation_sym in P. apply F. eapply Permutation_in; eassumption.
Qed.

(** ** The model's transitions on the view *)

Lemma remove_N_notin x l : ~ In x l -> remove_N x l = l.
Proof.
  induction l as [|y l IH]; cbn [remove_N In]; intros H; [reflexivity|].
  destruct (N.eqb_spec y x) as [->|]; [exfalso; apply H; left; reflexivity|].
  rewrite IH; [reflexivity|]. intros Hin. apply H. right. exact Hin.
Qed.

Lemma filter_notin_id L l : (forall x, In x l -> ~ In x L) -> filter (notin L) l = l.
Proof. intros H. apply filter_all. intros x Hx. apply notin_true, H, Hx. Qed.

Lemma filter_notin_self L : filter (notin L) L = [].
Proof.
  assert (G : forall l, (forall x, In x l -> In x L) -> filter (notin L) l = []).
  { induction l as [|x l IH]; intros H; cbn [filter]; [reflexivity|].
    destruct (notin L x) eqn:E.
    - apply notin_true in E. exfalso. apply E, H. left. reflexivity.
    - apply IH. intros y Hy. apply H. right. exact Hy. }
  apply G. auto.
Qed.

Lemma NoDup_app_parts (a b : list N) :
  NoDup (a ++ b) -> NoDup a /\ NoDup b /\ (forall x, In x a -> In x b -> False).
Proof.
  induction a as [|x a IH]; cbn [app]; intros H.
  - split; [constructor|]. split; [exact H|]. intros x [].
  - inversion H as [|? ? Hx Hn]; subst. destruct (IH Hn) as (Na & Nb & Hd).
    split; [constructor; [|exact Na]; intros Hin; apply Hx, in_or_app; left; exact Hin|].
    split; [exact Nb|]. intros y [<-|Hy] Hb; [apply Hx, in_or_app; right; exact Hb|eapply Hd; eassumption].
Qed.

Ltac tr_norm :=
  rewrite ?ret_ids_app, ?fin_ids_app, ?ret_ids_flush, ?fin_ids_flush;
  cbn [ret_ids fin_ids flat_map ret_of fin_of app ev_rstart ev_rinter ev_rfin ev_sinter ev_sfin];
  rewrite ?app_nil_r.

Ltac view_same J :=
  unfold txq in *;
  match goal with |- txq_v (view ?s') =>
    match type of J with txq_v (view ?s) => replace (view s') with (view s); [exact J|] end end;
  unfold view, stage_ids, tmp_id; ep_unf; ep_cbn; repeat brk_any; tr_norm;
  try match goal with H : dict_get ?k (tx_map ?s) = Some _ |- context[dict_set ?k _ (tx_map ?s)] =>
        rewrite (keys_dict_set_in k) by (eapply dict_get_in; exact H) end;
  reflexivity.

Lemma txq_finish_c s s' L :
  txq s -> NoDup L -> (forall id, In id L -> In id (map fst (tx_map s))) ->
  map fst (tx_map s') = filter (notin L) (map fst (tx_map s)) ->
  next_id s' = next_id s ->
  ret_ids (trace s') = ret_ids (trace s) ->
  fin_ids (trace s') = fin_ids (trace s) ++ L ->
  stage_ids s' = filter (notin L) (stage_ids s) ->
  txq s'.
Proof.
  intros J NL HL E1 E2 E3 E4 E5. unfold txq, view. rewrite E1, E2, E3, E4, E5.
  apply (txq_finish L (view s) J NL HL).
Qed.

Lemma stage_parts s :
  NoDup (stage_ids s) ->
  NoDup (map fst (pend_start s)) /\ NoDup (tmp_id s) /\ NoDup (pend_ack s)
  /\ (forall x, In x (map fst (pend_start s)) -> ~ In x (tmp_id s) /\ ~ In x (pend_ack s))
  /\ (forall x, In x (tmp_id s) -> ~ In x (pend_ack s)).
Proof.
  unfold stage_ids. intros H. apply NoDup_app_parts in H. destruct H as (N1 & N23 & D1).
  apply NoDup_app_parts in N23. destruct N23 as (N2 & N3 & D2).
  repeat split; try assumption.
  - intros Hx. apply (D1 x H). apply in_or_app. left. exact Hx.
  - intros Hx. apply (D1 x H). apply in_or_app. right. exact Hx.
Qed.

(** Flushing the transfers not yet started. *)
Lemma txq_flush s s' :
  txq s ->
  map fst (tx_map s') = map fst (del_all (pend_start s) (tx_map s)) ->
  next_id s' = next_id s ->
  ret_ids (trace s') = ret_ids (trace s) ->
  fin_ids (trace s') = fin_ids (trace s) ++ map fst (pend_start s) ->
  stage_ids s' = tmp_id s ++ pend_ack s ->
  txq s'.
Proof.
  intros J E1 E2 E3 E4 E5.
  pose proof (q_stage_nodup _ J) as NS. pose proof (q_stage_incl _ J) as IS.
  pose proof (q_nodup _ J) as NK. cbn [view v_stage v_keys] in NS, IS, NK.
  destruct (stage_parts s NS) as (N1 & N2 & N3 & D1 & D2).
  apply (txq_finish_c s s' (map fst (pend_start s)) J N1); try assumption.
  - intros id H. apply IS. unfold stage_ids. apply in_or_app. left. exact H.
  - rewrite E1. apply keys_del_all, NK.
  - rewrite E5. unfold stage_ids. rewrite filter_app, filter_notin_self. cbn [app].
    symmetry. apply filter_notin_id. intros x Hx Hl. destruct (D1 x Hl) as [A B].
    apply in_app_or in Hx. tauto.
Qed.

(** One transfer [xid] finishes; the stages lose it. *)
Lemma txq_finish1 s s' xid :
  txq s -> In xid (map fst (tx_map s)) ->
  map fst (tx_map s') = remove_N xid (map fst (tx_map s)) ->
  next_id s' = next_id s ->
  ret_ids (trace s') = ret_ids (trace s) ->
  fin_ids (trace s') = fin_ids (trace s) ++ [xid] ->
  stage_ids s' = remove_N xid (map fst (pend_start s)) ++ filter (notin [xid]) (tmp_id s)
                 ++ remove_N xid (pend_ack s) ->
  txq s'.
Proof.
  intros J Hin E1 E2 E3 E4 E5.
  pose proof (q_stage_nodup _ J) as NS. pose proof (q_nodup _ J) as NK.
  cbn [view v_stage v_keys] in NS, NK.
  destruct (stage_parts s NS) as (N1 & N2 & N3 & D1 & D2).
  apply (txq_finish_c s s' [xid] J); try assumption.
  - repeat constructor. intros [].
  - intros id [<-|[]]. exact Hin.
  - rewrite E1. apply remove_N_filter, NK.
  - rewrite E5. unfold stage_ids. rewrite !filter_app, !remove_N_filter by assumption. reflexivity.
Qed.

Lemma txq_view_eq s s' : view s' = view s -> txq s -> txq s'.
Proof. unfold txq. intros ->. auto. Qed.

(** Closing: the transfers not yet started are reported finished and leave the
    queue together (nothing happens on an endpoint that is already closed). *)
Lemma txq_close s : txq s -> txq (do_close' s).
Proof.
  intros J. destruct (closed s) eqn:Hc.
  - apply (txq_view_eq s); [|exact J]. unfold view, stage_ids, tmp_id. ep_cbn. rewrite ?Hc. reflexivity.
  - apply (txq_flush s _ J); unfold stage_ids, tmp_id; ep_cbn; rewrite ?Hc; tr_norm; reflexivity.
Qed.

Ltac tx_close J :=
  match goal with |- txq ?Z =>
    match Z with context[do_close' ?X] =>
      apply (txq_view_eq (do_close' X) Z);
      [unfold view, stage_ids, tmp_id; ep_cbn; reflexivity
      |apply txq_close; first [exact J | view_same J]]
    end end.

Lemma txq_hm m s r : hm_spec m s r -> txq s -> txq (fst r).
Proof.
  intros H J. destruct H; has_end_split; cbn [fst].
  all: try solve [view_same J].
  - (* SESS_TERM while terminating *)
    apply (txq_flush s _ J); unfold stage_ids, tmp_id; ep_cbn; repeat brk_any; tr_norm; reflexivity.
  - (* SESS_TERM *)
    apply (txq_flush s _ J); unfold stage_ids, tmp_id; ep_cbn; repeat brk_any; tr_norm; reflexivity.
  - (* XFER_ACK, END *)
    pose proof (q_stage_nodup _ J) as NS. cbn [view v_stage] in NS.
    destruct (stage_parts s NS) as (N1 & N2 & N3 & D1 & D2).
    assert (Hpa : In xid (pend_ack s)) by (apply mem_N_In; assumption).
    assert (Hps : ~ In xid (map fst (pend_start s))) by (intros X; destruct (D1 _ X); tauto).
    assert (Htmp : ~ In xid (tmp_id s)) by (intros X; apply (D2 _ X); exact Hpa).
    apply (txq_finish1 s _ xid J); [eapply dict_get_in; eassumption|..];
      unfold stage_ids, tmp_id in *; ep_cbn; repeat brk_any; tr_norm; try reflexivity.
    all: try (rewrite keys_dict_del, (keys_dict_set_in xid) by (eapply dict_get_in; eassumption);
              reflexivity).
    all: rewrite (remove_N_notin xid (map fst (pend_start s))) by exact Hps.
    all: try reflexivity.
    all: rewrite filter_notin_id; [reflexivity|]; intros x [<-|[]] [E|[]]; apply Htmp; left; symmetry; exact E.
  - (* XFER_REFUSE of the transfer being sent *)
    apply (txq_finish1 s _ xid J); [eapply dict_get_in; eassumption|..];
      unfold stage_ids, tmp_id, tx_cur_is in *; ep_cbn; repeat brk_any; tr_norm; try reflexivity.
    all: rewrite ?keys_dict_del; try reflexivity; try discriminate.
    all: unfold notin, mem_N; cbn [filter existsb]; rewrite ?orb_false_r;
         repeat match goal with H : (_ =? _) = _ |- _ => rewrite H end; cbn [negb app]; reflexivity.
  - (* XFER_REFUSE of another transfer *)
    apply (txq_finish1 s _ xid J); [eapply dict_get_in; eassumption|..];
      unfold stage_ids, tmp_id, tx_cur_is in *; ep_cbn; repeat brk_any; tr_norm; try reflexivity.
    all: rewrite ?keys_dict_del; try reflexivity; try discriminate.
    all: unfold notin, mem_N; cbn [filter existsb]; rewrite ?orb_false_r;
         repeat match goal with H : (_ =? _) = _ |- _ => rewrite H end; cbn [negb app]; reflexivity.
Qed.

Lemma txq_rf f s r : rf_spec f s r -> txq s -> txq (fst r).
Proof.
  intros H J. destruct H.
  7-9: (apply txq_hm in H; [|exact J]; cbn [fst] in *; try exact H; view_same H).
  all: first [solve [view_same J] | tx_close J].
Qed.

Lemma txq_upd s rest fr : txq s -> txq (s <| rx_buf := rest |> <| handled := handled s ++ [fr] |>).
Proof. intros J. exact J. Qed.

Lemma txq_recv_loop fuel s : txq s -> txq (fst (recv_loop fuel s)).
Proof.
  apply recv_loop_inv. intros s0 fr rest J _ _.
  apply (txq_rf fr _ _ (recv_frame_spec fr _)), txq_upd, J.
Qed.

Lemma txq_queue_c s s' :
  txq s ->
  map fst (tx_map s') = map fst (tx_map s) ++ [next_id s] ->
  next_id s' = next_id s + 1 ->
  ret_ids (trace s') = ret_ids (trace s) ++ [next_id s] ->
  fin_ids (trace s') = fin_ids (trace s) ->
  Permutation (next_id s :: stage_ids s) (stage_ids s') ->
  txq s'.
Proof.
  intros J E1 E2 E3 E4 P. unfold txq, view. rewrite E1, E2, E3, E4.
  apply (txq_queue (view s) _ J P).
Qed.

Lemma txq_perm_c s s' :
  txq s ->
  map fst (tx_map s') = map fst (tx_map s) -> next_id s' = next_id s ->
  ret_ids (trace s') = ret_ids (trace s) -> fin_ids (trace s') = fin_ids (trace s) ->
  Permutation (stage_ids s) (stage_ids s') ->
  txq s'.
Proof.
  intros J E1 E2 E3 E4 P. unfold txq, view. rewrite E1, E2, E3, E4.
  apply (txq_perm (view s) _ J P).
Qed.

Ltac perm_case J :=
  apply (txq_perm_c _ _ J); unfold stage_ids, tmp_id; ep_cbn; tr_norm; try reflexivity;
  repeat match goal with
         | H : pend_start _ = _ |- _ => rewrite H
         | H : tx_tmp _ = _ |- _ => rewrite H
         end;
  cbn [app map fst];
  first [ apply Permutation_app_head; apply Permutation_cons_append
        | apply Permutation_middle
        | rewrite app_assoc; apply Permutation_cons_append ].

Lemma txq_step s o : txq s -> txq (step s o).
Proof.
  intros J. destruct o; cbn [step].
  7:{ destruct (closed s); [exact J|].
      destruct (is_nil data || negb (rx_alive s)); [exact J|]. unfold recv_raw.
      match goal with |- context[recv_loop ?f ?x] =>
        pose proof (txq_recv_loop f x) as L; destruct (recv_loop f x) as [s' r] end.
      cbn [fst] in L. assert (J' : txq s') by (apply L; exact J).
      destruct r; [|exact J']. view_same J'. }
  all: try (unfold tx_proxy); try (unfold process_queue, send_next); try (unfold send_sess_term).
  all: brk.
  all: try solve [view_same J].
  all: try solve [tx_close J].
  - (* OSend *)
    assert (Hn : ~ In (next_id s) (map fst (tx_map s))).
    { intros X. apply (q_iff _ J) in X. destruct X as [X _]. apply (q_lt _ J) in X.
      cbn [view v_next] in X. lia. }
    apply (txq_queue_c s _ J); unfold stage_ids, tmp_id; ep_cbn; tr_norm; try reflexivity.
    + apply keys_dict_set_new, Hn.
    + rewrite map_app. cbn [map fst]. rewrite <- app_assoc. cbn [app]. apply Permutation_middle.
  - perm_case J.
  - perm_case J.
  - perm_case J.
  - perm_case J.
  - perm_case J.
  - perm_case J.
  - perm_case J.
Qed.

Lemma txq_init c : txq (init c).
Proof.
  split; cbn; try constructor; try tauto; intros id; try tauto; intros [].
Qed.

Lemma txq_run c ops : txq (run c ops).
Proof. apply run_invariant; [apply txq_init|]. intros s o. apply txq_step. Qed.

(** ** 18b, send side *)

(** The send queue holds exactly the transfers queued and not yet finished. *)
Theorem tx_queue : forall c ops id,
  let s := run c ops in
  In id (q_tx_queue s) <->
  (In (ERet 1 (PStrNum id)) (trace s)
   /\ ~ exists len r, In (ESig SigSendFinished [PStrNum id; PInt len; PStr r]) (trace s)).
Proof.
  intros c ops id s. pose proof (q_iff _ (txq_run c ops) id) as H. cbn [view v_keys v_ret v_fin] in H.
  fold s in H. unfold q_tx_queue. rewrite H, in_ret_ids, in_fin_ids. reflexivity.
Qed.

(** No transfer is reported finished twice ([fin_ids]: the ids of the
    send_bundle_finished signals of the trace, in order). *)
Theorem finished_at_most_once : forall c ops, NoDup (fin_ids (trace (run c ops))).
Proof. intros c ops. exact (q_fin_nodup _ (txq_run c ops)). Qed.

Theorem finished_at_most_once_split : forall c ops id l1 r1 l2 r2 a b d,
  trace (run c ops) = a ++ ESig SigSendFinished [PStrNum id; PInt l1; PStr r1] :: b
                        ++ ESig SigSendFinished [PStrNum id; PInt l2; PStr r2] :: d -> False.
Proof.
  intros c ops id l1 r1 l2 r2 a b d E. pose proof (finished_at_most_once c ops) as N.
  rewrite E in N. rewrite fin_ids_app in N. apply NoDup_app_parts in N. destruct N as (_ & N & _).
  change (ESig SigSendFinished [PStrNum id; PInt l1; PStr r1] :: b ++
          ESig SigSendFinished [PStrNum id; PInt l2; PStr r2] :: d)
    with ([ESig SigSendFinished [PStrNum id; PInt l1; PStr r1]] ++ b ++
          [ESig SigSendFinished [PStrNum id; PInt l2; PStr r2]] ++ d) in N.
  rewrite !fin_ids_app in N. cbn [fin_ids flat_map fin_of app] in N.
  inversion N as [|? ? Hn _]; subst. apply Hn. apply in_or_app. right. left. reflexivity.
Qed.

(** Every finished transfer had been queued, with an id below the next one. *)
Theorem finished_was_queued : forall c ops id len r,
  let s := run c ops in
  In (ESig SigSendFinished [PStrNum id; PInt len; PStr r]) (trace s) ->
  In (ERet 1 (PStrNum id)) (trace s) /\ id < next_id s.
Proof.
  intros c ops id len r s H. pose proof (txq_run c ops) as J. fold s in J.
  assert (Hf : In id (fin_ids (trace s))) by (apply in_fin_ids; eauto).
  pose proof (q_fin_ret _ J id Hf) as Hr. cbn [view v_ret] in Hr.
  split; [apply in_ret_ids, Hr|]. exact (q_lt _ J id Hr).
Qed.

(** * The receive queue *)

(** The receive-side log of a trace: [(id, true)] for recv_bundle_finished(id),
    [(id, false)] for a successful recv_bundle_pop_data(id). *)
Definition rxlog_of (e : event) : list (N * bool) :=
  match e with
  | ESig SigRecvFinished (PStrNum id :: _) => [(id, true)]
  | EPop id _ => [(id, false)]
  | _ => []
  end.
Definition rx_log (tr : list event) : list (N * bool) := flat_map rxlog_of tr.
(** Is the last entry about [id] a delivery? *)
Definition last_is_delivery (id : N) (log : list (N * bool)) : bool :=
  fold_left (fun b (p : N * bool) => if fst p =? id then snd p else b) log false.
Definition rx_avail (id : N) (tr : list event) : bool := last_is_delivery id (rx_log tr).

Lemma rx_log_app a b : rx_log (a ++ b) = rx_log a ++ rx_log b.
Proof. apply flat_map_app. Qed.

Lemma last_snoc id log p :
  last_is_delivery id (log ++ [p]) = if fst p =? id then snd p else last_is_delivery id log.
Proof. unfold last_is_delivery. rewrite fold_left_app. reflexivity. Qed.

Record rxq_v (keys : list N) (log : list (N * bool)) : Prop := {
  r_nodup : NoDup keys;
  r_iff : forall id, In id keys <-> last_is_delivery id log = true
}.
Definition rxq (s : ep) : Prop := rxq_v (map fst (rx_map s)) (rx_log (trace s)).

Lemma keys_dict_set {V} k (v : V) m :
  map fst (dict_set k v m) = if mem_N k (map fst m) then map fst m else map fst m ++ [k].
Proof.
  destruct (mem_N k (map fst m)) eqn:E.
  - apply keys_dict_set_in, mem_N_In, E.
  - apply keys_dict_set_new. intros H. apply mem_N_In in H. congruence.
Qed.

Lemma rxq_add keys log xid :
  rxq_v keys log ->
  rxq_v (if mem_N xid keys then keys else keys ++ [xid]) (log ++ [(xid, true)]).
Proof.
  intros [A B]. split.
  - destruct (mem_N xid keys) eqn:E; [exact A|].
    apply NoDup_app_intro; [exact A|repeat constructor; intros []|].
    intros x Hx [<-|[]]. apply mem_N_In in Hx. congruence.
  - intros id. rewrite last_snoc. cbn [fst snd].
    destruct (N.eqb_spec xid id) as [->|Hne].
    + split; [reflexivity|]. intros _. destruct (mem_N id keys) eqn:E.
      * apply mem_N_In, E.
      * apply in_or_app. right. left. reflexivity.
    + rewrite <- B. destruct (mem_N xid keys); [tauto|]. rewrite in_app_iff. cbn [In]. tauto.
Qed.

Lemma rxq_del keys log xid :
  rxq_v keys log -> rxq_v (remove_N xid keys) (log ++ [(xid, false)]).
Proof.
  intros [A B]. split.
  - rewrite remove_N_filter by exact A. apply NoDup_filter', A.
  - intros id. rewrite last_snoc. cbn [fst snd]. rewrite remove_N_filter by exact A.
    rewrite filter_In, notin_true. cbn [In].
    destruct (N.eqb_spec xid id) as [->|Hne].
    + split; [intros [_ H]; exfalso; apply H; left; reflexivity|discriminate].
    + rewrite <- B. split; [tauto|]. intros H. split; [exact H|]. intros [E|[]]. congruence.
Qed.

Ltac rx_norm :=
  rewrite ?rx_log_app;
  cbn [rx_log flat_map rxlog_of app ev_rstart ev_rinter ev_rfin ev_sinter ev_sfin];
  rewrite ?app_nil_r.

Lemma rx_log_flush l : rx_log (map fin_term_ev l) = [].
Proof. unfold rx_log. induction l as [|a l IH]; [reflexivity|]. cbn [map flat_map rxlog_of fin_term_ev app]. exact IH. Qed.

Ltac rx_same J :=
  unfold rxq in *;
  match goal with |- rxq_v ?k' ?l' =>
    match type of J with rxq_v ?k ?l => replace k' with k; [replace l' with l; [exact J|]|] end end;
  ep_unf; ep_cbn; repeat brk_any; rx_norm; rewrite ?rx_log_flush, ?app_nil_r; reflexivity.

Lemma rxq_add_c s s' xid :
  rxq s ->
  map fst (rx_map s') = (if mem_N xid (map fst (rx_map s)) then map fst (rx_map s)
                         else map fst (rx_map s) ++ [xid]) ->
  rx_log (trace s') = rx_log (trace s) ++ [(xid, true)] ->
  rxq s'.
Proof. intros J E1 E2. unfold rxq. rewrite E1, E2. apply rxq_add, J. Qed.

Lemma rxq_hm m s r : hm_spec m s r -> rxq s -> rxq (fst r).
Proof.
  intros H J. destruct H; has_end_split; cbn [fst].
  all: try solve [rx_same J].
  all: apply (rxq_add_c s _ xid J); ep_cbn;
       [apply keys_dict_set | repeat brk_any; rx_norm; reflexivity].
Qed.

Lemma rxq_rf f s r : rf_spec f s r -> rxq s -> rxq (fst r).
Proof.
  intros H J. destruct H.
  7-9: (apply rxq_hm in H; [|exact J]; cbn [fst] in *; try exact H; rx_same H).
  all: rx_same J.
Qed.

Lemma rxq_recv_loop fuel s : rxq s -> rxq (fst (recv_loop fuel s)).
Proof.
  apply recv_loop_inv. intros s0 fr rest J _ _.
  apply (rxq_rf fr _ _ (recv_frame_spec fr _)). exact J.
Qed.

Lemma rxq_step s o : rxq s -> rxq (step s o).
Proof.
  intros J. destruct o; cbn [step].
  7:{ destruct (closed s); [exact J|].
      destruct (is_nil data || negb (rx_alive s)); [exact J|]. unfold recv_raw.
      match goal with |- context[recv_loop ?f ?x] =>
        pose proof (rxq_recv_loop f x) as L; destruct (recv_loop f x) as [s' r] end.
      cbn [fst] in L. assert (J' : rxq s') by (apply L; exact J).
      destruct r; [|exact J']. rx_same J'. }
  all: try (unfold tx_proxy); try (unfold process_queue, send_next); try (unfold send_sess_term).
  all: brk.
  all: try solve [rx_same J].
  (* a successful pop *)
  unfold rxq in *. ep_cbn. rx_norm. rewrite keys_dict_del. apply rxq_del, J.
Qed.

Lemma rxq_init c : rxq (init c).
Proof. split; cbn; [constructor|]. intros id. split; [intros []|discriminate]. Qed.

Lemma rxq_run c ops : rxq (run c ops).
Proof. apply run_invariant; [apply rxq_init|]. intros s o. apply rxq_step. Qed.

(** ** 18b, receive side *)

(** The receive queue holds exactly the transfers whose last event among
    recv_bundle_finished / recv_bundle_pop_data is a recv_bundle_finished. *)
Theorem rx_queue : forall c ops id,
  let s := run c ops in In id (q_rx_queue s) <-> rx_avail id (trace s) = true.
Proof. intros c ops id s. exact (r_iff _ _ (rxq_run c ops) id). Qed.

Theorem rx_queue_nodup : forall c ops, NoDup (q_rx_queue (run c ops)).
Proof. intros c ops. exact (r_nodup _ _ (rxq_run c ops)). Qed.

(** A pop removes the transfer: popping the same id again without a new
    delivery in between is answered with KeyError. *)
Theorem pop_once : forall c ops id,
  let s := run c ops in
  closed s = false -> rx_avail id (trace s) = false ->
  step s (OPop id) = emit (EExc EX_KEY) s.
Proof.
  intros c ops id s Hc Ha. cbn [step]. rewrite Hc.
  destruct (dict_get id (rx_map s)) as [d|] eqn:Hg; [|reflexivity].
  apply dict_get_in in Hg. apply (rx_queue c ops id) in Hg. fold s in Hg. congruence.
Qed.

Lemma rx_avail_after_pop id d tr evs :
  (forall e, In e evs -> forall b, In (id, b) (rxlog_of e) -> b = false) ->
  rx_avail id (tr ++ [EPop id d] ++ evs) = false.
Proof.
  intros H. unfold rx_avail. rewrite !rx_log_app. cbn [rx_log flat_map rxlog_of app].
  unfold last_is_delivery. rewrite !fold_left_app. cbn [fold_left fst snd]. rewrite N.eqb_refl.
  assert (G : forall log, (forall p, In p log -> fst p = id -> snd p = false) ->
              fold_left (fun b (p : N * bool) => if fst p =? id then snd p else b) log false = false).
  { induction log as [|p log IH]; intros Hl; cbn [fold_left]; [reflexivity|].
    destruct (N.eqb_spec (fst p) id) as [E|E].
    - rewrite (Hl p (or_introl eq_refl) E). apply IH. intros q Hq. apply Hl. right. exact Hq.
    - apply IH. intros q Hq. apply Hl. right. exact Hq. }
  apply G. intros [i b] Hp E. cbn [fst snd] in *. subst i.
  apply in_flat_map in Hp. destruct Hp as [e [He Hi]]. eapply H; eassumption.
Qed.

(** * A transfer reported finished with success had been reported started *)

(** [(id, true)] for send_bundle_started(id), [(id, false)] for
    send_bundle_finished(id, _, 'success'). *)
Definition sblog_of (e : event) : list (N * bool) :=
  match e with
  | ESig SigSendStarted [PStrNum id; PInt _] => [(id, true)]
  | ESig SigSendFinished [PStrNum id; PInt _; PStr r] => if r =? RES_SUCCESS then [(id, false)] else []
  | _ => []
  end.
Definition sb_log (tr : list event) : list (N * bool) := flat_map sblog_of tr.
Definition started_l (log : list (N * bool)) : list N := map fst (filter snd log).

(** Every success entry is preceded by a start entry for the same id. *)
Fixpoint chkl (st : list N) (log : list (N * bool)) : Prop :=
  match log with
  | [] => True
  | (id, true) :: r => chkl (st ++ [id]) r
  | (id, false) :: r => In id st /\ chkl st r
  end.

Lemma sb_log_app a b : sb_log (a ++ b) = sb_log a ++ sb_log b.
Proof. apply flat_map_app. Qed.

Lemma started_l_app a b : started_l (a ++ b) = started_l a ++ started_l b.
Proof. unfold started_l. rewrite filter_app, map_app. reflexivity. Qed.

Lemma chkl_app a : forall st b, chkl st (a ++ b) <-> chkl st a /\ chkl (st ++ started_l a) b.
Proof.
  induction a as [|[id [|]] a IH]; intros st b; cbn [app chkl].
  - unfold started_l. cbn. rewrite app_nil_r. tauto.
  - rewrite IH. unfold started_l. cbn [filter snd map fst]. rewrite <- app_assoc. reflexivity.
  - rewrite IH. unfold started_l. cbn [filter snd map fst]. tauto.
Qed.

Record sbf_v (log : list (N * bool)) (ids : list N) : Prop := {
  sb_chk : chkl [] log;
  sb_ids : forall id, In id ids -> In id (started_l log)
}.
Definition sbf (s : ep) : Prop := sbf_v (sb_log (trace s)) (tmp_id s ++ pend_ack s).

Lemma sb_sub log ids ids' : sbf_v log ids -> (forall id, In id ids' -> In id ids) -> sbf_v log ids'.
Proof. intros [A B] H. split; [exact A|]. intros id Hi. apply B, H, Hi. Qed.

Lemma sb_start log ids ids' n :
  sbf_v log ids -> (forall id, In id ids' -> id = n \/ In id ids) -> sbf_v (log ++ [(n, true)]) ids'.
Proof.
  intros [A B] H. split.
  - apply chkl_app. split; [exact A|]. exact I.
  - intros id Hi. rewrite started_l_app. apply in_or_app. destruct (H id Hi) as [->|Hd].
    + right. left. reflexivity.
    + left. apply B, Hd.
Qed.

Lemma sb_succ log ids ids' x :
  sbf_v log ids -> In x ids -> (forall id, In id ids' -> In id ids) -> sbf_v (log ++ [(x, false)]) ids'.
Proof.
  intros [A B] Hx H. split.
  - apply chkl_app. split; [exact A|]. cbn [chkl app]. split; [apply B, Hx|exact I].
  - intros id Hi. rewrite started_l_app. apply in_or_app. left. apply B, H, Hi.
Qed.

Lemma In_remove_N x k l : In x (remove_N k l) -> In x l.
Proof.
  induction l as [|y l IH]; cbn [remove_N In]; [tauto|].
  destruct (y =? k); [tauto|]. cbn [In]. tauto.
Qed.

Lemma sblog_refused xid ack reason : sblog_of (ev_sfin xid ack (RES_REFUSED reason)) = [].
Proof.
  unfold ev_sfin, sblog_of, RES_REFUSED, RES_SUCCESS.
  destruct (N.eqb_spec (100 + reason) 0); [lia|reflexivity].
Qed.

Lemma sb_log_flush l : sb_log (map fin_term_ev l) = [].
Proof. unfold sb_log. induction l as [|a l IH]; [reflexivity|]. cbn [map flat_map sblog_of fin_term_ev app]. exact IH. Qed.

Ltac sb_norm :=
  rewrite ?sb_log_app, ?sb_log_flush;
  cbn [sb_log flat_map app];
  rewrite ?sblog_refused;
  cbn [sblog_of app ev_rstart ev_rinter ev_rfin ev_sinter ev_sfin N.eqb RES_SUCCESS RES_TERMINATING Pos.eqb];
  rewrite ?app_nil_r.

Ltac sb_same J :=
  unfold sbf in *;
  match goal with |- sbf_v ?l' ?k' =>
    match type of J with sbf_v ?l ?k => replace l' with l; [replace k' with k; [exact J|]|] end end;
  unfold tmp_id; ep_unf; ep_cbn; repeat brk_any; sb_norm; reflexivity.

Lemma sbf_succ_c s s' x :
  sbf s -> In x (tmp_id s ++ pend_ack s) ->
  sb_log (trace s') = sb_log (trace s) ++ [(x, false)] ->
  (forall id, In id (tmp_id s' ++ pend_ack s') -> In id (tmp_id s ++ pend_ack s)) ->
  sbf s'.
Proof. intros J Hx E H. unfold sbf. rewrite E. eapply sb_succ; eassumption. Qed.

Lemma sbf_sub_c s s' :
  sbf s -> sb_log (trace s') = sb_log (trace s) ->
  (forall id, In id (tmp_id s' ++ pend_ack s') -> In id (tmp_id s ++ pend_ack s)) ->
  sbf s'.
Proof. intros J E H. unfold sbf. rewrite E. eapply sb_sub; eassumption. Qed.

Lemma sbf_start_c s s' n :
  sbf s -> sb_log (trace s') = sb_log (trace s) ++ [(n, true)] ->
  (forall id, In id (tmp_id s' ++ pend_ack s') -> id = n \/ In id (tmp_id s ++ pend_ack s)) ->
  sbf s'.
Proof. intros J E H. unfold sbf. rewrite E. eapply sb_start; eassumption. Qed.

Ltac sub_ids :=
  intros id; unfold tmp_id, tx_cur_is in *; ep_cbn; repeat brk_any; rewrite ?in_app_iff; cbn [In];
  intros Hid; repeat match goal with
                     | H : _ \/ _ |- _ => destruct H
                     | H : In _ (remove_N _ _) |- _ => apply In_remove_N in H
                     | H : False |- _ => destruct H
                     end; subst; try discriminate; auto.

Lemma sbf_hm m s r : hm_spec m s r -> sbf s -> sbf (fst r).
Proof.
  intros H J. destruct H; has_end_split; cbn [fst].
  all: try solve [sb_same J].
  - apply (sbf_succ_c s _ xid J).
    + apply in_or_app. right. apply mem_N_In. assumption.
    + ep_cbn. repeat brk_any; sb_norm; reflexivity.
    + sub_ids.
  - apply (sbf_sub_c s _ J); [ep_cbn; repeat brk_any; sb_norm; reflexivity|sub_ids].
  - apply (sbf_sub_c s _ J); [ep_cbn; repeat brk_any; sb_norm; reflexivity|sub_ids].
Qed.

Lemma sbf_rf f s r : rf_spec f s r -> sbf s -> sbf (fst r).
Proof.
  intros H J. destruct H.
  7-9: (apply sbf_hm in H; [|exact J]; cbn [fst] in *; try exact H; sb_same H).
  all: sb_same J.
Qed.

Lemma sbf_recv_loop fuel s : sbf s -> sbf (fst (recv_loop fuel s)).
Proof.
  apply recv_loop_inv. intros s0 fr rest J _ _.
  apply (sbf_rf fr _ _ (recv_frame_spec fr _)). exact J.
Qed.

Ltac ids_tac :=
  intros id; unfold tmp_id; ep_cbn;
  repeat match goal with H : tx_tmp _ = _ |- _ => rewrite H end;
  rewrite ?in_app_iff; cbn [In]; intuition (subst; auto).

Lemma sbf_step s o : sbf s -> sbf (step s o).
Proof.
  intros J. destruct o; cbn [step].
  7:{ destruct (closed s); [exact J|].
      destruct (is_nil data || negb (rx_alive s)); [exact J|]. unfold recv_raw.
      match goal with |- context[recv_loop ?f ?x] =>
        pose proof (sbf_recv_loop f x) as L; destruct (recv_loop f x) as [s' r] end.
      cbn [fst] in L. assert (J' : sbf s') by (apply L; exact J).
      destruct r; [|exact J']. sb_same J'. }
  all: try (unfold tx_proxy); try (unfold process_queue, send_next); try (unfold send_sess_term).
  all: brk.
  all: try solve [sb_same J].
  all: first
    [ match goal with |- sbf ?X =>
        match X with context[ESig SigSendStarted [PStrNum ?n; _]] => apply (sbf_start_c s _ n J) end end;
      [ep_cbn; sb_norm; reflexivity|ids_tac]
    | apply (sbf_sub_c s _ J); [ep_cbn; sb_norm; reflexivity|ids_tac] ].
Qed.

Lemma sbf_init c : sbf (init c).
Proof. split; cbn; [exact I|intros id []]. Qed.

Lemma sbf_run c ops : sbf (run c ops).
Proof. apply run_invariant; [apply sbf_init|]. intros s o. apply sbf_step. Qed.

Lemma in_started_l id tr :
  In id (started_l (sb_log tr)) -> exists n, In (ESig SigSendStarted [PStrNum id; PInt n]) tr.
Proof.
  unfold started_l, sb_log. rewrite in_map_iff. intros [[i b] [E H]]. cbn [fst] in E. subst i.
  apply filter_In in H. destruct H as [H Hb]. cbn [snd] in Hb. subst b.
  apply in_flat_map in H. destruct H as [e [He Hi]].
  destruct e as [sg args| | | |]; try contradiction.
  destruct sg; try contradiction.
  - destruct args as [|[] [|[] [|]]]; try contradiction.
    destruct Hi as [Hi|[]]. injection Hi as <-. eauto.
  - destruct args as [|[] [|[] [|[] [|]]]]; try contradiction.
    cbn [sblog_of] in Hi. destruct (tag =? RES_SUCCESS); [|contradiction].
    destruct Hi as [Hi|[]]. discriminate Hi.
Qed.

(** ** 18b: started before finished with success *)
Theorem started_before_finished_success : forall c ops id len pre post,
  trace (run c ops) = pre ++ ESig SigSendFinished [PStrNum id; PInt len; PStr RES_SUCCESS] :: post ->
  exists n, In (ESig SigSendStarted [PStrNum id; PInt n]) pre.
Proof.
  intros c ops id len pre post E. pose proof (sb_chk _ _ (sbf_run c ops)) as C.
  rewrite E in C. rewrite sb_log_app in C. apply chkl_app in C. destruct C as [_ C].
  cbn [sb_log flat_map sblog_of N.eqb RES_SUCCESS app chkl] in C. destruct C as [C _].
  cbn [app] in C. apply in_started_l, C.
Qed.
