''' C02 -- BPv7 bundle encoding round-trips and is RFC 9171 well-formed.

  1. proofs: coq/Props/C02.v (round trip, re-encoding of canonical octets, RFC 9171 shape, item counts,
     EID / status-report round trips, the two `_refuted` witnesses and the guard lemmas) re-checked by coqc;
  2. correspondence of coq/Model/Bundle.v with the real `bp.encoding` classes on the same inputs
       enc    bytes(Bundle(...)) built four ways (BTSD octets / typed scapy payloads  x  given CRC octets /
              the code's update_all_crc)                     vs  impl_encode_bundle, with_crc_bundle
       dec    Bundle(octets of the INDEPENDENT cbor2 encoder) field values and bytes(Bundle(octets))
                                                             vs  decode_bundle, impl_encode_bundle
       sr     AdminRecord(BTSD) of every generated status report   vs  decode_status_report
       views  previous node / bundle age / hop count BTSD    vs  decode_prev_node / _bundle_age / _hop_count
  3. the property oracle (harness/bundlegen.py: encoder, strict decoder, CRCs and shape test written from
     RFC 9171 with plain cbor2; never the repo classes, never the model) on every observation of the real code:
       (a) every way of building the bundle encodes to the independent encoder's octets,
       (b) decoding those octets yields the same field values (and the same administrative record),
       (c) re-encoding the decoded bundle reproduces the octets,
       (d) plain cbor2.loads reads the RFC 9171 structure (0x9f .. 0xff, 8..11 / 5..6 items, payload last);
     also on octets the BP agent hands to a (fake) convergence layer when forwarding.
  4. a malformed / lax stream (definite outer array, trailing octets, negative integers, missing CRC, wrong
     item counts, payload not last, duplicate block numbers, ...): model-vs-implementation acceptance is
     tabulated in the evidence; it is NOT part of the verdict (the property quantifies over well-formed
     bundles and over octets of an RFC 9171 encoder).
'''
import env  # noqa: F401  (first)
env.shim_oscrypto()

import glob
import hashlib
import itertools
import json
import os
import sys

import cbor2

from common import Check, CoqError, VERIF
import bundlegen as bg

SIG_QUERY = 'C02 / dtn EID with query or fragment loses it through urlsplit'
SIG_REASON = 'C02 / status report with a reason code outside StatusReport.ReasonCode (e.g. 11) cannot be decoded or built'
SIG_ADMIN_FRAG = 'C02 / fragment of an administrative-record bundle (PAYLOAD_ADMIN|IS_FRAGMENT, partial record) cannot be decoded'
# Genuine defects of the unchanged code (witnesses in harness/corpus/C02_*.json).  They are listed as known in
# known_findings.json, so they go through chk.fail() and print KNOWN-FINDING.  (A signature listed here but NOT in
# known_findings.json would be printed as PENDING-FINDING without failing the run - used while a decision is open.)
PENDING_FINDINGS = [SIG_QUERY, SIG_REASON, SIG_ADMIN_FRAG]

IMPL_REASONS = list(range(0, 11)) + list(range(12, 17))      # only used to steer the generator
# (via_payload, update_crc, time_as): how the real Bundle is built.  The last three hand every DTN time to the
# implementation as a datetime / ISO text (DtnTimeField.any2i -> datetime_to_dtntime) instead of the integer.
MODES = [(False, False, 'int'), (False, True, 'int'), (True, False, 'int'), (True, True, 'int'),
         (False, True, 'datetime'), (True, True, 'datetime'), (True, True, 'iso')]
SIG_TIME = "C02 / DTN time given as datetime or ISO text is not encoded as the exact integer ms since the DTN epoch"


# ---------------------------------------------------------------------------------------------- real code

def exc_name(err):
    return 'raise:' + err.__class__.__name__


def impl_encode_modes(spec):
    out = []
    for (via, upd, time_as) in MODES:
        try:
            out.append(bytes(bg.build_real(spec, via_payload=via, update_crc=upd, time_as=time_as)).hex())
        except Exception as err:
            out.append(exc_name(err))
    return out


def impl_decode(raw):
    ''' Bundle(raw): field values, parsed administrative record, check_all_crc, re-encoding. '''
    import bp.encoding as enc
    try:
        bundle = enc.Bundle(bytes(raw))
    except Exception as err:
        return dict(ok=False, exc=exc_name(err))
    obs = dict(ok=True)
    try:
        obs['spec'] = bg.spec_of_real(bundle)
    except Exception as err:
        obs['spec'] = exc_name(err)
    try:
        obs['admin'] = [bg.admin_of_real(blk) for blk in bundle.blocks]
    except Exception as err:
        obs['admin'] = exc_name(err)
    try:
        # the decoded DTN times as the instants the implementation shows for them (i2h -> dtntime_to_datetime)
        times = [bundle.primary.getfieldval('create_ts').getfieldval('dtntime')]
        for rec in (obs['admin'] if isinstance(obs['admin'], list) else []):
            if rec and rec.get('type') == 1:
                times += [when for (_f, when) in rec['status'] if when is not None] + [rec['time']]
        obs['instants'] = [[val, str(enc.DtnTimeField.dtntime_to_datetime(val))] for val in times
                           if isinstance(val, int) and 0 < val <= bg.MAX_DATETIME_MS]
    except Exception as err:
        obs['instants'] = exc_name(err)
    try:
        obs['crc_fail'] = sorted(bundle.check_all_crc())
    except Exception as err:
        obs['crc_fail'] = exc_name(err)
    try:
        obs['reenc'] = bytes(bundle).hex()
    except Exception as err:
        obs['reenc'] = exc_name(err)
    return obs


def impl_admin(data):
    import bp.encoding as enc
    try:
        rec = enc.AdminRecord(bytes(data))
        blk = enc.CanonicalBlock() / rec
        return dict(ok=True, rec=bg.admin_of_real(blk), reenc=bytes(rec).hex())
    except Exception as err:
        return dict(ok=False, exc=exc_name(err))


def impl_views(blk):
    ''' What the implementation parsed out of a typed extension block, as a small tuple. '''
    import bp.encoding as enc
    pay = blk.payload
    if isinstance(pay, enc.PreviousNodeBlock):
        return ['prev_node', pay.getfieldval('node')]
    if isinstance(pay, enc.BundleAgeBlock):
        return ['age', pay.getfieldval('age')]
    if isinstance(pay, enc.HopCountBlock):
        return ['hop', pay.getfieldval('limit'), pay.getfieldval('count')]
    return None


# ---------------------------------------------------------------------------------------------- oracle

def all_eids(spec):
    eids = [spec['dest'], spec['src'], spec['report_to']]
    for blk in spec['blocks']:
        view = blk.get('view') or {}
        if view.get('kind') == 'prev_node':
            eids.append(view['eid'])
        if view.get('kind') == 'admin' and view['record']['type'] == 1:
            eids.append(view['record']['src'])
    return eids


def classify(spec):
    ''' Signature of the input class (only used once the oracle has failed). '''
    if any(('?' in eid or '#' in eid) for eid in all_eids(spec)):
        return SIG_QUERY
    for blk in spec['blocks']:
        view = blk.get('view') or {}
        if view.get('kind') == 'admin' and view['record']['type'] == 1 and view['record']['reason'] not in IMPL_REASONS:
            return SIG_REASON
    if (spec['flags'] & 3) == 3 and any(blk['type'] == 1 and (blk.get('view') or {}).get('kind') == 'admin_fragment'
                                        for blk in spec['blocks']):
        return SIG_ADMIN_FRAG
    return None


def oracle(spec, enc_modes, dec):
    ''' Independent statement of C02 over the implementation's observations.
    :return: list of (kind, text) problems (empty = property holds on this input). '''
    want = bg.encode(spec)
    want_hex = want.hex()
    probs = []
    typed = any((blk.get('view') or {}).get('kind') in ('prev_node', 'age', 'hop', 'admin') for blk in spec['blocks'])
    for ((via, upd, time_as), got) in zip(MODES, enc_modes):
        if via and not typed:
            continue
        if got != want_hex:
            probs.append(('encode' if time_as == 'int' else 'encode-time',
                          'bytes(Bundle) built with via_payload=%s update_crc=%s times as %s is %s, an RFC 9171 encoder gives %s'
                          % (via, upd, time_as, got[:160], want_hex[:160])))
            continue
        shape = bg.shape_problems(bytes.fromhex(got))
        if shape:
            probs.append(('shape', '; '.join(shape)))
    if not dec['ok']:
        probs.append(('decode', 'Bundle(octets) raises %s on the well-formed encoding %s' % (dec['exc'][6:], want_hex[:200])))
        return probs
    plain = bg.strip_views(spec)
    if dec['spec'] != plain:
        diff = [key for key in plain if not isinstance(dec['spec'], dict) or dec['spec'].get(key) != plain[key]]
        probs.append(('fields', 'decoded field values differ in %s: got %r' % (diff, _pick(dec['spec'], diff))))
    if dec['reenc'] != want_hex:
        probs.append(('reencode', 're-encoding the decoded bundle gives %s, original %s' % (str(dec['reenc'])[:160], want_hex[:160])))
    if isinstance(dec.get('instants'), str) or any(text != str(bg.dtn_datetime(val)) for (val, text) in dec.get('instants', [])):
        probs.append(('decode-time', 'decoded DTN times shown as %r' % (dec['instants'],)))
    if dec['crc_fail'] != []:
        probs.append(('crc', 'check_all_crc reports %r on correct CRCs' % (dec['crc_fail'],)))
    if spec['flags'] & bg.FLAG_PAYLOAD_ADMIN:
        for (blk, got) in zip(spec['blocks'], dec['admin'] if isinstance(dec['admin'], list) else []):
            view = blk.get('view') or {}
            if view.get('kind') == 'admin' and got != view['record']:
                probs.append(('admin', 'administrative record parsed as %r, encoded from %r' % (got, view['record'])))
    return probs


def _pick(obj, keys):
    if not isinstance(obj, dict):
        return obj
    return dict((key, obj.get(key)) for key in keys)


def oracle_foreign(raw, dec):
    ''' For octets of an independent encoder only (no spec): (b') the decoded fields are what the independent
    strict decoder reads, (c) re-encoding reproduces the octets. '''
    spec = bg.decode(raw)     # raises ValueError if the octets are not a canonical RFC 9171 bundle
    probs = []
    if not dec['ok']:
        return [('decode', 'Bundle(octets) raises %s' % dec['exc'][6:])]
    if dec['spec'] != spec:
        probs.append(('fields', 'decoded field values differ from the independent decoder'))
    if dec['reenc'] != bytes(raw).hex():
        probs.append(('reencode', 're-encoding gives %s' % str(dec['reenc'])[:160]))
    return probs


# ---------------------------------------------------------------------------------------------- case generation

def nontrivial(spec):
    ''' exercises at least one non-default branch of the codec '''
    return bool(spec['frag'] is not None or spec['crc_type'] or len(spec['blocks']) > 1
                or any(blk['crc_type'] for blk in spec['blocks']) or spec['flags'] & 2
                or any(eid != 'dtn:none' for eid in (spec['dest'], spec['src'], spec['report_to'])))


def gen_valid(chk):
    ''' The stream the verdict is about: well-formed bundles inside the guard of the `_partial` theorems. '''
    rng = chk.rng
    cases = []
    safe = dict(reasons=IMPL_REASONS)
    # every subset of the nine defined primary flags
    for bits in range(512):
        flags = 0
        for (idx, bit) in enumerate(bg.PRIMARY_FLAGS):
            if bits >> idx & 1:
                flags |= bit
        # quick tier: the oracle runs on all 512 subsets; the model is evaluated on the 128 of them that contain
        # every combination of IS_FRAGMENT / PAYLOAD_ADMIN (the only flag bits the codec looks at) with 32 of the rest
        label = 'flags' if (not chk.quick() or (bits >> 2) % 4 == 0) else 'flags(oracle only)'
        cases.append((label, bg.gen_bundle(rng, flags=flags, n_ext=rng.choice([0, 0, 0, 1]), payload_sizes=(0, 1, 5),
                                           eid_kinds=('none', 'ipn', 'dtn'), **safe)))
    # every combination of CRC types over primary / extension / payload
    for combo in itertools.product([0, 1, 2], repeat=3):
        for admin in (False, True):
            cases.append(('crc', bg.gen_bundle(rng, crc_types=list(combo), n_ext=1, admin=admin, **safe)))
    # every presence pattern of the optional status-report fields, for several reason codes
    for pattern in itertools.product([False, True], [False, True], [False, True], [False, True], [0, 1, 2]):
        for _ in range(1 if chk.quick() else 6):
            spec = bg.gen_bundle(rng, admin=True, n_ext=0, **safe)
            rec = bg.gen_status_report(rng, reasons=IMPL_REASONS, pattern=pattern)
            spec['blocks'][-1]['view'] = dict(kind='admin', record=rec)
            spec['blocks'][-1]['data'] = bg.encode_admin(rec).hex()
            cases.append(('sr-pattern', bg.fill_crc(spec)))
    # every integer field at every CBOR head boundary
    for val in bg.BOUNDARY:
        spec = bg.gen_bundle(rng, flags=bg.FLAG_IS_FRAGMENT, n_ext=1, admin=False, **safe)
        spec.update(time=val, seq=val, lifetime=val, frag=[val, val])
        spec['blocks'][0].update(num=max(val, 2), flags=val, type=(val if val not in (0, 1) + bg.KNOWN_TYPES else 200))
        spec['blocks'][0]['view'] = dict(kind='raw')
        spec['src'] = 'ipn:%d.%d' % (val, val)
        cases.append(('boundary', bg.fill_crc(spec)))
    # DTN times around every power of two of ms and of seconds since 2000 (+ random ms instants over 2000-2040): six
    # time values per status-report bundle; the build modes with time_as datetime / ISO convert every one of them
    sweep = bg.gen_time_sweep() if chk.quick() else bg.gen_time_sweep(offsets=tuple(range(-8, 40)))
    year40 = bg.dtn_ms(bg.DTN_EPOCH.replace(year=2040))
    randoms = [rng.randrange(1, year40) for _ in range(360 if chk.quick() else 60000)]
    for (label, values) in (('dtn-time', sweep), ('dtn-time-random(oracle only)' if chk.quick() else 'dtn-time-random', randoms)):
        for pos in range(0, len(values), 6):
            vals = (values[pos:pos + 6] * 6)[:6]
            if chk.quick() and label == 'dtn-time' and pos % 24:
                label2 = 'dtn-time(oracle only)'     # quick: the model is evaluated on every fourth sweep bundle
            else:
                label2 = label
            spec = bg.gen_bundle(rng, admin=True, n_ext=0, crc_types=[rng.choice([0, 1, 2])], eid_kinds=('ipn', 'none'), **safe)
            rec = bg.gen_status_report(rng, reasons=IMPL_REASONS, pattern=(True, True, True, True, 0), eid_kinds=('ipn',))
            for (idx, val) in enumerate(vals[:4]):
                rec['status'][idx][1] = val
            rec['time'] = vals[4]
            spec['time'] = vals[5]
            spec['blocks'][-1]['view'] = dict(kind='admin', record=rec)
            spec['blocks'][-1]['data'] = bg.encode_admin(rec).hex()
            cases.append((label2, bg.fill_crc(spec)))
    # the NUMBER of blocks at its own CBOR head boundaries (bundle array of 23/24 and 255/256 items, +-1)
    for n_ext in ([21, 22, 23, 24, 25, 253, 254] if chk.quick() else bg.BLOCK_COUNT_BOUNDARY * 3 + [700]):
        cases.append(('block-count', bg.gen_bundle(rng, n_ext=n_ext, tiny_ext=True, admin=False, payload_sizes=(0, 1, 5), **safe)))
    # big payloads (BTSD length heads of 3 and 5 octets); the model side is compared through digests (big_suite)
    for size in ([700, 4000] if chk.quick() else [4000, 65535, 65536, 65537]):
        cases.append(('big', bg.gen_bundle(rng, payload_sizes=(size,), admin=False, n_ext=1, **safe)))
    for _ in range(120 if chk.quick() else 20000):
        cases.append(('random', bg.gen_bundle(rng, **safe)))
    return cases


def gen_findings(chk):
    ''' Inputs of the defect classes (witnesses of the `_refuted` theorems): well-formed by RFC 9171, outside the
    guard.  The oracle is EXPECTED to fail on them while the defects stand. '''
    rng = chk.rng
    cases = []
    for path in sorted(glob.glob(os.path.join(VERIF, 'harness', 'corpus', 'C02_*.json'))):
        with open(path) as infile:
            ent = json.load(infile)
        if ent.get('replay', {}).get('kind') == 'spec':
            cases.append(('corpus:' + os.path.basename(path), ent['replay']['spec']))
    for _ in range(6 if chk.quick() else 60):
        spec = bg.gen_bundle(rng, admin=False, reasons=IMPL_REASONS, eid_kinds=('dtn',))
        which = rng.choice(['dest', 'src', 'report_to'])
        spec[which] = 'dtn:' + bg.gen_dtn_ssp(rng, query_chars=True, demux_len=rng.choice([1, 4, 9]))
        cases.append(('query', bg.fill_crc(spec)))
    for reason in ([11, 17, 255] if chk.quick() else [11, 17, 18, 24, 254, 255, 256, 65536]):
        spec = bg.gen_bundle(rng, admin=True, n_ext=0, reasons=IMPL_REASONS)
        rec = bg.gen_status_report(rng, reasons=[reason])
        spec['blocks'][-1]['view'] = dict(kind='admin', record=rec)
        spec['blocks'][-1]['data'] = bg.encode_admin(rec).hex()
        cases.append(('reason', bg.fill_crc(spec)))
    for _ in range(2 if chk.quick() else 10):
        cases.append(('admin-fragment', admin_fragment_spec(rng)))
    return cases


def admin_fragment_spec(rng):
    ''' First fragment of a bundle whose payload is a status report: same flags plus IS_FRAGMENT, payload = a
    proper prefix of the record (RFC 9171 section 5.8). '''
    spec = bg.gen_bundle(rng, flags=bg.FLAG_IS_FRAGMENT | bg.FLAG_PAYLOAD_ADMIN, admin=True, n_ext=0, reasons=IMPL_REASONS)
    rec = bg.gen_status_report(rng, reasons=IMPL_REASONS, pattern=(True, True, True, True, 2))
    whole = bg.encode_admin(rec)
    cut = max(1, len(whole) // 2)
    spec['frag'] = [0, len(whole)]
    spec['blocks'][-1]['view'] = dict(kind='admin_fragment', record=rec, cut=cut)
    spec['blocks'][-1]['data'] = whole[:cut].hex()
    return bg.fill_crc(spec)


# ---------------------------------------------------------------------------------------------- malformed / lax stream

def gen_malformed(chk):
    ''' (label, octets).  Not well-formed RFC 9171 encodings (or not deterministic CBOR). '''
    rng = chk.rng
    out = []

    def dumps_seq(items, head=b'\x9f', tail=b'\xff'):
        return head + b''.join(cbor2.dumps(item) for item in items) + tail

    for rnd in range(2 if chk.quick() else 10):
        spec = bg.gen_bundle(rng, flags=bg.FLAG_IS_FRAGMENT | (rng.choice([0, 4, 0x40000])), crc_types=[1, 2, 1], n_ext=2,
                             admin=False, eid_kinds=('dtn', 'ipn'))
        pri = bg.primary_items(spec)
        blks = [bg.block_items(blk) for blk in spec['blocks']]
        base = [pri] + blks
        out.append(('definite-length outer array', cbor2.dumps(base)))
        out.append(('trailing octets after the break', dumps_seq(base) + b'\x00\x01'))
        out.append(('missing break', dumps_seq(base, tail=b'')))
        neg = [list(pri)] + blks
        neg[0][7] = -5
        out.append(('negative lifetime', dumps_seq(neg)))
        neg = [pri] + [list(blk) for blk in blks]
        neg[1][2] = -1
        out.append(('negative block flags', dumps_seq(neg)))
        out.append(('primary CRC value missing', dumps_seq([pri[:-1]] + blks)))
        out.append(('block CRC value missing', dumps_seq([pri, blks[0][:-1]] + blks[1:])))
        out.append(('fragment fields missing', dumps_seq([pri[:8] + pri[10:]] + blks)))
        out.append(('primary with 7 items', dumps_seq([pri[:7]] + blks)))
        out.append(('primary with 12 items', dumps_seq([pri + [0]] + blks)))
        out.append(('block with 4 items', dumps_seq([pri, blks[0][:4]] + blks[1:])))
        out.append(('block with 7 items', dumps_seq([pri, blks[0] + [b'x']] + blks[1:])))
        out.append(('payload block not last', dumps_seq([pri, blks[2], blks[0], blks[1]])))
        out.append(('no payload block', dumps_seq([pri] + blks[:2])))
        out.append(('no canonical block at all', dumps_seq([pri])))
        dup = [pri] + [list(blk) for blk in blks]
        dup[2][1] = dup[1][1]
        out.append(('duplicate block numbers', dumps_seq(dup)))
        nul = [pri] + [list(blk) for blk in blks]
        nul[1][4] = None
        out.append(('BTSD null instead of bstr', dumps_seq(nul)))
        nul = [pri] + [list(blk) for blk in blks]
        nul[1][4] = 'text'
        out.append(('BTSD tstr instead of bstr', dumps_seq(nul)))
        out.append(('tagged primary block', dumps_seq([cbor2.CBORTag(24, pri)] + blks)))
        for (label, eid) in (('integer SSP 1', [1, 1]), ('unknown EID scheme 3', [3, 'x']), ('dtn SSP text "none"', [1, 'none']),
                             ('ipn SSP with 1 component', [2, [7]]), ('ipn SSP with 4 components', [2, [1, 2, 3, 4]]),
                             ('ipn SSP empty', [2, []]), ('EID with 3 items', [1, 0, 0]), ('EID not an array', 5)):
            bad = [list(pri)] + blks
            bad[0][3] = eid
            out.append((label, dumps_seq(bad)))
        bad = [list(pri)] + blks
        bad[0][2] = 3
        out.append(('CRC type 3', dumps_seq(bad)))
        bad = [list(pri)] + blks
        bad[0][6] = [1, 2, 3]
        out.append(('timestamp with 3 items', dumps_seq(bad)))
        bad = [list(pri)] + blks
        bad[0][1] = True
        out.append(('flags given as bool', dumps_seq(bad)))
        # non-deterministic CBOR of a well-formed bundle
        good = bg.encode(spec)
        out.append(('non-shortest head (version as 0x1807)', good[:2] + b'\x18\x07' + good[3:]))
        out.append(('indefinite-length primary array', b'\x9f\x9f' + b''.join(cbor2.dumps(x) for x in pri) + b'\xff'
                    + b''.join(cbor2.dumps(x) for x in blks) + b'\xff'))
        chunk = bytes.fromhex(spec['blocks'][-1]['data'])
        indef = b'\x5f' + cbor2.dumps(chunk[:1]) + cbor2.dumps(chunk[1:]) + b'\xff'
        last = blks[-1]
        out.append(('indefinite-length BTSD byte string', b'\x9f' + cbor2.dumps(pri) + b''.join(cbor2.dumps(x) for x in blks[:-1])
                    + bytes([0x80 + len(last)]) + b''.join(cbor2.dumps(x) for x in last[:4]) + indef + cbor2.dumps(last[5]) + b'\xff'))
        out.append(('truncated', good[:len(good) // 2]))
        out.append(('empty', b''))
        out.append(('not CBOR', b'\xff\xff'))
        # administrative records
        adm = bg.gen_bundle(rng, admin=True, n_ext=0, crc_types=[0], reasons=IMPL_REASONS)
        rec = bg.gen_status_report(rng, reasons=IMPL_REASONS, pattern=(True, False, True, False, 2))
        item = bg.admin_item(rec)

        def with_admin(content, label):
            spec2 = dict(adm)
            spec2['blocks'] = [dict(adm['blocks'][-1], data=cbor2.dumps(content).hex())]
            out.append((label, bg.encode(spec2)))
        with_admin([1, item[1] + [1]], 'status report with 7 items')
        with_admin([1, item[1][:3]], 'status report with 3 items')
        with_admin([1, [item[1][0][:3]] + item[1][1:]], 'status array with 3 items')
        with_admin([1, [[[1], [0], [1, 5], [0]]] + item[1][1:]], 'status flags as integers')
        with_admin([1, [item[1][0], -1] + item[1][2:]], 'negative reason code')
        with_admin([1, 5], 'status report content not an array')
        with_admin(5, 'administrative record not an array')
        with_admin([1], 'administrative record with 1 item')
        with_admin([2, 1.5], 'administrative record with float content')
        with_admin([3, b'\x07\x9d'], 'administrative record of unbound type with byte-string content')
        with_admin([3, b'\xff'], 'administrative record of unbound type with byte-string content (not CBOR)')
        spec2 = dict(adm)
        spec2['blocks'] = [dict(adm['blocks'][-1], data='0001')]
        out.append(('admin flag with a payload that is not one CBOR item', bg.encode(spec2)))
        spec2 = dict(adm)
        spec2['blocks'] = [dict(adm['blocks'][-1], data=(b'\x82\x01\x84' + cbor2.dumps(item[1][0]) + b'\x18\x06' +
                                                          cbor2.dumps(item[1][2]) + cbor2.dumps(item[1][3])).hex())]
        out.append(('status report with a non-shortest reason code inside the BTSD', bg.encode(spec2)))
    return out


# ---------------------------------------------------------------------------------------------- driver

def coq_octets(data):
    return bg._coq_bytes(data)


BIG_ENC = ('Definition big_enc := (fun b : bundle => let o := impl_encode_bundle b in '
           '(N.of_nat (List.length o), DTN.Lib.Crc.crc32c o, [bytes_eqb o (encode_bundle (with_crc_bundle (impl_norm_bundle b))); wf_bundleb b])).\n')
BIG_DEC = ('Definition big_dec := (fun bs : bytes => match decode_bundle bs with '
           '| Some b => Some (ren_primary b.(prim), map (fun k => (fst (fst (ren_cblock k)), N.of_nat (List.length (btsd k)), '
           'DTN.Lib.Crc.crc32c (btsd k), ren_opt (bcrc k))) b.(blocks), bytes_eqb (impl_encode_bundle b) bs) | None => None end).\n')


def big_suite(chk, cases, pending):
    ''' Bundles with BTSD given by mkdata(seed, len): the oracle runs as usual on the implementation; the model
    side is compared through (length, CRC-32C) digests evaluated inside Coq. '''
    import resource
    bad = []
    try:
        (_soft, hard) = resource.getrlimit(resource.RLIMIT_STACK)
        resource.setrlimit(resource.RLIMIT_STACK, (hard, hard))
        if hard != resource.RLIM_INFINITY and hard < 2 ** 28:
            cases = [(label, spec) for (label, spec) in cases if len(bg.encode(spec)) < 10000]
    except (ValueError, OSError):
        cases = [(label, spec) for (label, spec) in cases if len(bg.encode(spec)) < 10000]
    impl = []
    for (label, spec) in cases:
        raw = bg.encode(spec)
        obs = dict(enc=impl_encode_modes(spec), dec=impl_decode(raw), raw=raw)
        impl.append(obs)
        chk.case(hashlib.sha1(raw).hexdigest(), nontrivial=True)
        chk.count('stream', 'big')
        chk.count('big_payload_octets', len(bytes.fromhex(spec['blocks'][-1]['data'])))
        probs = oracle(spec, obs['enc'], obs['dec'])
        if probs:
            report(chk, pending, classify(spec) or 'C02 / %s of a well-formed bundle (big payload)' % probs[0][0],
                   probs[0][1], dict(kind='spec', spec=spec))
    res = yield (['(big_enc %s)' % bg.coq_bundle(spec) for (_l, spec) in cases] +
                 ['(big_dec %s)' % bg.coq_encoded(spec) for (_l, spec) in cases])
    menc = res[:len(cases)]
    mdec = res[len(cases):]
    for ((label, spec), obs, enc, dec) in zip(cases, impl, menc, mdec):
        (length, digest, flags) = enc
        for got in obs['enc']:
            if got.startswith('raise:') or (len(got) // 2, bg.crc32c(bytes.fromhex(got))) != (length, digest):
                bad.append('big %d: implementation encoding differs from the model (length/CRC-32C digest)' % len(obs['raw']))
        if not all(flags):
            bad.append('big: model flags %r' % (flags,))
        if dec is None or not obs['dec']['ok']:
            if (dec is None) != (not obs['dec']['ok']):
                bad.append('big: model %s, implementation %s' % ('rejects' if dec is None else 'decodes', obs['dec'].get('exc', 'decodes')))
            continue
        val = dec[1]
        got = obs['dec']['spec']
        want_blocks = [((blk['type'], blk['num'], blk['flags'], blk['crc_type']), len(blk['data']) // 2,
                        bg.crc32c(bytes.fromhex(blk['data'])), blk['crc']) for blk in got['blocks']]
        model_blocks = [(tuple(scal), size, digest, (bytes(crc[0]).hex() if crc else None)) for (scal, size, digest, crc) in val[4]]
        pri = bg.spec_of_model(tuple(val[:4]) + ([],))
        if model_blocks != want_blocks or dict(pri, blocks=got['blocks']) != got or val[5] is not True \
                or obs['dec']['reenc'] != obs['raw'].hex():
            bad.append('big: decoded fields / re-encoding differ')
    return bad


# one evaluation per case: run_encode on the bundle and run_decode on the independent encoder's octets; octet
# strings equal to one already printed are printed as [] (printing long lists dominates the cost)
RUN_CASE = '''
Definition view_fun := (fun tb : N * bytes => let (t, bs) := tb in
  if (t =? 6)%N then match decode_prev_node bs with Some e => [[fst (ren_eid e)]; snd (ren_eid e)] | None => [] end
  else if (t =? 7)%N then match decode_bundle_age bs with Some n => [[n]] | None => [] end
  else match decode_hop_count bs with Some (l, c) => [[l; c]] | None => [] end).
(* Decoder side.  bs: octets; db: what the implementation decoded (0 or 1 bundle); dr: what it re-encoded.
   Result: status 0 both reject / 1 both decode / 2 only the model decodes / 3 only the implementation decodes,
   [fields equal; re-encoding equal; wf_bundleb; impl_guardb; rfc9171_extrab], and - only on a difference -
   the model's decoded fields and re-encoding.  Printing long octet lists dominates the cost, so equal
   values are compared inside Coq and not printed. *)
Definition dec_case (bs : bytes) (db : list bundle) (dr : bytes) :=
  match decode_bundle bs, db with
  | None, [] => (0, @nil bool, @nil (list bytes))
  | None, _ :: _ => (3, [], [])
  | Some b', [] => (2, [], [[impl_encode_bundle b']])
  | Some b', x :: _ =>
      let r := impl_encode_bundle b' in
      let same := bundle_eqb_items b' x in
      let samer := bytes_eqb r dr in
      (1, [same; samer; wf_bundleb b'; impl_guardb b'; rfc9171_extrab b'],
       if same && samer then [] else [[encode_bundle b'; r]])
  end.
(* Encoder side.  e1: bytes(Bundle) with the given CRC octets, e2: after update_all_crc. *)
Definition run_case (p : bundle * bytes * (bytes * bytes) * (list bundle * bytes)) :=
  match p with
  | (b, bs, (e1, e2), (db, dr)) =>
      let o1 := impl_encode_bundle b in
      let o2 := encode_bundle (with_crc_bundle (impl_norm_bundle b)) in
      ([bytes_eqb o1 e1; bytes_eqb o2 e2; bytes_eqb o1 o2; wf_bundleb b; impl_guardb b; rfc_admin_ok b; rfc9171_extrab b],
       (if bytes_eqb o1 e1 then [] else [o1]) ++ (if bytes_eqb o2 e2 then [] else [o2]),
       dec_case bs db dr)
  end.
'''


def coq_decoded(obs):
    ''' (db, dr) of dec_case from the implementation's observation of Bundle(octets). '''
    dec = obs['dec']
    if not dec['ok']:
        return ('(@nil bundle)', '(@nil N)', 'reject')
    try:
        term = bg.coq_bundle(_model_typed(dec['spec']))
        reenc = coq_octets(bytes.fromhex(dec['reenc']))
    except Exception:
        # decoded to values outside the model's types (negative integers, null BTSD, ...) or cannot re-encode
        return ('(@nil bundle)', '(@nil N)', 'untyped')
    return ('[%s]' % term, reenc, 'typed')


def _model_typed(spec):
    def uint(val):
        if not (isinstance(val, int) and not isinstance(val, bool) and val >= 0):
            raise ValueError('not a uint')
        return val
    for key in ('version', 'flags', 'crc_type', 'time', 'seq', 'lifetime'):
        uint(spec[key])
    for key in ('dest', 'src', 'report_to'):
        if not isinstance(spec[key], str) or spec[key][:4] not in ('dtn:', 'ipn:') or spec[key] == 'ipn:':
            raise ValueError('EID')
    if spec['frag'] is not None:
        [uint(val) for val in spec['frag']]
    for blk in spec['blocks']:
        for key in ('type', 'num', 'flags', 'crc_type'):
            uint(blk[key])
        if blk['data'] is None:
            raise ValueError('BTSD')
    return spec


def run_streams(chk, cases, pending, shared):
    ''' enc/dec correspondence + oracle over (label, spec) cases.
    :return: (disagreements of the encoder side, of the decoder side) '''
    impl = []
    terms = []
    for (label, spec) in cases:
        raw = bg.encode(spec)
        obs = dict(enc=impl_encode_modes(spec), dec=impl_decode(raw), raw=raw)
        impl.append(obs)
        # elaborating octet literals dominates the cost of a case: every octet string equal to the independent
        # encoding is passed as the let-bound [raw], and the decoded bundle as [b] when its fields equal the spec
        (db, dr, obs['dec_kind']) = coq_decoded(obs)
        raw_hex = raw.hex()
        plain = bg.strip_views(spec)
        if obs['dec']['ok'] and obs['dec']['spec'] == plain:
            db = '[b]'
        if obs['dec']['ok'] and obs['dec']['reenc'] == raw_hex:
            dr = 'raw'

        def lit(got):
            if got.startswith('raise:'):
                return '(@nil N)'
            return 'raw' if got == raw_hex else coq_octets(bytes.fromhex(got))
        if label.endswith('(oracle only)'):
            terms.append('(@nil N)')
            continue
        terms.append('(let raw := %s in let b := %s in run_case (b, raw, (%s, %s), (%s, %s)))' % (
            bg.coq_encoded(spec), bg.coq_bundle(spec), lit(obs['enc'][0]), lit(obs['enc'][1]), db, dr))
    shared['impl'] = impl
    tick(chk, 'impl side of %d cases' % len(cases))
    both = yield terms
    bad_enc = []
    bad_dec = []
    for ((label, spec), obs, mres) in zip(cases, impl, both):
        ident = hashlib.sha1(json.dumps(bg.strip_views(spec), sort_keys=True).encode()).hexdigest()
        chk.case(ident, nontrivial=nontrivial(spec),
                 sample=dict(stream=label, spec=bg.strip_views(spec), octets=obs['raw'].hex()) if len(obs['raw']) < 200 else None)
        chk.count('stream', label.split(':')[0])
        chk.count('primary_items', 8 + (2 if spec['frag'] else 0) + (1 if spec['crc_type'] else 0))
        chk.count('crc_types', '%d/%s' % (spec['crc_type'], ','.join(str(blk['crc_type']) for blk in spec['blocks'][-2:])))
        chk.count('blocks', len(spec['blocks']) if len(spec['blocks']) < 8 else '%d (bundle array of %d items)' % (len(spec['blocks']), 1 + len(spec['blocks'])))
        for eid in (spec['dest'], spec['src'], spec['report_to']):
            chk.count('eid_kind', 'dtn:none' if eid == 'dtn:none' else eid[:3] + (str(eid.count('.') + 1) if eid.startswith('ipn') else ''))
        for blk in spec['blocks']:
            chk.count('block_view', (blk.get('view') or {}).get('kind', 'raw'))
        # --- oracle on the implementation
        probs = oracle(spec, obs['enc'], obs['dec'])
        if probs:
            sig = classify(spec) or (SIG_TIME if all(kind in ('encode-time', 'decode-time') for (kind, _t) in probs) else None) \
                or ('C02 / %s of a well-formed bundle (%s)' % (probs[0][0], label.split(':')[0]))
            what = '%s [%s]' % (probs[0][1], '; '.join(kind for (kind, _t) in probs))
            report(chk, pending, sig, what, dict(kind='spec', spec=spec))
        # the model takes the integer ms: a datetime / ISO build must give the octets of the integer build (which is
        # what the model is compared with) - otherwise the correspondence is broken on this concrete input
        for ((via, upd, time_as), got) in zip(MODES, obs['enc']):
            if time_as != 'int' and got != obs['enc'][3 if via else 1] and classify(spec) is None:
                bad_enc.append('%s: times given as %s encode to %s, as integers to %s' % (label, time_as, got[:100], obs['enc'][1][:100]))
        if label.endswith('(oracle only)'):
            continue
        chk.count('model_evaluated_cases')
        (eflags, ediag, mdec) = mres
        # --- model vs implementation: encoder
        (eq_given, eq_updated, crc_same, m_wf, m_guard, _m_rfc_admin, _m_extra) = eflags
        typed = any((blk.get('view') or {}).get('kind') in ('prev_node', 'age', 'hop', 'admin') for blk in spec['blocks'])
        for ((via, upd, time_as), got) in zip(MODES, obs['enc']):
            if via and not typed:
                continue
            if time_as != 'int':
                continue    # compared with the integer build above
            if got.startswith('raise:'):
                # the model has no notion of "cannot be constructed"; only the reason-code class raises here
                if classify(spec) != SIG_REASON:
                    bad_enc.append('%s: building via_payload=%s update_crc=%s raises %s' % (label, via, upd, got))
                continue
            if via and got != obs['enc'][1 if upd else 0]:
                bad_enc.append('%s: typed payload objects encode differently from BTSD octets' % label)
            if not via and not (eq_updated if upd else eq_given):
                bad_enc.append('%s: (update_crc=%s) impl %s model %s' % (label, upd, got[:120], [bytes(o).hex()[:120] for o in ediag]))
        if not crc_same and not probs:
            bad_enc.append('%s: model-computed CRCs differ from the CRCs of the independent encoder' % label)
        if not m_wf:
            bad_enc.append('%s: generated bundle is not wf_bundle in the model' % label)
        # --- model vs implementation: decoder
        (status, dflags, ddiag) = mdec
        if status == 0:
            pass
        elif status == 2:
            bad_dec.append('%s: model decodes, implementation %s' % (label, obs['dec'].get('exc', 'yields values outside the model types')))
        elif status == 3:
            bad_dec.append('%s: model rejects, implementation decodes' % label)
        else:
            if not (dflags[0] and dflags[1]):
                bad_dec.append('%s: decoded fields equal %s, re-encoding equal %s (model: %s)' % (
                    label, dflags[0], dflags[1], [bytes(o).hex()[:100] for o in (ddiag[0] if ddiag else [])]))
        chk.count('model_guard', 'inside' if (m_wf and m_guard) else 'outside')
    return (bad_enc, bad_dec)


def report(chk, pending, sig, what, replay_obj):
    if sig in PENDING_FINDINGS and chk.known_match(sig) is None:
        if sig not in pending:
            path = os.path.join(VERIF, 'build', 'replay', 'C02_pending_%s.json' % hashlib.sha1(sig.encode()).hexdigest()[:10])
            with open(path, 'w') as out:
                json.dump(dict(property='C02', signature=sig, what=what, replay=replay_obj), out, indent=1)
            pending[sig] = (what, path)
        return
    chk.fail(sig, what, replay_obj)


def typed_view_suite(chk, cases, shared):
    ''' sr / views: typed BTSD decoders of the model against what the implementation parsed. '''
    import bp.encoding as enc
    impl = shared['impl']
    sr_data = {}
    view_terms = []
    view_want = []
    bad = []
    for ((label, spec), obs) in zip(cases, impl):
        for blk in spec['blocks']:
            view = blk.get('view') or {}
            data = bytes.fromhex(blk['data'])
            if view.get('kind') == 'admin' and view['record']['type'] == 1:
                sr_data[blk['data']] = view['record']
            elif view.get('kind') in ('prev_node', 'age', 'hop'):
                view_terms.append('(%d%%N, %s)' % (blk['type'], coq_octets(data)))
                if view['kind'] == 'prev_node':
                    view_want.append(['prev_node', view['eid']])
                elif view['kind'] == 'age':
                    view_want.append(['age', view['ms']])
                else:
                    view_want.append(['hop', view['limit'], view['count']])
        # what the implementation parsed out of the typed blocks of the decoded bundle
        if obs['dec']['ok']:
            try:
                bundle = enc.Bundle(obs['raw'])
                for (blk, real) in zip(spec['blocks'], bundle.blocks):
                    view = blk.get('view') or {}
                    if view.get('kind') in ('prev_node', 'age', 'hop'):
                        got = impl_views(real)
                        want = (['prev_node', view['eid']] if view['kind'] == 'prev_node' else
                                ['age', view['ms']] if view['kind'] == 'age' else ['hop', view['limit'], view['count']])
                        if got != want:
                            report(chk, {}, 'C02 / typed extension block parsed differently from what was encoded',
                                   'block type %d parsed as %r, encoded from %r' % (blk['type'], got, want), dict(kind='spec', spec=spec))
            except Exception as err:
                bad.append('%s: re-parse raised %s' % (label, err))
    keys = sorted(sr_data)
    res = yield (['(run_status_decode %s)' % coq_octets(bytes.fromhex(key)) for key in keys] +
                 ['(view_fun %s)' % term for term in view_terms])
    if keys:
        model = res[:len(keys)]
        for (key, mval) in zip(keys, model):
            real = impl_admin(bytes.fromhex(key))
            chk.count('status_report', 'items=%d' % (4 + (sr_data[key]['frag_off'] is not None) + (sr_data[key]['pay_len'] is not None)))
            if mval is None:
                if real['ok']:
                    bad.append('status report %s: model rejects, implementation parses' % key[:60])
                continue
            rec = bg.rec_of_model(mval[1])
            if not real['ok']:
                bad.append('status report %s: model parses, implementation raises %s' % (key[:60], real['exc']))
            elif real['rec'] != rec or real['reenc'] != key:
                bad.append('status report %s: model %r implementation %r' % (key[:60], rec, real['rec']))
            if rec != sr_data[key]:
                bad.append('status report %s: model decodes %r, generated from %r' % (key[:60], rec, sr_data[key]))
    if view_terms:
        model = res[len(keys):]
        for (want, mval) in zip(view_want, model):
            if want[0] == 'prev_node':
                got = ['prev_node', bg.eid_of_model((mval[0][0], mval[1]))] if mval else None
            elif want[0] == 'age':
                got = ['age', mval[0][0]] if mval else None
            else:
                got = ['hop'] + list(mval[0]) if mval else None
            if got != want:
                bad.append('typed view: model %r, generated %r' % (got, want))
    return bad


def malformed_suite(chk):
    ''' Tabulate acceptance, model vs implementation (NOT part of the verdict). '''
    items = gen_malformed(chk)
    decs = [impl_decode(raw) for (_l, raw) in items]
    terms = []
    for ((_l, raw), dec) in zip(items, decs):
        (db, dr, _kind) = coq_decoded(dict(dec=dec))
        terms.append('(dec_case %s %s %s)' % (coq_octets(raw), db, dr))
    model = yield terms
    table = {}
    for ((label, raw), dec, (status, dflags, ddiag)) in zip(items, decs, model):
        if not dec['ok']:
            iout = 'reject'
        elif dec['reenc'] == raw.hex():
            iout = 'accept-verbatim'
        elif isinstance(dec['reenc'], str) and dec['reenc'].startswith('raise:'):
            iout = 'accept-then-encode-raises'
        else:
            iout = 'accept-normalise'
        if status in (0, 3):
            mout = 'reject'
            rel = 'agree' if iout == 'reject' else 'impl-laxer (no model position)'
        else:
            m_hex = bytes(ddiag[0][-1]).hex() if ddiag else dec['reenc']
            mout = 'accept-verbatim' if m_hex == raw.hex() else 'accept-normalise'
            if not dec['ok']:
                rel = 'MODEL-LAXER'
            elif status == 2:
                rel = 'DIFFER (implementation yields values outside the model types)'
            else:
                rel = 'agree' if (dflags[0] and dflags[1]) else 'DIFFER'
        ent = table.setdefault(label, dict(impl={}, model={}, relation={}))
        ent['impl'][iout + (':' + dec['exc'][6:] if not dec['ok'] else '')] = ent['impl'].get(iout + (':' + dec['exc'][6:] if not dec['ok'] else ''), 0) + 1
        ent['model'][mout] = ent['model'].get(mout, 0) + 1
        ent['relation'][rel] = ent['relation'].get(rel, 0) + 1
        chk.count('malformed_relation', rel)
    return (len(items), table)


def agent_suite(chk):
    ''' Octets handed to the convergence layer by the real BP agent when it forwards well-formed bundles
    (and when it originates status reports about them): oracle (d) + independent strict decoding. '''
    import bpdrive
    rng = chk.rng
    drv = bpdrive.BpDriver(node_id='dtn://me/', rx_routes=[('^dtn://me/.*', 'deliver'), ('.*', 'forward')],
                           tx_routes=[dict(pattern='.*', next_nodeid='dtn://hop/', cl_type='fake', mtu=None)])
    count = 0
    sent = 0
    plan = [None] * (30 if chk.quick() else 400)
    # received with 19..24 (and 251..255) extension blocks: the blocks the agent adds when forwarding (previous
    # node, bundle age, ...) carry the transmitted item count across the 23/24 (255/256) boundary
    plan += [19, 20, 21, 22, 23, 24] + ([252, 253] if chk.quick() else [250, 251, 252, 253, 254, 255])
    for n_ext in plan:
        if n_ext is None:
            spec = bg.gen_bundle(rng, eid_kinds=('dtn', 'ipn'), unknown_flag_bits=False, admin=False, reasons=IMPL_REASONS)
        else:
            spec = bg.gen_bundle(rng, eid_kinds=('dtn', 'ipn'), unknown_flag_bits=False, admin=False, reasons=IMPL_REASONS,
                                 n_ext=n_ext, tiny_ext=True, payload_sizes=(1, 5))
        spec['flags'] &= ~bg.FLAG_IS_FRAGMENT
        spec['frag'] = None
        spec['blocks'] = [blk for blk in spec['blocks'] if blk['type'] not in (bg.BLOCK_BIB, bg.BLOCK_BCB)]
        spec['time'] %= 2 ** 38
        spec['lifetime'] = 10 ** 9 + spec['lifetime'] % 2 ** 30
        for blk in spec['blocks']:
            if (blk.get('view') or {}).get('kind') == 'hop':
                blk['view'] = dict(kind='hop', limit=30, count=1)
                blk['data'] = bg.view_data(blk['view']).hex()
            blk['flags'] &= ~0x16   # do not ask the agent to delete/report on unprocessable blocks
        if spec['dest'].startswith('dtn://me/'):
            continue
        bg.fill_crc(spec)
        obs = drv.recv(bg.encode(spec))
        count += 1
        for ent in obs['transmitted']:
            sent += 1
            raw = bytes.fromhex(ent['raw_hex'])
            probs = bg.shape_problems(raw)
            try:
                bg.decode(raw)
            except Exception as err:
                probs.append('independent strict decoder: %s' % err)
            chk.case(('agent', ent['raw_hex']), nontrivial=True)
            chk.count('stream', 'agent-tx')
            try:
                chk.count('agent_tx_items', '%d->%d' % (2 + len(spec['blocks']) - 1, len(cbor2.loads(raw))) if n_ext is not None else 'small')
            except Exception:
                chk.count('agent_tx_items', 'undecodable')
            if probs:
                report(chk, {}, 'C02 / octets handed to the convergence layer are not RFC 9171 well-formed',
                       '; '.join(probs) + ' : ' + ent['raw_hex'][:200], dict(kind='agent', spec=spec))
    return (count, sent)


def replay(chk, path):
    with open(path) as infile:
        ent = json.load(infile)
    rep = ent.get('replay', ent)
    if ent.get('no_failing_input_found') or 'broken' in rep:
        print('replay: this file records broken obligations without a failing input: %s' % json.dumps(rep)[:2000])
        ok = chk.coq_props()
        print('replay: proof obligations now %s' % ('check' if ok else 'FAIL'))
        sys.exit(0 if ok else 1)
    if rep['kind'] in ('spec', 'agent'):
        spec = rep['spec']
        raw = bg.encode(spec)
        enc = impl_encode_modes(spec)
        dec = impl_decode(raw)
        probs = oracle(spec, enc, dec)
        print('replay: spec %s' % json.dumps(bg.strip_views(spec))[:1500])
        print('replay: RFC 9171 octets %s' % raw.hex())
        print('replay: bytes(Bundle) per build mode: %s' % enc)
        print('replay: Bundle(octets): %s' % json.dumps(dec, default=repr)[:1500])
    else:
        raw = bytes.fromhex(rep['hex'])
        dec = impl_decode(raw)
        probs = oracle_foreign(raw, dec)
        print('replay: octets %s' % raw.hex())
        print('replay: Bundle(octets): %s' % json.dumps(dec, default=repr)[:1500])
    for (kind, text) in probs:
        print('replay: FAIL (%s) %s' % (kind, text))
    if probs:
        print('VIOLATION property=C02 replay=%s' % path)
        sys.exit(1)
    print('replay: the property holds on this input')
    sys.exit(0)


def run_all(chk, gens):
    ''' Every suite is a generator that yields ONE list of closed Coq terms and is sent their values: all
    suites share a single sharded Coq evaluation. '''
    reqs = [next(gen) for gen in gens]
    tick(chk, 'implementation side done, %d model evaluations' % sum(len(req) for req in reqs))
    flat = [term for req in reqs for term in req]
    res = chk.coq_eval('all', ['Lib.Cbor', 'Lib.Crc', 'Model.Bundle'], flat, '(fun x => x)', chunk=max(16, (len(flat) + 15) // 16),
                       prelude=RUN_CASE + BIG_ENC + BIG_DEC)
    tick(chk, 'model side done')
    outs = []
    pos = 0
    for (gen, req) in zip(gens, reqs):
        try:
            gen.send(res[pos:pos + len(req)])
            raise RuntimeError('suite yielded twice')
        except StopIteration as stop:
            outs.append(stop.value)
        pos += len(req)
    return outs


def tick(chk, what):
    if os.environ.get('C02_TIMING'):
        import time
        sys.stderr.write('[%7.1fs] %s\n' % (time.time() - chk.start, what))


def main():
    chk = Check('C02', level='proof', description=__doc__)
    if chk.args.replay:
        replay(chk, chk.args.replay)
    chk.coq_props()
    tick(chk, 'coq_props')
    pending = {}
    try:
        valid = gen_valid(chk)
        big = [(label, spec) for (label, spec) in valid if label == 'big']
        valid = [(label, spec) for (label, spec) in valid if label != 'big']
        if os.environ.get('C02_LIMIT'):   # development aid only
            valid = valid[::max(1, len(valid) // int(os.environ['C02_LIMIT']))]
            big = big[:1]
        findings = gen_findings(chk)
        tick(chk, 'generated')
        shared = {}
        gens = [big_suite(chk, big, pending), run_streams(chk, valid, pending, shared),
                typed_view_suite(chk, valid, shared), run_streams(chk, findings, pending, {}), malformed_suite(chk)]
        (bad_big, (bad_enc, bad_dec), bad_views, (fbad_enc, fbad_dec), (n_mal, table)) = run_all(chk, gens)
        bad_enc += bad_big
        tick(chk, 'all suites compared')
    except CoqError as err:
        chk.obligation('correspondence:model-evaluation', False, str(err)[:1500])
        chk.finish(rule='model evaluation failed')
        return
    chk.obligation('correspondence:enc bytes(Bundle) vs impl_encode_bundle/with_crc_bundle (%d bundles x 4 build modes)' % len(valid),
                   not bad_enc, '; '.join(bad_enc[:3]))
    chk.obligation('correspondence:dec Bundle(octets) vs decode_bundle + re-encoding (%d octet strings of the independent encoder)' % len(valid),
                   not bad_dec, '; '.join(bad_dec[:3]))
    chk.obligation('correspondence:typed BTSD views (status report, previous node, age, hop count)', not bad_views, '; '.join(bad_views[:3]))
    chk.obligation('correspondence:defect classes reproduced by the faithful model (%d inputs outside the guard)' % len(findings),
                   not (fbad_enc or fbad_dec), '; '.join((fbad_enc + fbad_dec)[:3]))
    (n_fwd, n_sent) = agent_suite(chk)
    tick(chk, 'agent')
    for (sig, (what, path)) in sorted(pending.items()):
        print('PENDING-FINDING: property=C02 %s -- %s (replay=%s)' % (sig, what[:300], path))
    chk.finish(
        rule=('valid stream = every subset of the 9 defined primary flags, every CRC-type triple, every presence pattern of the '
              'optional status-report fields, every integer field at the CBOR head boundaries %s, 64 KiB payloads, plus seeded random '
              'bundles, DTN times around every power of two of ms and s since 2000 handed over as int / datetime / ISO text, block counts '
              'around 23/24 and 255/256 array items (dtn:none / dtn://node/demux over VCHAR without ?# / ipn 2 and 3 parts, known block types 6,7,10,11,12 and '
              'unknown ones, unassigned flag bits); each is encoded by the real classes seven ways (BTSD octets or typed payloads x given or computed CRCs x times as int, datetime, ISO), and the independent encoder\'s '
              'octets are decoded and re-encoded by the real classes; findings stream = inputs of the three defect classes; '
              'agent-tx = octets given to a fake CL by the real agent. A case is non-trivial when a conditional field, a CRC, an '
              'extension block, an administrative record or a non-null EID is present; distinct = distinct spec (sha1). '
              'The malformed stream (%d octet strings) is tabulated in coverage.malformed and is not part of the verdict.'
              % (bg.BOUNDARY, n_mal)),
        extra_cov=dict(malformed=table, malformed_cases=n_mal, agent_forwarded=n_fwd, agent_transmitted=n_sent,
                       pending_findings=[dict(signature=sig, what=what, replay=path) for (sig, (what, path)) in sorted(pending.items())],
                       standing_refuted=['C02_roundtrip_refuted (%s)' % SIG_QUERY, 'C02_reencode_refuted (%s)' % SIG_QUERY,
                                         'C02_roundtrip_refuted_reason (%s)' % SIG_REASON,
                                         'status_report_roundtrip_refuted (%s)' % SIG_REASON],
                       standing_partial=['C02_roundtrip_partial', 'C02_reencode_partial', 'status_report_roundtrip_partial']),
        assumptions=[
            'harness stubs (crcmod: table CRC written from the catalogue parameters; dbus/GLib for the agent suite) are trusted-base items',
            'the independent codec harness/bundlegen.py (plain cbor2 + bitwise CRC, written from RFC 9171) is the oracle',
            'cbor2 is modelled by Lib/Cbor (floats, 2-octet simple values, indefinite strings/maps, UTF-8 validation outside the model)',
            'EID text <-> structure: the model covers dtn SSPs as octets; urlsplit is modelled by impl_norm_ssp and checked by correspondence '
            'on VCHAR SSPs only',
            'DTN time <-> datetime conversion (DtnTimeField.datetime_to_dtntime / dtntime_to_datetime) is covered by the correspondence '
            'and the oracle, not by a theorem: the Coq model takes the integer ms; the harness converts with integer arithmetic only and '
            'builds every bundle additionally with its times given as datetime objects and as ISO text (sweep of +-ms around 2^k ms and '
            '2^k s since 2000 for k = 0..45, plus random ms instants over 2000-2040); a wrong conversion is a correspondence break and an '
            'oracle failure on a concrete input',
            'C02_reencode covers octets of a deterministic encoder (shortest heads, definite-length blocks); RFC 9171 4.1 also permits '
            'indefinite-length items inside blocks, which the implementation normalises (malformed table)',
        ])


if __name__ == '__main__':
    main()
