(* C09 (agent level) -- when does closing ONE contact stop the whole agent?

   tcpcl.agent.Agent._unbind_handler runs when a contact has closed: it removes
   the handler from the list and then decides whether to call Agent.stop(),
   which hard-closes every REMAINING contact (cutting any transfer in progress
   on them, without a SESS_TERM exchange).  [gen_stop_after_unbind] is that
   test, regenerated from tcpcl/agent.py on every run (Gen/AgentLoops.v) over
   three booleans: the remaining handler list is empty, shutdown() was
   requested, stop_on_close is configured.

   C09_stop_only_after_last_contact   the agent stops only when no contact
                                      remains -- whatever the configuration;
   C09_stop_after_unbind_spec         exactly: no contact remains and
                                      (shutdown requested or stop_on_close);
   C09_shutdown_stops_after_last      after shutdown() the closing of the last
                                      contact stops the agent (no session and
                                      no agent left half-open). *)
From Coq Require Import Bool.
From DTN Require Import Gen.AgentLoops.

Theorem C09_stop_only_after_last_contact : forall handlers_empty in_shutdown stop_on_close,
  gen_stop_after_unbind handlers_empty in_shutdown stop_on_close = true -> handlers_empty = true.
Proof. intros [] [] []; cbn; intro H; try reflexivity; discriminate H. Qed.
Print Assumptions C09_stop_only_after_last_contact.

Theorem C09_stop_after_unbind_spec : forall handlers_empty in_shutdown stop_on_close,
  gen_stop_after_unbind handlers_empty in_shutdown stop_on_close = handlers_empty && (in_shutdown || stop_on_close).
Proof. intros [] [] []; reflexivity. Qed.
Print Assumptions C09_stop_after_unbind_spec.

Theorem C09_shutdown_stops_after_last : forall stop_on_close,
  gen_stop_after_unbind true true stop_on_close = true.
Proof. intros []; reflexivity. Qed.
Print Assumptions C09_shutdown_stops_after_last.
