''' C05 -- BP fragmentation keeps every fragment within the route MTU and loses nothing.

  1. proofs: coq/Props/C05.v (every transmitted bundle within the MTU for ALL payload lengths and
     MTUs, tiling, progress/termination, identity and block sets, unchanged cases, infeasible =>
     nothing sent; with an abstract security step: refuted + partial) re-checked by coqc against
     coq/Gen/FragBudget.v, which the translator regenerates from the current fragment.py,
  2. translator tie: every translated definition is also evaluated (vm_compute) against the same
     arithmetic executed by the live Python interpreter on a table,
  3. correspondence of the TRANSMITTED OCTET STRINGS of one send request -- local send_bundle() and
     the forwarded path (decoded bundle, Agent.recv_bundle -> _do_fwd -> send_bundle) -- with
     coq/Model/BpFrag.v (run_case, vm_compute) on a grid of payload lengths x MTUs around every CBOR
     head boundary x CRC types x extension-block sets x flags,
  4. the property oracle, written from the property text over plain-cbor2 decodings of what the fake
     convergence layer was given (independent CRC), on every observation, security policy off and on.
'''
import env  # noqa: F401  (first: sys.path for stubs and the repo under test)
import glob
import json
import os
import re
import sys

import cbor2

from common import Check, CoqError, coq_bytes, mkdata, VERIF

env.shim_oscrypto()
import bpdrive  # noqa: E402

SIG_SEC = 'C05 / BPSec BIB policy on / fragments re-enter TX chain and grow past MTU (local send, own-source bundle)'
CORPUS_GLOB = os.path.join(VERIF, 'harness', 'corpus', 'C05_*.json')

NODE = 'dtn://me/'
FLAG_FRAG = 0x01
FLAG_ADMIN = 0x02
FLAG_NOFRAG = 0x04
BLK_REPLICATE = 0x01
NOW_MS = 800000000000

chk = Check('C05', level='proof', description=__doc__)


# ----------------------------------------------------------------------------------------------
# plain-cbor2 view of bundles (oracle side; nothing of bp.encoding is used here)

def crc_field(crc_type, pre):
    return bpdrive.CRC_FUN[crc_type](pre).to_bytes(bpdrive.CRC_LEN[crc_type], 'big')


def enc_block_array(fields, crc_type):
    ''' One block array (without a CRC element) -> octets with the CRC computed over the encoding
    with a zeroed CRC field (RFC 9171 4.2.1). '''
    if crc_type == 0:
        return cbor2.dumps(list(fields))
    size = bpdrive.CRC_LEN[crc_type]
    pre = cbor2.dumps(list(fields) + [b'\x00' * size])
    return pre[:-size] + crc_field(crc_type, pre)


def enc_bundle(pri, blocks):
    ''' pri: primary fields without CRC element; blocks: [type, num, flags, crc_type, data] each. '''
    out = b'\x9f' + enc_block_array(pri, pri[2])
    for blk in blocks:
        out += enc_block_array(blk, blk[3])
    return out + b'\xff'


def eid_item(eid):
    return bpdrive.eid_to_cbor(eid)


_BLOCKS = {}


def gdata(seed, length):
    ''' same as Model.BpFrag.gdata: the 251-octet block mkdata(seed, 251) repeated '''
    blk = _BLOCKS.get(seed)
    if blk is None:
        if len(_BLOCKS) > 5000:
            _BLOCKS.clear()
        blk = _BLOCKS[seed] = mkdata(seed, 251)
    return (blk * (length // 251 + 1))[:length]


def case_payload(case):
    return gdata(case['seed'], case['plen'])


def spec_arrays(case, payload=None):
    ''' The bundle a case describes, as plain arrays (primary fields, block list).  For the local path
    this is the bundle handed to send_bundle; for the forwarded path it is the bundle received. '''
    flags = case.get('flags', 0)
    if case.get('frag') is not None:
        flags |= FLAG_FRAG
    pri = [7, flags, case['crc'], eid_item(case['dest']), eid_item(case['src']), eid_item(case.get('report_to')),
           [case['time'], case.get('seq', 0)], case.get('lifetime', 3600000)]
    if flags & FLAG_FRAG:
        pri += list(case['frag'])
    blocks = [[blk['type'], blk['num'], blk.get('flags', 0), blk.get('crc', case['crc']), bytes.fromhex(blk['data_hex'])]
              for blk in case.get('ext', ())]
    if not case.get('no_payload_block'):
        blocks.append([1, 1, case.get('pflags', 0), case.get('pcrc', case['crc']),
                       case_payload(case) if payload is None else payload])
    return (pri, blocks)


def view(raw):
    ''' Decoded view of transmitted octets: dict(ok, pri(list w/o crc), blocks([t,n,f,c,data]), crc_ok, size). '''
    dec = bpdrive.decode_bundle(raw)
    out = dict(ok=dec['ok'], error=dec.get('error'), size=len(raw))
    if not dec['ok']:
        return out
    pri = dec['primary']
    out['prim'] = pri
    out['ident'] = (pri['version'], pri['crc_type'], pri['dest'], pri['src'], pri['report_to'], pri['time'], pri['seq'], pri['lifetime'])
    out['flags'] = pri['flags']
    out['frag'] = pri['frag']
    out['blocks'] = [[blk['type'], blk['num'], blk['flags'], blk['crc_type'], blk['data']] for blk in dec['blocks']]
    out['crc_ok'] = dec['crc_ok']
    return out


def view_arrays(vw):
    ''' back to plain arrays for enc_bundle() '''
    pri = vw['prim']
    arr = [pri['version'], pri['flags'], pri['crc_type'], eid_item(pri['dest']), eid_item(pri['src']), eid_item(pri['report_to']),
           [pri['time'], pri['seq']], pri['lifetime']]
    if pri['frag'] is not None:
        arr += list(pri['frag'])
    return (arr, [list(blk) for blk in vw['blocks']])


def digest(data):
    ''' same as Model.BpFrag.digest '''
    s1 = 0
    s2 = 0
    for octet in data:
        s1 += octet + 1
        s2 += s1
    return s2 * 4294967296 + s1


def show(raw):
    return (len(raw), digest(raw), list(raw[:96]))


# ----------------------------------------------------------------------------------------------
# the property oracle (from the property text)

def expected_blocks(ref_blocks, offset):
    ''' Non-payload blocks a fragment must carry: all of them in the first fragment, afterwards exactly
    the ones marked replicate-in-every-fragment. '''
    ext = [blk for blk in ref_blocks if not (blk[0] == 1 and blk[1] == 1)]
    if offset == 0:
        return ext
    return [blk for blk in ext if blk[2] & BLK_REPLICATE]


def oracle(ref_raw, mtu, sent):
    ''' ref_raw: the unfragmented encoding of the bundle of this send request (what goes out on a route
    without MTU); sent: octet strings given to the convergence layer on the route with ``mtu``.
    :return: list of (kind, text); empty = the property holds on this observation. '''
    bad = []
    ref = view(ref_raw)
    if not ref['ok']:
        return [('reference-undecodable', ref['error'])]
    must_split = (mtu is not None and len(ref_raw) > mtu and not ref['flags'] & FLAG_NOFRAG and not ref['flags'] & FLAG_FRAG)
    if not must_split:
        # do-not-fragment, an existing fragment, a bundle that fits, no MTU: sent unchanged
        if list(sent) != [ref_raw]:
            bad.append(('not-sent-unchanged', 'expected exactly the unfragmented encoding (%d octets), got %d bundle(s) of sizes %s' % (
                len(ref_raw), len(sent), [len(x) for x in sent][:8])))
        return bad
    if not sent:
        return bad   # fragmentation judged impossible: nothing transmitted (nothing altered, nothing oversized)
    pay = [blk for blk in ref['blocks'] if blk[0] == 1 and blk[1] == 1]
    payload = pay[0][4] if pay else b''
    frags = []
    for (idx, raw) in enumerate(sent):
        if len(raw) > mtu:
            bad.append(('oversize', 'transmitted bundle #%d of %d has %d octets on a route with MTU %d' % (idx, len(sent), len(raw), mtu)))
        vw = view(raw)
        if not vw['ok']:
            bad.append(('undecodable', 'transmitted bundle #%d: %s' % (idx, vw['error'])))
            continue
        if not vw['crc_ok']:
            bad.append(('bad-crc', 'transmitted bundle #%d has an invalid CRC' % idx))
        if vw['frag'] is None:
            if raw == ref_raw:
                bad.append(('original-sent-oversized', 'the unfragmented bundle itself (%d octets) was transmitted on a route with MTU %d '
                            'although it may be fragmented' % (len(raw), mtu)))
            else:
                bad.append(('altered-original-sent', 'transmitted bundle #%d (%d octets, MTU %d) is neither the original (%d octets) nor a fragment; '
                            'payload block data: %s' % (idx, len(raw), mtu, len(ref_raw),
                                                        [('%d octets' % len(blk[4])) if isinstance(blk[4], bytes) else repr(blk[4])
                                                         for blk in vw['blocks'] if blk[0] == 1])))
            continue
        if vw['ident'] != ref['ident']:
            bad.append(('identity', 'fragment #%d primary %r differs from the original %r' % (idx, vw['ident'], ref['ident'])))
        if vw['flags'] != ref['flags'] | FLAG_FRAG:
            bad.append(('flags', 'fragment #%d flags %#x, original %#x' % (idx, vw['flags'], ref['flags'])))
        frags.append((idx, vw))
    if not frags:
        return bad
    # tiling: contiguous, non-overlapping, complete
    order = sorted(frags, key=lambda item: item[1]['frag'][0])
    pos = 0
    data = b''
    for (idx, vw) in order:
        (off, total) = vw['frag']
        pblk = [blk for blk in vw['blocks'] if blk[0] == 1 and blk[1] == 1]
        if len(pblk) != 1 or vw['blocks'][-1] is not pblk[0] and vw['blocks'][-1] != pblk[0]:
            bad.append(('payload-block', 'fragment #%d has %d payload blocks / payload block not last' % (idx, len(pblk))))
            continue
        piece = pblk[0][4]
        if not isinstance(piece, bytes):
            bad.append(('payload-not-bstr', 'fragment #%d payload block data is %r' % (idx, piece)))
            continue
        if total != len(payload):
            bad.append(('total-length', 'fragment #%d total length %d, payload has %d octets' % (idx, total, len(payload))))
        if off != pos:
            bad.append(('tiling', 'fragment #%d starts at %d, previous ones end at %d' % (idx, off, pos)))
        if len(piece) == 0:
            bad.append(('empty-fragment', 'fragment #%d carries no payload octets' % idx))
        pos = off + len(piece)
        data += piece
        if pay and (pblk[0][2], pblk[0][3]) != (pay[0][2], pay[0][3]):
            bad.append(('payload-block', 'fragment #%d payload block flags/crc type %r, original %r' % (idx, pblk[0][2:4], pay[0][2:4])))
        # blocks: first fragment all, later ones exactly the replicated ones
        got = [blk for blk in vw['blocks'] if not (blk[0] == 1 and blk[1] == 1)]
        want = expected_blocks(ref['blocks'], off)
        if got != want:
            extra = [blk for blk in got if blk not in want]
            missing = [blk for blk in want if blk not in got]
            if missing or [blk for blk in got if blk in want] != want:
                bad.append(('blocks', 'fragment #%d (offset %d): missing/reordered blocks %r' % (idx, off, [blk[:3] for blk in missing])))
            for blk in extra:
                bad.append(('extra-block:type%d' % blk[0], 'fragment #%d (offset %d) carries block type %d number %d that the original does not%s'
                            % (idx, off, blk[0], blk[1], '' if off == 0 else ' mark for replication')))
    if pos != len(payload) or data != payload:
        bad.append(('tiling', 'fragments cover %d of %d payload octets%s' % (pos, len(payload), '' if data == payload[:len(data)] else ', content differs')))
    return bad


def refusal_class(ref_raw, mtu, sent):
    ''' For the evidence only (not a verdict): when a bundle that had to be split was not sent at all, would a
    first fragment carrying a single payload octet have fitted the MTU? '''
    ref = view(ref_raw)
    if not ref.get('ok') or mtu is None or sent or len(ref_raw) <= mtu or ref['flags'] & (FLAG_NOFRAG | FLAG_FRAG):
        return None
    (pri, blocks) = view_arrays(ref)
    pay = [blk for blk in blocks if blk[0] == 1 and blk[1] == 1]
    if not pay or not isinstance(pay[0][4], bytes) or not pay[0][4]:
        return 'refused:empty-or-no-payload'
    total = len(pay[0][4])
    pri = pri[:8]
    pri[1] |= FLAG_FRAG
    pay[0][4] = pay[0][4][:1]
    first = enc_bundle(pri + [0, total], blocks)
    return 'refused:one-octet-first-fragment-would-fit' if len(first) <= mtu else 'refused:not-even-one-octet-fits'


def strip_reentry_bibs(ref_raw, sent):
    ''' Security policy on: remove from every fragment the integrity blocks (type 11) that the property does not
    expect there, re-encode (plain cbor2, CRCs recomputed). :return: (normalised octets, number removed) '''
    ref = view(ref_raw)
    out = []
    removed = 0
    for raw in sent:
        vw = view(raw)
        if not vw.get('ok') or vw['frag'] is None:
            out.append(raw)
            continue
        want = expected_blocks(ref['blocks'], vw['frag'][0])
        keep = [blk for blk in vw['blocks'] if not (blk[0] == 11 and blk not in want)]
        if len(keep) == len(vw['blocks']):
            out.append(raw)
            continue
        removed += len(vw['blocks']) - len(keep)
        (pri, _blocks) = view_arrays(vw)
        out.append(enc_bundle(pri, keep))
    return (out, removed)


# ----------------------------------------------------------------------------------------------
# driving the real agent

class Impl(object):
    ''' One real agent per security-policy setting, reused across cases (route MTU switched, duplicate
    suppression and reassembly state cleared between runs).  Virtual clock frozen. '''

    def __init__(self):
        self.drivers = {}

    def driver(self, policy, fresh=False):
        if fresh or policy not in self.drivers:
            drv = bpdrive.BpDriver(node_id=NODE, rx_routes=[('.*', 'forward')],
                                   tx_routes=[dict(pattern='.*', next_nodeid='dtn://hop/', cl_type='fake', mtu=None)],
                                   clock=bpdrive.Clock(now_ms=NOW_MS, tick=0), capture_order=None)
            if policy:
                self.install_policy(drv)
            # drivers share the process-wide GLib.CTX, which BpDriver() resets: only the newest one is usable
            self.drivers = {policy: drv}
        drv = self.drivers[policy]
        drv.agent._seen_bundle_ident.clear()
        frag_app = drv.agent._app.get('fragment')
        if frag_app is not None:
            frag_app._reassembly.clear()
        return drv

    @staticmethod
    def install_policy(drv):
        ''' The policy CoseContext.load_config() installs from sign_key_file -- sign the payload of bundles
        sourced by this node -- with a symmetric (HMAC-256) key so that no certificate files are needed. '''
        from pycose import algorithms
        from pycose.keys import keyops, SymmetricKey
        from bp.app.bpsec import BPSEC_COSE_CONTEXT_ID, SecAssociation, SecOperation
        ctx = drv.agent._app['bpsec']._contexts[BPSEC_COSE_CONTEXT_ID]
        key = SymmetricKey(k=bytes(range(32)), optional_params={'KID': b'c05', 'ALG': algorithms.HMAC256,
                                                                'KEY_OPS': [keyops.MacCreateOp, keyops.MacVerifyOp]})
        ctx.sym_key_store[key.kid] = key
        own_pat = re.escape(NODE.removesuffix('/') + '/') + '.*'
        ctx.sec_assoc.append(SecAssociation(src_pat=re.compile(own_pat), dst_pat=re.compile('.*'), tgt_blk_types=[1],
                                            templates=[SecOperation(sec_type='bib', role='source', priv_key_id=key.kid)]))

    @staticmethod
    def build_local(case):
        ''' The bundle of the case built with the implementation's own classes, as an application would. '''
        from bp.util import BundleContainer
        from bp.encoding import PrimaryBlock, CanonicalBlock, Timestamp
        (pri, blocks) = spec_arrays(case)
        kwargs = dict(bundle_flags=pri[1], crc_type=case['crc'], destination=case['dest'], source=case['src'],
                      create_ts=Timestamp(dtntime=case['time'], seqno=case.get('seq', 0)), lifetime=case.get('lifetime', 3600000))
        if case.get('report_to') is not None:
            kwargs['report_to'] = case['report_to']
        if pri[1] & FLAG_FRAG:
            kwargs.update(fragment_offset=case['frag'][0], total_app_data_len=case['frag'][1])
        ctr = BundleContainer()
        ctr.bundle.primary = PrimaryBlock(**kwargs)
        ctr.bundle.blocks = [CanonicalBlock(type_code=blk[0], block_num=blk[1], block_flags=blk[2], crc_type=blk[3], btsd=blk[4])
                             for blk in blocks]
        return ctr

    @staticmethod
    def reset_sticky_block_numbers():
        ''' Before repository commit ed76b97 ``CanonicalBlock() / PreviousNodeBlock(...)`` shared the class-level
        scapy overload dict and BundleContainer._fix_blk_num() wrote the chosen block number into it, so the
        number stuck for every later block of that type in the process (a forwarding matter, not C05; fixed).
        Clearing it is a no-op on the fixed tree and makes every send request on an older tree be observed as
        the first one of a process (replays are then identical). '''
        from bp.encoding import CanonicalBlock
        for (_fval, cls) in list(getattr(CanonicalBlock, 'payload_guess', [])):
            over = (getattr(cls, '_overload_fields', None) or {}).get(CanonicalBlock)
            if isinstance(over, dict):
                over.pop('block_num', None)

    def run(self, case, mtu):
        ''' One send request on a route with ``mtu``. :return: dict(tx=[octets], exc, escaped, reports) '''
        policy = bool(case.get('policy'))
        drv = self.driver(policy, fresh=bool(case.get('fresh_agent')))
        self.reset_sticky_block_numbers()
        drv.cfg.tx_route_table[0].mtu = mtu
        mark = len(drv.transmitted)
        res = dict(exc=None)
        if case['path'] == 'local':
            ctr = self.build_local(case)
            route = drv.cfg.tx_route_table[0]
            if case.get('preset_sender'):
                # an application (or an earlier send) left a send function on the container
                ctr.sender = drv.cl['fake'].send_bundle_func(dict(route.raw_config))
            # send HISTORY: the same container was sent before, while the route had other MTUs; the container
            # carries state from one send to the next (route, sender, CRC values, block numbers)
            res['history'] = []
            for old_mtu in case.get('history', ()):
                route.mtu = old_mtu
                before = len(drv.transmitted)
                exc = None
                try:
                    drv.agent.send_bundle(ctr)
                except Exception as err:
                    exc = err.__class__.__name__
                drv.drain()
                res['history'].append(dict(mtu=old_mtu, exc=exc, sizes=[ent['size'] for ent in drv.transmitted[before:]]))
            route.mtu = mtu
            mark = len(drv.transmitted)
            try:
                drv.agent.send_bundle(ctr)
            except Exception as err:  # the caller of send_bundle sees this
                res['exc'] = err.__class__.__name__
            res['escaped'] = drv.drain()
        else:
            (pri, blocks) = spec_arrays(case)
            obs = drv.recv(enc_bundle(pri, blocks))
            res['exc'] = obs['decode_error'] or obs['recv_exc']
            res['escaped'] = obs['escaped']
        sent = [bytes.fromhex(ent['raw_hex']) for ent in drv.transmitted[mark:]]
        del drv.transmitted[:]
        res['tx'] = []
        res['reports'] = []
        for raw in sent:
            vw = view(raw)
            own_admin = vw.get('ok') and (vw['flags'] & FLAG_ADMIN) and vw['prim']['src'] == NODE
            (res['reports'] if own_admin else res['tx']).append(raw)
        return res


IMPL = Impl()


# ----------------------------------------------------------------------------------------------
# cases

def base_case(path, plen, crc=2, mtu=None, **kw):
    case = dict(path=path, plen=plen, seed=kw.pop('seed', 7 + plen % 1000), crc=crc, mtu=mtu, flags=0,
                dest='dtn://far/svc', src=(NODE if path == 'local' else 'dtn://src/'), report_to=None,
                time=NOW_MS - 10000, seq=3, lifetime=3600000, ext=[], frag=None, policy=False)
    case.update(kw)
    return case


def ext_block(btype, num, flags, size, crc=None, seed=1):
    blk = dict(type=btype, num=num, flags=flags, data_hex=mkdata(seed + num, size).hex())
    if crc is not None:
        blk['crc'] = crc
    return blk


EXT_SETS = {
    'none': [],
    'plain': [ext_block(193, 2, 0, 9)],
    'repl': [ext_block(194, 2, BLK_REPLICATE, 7)],
    'mixed': [ext_block(193, 2, 0, 30, crc=1), ext_block(194, 3, BLK_REPLICATE, 5, crc=0), ext_block(195, 4, 0x11, 12),
              ext_block(196, 7, 0x04, 3)],
    'hop': [dict(type=10, num=2, flags=0, data_hex=cbor2.dumps([30, 2]).hex()),
            dict(type=7, num=3, flags=BLK_REPLICATE, data_hex=cbor2.dumps(5000).hex())],
}


def ref_size(case):
    ''' size of the unfragmented encoding as the property oracle computes it for a LOCAL case '''
    return len(enc_bundle(*spec_arrays(case)))


def grid(quick):
    cases = []

    def add(case, tag):
        case = dict(case)
        case['tag'] = tag
        cases.append(case)

    # A. every MTU from below the feasibility limit to above the bundle size, payload 300 (head 3 octets):
    #    the fragment data length passes 23/24 and 255/256
    for (path, ext) in (('local', 'none'), ('fwd', 'repl')):
        probe = base_case(path, 300, ext=EXT_SETS[ext])
        top = ref_size(probe) + (40 if path == 'fwd' else 0) + 3
        step = (1 if path == 'local' else 3) if not quick else (5 if path == 'local' else 11)
        for mtu in range(48, top, step):
            add(dict(probe, mtu=mtu), 'sweep300-' + path)
    # B. payload lengths at the head boundaries, MTUs that put fragment lengths at the boundaries
    for plen in ((0, 1, 23, 24, 255, 256, 600) if quick else (0, 1, 2, 22, 23, 24, 25, 254, 255, 256, 257, 600)):
        for crc in (0, 1, 2):
            for path in ('local', 'fwd'):
                if quick and crc != 2 and (crc + plen + (path == 'fwd')) % 2:
                    continue
                probe = base_case(path, plen, crc=crc, ext=EXT_SETS['plain' if crc == 1 else 'none'])
                size = ref_size(probe) + (40 if path == 'fwd' else 0)
                over = size - plen
                mtus = {size - 1, size, size + 1, over + 20, over + 23, over + 24, over + 25, over + 26, over + 27, over + 28,
                        over - 5, over, over + 3, over + 8, over + 12, 1, 30}
                if plen >= 254:
                    mtus |= {over + 254 + d for d in range(-3, 8)}
                if quick:
                    mtus = set(sorted(mtus)[(crc + (path == 'fwd')) % 3::3]) | {size - 1, size}
                for mtu in sorted(val for val in mtus if val > 0):
                    add(dict(probe, mtu=mtu), 'boundary')
    # C. extension-block sets with and without the replicate flag, both origins, all CRC types
    for (name, ext) in sorted(EXT_SETS.items()):
        for crc in (0, 1, 2):
            for path in ('local', 'fwd'):
                for plen in (40, 300):
                    probe = base_case(path, plen, crc=crc, ext=ext)
                    size = ref_size(probe)
                    for mtu in (size - plen + 4, size - plen + 30, size - plen // 2, size - 1, size + 45):
                        if quick and (crc != 2 or plen == 40) and mtu % 2:
                            continue
                        add(dict(probe, mtu=mtu), 'ext-' + name)
    # D. do-not-fragment, already a fragment, fits, no MTU, no route MTU at all, report requests
    for path in ('local', 'fwd'):
        for plen in (10, 300):
            for ext in ('none', 'mixed'):
                probe = base_case(path, plen, ext=EXT_SETS[ext])
                for mtu in ((None, 60, 200) if quick else (None, 60, 100, 200, 1000)):
                    add(dict(probe, mtu=mtu, flags=FLAG_NOFRAG), 'no-fragment')
                    add(dict(probe, mtu=mtu, frag=[100, 5000]), 'already-fragment')
                    add(dict(probe, mtu=mtu, flags=FLAG_NOFRAG | 0x40, frag=[0, 5000]), 'already-fragment')
                    add(dict(probe, mtu=mtu), 'plain')
                    add(dict(probe, mtu=mtu, flags=0x040000 | 0x010000 | 0x004000, report_to='dtn://src/rpt'), 'report-requests')
    # E. long payloads: total length and fragment lengths around 65535/65536 (and the 5-octet head)
    big = [(65536, 30000), (65537, 1500), (65536, 65560)]
    for probe_len in ((65536,) if quick else (65535, 65536, 65537)):
        probe = base_case('local', 140000)
        over = ref_size(probe) - 140000
        big.append((140000, over + 2 + probe_len))
    big += [(65536, 70), (65600, 65590)]
    if not quick:
        big += [(65535, 30000), (70000, 66000), (65600, 65700), (65536, 700), (200000, 66000), (65535, 65535), (65536, 65536), (66000, 32768)]
    for (idx, (plen, mtu)) in enumerate(big):
        for path in (('local', 'fwd') if (not quick or idx == 0) else ('local',)):
            add(base_case(path, plen, crc=(2 if idx % 2 else 1), mtu=mtu, ext=EXT_SETS['repl']), 'big')
    # F. security policy on (the default policy shape: sign the payload of own-source bundles)
    for (plen, mtu) in ((600, 250), (600, 200), (300, 150), (40, 1000), (300, 60)):
        add(base_case('local', plen, mtu=mtu, policy=True), 'policy-local')
        add(base_case('fwd', plen, mtu=mtu, policy=True, ext=EXT_SETS['repl']), 'policy-fwd')
    # H. send HISTORIES on one agent: the SAME container is sent again after the route MTU changed (the container keeps
    #    route / sender / CRC state between sends), a container that arrives with a send function already set, a
    #    container re-sent after a failed attempt.  The judged send is the last one; every earlier prefix is a case too.
    for (plen, crc, ext) in ((300, 2, 'none'), (300, 1, 'mixed'), (40, 2, 'repl'), (600, 0, 'plain'))[:(2 if quick else 4)]:
        probe = base_case('local', plen, crc=crc, ext=EXT_SETS[ext])
        size = ref_size(probe)
        small = size - plen // 2          # must be split, can be
        small2 = size - plen + 30
        never = 40                        # must be split, cannot be
        for (hist, mtu, pre) in (
                ([None], small, False), ([size + 10], small, False), ([None], never, False), ([small], never, False),
                ([never], small, False), ([never], None, False), ([small], None, False), ([small], size, False),
                ([None, small], small2, False), ([small, never], small2, False), ([never, never], small, False),
                ([], small, True), ([], never, True), ([], size, True), ([], None, True), ([None], small, True), ([never], small, True)):
            add(dict(probe, history=list(hist), mtu=mtu, preset_sender=pre), 'history')
    # G. random
    rng = chk.rng
    for _ in range(60 if quick else 4000):
        path = rng.choice(('local', 'fwd'))
        plen = rng.choice((rng.randrange(0, 40), rng.randrange(0, 700), rng.randrange(200, 300), rng.randrange(0, 3000)))
        ext = []
        for num in range(2, 2 + rng.randrange(0, 4)):
            ext.append(ext_block(rng.choice((192, 193, 200, 7, 10, 6)) if path == 'local' else rng.choice((192, 193, 200)),
                                 num + rng.randrange(0, 2) * 20, rng.choice((0, 1, 1, 0x10, 0x15)), rng.randrange(0, 60),
                                 crc=rng.choice((None, 0, 1, 2)), seed=rng.randrange(1000)))
        probe = base_case(path, plen, crc=rng.choice((0, 1, 2)), ext=ext, seed=rng.randrange(1 << 30),
                          flags=rng.choice((0, 0, 0, 0x40, FLAG_NOFRAG, 0x20)), seq=rng.randrange(0, 70000),
                          pcrc=rng.choice((0, 1, 2)), pflags=rng.choice((0, 0, 4)))
        if rng.random() < 0.08:
            probe['frag'] = [rng.randrange(0, 1000), rng.randrange(1000, 100000)]
        size = ref_size(probe)
        mtu = rng.choice((None, rng.randrange(1, size + 60), rng.randrange(max(1, size - plen - 10), size + 5), size - plen + rng.randrange(0, 40)))
        add(dict(probe, mtu=mtu), 'random')
    return cases


# ----------------------------------------------------------------------------------------------
# one case through the implementation, the oracle and (later, batched) the model

def skeleton(ref_raw):
    ''' The unfragmented bundle with its payload emptied (input of the model, which puts mkdata back). '''
    vw = view(ref_raw)
    (pri, blocks) = view_arrays(vw)
    for blk in blocks:
        if blk[0] == 1 and blk[1] == 1:
            blk[4] = b''
    return enc_bundle(pri, blocks)


def coq_case(skel, case):
    mtu = case['mtu']
    return '(%s, %d, %d, %s)' % (coq_bytes(skel), case['seed'], case['plen'], '(@nil N)' if mtu is None else '[%d]' % mtu)


def observe(case):
    ''' Reference run (route without MTU) and the run under test. '''
    ref = IMPL.run(dict(case, history=[], preset_sender=False), None)
    got = IMPL.run(case, case['mtu'])
    return (ref, got)


def case_key(case):
    return json.dumps({key: val for (key, val) in case.items() if key != 'tag'}, sort_keys=True)


def judge(case, ref, got, model):
    ''' Oracle + correspondence for one case.  :return: (list of (signature, text), correspondence ok, detail) '''
    fails = []
    mtu = case['mtu']
    if len(ref['tx']) != 1:
        # the reference itself: a bundle sent on a route without MTU goes out once, as it is
        fails.append(('%s / no-mtu route / %d bundles transmitted' % (case['path'], len(ref['tx'])),
                      'route without MTU: expected one bundle, got %d (exc %s)' % (len(ref['tx']), ref['exc'])))
        return (fails, True, 'no reference')
    ref_raw = ref['tx'][0]
    if case['path'] == 'local' and not case.get('policy'):
        want = enc_bundle(*spec_arrays(case))
        if ref_raw != want:
            fails.append(('local / no-mtu route / bundle altered', 'unfragmented transmission differs from the plain encoding of the bundle handed in'))
    verdict = oracle(ref_raw, mtu, got['tx'])
    kinds = sorted(set(kind for (kind, _text) in verdict))
    sent_cmp = got['tx']
    if verdict and case.get('policy') and case['path'] == 'local' and case['src'] == NODE and set(kinds) <= {'oversize', 'extra-block:type11'}:
        (norm, removed) = strip_reentry_bibs(ref_raw, got['tx'])
        if removed and not oracle(ref_raw, mtu, norm):
            # exactly the recorded finding: fragments are right except for the integrity block added on re-entry
            fails.append((SIG_SEC, 'payload %d, MTU %d: transmitted sizes %s; without the %d re-entry BIB(s) %s'
                          % (case['plen'], mtu, [len(x) for x in got['tx']], removed, [len(x) for x in norm])))
            verdict = []
            sent_cmp = norm
    hist = ''
    if case.get('history') or case.get('preset_sender'):
        # the hand-offs of THIS send are judged against the MTU in force now, whatever the container went through before
        hist = ' / same container re-sent after MTU %s%s' % (
            ','.join('none' if val is None else ('ok' if val >= len(ref_raw) else 'small') for val in case.get('history', ())) or '-',
            ' / sender pre-set' if case.get('preset_sender') else '')
    must_split = (mtu is not None and len(ref_raw) > mtu and not view(ref_raw)['flags'] & (FLAG_NOFRAG | FLAG_FRAG))
    if case['path'] == 'local' and must_split and not got['tx'] and got['exc'] is None:
        verdict.append(('no-failure-reported', 'nothing was handed to the convergence layer for a %d-octet bundle on MTU %d, yet send_bundle() '
                        'returned normally: the caller cannot tell the bundle was not sent' % (len(ref_raw), mtu)))
    for (kind, text) in verdict:
        fails.append(('%s / policy %s%s / %s' % (case['path'], 'on' if case.get('policy') else 'off', hist, kind),
                      text + (' [history %s]' % got.get('history') if hist else '')))
    # correspondence with the model
    corr = True
    detail = ''
    if model is not None:
        (ok, code, outs) = model
        mine = [show(raw) for raw in sent_cmp]
        theirs = [(ln, dg, list(pre)) for (ln, dg, pre) in outs]
        if not ok:
            corr = False
            detail = 'model could not decode the skeleton'
        elif mine != [tuple(item) for item in theirs]:
            corr = False
            detail = 'model code %d sizes %s, implementation sizes %s' % (code, [item[0] for item in theirs][:10], [item[0] for item in mine][:10])
    return (fails, corr, detail)


def run_cases(cases, label):
    ''' :return: (all correspondence ok, first detail, number of oracle failures) '''
    obs = []
    terms = []
    for case in cases:
        (ref, got) = observe(case)
        obs.append((ref, got))
        if len(ref['tx']) == 1 and view(ref['tx'][0]).get('ok'):
            terms.append(coq_case(skeleton(ref['tx'][0]), case))
        else:
            terms.append(None)
    model = [None] * len(cases)
    model_err = None
    idxs = [idx for (idx, term) in enumerate(terms) if term is not None]
    # long payloads get a shard each (they dominate the wall time); the rest is spread over <= 16 shards
    heavy = [idx for idx in idxs if cases[idx]['plen'] >= 20000]
    light = [idx for idx in idxs if cases[idx]['plen'] < 20000]
    try:
        for (part, name, chunk) in ((heavy, label + 'big', 1), (light, label, max(20, (len(light) + 31) // 32))):
            res = chk.coq_eval(name, ['Model.BpFrag'], [terms[idx] for idx in part], 'BpFrag.run_case', chunk=chunk, timeout=2400)
            for (idx, val) in zip(part, res):
                ((ok, code), outs) = (val[0:2], val[2]) if len(val) == 3 else (val[0], val[1])
                model[idx] = (ok, code, outs)
    except CoqError as err:
        model_err = str(err)[:800]
    all_ok = model_err is None
    first = model_err or ''
    nfail = 0
    for (case, (ref, got), mod) in zip(cases, obs, model):
        (fails, corr, detail) = judge(case, ref, got, mod)
        code = mod[1] if mod else None
        sizes = [len(x) for x in got['tx']]
        chk.count('path', case['path'])
        chk.count('tag', case.get('tag', '?'))
        chk.count('crc', case['crc'])
        chk.count('outcome', {0: 'unchanged', 1: 'fragments', 2: 'nothing-sent', 3: 'no-payload-block', 4: 'stuck', None: 'model-n/a'}[code])
        chk.count('fragments', min(len(sizes), 10) if code == 1 else 0)
        chk.count('payload_head', len(cbor2.dumps(case['plen'])))
        if len(ref['tx']) == 1:
            cls = refusal_class(ref['tx'][0], case['mtu'], got['tx'])
            if cls:
                chk.count('nothing_sent', cls)
        # non-trivial: the fragment step did something (split or refused); distinct by the whole case
        chk.case(ident=case_key(case), nontrivial=(code in (1, 2)),
                 sample=(dict(case={k: v for (k, v) in case.items() if k != 'ext'}, sizes=sizes[:12], model_code=code)
                         if code == 1 and len(sizes) > 2 else None))
        if not corr:
            all_ok = False
            if not first:
                first = 'case %s: %s' % (case_key(case)[:400], detail)
            if not fails:
                # correspondence broken without an oracle failure on this case: remember it for the search
                BROKEN.append(case)
        for (sig, text) in fails:
            nfail += 1
            report(sig, text, case)
    return (all_ok, first, nfail)


BROKEN = []
viol_counts = {}


def report(sig, text, case):
    full = sig if sig == SIG_SEC else 'C05 / ' + sig
    viol_counts[full] = viol_counts.get(full, 0) + 1
    chk.fail(signature=full, what=text, replay_obj=dict(case=case))


# ----------------------------------------------------------------------------------------------
# the translated definitions against the live arithmetic

def gen_table():
    ''' Rows (mtu, orig, payload_size, pse, template size, offset, bundle flags, block flags, block num). '''
    rows = []
    rng = chk.rng
    for _ in range(200 if chk.quick() else 1000):
        ps = rng.choice((0, 1, 23, 24, 255, 256, 300, 65535, 65536, rng.randrange(0, 70000)))
        pse = len(cbor2.dumps(ps))
        over = rng.randrange(20, 200)
        rows.append((rng.choice((1, over, over + ps, rng.randrange(1, 70000))), over + ps, ps, pse, over + rng.randrange(0, 9),
                     rng.choice((0, 0, 1, 23, 24, rng.randrange(0, ps + 1))), rng.choice((0, 1, 4, 5, 0x40, 0x44, 0x10000)),
                     rng.choice((0, 1, 2, 3, 0x11)), rng.choice((0, 1, 2, 7))))
    return rows


def live_gen(row):
    ''' The same quantities computed by executing the statements of the CURRENT fragment.py::_create in
    isolation: the function source is sliced into its expressions by the translator's own parse and
    evaluated with the live enum objects. '''
    import ast
    import bp.app.fragment as fragmod
    from bp.encoding import PrimaryBlock, CanonicalBlock, Bundle

    class Blk(object):
        pass
    if not _LIVE:
        _LIVE.update(live_exprs(fragmod.__file__))
    exprs = _LIVE
    codes = _CODES

    def ev(node, scope):
        code = codes.get(id(node))
        if code is None:
            code = codes[id(node)] = compile(ast.fix_missing_locations(ast.Expression(body=node)), '<fragment.py>', 'eval')
        return eval(code, dict(PrimaryBlock=PrimaryBlock, CanonicalBlock=CanonicalBlock, Bundle=Bundle, len=len), scope)

    (mtu, orig, ps, pse, nps, off, bflags, kflags, knum) = row
    blk = Blk()
    blk.block_flags = CanonicalBlock.Flag(kflags)
    blk.block_num = knum
    base = dict(orig_size=orig, payload_size=ps, pyld_size_enc=pse, payload_data=range(ps), bundle_flags=PrimaryBlock.Flag(bflags),
                frag_offset=off, blk=blk)
    should_t = bool(ev(exprs['should_fragment'], dict(base, mtu=mtu)))
    should_f = bool(ev(exprs['should_fragment'], dict(base, mtu=None)))
    np0 = ev(exprs['non_pyld_size'], dict(base, mtu=mtu))
    big = bool(ev(exprs['raise_tests'][0], dict(base, mtu=mtu, non_pyld_size=np0)))
    fsz = ev(exprs['frag_size'], dict(base, mtu=mtu, non_pyld_size=nps))
    bad = bool(ev(exprs['raise_tests'][1], dict(base, mtu=mtu, frag_size=fsz)))
    scope = dict(base, mtu=mtu, frag_size=fsz, non_pyld_size=nps)
    return ([should_t, should_f, big, bad, bool(ev(exprs['loop_test'], scope)), bool(ev(exprs['keep'], scope)),
             bool(ev(exprs['is_pay'], scope)), np0 >= 0, fsz >= 0],
            [abs(np0), abs(fsz), abs(ev(exprs['lo'], scope)), abs(ev(exprs['hi'], scope)), abs(ev(exprs['step'], scope))])


_LIVE = {}
_CODES = {}


def live_exprs(path):
    ''' The expressions of Fragment._create, located by role in the live source file. '''
    import ast
    tree = ast.parse(open(path).read())
    func = [sub for node in tree.body if isinstance(node, ast.ClassDef) and node.name == 'Fragment'
            for sub in node.body if isinstance(sub, ast.FunctionDef) and sub.name == '_create'][0]
    exprs = {}
    for node in ast.walk(func):
        if isinstance(node, ast.Assign) and len(node.targets) == 1 and isinstance(node.targets[0], ast.Name):
            name = node.targets[0].id
            if name in ('should_fragment', 'frag_size') or (name == 'non_pyld_size' and not isinstance(node.value, ast.Call)):
                exprs[name] = node.value
        if isinstance(node, ast.While):
            exprs['loop_test'] = node.test
        if isinstance(node, ast.If) and any(isinstance(sub, ast.Raise) for sub in node.body):
            exprs.setdefault('raise_tests', []).append(node.test)
        if isinstance(node, ast.For) and isinstance(node.iter, ast.Attribute) and node.iter.attr == 'blocks':
            exprs['keep'] = node.body[0].test
            inner = [sub for sub in node.body[0].body if isinstance(sub, ast.If)]
            exprs['is_pay'] = inner[0].test
        if isinstance(node, ast.Subscript) and isinstance(node.slice, ast.Slice):
            exprs['lo'] = node.slice.lower
            exprs['hi'] = node.slice.upper
        if isinstance(node, ast.AugAssign) and isinstance(node.target, ast.Name) and node.target.id == 'frag_offset':
            exprs['step'] = ast.BinOp(left=ast.Name(id='frag_offset', ctx=ast.Load()), op=node.op, right=node.value)

    return exprs


def check_gen():
    rows = gen_table()
    terms = ['([%s]%%Z, [%s]%%N)' % ('; '.join('%d' % val for val in row[:6]), '; '.join('%d' % val for val in row[6:])) for row in rows]
    try:
        res = chk.coq_eval('gen', ['Model.BpFrag'], terms, 'BpFrag.run_gen', chunk=200)
    except CoqError as err:
        return (False, 'Gen/FragBudget.v does not evaluate: %s' % str(err)[:500])
    for (row, val) in zip(rows, res):
        try:
            live = live_gen(row)
        except Exception as err:  # the live source no longer has the named pieces: this comparison is not applicable
            return (None, 'live evaluation of fragment.py expressions not possible: %s: %s' % (err.__class__.__name__, err))
        got = ([bool(x) for x in val[0]], list(val[1]))
        if got != (live[0], live[1]):
            return (False, 'row %r: Gen gives %r, live Python gives %r' % (row, got, live))
    return (True, '%d rows' % len(rows))


# ----------------------------------------------------------------------------------------------

def load_corpus():
    out = []
    for path in sorted(glob.glob(CORPUS_GLOB)):
        with open(path) as infile:
            doc = json.load(infile)
        for ent in doc.get('witnesses', []):
            out.append(dict(ent['case'], tag='corpus'))
    return out


ASSUMPTIONS = [
    'harness stubs (dbus, gi.repository.GLib virtual main context, crcmod stand-in) and harness/bpdrive.py (fake convergence layer, '
    'frozen clock, plain-cbor2 decoder with an independent bitwise CRC) are trusted',
    'translate/targets/fragbudget.py is trusted; bounded by the table comparison of every translated definition with the live Python '
    'expressions and by the octet-level correspondence',
    'model codec = Model/Bundle.v (encode_bundle, with_crc_bundle, decode_bundle); len(ctr.bundle) inside the chain equals the '
    'transmitted length (CRC placeholders have the final width)',
    'outside the model: duplicate block numbers, administrative-record payloads, EIDs altered by the text conversion, routes without a CL object, '
    'bundles without a payload block (modelled as NoPayload = sent as is; not generated)',
    'one agent is reused across cases (route MTU switched; duplicate-suppression set, reassembly table and -- for trees older than ed76b97 -- the '
    'class-level sticky block numbers cleared before every run): each send request is observed as the first one of a process',
    'container-carried state (BundleContainer.route / .sender, CRC values, block numbers left by an earlier send) is not part of the model: '
    'Model/BpFrag.send_history is map (send_request b) over the MTUs.  That it has no influence is covered by the history correspondence: '
    'the same container is re-sent on one agent after the route MTU changed / with a sender pre-set / after a failed attempt, and every '
    'hand-off of the judged send is compared with the model and judged against the MTU in force at that send',
    'security policy: the BPSec apply step is abstract in the theorems (any bundle transformer); the implementation is run with the default policy '
    'shape (sign the payload of own-source bundles) and an HMAC-256 key',
]

RULE = ('boundary-directed grid + seeded random cases; each case = (origin local|forwarded, payload length, MTU, CRC type, extension blocks, flags, '
        'policy).  Grid: every MTU from below the feasibility limit to above the bundle size for a 300-octet payload; payload lengths '
        '0,1,23,24,255,256,600 (thorough: also 2,22,25,254,257) x MTUs placing fragment lengths at 23/24 and 255/256; payloads 65535..65537, 70000, 140000 with fragment lengths at '
        '65535/65536/65537; extension sets none/plain/replicated/mixed/hop-count+age x CRC 0/1/2; do-not-fragment, already-a-fragment, fits, no MTU, '
        'infeasible MTUs; policy on; send HISTORIES (the same container re-sent after the route MTU went none->small, large->small, small->impossible, impossible->small, ...; sender pre-set; every hand-off judged against the MTU in force at that send, a refused send must raise).  Every case is run twice through the real agent (route without MTU = reference, route with the MTU), through '
        'Model/BpFrag.run_case (vm_compute; compared by length, 64-bit digest and the first 96 octets of every transmitted bundle) and through '
        'the oracle.  distinct = distinct case; non-trivial = the fragment step split the bundle or refused it (model result code 1 or 2).')


def main():
    if chk.args.replay:
        with open(chk.args.replay) as infile:
            rep = json.load(infile)
        case = (rep.get('replay') or {}).get('case')
        ok = chk.coq_props()
        if case is None:
            chk.obligation('replay:obligations', ok, getattr(chk, 'coq_failure', ''))
            chk.finish(rule='replay of a broken-obligation report: the proof obligations are re-checked', assumptions=ASSUMPTIONS)
        (ref, got) = observe(case)
        print('replayed case: %s' % case_key(case)[:600])
        print('reference (no MTU): %s' % [len(x) for x in ref['tx']])
        print('transmitted (MTU %s): sizes %s exc %s escaped %s' % (case['mtu'], [len(x) for x in got['tx']], got['exc'], got['escaped']))
        for raw in got['tx'][:6]:
            vw = view(raw)
            if vw.get('ok'):
                print('   flags %#x frag %s blocks %s' % (vw['flags'], vw['frag'], [(b[0], b[1], b[2], len(b[4]) if isinstance(b[4], bytes) else b[4]) for b in vw['blocks']]))
        (corr, detail, _nfail) = run_cases([case], 'replay')
        chk.obligation('correspondence:replayed-case', corr, detail)
        chk.finish(rule='replay of exactly one stored case through the real agent, the model and the oracle', assumptions=ASSUMPTIONS)

    quick = chk.quick()
    props_ok = chk.coq_props()
    (tr_ok, tr_err) = chk.translate_ok('fragbudget')

    corpus = load_corpus()
    cases = list(corpus)
    seen = set(case_key(case) for case in cases)
    for case in grid(quick):
        key = case_key(case)
        if key not in seen:
            seen.add(key)
            cases.append(case)
    (corr_ok, detail, nfail) = run_cases(cases, 'grid')
    (gen_ok, gen_detail) = check_gen()

    if (not props_ok or not corr_ok or gen_ok is False or not tr_ok) and not any(sig != SIG_SEC for sig in viol_counts):
        # a tie or a proof broke and the oracle has not failed yet: search at 10x the budget (DESIGN section 4)
        broke = (not props_ok or not corr_ok or gen_ok is False)
        more = [case for case in grid(False) if case_key(case) not in seen][:(10 if broke else 2) * max(1, len(cases))]
        (corr2, detail2, _n2) = run_cases(BROKEN[:50] + more, 'search')
        chk.coverage['search_cases'] = len(more)
        if not corr2 and corr_ok:
            (corr_ok, detail) = (False, detail2)

    chk.obligation('correspondence:transmitted-octets(real agent vs Model/BpFrag.run_case)', corr_ok, detail)
    if tr_ok:
        # the table comparison must be possible whenever the translator recognised the source
        chk.obligation('translator-table:Gen/FragBudget.v vs live fragment.py expressions', gen_ok is True, gen_detail)
        chk.obligation('translator:fragbudget', True, '')
    else:
        # fail-closed translator: the last generated model stays in place; the tie is then carried by the octet-level
        # differential run above (DESIGN 3.1) -- it holds only if every case agreed and the proofs still check
        chk.obligation('translator-table:Gen/FragBudget.v vs live fragment.py expressions%s' % (' (not applicable: source reshaped)' if gen_ok is None else ''),
                       gen_ok is not False, gen_detail)
        chk.obligation('translator:fragbudget (failed: %s) -> fallback: octet-level differential against the last generated model' % tr_err[:300],
                       corr_ok and props_ok and gen_ok is not False, detail or gen_detail)

    chk.coverage['refuted_or_partial_theorems'] = {
        'C05_within_mtu_sec_refuted / C05_within_mtu_sec_partial': SIG_SEC,
    }
    chk.coverage['oracle_failures_by_signature'] = dict(sorted(viol_counts.items()))
    chk.coverage['translator'] = dict(ok=tr_ok, error=tr_err)
    chk.finish(rule=RULE, assumptions=ASSUMPTIONS)


if __name__ == '__main__':
    main()
