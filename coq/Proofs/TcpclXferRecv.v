(** C01 / C17, receiver side: what an endpoint of [Model/TcpclSess.v] delivers
    is exactly what the specification fold [deliver_spec] computes from the
    frames it acted on, for every operation list and arbitrary received octets. *)
From Coq Require Import ZArith NArith List Bool Lia ZifyBool ZifyN ZifyNat.
From RecordUpdate Require Import RecordSet.
From DTN Require Import Lib.Bytes Model.TcpclMsg Model.TcpclSess Model.TcpclXferSpec Proofs.TcpclSessBasics.
Import ListNotations RecordSetNotations.
Local Open Scope N_scope.
Ltac Zify.zify_post_hook ::= Z.div_mod_to_equations.

(** ** The receiver view of a state and the helpers that preserve it *)

(** Events that matter to the receiver: "receive finished" signals and pops. *)
Definition quiet (e : event) : bool :=
  match e with
  | ESig SigRecvFinished _ => false
  | EPop _ _ => false
  | _ => true
  end.
Definition loud (e : event) : bool := negb (quiet e).
Definition lt (s : ep) : list event := filter loud (trace s).

Definition rv (s : ep) := (in_sess s, rx_tmp s, handled s, rx_map s, lt s, end_acks (sent s)).

Definition view := (bool * option (N * bytes) * list frame * list (N * bytes) * list event * list (N * N))%type.
Definition v_sess (v : view) := fst (fst (fst (fst (fst v)))).
Definition v_tmp (v : view) := snd (fst (fst (fst (fst v)))).
Definition v_hd (v : view) := snd (fst (fst (fst v))).
Definition v_map (v : view) := snd (fst (fst v)).
Definition v_lt (v : view) := snd (fst v).
Definition v_acks (v : view) := snd v.

Lemma filter_app' {A} (f : A -> bool) a b : filter f (a ++ b) = filter f a ++ filter f b.
Proof. induction a as [|x a IH]; cbn [filter app]; [reflexivity|]. destruct (f x); cbn [app]; rewrite IH; reflexivity. Qed.

Lemma lt_emit e s : lt (emit e s) = lt s ++ (if loud e then [e] else []).
Proof. unfold lt, emit. cbn [trace set]. cbn. rewrite filter_app'. cbn [filter]. destruct (loud e); reflexivity. Qed.

Lemma rv_emit e s : quiet e = true -> rv (emit e s) = rv s.
Proof.
  intros Q. unfold rv. rewrite lt_emit. unfold loud. rewrite Q. cbn [negb]. rewrite app_nil_r. reflexivity.
Qed.

(** Dropping updates of fields outside the view, without unfolding the state
    they are applied to. *)
Ltac rv_norm :=
  repeat match goal with
  | |- context [rv (set ?p ?f ?x)] =>
      let H := fresh in
      assert (H : forall y, rv (set p f y) = rv y) by (intro; reflexivity);
      rewrite (H x); clear H
  end.

Lemma rv_set_state st s : rv (set_state st s) = rv s.
Proof. unfold set_state. destruct (state s =? st); [reflexivity|]. rewrite rv_emit by reflexivity. reflexivity. Qed.
Lemma rv_ka_reset s : rv (ka_reset s) = rv s. Proof. reflexivity. Qed.
Lemma rv_idle_reset s : rv (idle_reset s) = rv s. Proof. reflexivity. Qed.
Lemma rv_send_ready s : rv (send_ready s) = rv s.
Proof. unfold send_ready. destruct (io_set s); match goal with |- context [if ?c then _ else _] => destruct c end; reflexivity. Qed.
Lemma rv_send_frame_gen f s :
  rv (send_frame f s) = (v_sess (rv s), v_tmp (rv s), v_hd (rv s), v_map (rv s), v_lt (rv s), v_acks (rv s) ++ end_ack_of f).
Proof.
  unfold send_frame. rewrite rv_idle_reset, rv_ka_reset, rv_send_ready.
  unfold rv. cbn [sent set]. cbn. unfold end_acks. rewrite flat_map_app. cbn [flat_map]. rewrite app_nil_r. reflexivity.
Qed.
Lemma rv_send_frame f s : end_ack_of f = [] -> rv (send_frame f s) = rv s.
Proof. intros H. rewrite rv_send_frame_gen, H, app_nil_r. reflexivity. Qed.
Lemma rv_send_msg m s : end_ack_of (FMsg m) = [] -> rv (send_msg m s) = rv s.
Proof. unfold send_msg. apply rv_send_frame. Qed.
Lemma rv_send_msg_gen m s :
  rv (send_msg m s) = (v_sess (rv s), v_tmp (rv s), v_hd (rv s), v_map (rv s), v_lt (rv s), v_acks (rv s) ++ end_ack_of (FMsg m)).
Proof. unfold send_msg. apply rv_send_frame_gen. Qed.
Lemma rv_flush_fold (l : list (N * bytes)) : forall s0,
  rv (fold_left (fun s (it : N * bytes) =>
               emit (ESig SigSendFinished [PStrNum (fst it); PInt 0; PStr RES_TERMINATING])
                    (s <| tx_map := dict_del (fst it) (tx_map s) |>)) l s0) = rv s0.
Proof.
  induction l as [|it l IH]; intros s0; cbn [fold_left]; [reflexivity|].
  rewrite IH, rv_emit by reflexivity. reflexivity.
Qed.

Lemma rv_flush_pend_start s : rv (flush_pend_start s) = rv s.
Proof. unfold flush_pend_start. rewrite rv_flush_fold. reflexivity. Qed.

Lemma rv_do_close s : rv (do_close s) = rv s.
Proof.
  unfold do_close. cbv zeta.
  match goal with |- context [if ?c then _ else _] => destruct c end; [reflexivity|].
  rewrite rv_emit by reflexivity. rv_norm.
  match goal with |- context [if ?c then _ else _] => destruct c end; rv_norm; rewrite rv_flush_pend_start; reflexivity.
Qed.
Lemma rv_pq_trigger s : rv (pq_trigger s) = rv s.
Proof. unfold pq_trigger. destruct (pq_set s); reflexivity. Qed.
Lemma rv_sbd n s : rv (send_buffer_decreased n s) = rv s.
Proof. unfold send_buffer_decreased. destruct (_ <? _); [apply rv_pq_trigger|reflexivity]. Qed.
Lemma rv_check_sess_term s : rv (check_sess_term s) = rv s.
Proof. unfold check_sess_term. destruct (_ && _); [apply rv_do_close|reflexivity]. Qed.
Lemma rv_send_contact_header s : rv (send_contact_header s) = rv s.
Proof. unfold send_contact_header. apply rv_send_frame. reflexivity. Qed.
Lemma rv_send_sess_init s : rv (send_sess_init s) = rv s.
Proof. unfold send_sess_init. cbv zeta. rv_norm. apply rv_send_msg. reflexivity. Qed.
Lemma rv_send_sess_term r b s : rv (fst (send_sess_term r b s)) = rv s.
Proof.
  unfold send_sess_term. destruct (negb (in_sess s)); [reflexivity|]. destruct (in_term s); [reflexivity|].
  cbv zeta. cbn [fst ok]. rewrite rv_send_msg by reflexivity. rewrite rv_set_state. reflexivity.
Qed.
Lemma rv_escape r : rv (escape r) = rv (fst r).
Proof. destruct r as [s [k|]]; cbn [escape fst]; [apply rv_emit|]; reflexivity. Qed.
Lemma rv_send_next s : rv (send_next s) = rv s.
Proof.
  unfold send_next. destruct (tx_tmp s) as [[id data]|]; [|reflexivity].
  cbv zeta. destruct (_ && _); [reflexivity|].
  match goal with |- context [if ?c then _ else _] => destruct c end.
  - rewrite rv_pq_trigger. rv_norm. rewrite rv_send_msg by reflexivity. rv_norm. reflexivity.
  - rewrite rv_send_msg by reflexivity. rv_norm. reflexivity.
Qed.

Lemma rv_process_queue s : rv (fst (process_queue s)) = rv s.
Proof.
  unfold process_queue. cbv zeta. cbn [tx_tmp in_sess in_term pend_start set].
  destruct (tx_tmp s) as [p|] eqn:T.
  - cbn [fst]. rewrite rv_send_next. reflexivity.
  - destruct (negb (in_sess s)); [reflexivity|]. destruct (in_term s); [reflexivity|].
    destruct (pend_start s) as [|[id data] rest]; [reflexivity|].
    cbn [fst]. rewrite rv_send_next, rv_emit by reflexivity. rv_norm. reflexivity.
Qed.

Lemma rv_merge_session_params s : rv (fst (merge_session_params s)) = rv s.
Proof.
  unfold merge_session_params.
  destruct (sessinit_this s) as [this|]; [|reflexivity].
  destruct (sessinit_peer s) as [peer|]; [|reflexivity].
  destruct (negb (ascii (si_nodeid peer))); reflexivity.
Qed.

Lemma rv_tx_proxy a s : rv (fst (tx_proxy a s)) = rv s.
Proof.
  unfold tx_proxy.
  match goal with |- context [if ?c then ?x else ?y] =>
    assert (H : rv (fst (if c then x else y)) = rv s) end.
  { destruct (_ <? CHUNK); cbn [fst]; [|reflexivity].
    rv_norm. rewrite rv_sbd. rv_norm. reflexivity. }
  match goal with |- context [if ?c then ?x else ?y] => destruct (if c then x else y) as [s1 ue] end.
  cbn [fst] in H. destruct (is_nil (conn_tx s1)); [exact H|].
  cbv zeta. destruct (_ =? 0); cbn [fst]; [rewrite rv_do_close; exact H|].
  rv_norm. exact H.
Qed.

(** ** Operations other than a socket read or a pop leave the view alone *)
Definition rx_op (o : op) : bool :=
  match o with ORx _ | OPop _ => true | _ => false end.

Lemma rv_step_other s o : rx_op o = false -> rv (step s o) = rv s.
Proof.
  intros Ho. destruct o; try discriminate Ho; unfold step.
  - (* OStart *)
    destruct (closed s); [reflexivity|].
    destruct (negb (state s =? ST_CONNECTING)); [reflexivity|].
    cbv zeta. rewrite rv_set_state.
    destruct (c_passive (cf s)); [reflexivity|]. rv_norm. apply rv_send_contact_header.
  - (* OSend *)
    destruct (closed s); [reflexivity|].
    destruct (in_term s); [apply rv_emit; reflexivity|]. cbv zeta.
    rewrite rv_emit by reflexivity. rewrite rv_pq_trigger. rv_norm. reflexivity.
  - (* OTerm *)
    destruct (closed s); [reflexivity|].
    destruct (negb (in_sess s)); [apply rv_do_close|].
    rewrite rv_escape. apply rv_send_sess_term.
  - (* OClose *)
    destruct (closed s); [reflexivity|]. apply rv_do_close.
  - (* OTxPump *)
    destruct (closed s); [reflexivity|].
    match goal with |- context [if ?c then _ else _] => destruct c end; [|reflexivity].
    cbv zeta.
    pose proof (rv_tx_proxy accept (s <| pend_set := false |>)) as H.
    destruct (tx_proxy accept (s <| pend_set := false |>)) as [s1 cont]. cbn [fst] in H.
    assert (H' : rv s1 = rv s) by (rewrite H; rv_norm; reflexivity).
    destruct cont; [exact H'|]. destruct idle; rv_norm; exact H'.
  - (* ORxEof *)
    destruct (closed s); [reflexivity|]. destruct (rx_alive s); [apply rv_do_close|reflexivity].
  - (* OPQ *)
    destruct (closed s); [reflexivity|].
    match goal with |- context [if ?c then _ else _] => destruct c end; [|reflexivity].
    pose proof (rv_process_queue s) as H.
    destruct (process_queue s) as [s1 keep]. cbn [fst] in H.
    destruct keep; rv_norm; exact H.
  - (* OFireKa *)
    destruct (closed s); [reflexivity|].
    destruct (ka_due s) as [due|]; [|reflexivity].
    destruct (due <=? now s); [|reflexivity]. rewrite rv_send_msg by reflexivity. rv_norm. reflexivity.
  - (* OFireIdle *)
    destruct (closed s); [reflexivity|].
    destruct (idle_due s) as [due|]; [|reflexivity].
    destruct (due <=? now s); [|reflexivity]. cbv zeta. cbn [in_term set].
    destruct (in_term s).
    + rewrite rv_do_close. rv_norm. reflexivity.
    + rewrite rv_escape, rv_send_sess_term. rv_norm. reflexivity.
  - (* OAdvance *) rv_norm. reflexivity.
Qed.

(** ** The view after handling one frame *)
Lemma rv_eta s : rv s = (v_sess (rv s), v_tmp (rv s), v_hd (rv s), v_map (rv s), v_lt (rv s), v_acks (rv s)).
Proof. reflexivity. Qed.
Lemma rv_upd_rx_tmp v s : rv (s <| rx_tmp := v |>) = (v_sess (rv s), v, v_hd (rv s), v_map (rv s), v_lt (rv s), v_acks (rv s)).
Proof. reflexivity. Qed.
Lemma rv_upd_rx_map v s : rv (s <| rx_map := v |>) = (v_sess (rv s), v_tmp (rv s), v_hd (rv s), v, v_lt (rv s), v_acks (rv s)).
Proof. reflexivity. Qed.
Lemma rv_upd_in_sess v s : rv (s <| in_sess := v |>) = (v, v_tmp (rv s), v_hd (rv s), v_map (rv s), v_lt (rv s), v_acks (rv s)).
Proof. reflexivity. Qed.
Lemma rv_upd_handled v s : rv (s <| handled := v |>) = (v_sess (rv s), v_tmp (rv s), v, v_map (rv s), v_lt (rv s), v_acks (rv s)).
Proof. reflexivity. Qed.
Lemma rv_emit_loud e s : loud e = true ->
  rv (emit e s) = (v_sess (rv s), v_tmp (rv s), v_hd (rv s), v_map (rv s), v_lt (rv s) ++ [e], v_acks (rv s)).
Proof. intros L. unfold rv at 1. rewrite lt_emit, L. reflexivity. Qed.
Lemma rx_map_rv s : rx_map s = v_map (rv s). Proof. reflexivity. Qed.
Lemma rx_tmp_rv s : rx_tmp s = v_tmp (rv s). Proof. reflexivity. Qed.
Lemma in_sess_rv s : in_sess s = v_sess (rv s). Proof. reflexivity. Qed.

Ltac rv_push :=
  repeat first
    [ rewrite rv_check_sess_term | rewrite rv_send_msg_gen | rewrite rv_upd_rx_tmp | rewrite rv_upd_rx_map
    | rewrite rv_emit by reflexivity | rewrite rv_emit_loud by reflexivity
    | progress cbn [v_sess v_tmp v_hd v_map v_lt v_acks fst snd] ].

Ltac vcbn := cbn [v_sess v_tmp v_hd v_map v_lt v_acks fst snd].

(** The part of [recv_xfer_data] after the transfer id check, as a function. *)
Definition seg_tail (fl xid : N) (acc : bytes) (s1 : ep) : ep * outcome :=
  let s := s1 <| rx_tmp := Some (xid, acc) |> in
  let len := N.of_nat (length acc) in
  let s := send_msg (MXferAck fl xid len) s in
  if has_end fl then
    let s := s <| rx_map := dict_set xid acc (rx_map s) |> in
    let s := emit (ESig SigRecvFinished [PStrNum xid; PInt len; PStr RES_SUCCESS]) s in
    (check_sess_term (s <| rx_tmp := None |>), Done)
  else
    (emit (ESig SigRecvInter [PStrNum xid; PInt len]) s, Done).

Lemma handle_seg_eq fl xid ext data s :
  handle_msg (MXferSeg fl xid ext data) s =
  if negb (in_sess s) then (s, Reject REJ_UNEXPECTED)
  else
    match (if has_start fl
           then Some (emit (ESig SigRecvStarted [PStrNum xid; PDbusStr]) (s <| rx_tmp := Some (xid, []) |>))
           else match rx_tmp s with
                | Some (cur, _) => if cur =? xid then Some s else None
                | None => None
                end) with
    | None => (s, Reject REJ_UNEXPECTED)
    | Some s1 => seg_tail fl xid (match rx_tmp s1 with Some (_, acc) => acc ++ data | None => data end) s1
    end.
Proof. reflexivity. Qed.

(** Forward forms: from the view of a state to the view of an updated state. *)
Lemma F_upd_rx_tmp s a b c d e f v : rv s = (a, b, c, d, e, f) -> rv (s <| rx_tmp := v |>) = (a, v, c, d, e, f).
Proof. intros H. rewrite rv_upd_rx_tmp, H. reflexivity. Qed.
Lemma F_upd_rx_map s a b c d e f v : rv s = (a, b, c, d, e, f) -> rv (s <| rx_map := v |>) = (a, b, c, v, e, f).
Proof. intros H. rewrite rv_upd_rx_map, H. reflexivity. Qed.
Lemma F_send_msg m s a b c d e f : rv s = (a, b, c, d, e, f) ->
  rv (send_msg m s) = (a, b, c, d, e, f ++ end_ack_of (FMsg m)).
Proof. intros H. rewrite rv_send_msg_gen, H. reflexivity. Qed.
Lemma F_emit_loud ev s a b c d e f : loud ev = true -> rv s = (a, b, c, d, e, f) ->
  rv (emit ev s) = (a, b, c, d, e ++ [ev], f).
Proof. intros L H. rewrite rv_emit_loud by exact L. rewrite H. reflexivity. Qed.
Lemma F_emit_quiet ev s v : quiet ev = true -> rv s = v -> rv (emit ev s) = v.
Proof. intros Q H. rewrite rv_emit by exact Q. exact H. Qed.
Lemma F_check_sess_term s v : rv s = v -> rv (check_sess_term s) = v.
Proof. intros H. rewrite rv_check_sess_term. exact H. Qed.
Lemma F_rx_map s a b c d e f : rv s = (a, b, c, d, e, f) -> rx_map s = d.
Proof. intros H. rewrite rx_map_rv, H. reflexivity. Qed.
Lemma F_rx_tmp s a b c d e f : rv s = (a, b, c, d, e, f) -> rx_tmp s = b.
Proof. intros H. rewrite rx_tmp_rv, H. reflexivity. Qed.

Lemma rv_seg_tail fl xid acc s1 a b c d e f : rv s1 = (a, b, c, d, e, f) ->
  rv (fst (seg_tail fl xid acc s1)) =
  if has_end fl then
    (a, None, c, dict_set xid acc d,
     e ++ [ESig SigRecvFinished [PStrNum xid; PInt (N.of_nat (length acc)); PStr RES_SUCCESS]],
     f ++ [(xid, N.of_nat (length acc))])
  else (a, Some (xid, acc), c, d, e, f).
Proof.
  intros E0. unfold seg_tail. cbv zeta.
  pose proof (F_upd_rx_tmp _ _ _ _ _ _ _ (Some (xid, acc)) E0) as E1.
  pose proof (F_send_msg (MXferAck fl xid (N.of_nat (length acc))) _ _ _ _ _ _ _ E1) as E2.
  cbn [end_ack_of] in E2.
  destruct (has_end fl) eqn:En.
  - rewrite (F_rx_map _ _ _ _ _ _ _ E2).
    pose proof (F_upd_rx_map _ _ _ _ _ _ _ (dict_set xid acc d) E2) as E3.
    pose proof (F_emit_loud (ESig SigRecvFinished [PStrNum xid; PInt (N.of_nat (length acc)); PStr RES_SUCCESS])
                  _ _ _ _ _ _ _ eq_refl E3) as E4.
    pose proof (F_upd_rx_tmp _ _ _ _ _ _ _ None E4) as E5.
    exact (F_check_sess_term _ _ E5).
  - rewrite app_nil_r in E2.
    exact (F_emit_quiet (ESig SigRecvInter [PStrNum xid; PInt (N.of_nat (length acc))]) _ _ eq_refl E2).
Qed.

Lemma rv_handle_seg fl xid ext data s :
  rv (fst (handle_msg (MXferSeg fl xid ext data) s)) =
  if in_sess s then
    match rx_accept (rx_tmp s) fl xid with
    | None => rv s
    | Some acc =>
      if has_end fl then
        (in_sess s, None, handled s, dict_set xid (acc ++ data) (rx_map s),
         lt s ++ [ESig SigRecvFinished [PStrNum xid; PInt (N.of_nat (length (acc ++ data))); PStr RES_SUCCESS]],
         end_acks (sent s) ++ [(xid, N.of_nat (length (acc ++ data)))])
      else (in_sess s, Some (xid, acc ++ data), handled s, rx_map s, lt s, end_acks (sent s))
    end
  else rv s.
Proof.
  rewrite handle_seg_eq. destruct (in_sess s) eqn:IS; cbn [negb]; [|reflexivity].
  assert (E0 : rv s = (true, rx_tmp s, handled s, rx_map s, lt s, end_acks (sent s)))
    by (unfold rv; rewrite IS; reflexivity).
  unfold rx_accept. destruct (has_start fl).
  - pose proof (F_upd_rx_tmp _ _ _ _ _ _ _ (Some (xid, [])) E0) as E1.
    pose proof (F_emit_quiet (ESig SigRecvStarted [PStrNum xid; PDbusStr]) _ _ eq_refl E1) as E2.
    rewrite (F_rx_tmp _ _ _ _ _ _ _ E2).
    exact (rv_seg_tail fl xid ([] ++ data) _ _ _ _ _ _ _ E2).
  - destruct (rx_tmp s) as [[c acc0]|] eqn:RT; [|reflexivity].
    destruct (c =? xid) eqn:Ec; [|reflexivity].
    rewrite RT. exact (rv_seg_tail fl xid (acc0 ++ data) _ _ _ _ _ _ _ E0).
Qed.

Lemma rv_handle_init ka smru xmru nid ext s :
  rv (fst (handle_msg (MSessInit ka smru xmru nid ext) s)) = (true, rx_tmp s, handled s, rx_map s, lt s, end_acks (sent s)).
Proof.
  unfold handle_msg. cbv zeta.
  match goal with |- context [merge_session_params ?x] =>
    pose proof (rv_merge_session_params x) as H; destruct (merge_session_params x) as [s1 [k|]] end;
  cbn [fst] in *; rewrite ?rv_set_state, H; rewrite rv_upd_in_sess; rv_norm;
  (destruct (c_passive (cf s)); [rewrite rv_send_sess_init|]; reflexivity).
Qed.

Lemma rv_handle_term fl r s : rv (fst (handle_msg (MSessTerm fl r) s)) = rv s.
Proof.
  unfold handle_msg. destruct (negb (in_sess s)); [reflexivity|].
  destruct (in_term s).
  - cbn [fst]. rewrite rv_check_sess_term, rv_flush_pend_start. reflexivity.
  - pose proof (rv_send_sess_term r true s) as H.
    destruct (send_sess_term r true s) as [s1 [k|]]; cbn [fst] in *; [exact H|].
    rewrite rv_check_sess_term, rv_flush_pend_start. exact H.
Qed.

Lemma rv_handle_ack fl xid len s : rv (fst (handle_msg (MXferAck fl xid len) s)) = rv s.
Proof.
  unfold handle_msg. destruct (negb (in_sess s)); [reflexivity|].
  destruct (dict_get xid (tx_map s)); [|reflexivity]. cbv zeta.
  destruct (has_end fl).
  - cbn [pend_ack set]. destruct (negb (mem_N xid (pend_ack s))); cbn [fst]; [reflexivity|].
    rewrite rv_check_sess_term. rv_norm. rewrite rv_emit by reflexivity. rv_norm. reflexivity.
  - cbn [fst]. rewrite rv_emit by reflexivity. rv_norm. reflexivity.
Qed.

Lemma rv_handle_refuse r xid s : rv (fst (handle_msg (MXferRefuse r xid) s)) = rv s.
Proof.
  unfold handle_msg. destruct (negb (in_sess s)); [reflexivity|].
  destruct (dict_get xid (tx_map s)) as [ack|]; [|reflexivity]. cbv zeta. cbn [fst].
  rewrite rv_check_sess_term.
  match goal with |- rv (match tx_tmp ?x with _ => _ end) = _ =>
    assert (H : rv x = rv s) by (rv_norm; rewrite rv_emit by reflexivity; rv_norm; reflexivity);
    generalize dependent x end.
  intros x H. destruct (tx_tmp x) as [[cur d]|]; [|exact H].
  destruct (cur =? xid); [|exact H]. rewrite rv_pq_trigger. rv_norm. exact H.
Qed.

Lemma rv_recv_frame_msg m s : rv (fst (recv_frame (FMsg m) s)) = rv (fst (handle_msg m s)).
Proof.
  unfold recv_frame. destruct (handle_msg m s) as [s1 [|r|k]]; cbn [fst ok raise]; [reflexivity| |reflexivity].
  apply rv_send_msg. reflexivity.
Qed.

Lemma rv_recv_frame_contact c s : rv (fst (recv_frame (FContact c) s)) = rv s.
Proof.
  unfold recv_frame.
  destruct (negb (bytes_eqb (ch_magic c) MAGIC)); [apply rv_do_close|].
  destruct (negb (ch_version c =? 4)); [apply rv_do_close|].
  cbv zeta.
  match goal with |- context [conhead_this ?x] => assert (H : rv x = rv s);
    [|generalize dependent x] end.
  { destruct (c_passive (cf s)); [|reflexivity]. rv_norm. apply rv_send_contact_header. }
  intros x H. destruct (conhead_this x); [|exact H].
  match goal with |- context [set_state ST_SESSNEG ?y] =>
    assert (H2 : rv (set_state ST_SESSNEG y) = rv s) by (rewrite rv_set_state; rv_norm; exact H);
    generalize dependent (set_state ST_SESSNEG y) end.
  intros z H2. destruct (c_require_tls (cf z)) as [[|]|]; cbn [fst ok]; rewrite ?rv_do_close; try exact H2;
    (destruct (c_passive (cf z)); cbn [fst ok]; rewrite ?rv_send_sess_init; exact H2).
Qed.

(** ** Dictionaries *)
Lemma dict_get_set {V} k k' (v : V) d :
  dict_get k (dict_set k' v d) = if k' =? k then Some v else dict_get k d.
Proof.
  induction d as [|[a b] d IH]; cbn [dict_set dict_get].
  - destruct (k' =? k); reflexivity.
  - destruct (a =? k') eqn:E1; cbn [dict_get].
    + apply N.eqb_eq in E1. subst a. destruct (N.eqb k' k); reflexivity.
    + rewrite IH. destruct (a =? k) eqn:E2; [|reflexivity].
      apply N.eqb_eq in E2. subst a. rewrite N.eqb_sym, E1. reflexivity.
Qed.

Lemma dict_get_in {V} k (v : V) d : dict_get k d = Some v -> In (k, v) d.
Proof.
  induction d as [|[a b] d IH]; cbn [dict_get]; [discriminate|].
  destruct (a =? k) eqn:E.
  - intros [= ->]. apply N.eqb_eq in E. subst. left. reflexivity.
  - intros H. right. apply IH, H.
Qed.

Lemma dict_get_none_keys {V} k (d : list (N * V)) : dict_get k d = None <-> ~ In k (map fst d).
Proof.
  induction d as [|[a b] d IH]; cbn [dict_get map fst In]; [tauto|].
  destruct (a =? k) eqn:E.
  - apply N.eqb_eq in E. split; [discriminate|]. intros H. exfalso. apply H. left. exact E.
  - apply N.eqb_neq in E. rewrite IH. tauto.
Qed.

Lemma dict_set_keys {V} k (v : V) d :
  map fst (dict_set k v d) = if existsb (N.eqb k) (map fst d) then map fst d else map fst d ++ [k].
Proof.
  induction d as [|[a b] d IH]; cbn [dict_set map fst existsb app]; [reflexivity|].
  rewrite (N.eqb_sym k a). destruct (a =? k) eqn:E; cbn [map fst orb].
  - apply N.eqb_eq in E. subst. reflexivity.
  - rewrite IH. destruct (existsb _ _); reflexivity.
Qed.

Lemma NoDup_snoc {A} (l : list A) x : NoDup l -> ~ In x l -> NoDup (l ++ [x]).
Proof.
  induction l as [|a l IH]; cbn [app]; intros H Hx.
  - constructor; [intros []|constructor].
  - inversion H as [|? ? Ha Hl]; subst. constructor.
    + rewrite in_app_iff. cbn [In]. intros [H1|[H1|[]]]; [exact (Ha H1)|]. apply Hx. left. symmetry. exact H1.
    + apply IH; [exact Hl|]. intros H1. apply Hx. right. exact H1.
Qed.

Lemma dict_set_nodup {V} k (v : V) d : NoDup (map fst d) -> NoDup (map fst (dict_set k v d)).
Proof.
  intros H. rewrite dict_set_keys. destruct (existsb (N.eqb k) (map fst d)) eqn:E; [exact H|].
  apply NoDup_snoc; [exact H|].
  intros Hin. assert (existsb (N.eqb k) (map fst d) = true); [|congruence].
  apply existsb_exists. exists k. split; [exact Hin|apply N.eqb_refl].
Qed.

Lemma dict_del_keys_incl {V} k (d : list (N * V)) x : In x (map fst (dict_del k d)) -> In x (map fst d).
Proof.
  induction d as [|[a b] d IH]; cbn [dict_del map fst In]; [tauto|].
  destruct (a =? k); cbn [map fst In]; [tauto|]. intros [H|H]; [left; exact H|right; apply IH, H].
Qed.

Lemma dict_del_nodup {V} k (d : list (N * V)) : NoDup (map fst d) -> NoDup (map fst (dict_del k d)).
Proof.
  induction d as [|[a b] d IH]; cbn [dict_del map fst]; intros H; [exact H|].
  inversion H as [|? ? Ha Hd]; subst.
  destruct (a =? k); cbn [map fst]; [exact Hd|].
  constructor; [|apply IH, Hd]. intros Hin. apply Ha. eapply dict_del_keys_incl, Hin.
Qed.

Lemma dict_get_del {V} k k' (d : list (N * V)) : NoDup (map fst d) ->
  dict_get k (dict_del k' d) = if N.eqb k' k then None else dict_get k d.
Proof.
  induction d as [|[a b] d IH]; cbn [dict_del dict_get map fst]; intros H.
  - destruct (N.eqb k' k); reflexivity.
  - inversion H as [|? ? Ha Hd]; subst.
    destruct (a =? k') eqn:E1.
    + apply N.eqb_eq in E1. subst a. destruct (N.eqb k' k) eqn:E2; [|reflexivity].
      apply N.eqb_eq in E2. subst k'. apply dict_get_none_keys. exact Ha.
    + cbn [dict_get]. rewrite (IH Hd). destruct (a =? k) eqn:E2; [|reflexivity].
      apply N.eqb_eq in E2. subst a. rewrite N.eqb_sym, E1. reflexivity.
Qed.

(** ** The specification fold *)
Lemma rx_spec_snoc h f : rx_spec (h ++ [f]) = rx_spec_step (rx_spec h) f.
Proof. unfold rx_spec. rewrite fold_left_app. reflexivity. Qed.



(** Number of "receive finished" signals. *)
Definition is_rf (e : event) : bool := match e with ESig SigRecvFinished _ => true | _ => false end.
Definition nrf (l : list event) : nat := length (filter is_rf l).

Lemma rxmap_fold_fst dl l : forall st, fst (fold_left (rxmap_step dl) l st) = (fst st + nrf l)%nat.
Proof.
  induction l as [|e l IH]; intros st; cbn [fold_left].
  - unfold nrf. cbn. lia.
  - rewrite IH. unfold nrf. cbn [filter].
    destruct e as [sg args| | | |]; try destruct sg; cbn [rxmap_step is_rf length fst]; try lia.
    destruct (nth_error dl (fst st)) as [[i d]|]; cbn [fst]; lia.
Qed.

Lemma rxmap_fold_ext dl x l : forall st, (fst st + nrf l <= length dl)%nat ->
  fold_left (rxmap_step (dl ++ x)) l st = fold_left (rxmap_step dl) l st.
Proof.
  induction l as [|e l IH]; intros st Hst; cbn [fold_left]; [reflexivity|].
  assert (E : rxmap_step (dl ++ x) st e = rxmap_step dl st e).
  { destruct e as [sg args| | | |]; try destruct sg; cbn [rxmap_step]; try reflexivity.
    rewrite nth_error_app1; [reflexivity|]. unfold nrf in Hst. cbn [filter is_rf length] in Hst. lia. }
  rewrite E. apply IH.
  unfold nrf in *. cbn [filter] in Hst.
  destruct e as [sg args| | | |]; try destruct sg; cbn [rxmap_step is_rf length fst] in *; try lia.
  destruct (nth_error dl (fst st)) as [[i d]|]; cbn [fst]; lia.
Qed.

(** ** The invariant, over the view *)
Definition RinvS (st : rxspec) (v : view) : Prop :=
  v_sess v = sp_sess st /\ v_tmp v = sp_cur st /\
  recv_finished_events (v_lt v) = map dlen (sp_out st) /\
  (forall id d, In (id, d) (pop_events (v_lt v)) -> In (id, d) (sp_out st)) /\
  fold_left (rxmap_step (sp_out st)) (v_lt v) (O, []) = (length (sp_out st), v_map v) /\
  (forall id d, dict_get id (v_map v) = Some d -> In (id, d) (sp_out st)) /\
  NoDup (map fst (v_map v)) /\
  v_acks v = map dlen (sp_out st).

Definition Rinv (s : ep) : Prop := RinvS (rx_spec (handled s)) (rv s).

Lemma RinvS_hd st a b c d e f c' : RinvS st (a, b, c, d, e, f) -> RinvS st (a, b, c', d, e, f).
Proof. exact (fun H => H). Qed.

Lemma rx_step_other st f : seg_of_frame f = [] -> is_sess_init f = false -> rx_spec_step st f = st.
Proof.
  destruct st as [[sess cur] out]. destruct f as [c|m]; [reflexivity|].
  destruct m; cbn; try reflexivity; discriminate.
Qed.

Lemma RinvS_deliver sess cur out v xid d :
  RinvS (sess, cur, out) v ->
  RinvS (sess, None, out ++ [(xid, d)])
        (v_sess v, None, v_hd v, dict_set xid d (v_map v),
         v_lt v ++ [ESig SigRecvFinished [PStrNum xid; PInt (N.of_nat (length d)); PStr RES_SUCCESS]],
         v_acks v ++ [(xid, N.of_nat (length d))]).
Proof.
  intros (H1 & H2 & H3 & H4 & H5 & H6 & H7 & H8).
  unfold RinvS, sp_sess, sp_cur, sp_out in *. cbn [fst snd v_sess v_tmp v_hd v_map v_lt v_acks] in *.
  repeat split.
  - exact H1.
  - unfold recv_finished_events in *. rewrite flat_map_app, H3, map_app. reflexivity.
  - intros id d'. unfold pop_events. rewrite flat_map_app. cbn [flat_map]. rewrite app_nil_r.
    intros Hin. apply in_or_app. left. apply H4, Hin.
  - rewrite fold_left_app.
    assert (Hn : nrf (v_lt v) = length out).
    { pose proof (rxmap_fold_fst out (v_lt v) (O, [])) as F. rewrite H5 in F. cbn [fst] in F. lia. }
    rewrite (rxmap_fold_ext out [(xid, d)] (v_lt v) (O, [])) by (cbn [fst]; lia). rewrite H5.
    cbn [fold_left rxmap_step fst snd]. rewrite nth_error_app2 by lia. rewrite Nat.sub_diag. cbn [nth_error].
    rewrite app_length. cbn [length]. f_equal. lia.
  - intros id d'. rewrite dict_get_set. destruct (xid =? id) eqn:E.
    + intros [= <-]. apply N.eqb_eq in E. subst. apply in_or_app. right. left. reflexivity.
    + intros Hg. apply in_or_app. left. apply H6, Hg.
  - apply dict_set_nodup, H7.
  - rewrite H8, map_app. reflexivity.
Qed.

Lemma RinvS_pop st v id d :
  RinvS st v -> dict_get id (v_map v) = Some d ->
  RinvS st (v_sess v, v_tmp v, v_hd v, dict_del id (v_map v), v_lt v ++ [EPop id d], v_acks v).
Proof.
  intros (H1 & H2 & H3 & H4 & H5 & H6 & H7 & H8) Hg.
  unfold RinvS in *. cbn [fst snd v_sess v_tmp v_hd v_map v_lt v_acks] in *.
  repeat split.
  - exact H1.
  - exact H2.
  - unfold recv_finished_events in *. rewrite flat_map_app. cbn [flat_map]. rewrite !app_nil_r. exact H3.
  - intros i d'. unfold pop_events. rewrite flat_map_app. cbn [flat_map]. rewrite app_nil_r.
    intros Hin. apply in_app_or in Hin. destruct Hin as [Hin|[Hin|[]]]; [apply H4, Hin|].
    injection Hin as <- <-. apply H6, Hg.
  - rewrite fold_left_app, H5. reflexivity.
  - intros i d'. rewrite dict_get_del by exact H7. destruct (N.eqb id i); [discriminate|]. apply H6.
  - apply dict_del_nodup, H7.
  - exact H8.
Qed.

(** ** One frame *)
Lemma recv_frame_R fr s st :
  RinvS st (rv s) ->
  RinvS (rx_spec_step st fr) (rv (fst (recv_frame fr s)))
  /\ handled (fst (recv_frame fr s)) = handled s.
Proof.
  intros HR. destruct fr as [c|m].
  - rewrite rx_step_other by reflexivity. rewrite rv_recv_frame_contact. split; [exact HR|].
    change (v_hd (rv (fst (recv_frame (FContact c) s))) = handled s). rewrite rv_recv_frame_contact. reflexivity.
  - change (handled (fst (recv_frame (FMsg m) s))) with (v_hd (rv (fst (recv_frame (FMsg m) s)))).
    rewrite rv_recv_frame_msg.
    destruct m as [fl xid ext data|fl xid len|r xid| |fl r|ri r|ka smru xmru nid ext].
    + (* XFER_SEGMENT *)
      rewrite rv_handle_seg. destruct st as [[sess cur] out].
      destruct HR as (H1 & H2 & HR'). pose proof (conj H1 (conj H2 HR')) as HR.
      change (in_sess s = sess) in H1. change (rx_tmp s = cur) in H2.
      cbn [rx_spec_step]. rewrite H1, H2. destruct sess; [|split; [exact HR|reflexivity]].
      destruct (rx_accept cur fl xid) as [acc|]; [|split; [exact HR|reflexivity]].
      destruct (has_end fl).
      * split; [|reflexivity]. apply (RinvS_deliver _ _ _ _ xid (acc ++ data)) in HR.
        change (v_sess (rv s)) with (in_sess s) in HR. rewrite H1 in HR. exact HR.
      * split; [|reflexivity]. destruct HR' as (H3 & H4 & H5 & H6 & H7 & H8).
        unfold RinvS. cbn [v_sess v_tmp v_hd v_map v_lt v_acks sp_sess sp_cur sp_out fst snd].
        repeat split; assumption.
    + rewrite rx_step_other by reflexivity. rewrite rv_handle_ack. split; [exact HR|reflexivity].
    + rewrite rx_step_other by reflexivity. rewrite rv_handle_refuse. split; [exact HR|reflexivity].
    + rewrite rx_step_other by reflexivity. split; [exact HR|reflexivity].
    + rewrite rx_step_other by reflexivity. rewrite rv_handle_term. split; [exact HR|reflexivity].
    + rewrite rx_step_other by reflexivity. split; [exact HR|reflexivity].
    + rewrite rv_handle_init. split; [|reflexivity]. destruct st as [[sess cur] out].
      destruct HR as (H1 & H2 & HR'). cbn [rx_spec_step]. split; [reflexivity|]. split; [exact H2|exact HR'].
Qed.

Lemma recv_loop_R fuel : forall s, Rinv s -> Rinv (fst (recv_loop fuel s)).
Proof.
  induction fuel as [|fuel IH]; intros s HR; cbn [recv_loop]; [exact HR|].
  destruct (is_nil (rx_buf s) || closed s); [exact HR|].
  destruct (parse_frame (in_conn s) (rx_buf s)) as [[fr rest]|]; [|exact HR].
  set (s1 := s <| rx_buf := rest |> <| handled := handled s ++ [fr] |>).
  assert (H1 : RinvS (rx_spec (handled s)) (rv s1)) by exact HR.
  destruct (recv_frame_R fr s1 _ H1) as [H2 H3].
  rewrite <- rx_spec_snoc in H2.
  assert (H4 : Rinv (fst (recv_frame fr s1))).
  { unfold Rinv. rewrite H3. exact H2. }
  destruct (recv_frame fr s1) as [s2 [k|]]; cbn [fst] in *; [exact H4|]. apply IH, H4.
Qed.

Lemma Rinv_rv s s' : rv s' = rv s -> Rinv s -> Rinv s'.
Proof.
  intros E H. unfold Rinv. rewrite E.
  replace (handled s') with (handled s); [exact H|].
  change (v_hd (rv s) = v_hd (rv s')). rewrite E. reflexivity.
Qed.

Lemma Rinv_step s o : Rinv s -> Rinv (step s o).
Proof.
  intros HR. destruct (rx_op o) eqn:Eo; [|apply (Rinv_rv s); [apply rv_step_other, Eo|exact HR]].
  destruct o; try discriminate Eo; unfold step.
  - (* OPop *)
    destruct (closed s); [exact HR|].
    destruct (dict_get id (rx_map s)) as [data|] eqn:G.
    + unfold Rinv. rewrite rv_emit_loud by reflexivity. rewrite rv_upd_rx_map.
      cbn [v_sess v_tmp v_hd v_map v_lt v_acks fst snd].
      change (handled (emit _ _)) with (handled s).
      apply (RinvS_pop _ (rv s) id data HR G).
    + apply (Rinv_rv s); [apply rv_emit; reflexivity|exact HR].
  - (* ORx *)
    destruct (closed s); [exact HR|].
    destruct (is_nil data || negb (rx_alive s)); [exact HR|].
    assert (H : Rinv (fst (recv_raw data s))).
    { unfold recv_raw. cbv zeta. apply recv_loop_R.
      apply (Rinv_rv s); [|exact HR]. rv_norm. rewrite rv_idle_reset. rv_norm. reflexivity. }
    destruct (recv_raw data s) as [s1 [k|]]; cbn [fst] in H; [|exact H].
    apply (Rinv_rv s1); [|exact H]. rewrite rv_emit by reflexivity. rv_norm. reflexivity.
Qed.

Lemma Rinv_init c : Rinv (init c).
Proof.
  unfold Rinv, RinvS. cbn. repeat split; try reflexivity; try (constructor; fail); intros; try contradiction; discriminate.
Qed.

Theorem Rinv_run c ops : Rinv (run c ops).
Proof. apply run_invariant; [apply Rinv_init|intros s o; apply Rinv_step]. Qed.

(** ** Statements over the full trace *)
Lemma rfe_cons e tr : recv_finished_events (e :: tr) = recv_finished_events [e] ++ recv_finished_events tr.
Proof. change (e :: tr) with ([e] ++ tr). apply flat_map_app. Qed.
Lemma pop_cons e tr : pop_events (e :: tr) = pop_events [e] ++ pop_events tr.
Proof. change (e :: tr) with ([e] ++ tr). apply flat_map_app. Qed.

Lemma rfe_filter tr : recv_finished_events (filter loud tr) = recv_finished_events tr.
Proof.
  induction tr as [|e tr IH]; [reflexivity|]. cbn [filter]. rewrite (rfe_cons e tr).
  destruct (loud e) eqn:L.
  - rewrite rfe_cons, IH. reflexivity.
  - rewrite IH. destruct e as [sg args| | | |]; try destruct sg; try discriminate L; reflexivity.
Qed.

Lemma pop_filter tr : pop_events (filter loud tr) = pop_events tr.
Proof.
  induction tr as [|e tr IH]; [reflexivity|]. cbn [filter]. rewrite (pop_cons e tr).
  destruct (loud e) eqn:L.
  - rewrite pop_cons, IH. reflexivity.
  - rewrite IH. destruct e as [sg args| | | |]; try destruct sg; try discriminate L; reflexivity.
Qed.

Lemma rxmap_filter dl tr : forall st,
  fold_left (rxmap_step dl) (filter loud tr) st = fold_left (rxmap_step dl) tr st.
Proof.
  induction tr as [|e tr IH]; intros st; [reflexivity|]. cbn [filter fold_left].
  destruct (loud e) eqn:L; cbn [fold_left]; rewrite IH; [reflexivity|].
  destruct e as [sg args| | | |]; try destruct sg; try discriminate L; reflexivity.
Qed.

Lemma pop_events_in id d tr : In (EPop id d) tr <-> In (id, d) (pop_events tr).
Proof.
  unfold pop_events. rewrite in_flat_map. split.
  - intros H. exists (EPop id d). split; [exact H|left; reflexivity].
  - intros [e [H1 H2]]. destruct e; try contradiction. destruct H2 as [[= -> ->]|[]]. exact H1.
Qed.

Section Receiver.
  Variable c : cfg.
  Variable ops : list op.
  Let s := run c ops.

  (** The "receive finished" signals are exactly the specified deliveries, in order. *)
  Theorem recv_finished_spec :
    recv_finished_events (trace s) = map dlen (deliver_spec (handled s)).
  Proof.
    destruct (Rinv_run c ops) as (_ & _ & H & _). fold s in H.
    unfold rv, lt in H. cbn [v_lt fst snd] in H. rewrite rfe_filter in H. exact H.
  Qed.

  (** The session flag and the transfer being received are the specified ones. *)
  Theorem rx_state_spec :
    in_sess s = sp_sess (rx_spec (handled s)) /\ rx_tmp s = sp_cur (rx_spec (handled s)).
  Proof. destruct (Rinv_run c ops) as (H1 & H2 & _). split; [exact H1|exact H2]. Qed.

  (** What is stored is what was delivered minus what was popped. *)
  Theorem rx_map_exact : rx_map s = rxmap_spec (trace s) (deliver_spec (handled s)).
  Proof.
    destruct (Rinv_run c ops) as (_ & _ & _ & _ & H & _). fold s in H.
    unfold rv, lt in H. cbn [v_lt v_map fst snd] in H. rewrite rxmap_filter in H.
    unfold rxmap_spec, deliver_spec. unfold sp_out in H. rewrite H. reflexivity.
  Qed.

  Theorem rx_map_delivered id d :
    dict_get id (rx_map s) = Some d -> In (id, d) (deliver_spec (handled s)).
  Proof. destruct (Rinv_run c ops) as (_ & _ & _ & _ & _ & H & _). apply H. Qed.

  Theorem rx_map_nodup : NoDup (map fst (rx_map s)).
  Proof. destruct (Rinv_run c ops) as (_ & _ & _ & _ & _ & _ & H & _). exact H. Qed.

  (** The END-flagged XFER_ACKs sent are exactly the deliveries, in order
      (one final acknowledgement per delivered transfer, carrying its length). *)
  Theorem end_acks_spec : end_acks (sent s) = map dlen (deliver_spec (handled s)).
  Proof. destruct (Rinv_run c ops) as (_ & _ & _ & _ & _ & _ & _ & H). exact H. Qed.

  (** Every pop returned a delivered bundle. *)
  Theorem pop_delivered id d :
    In (EPop id d) (trace s) -> In (id, d) (deliver_spec (handled s)).
  Proof.
    destruct (Rinv_run c ops) as (_ & _ & _ & H & _). fold s in H.
    unfold rv, lt in H. cbn [v_lt fst snd] in H. rewrite pop_filter in H.
    intros Hin. apply H. apply pop_events_in, Hin.
  Qed.

  (** A pop removes the bundle: popping the same id again at once raises KeyError. *)
  Theorem pop_removes id : closed s = false -> dict_get id (rx_map (step s (OPop id))) = None.
  Proof.
    intros Cl. unfold step. rewrite Cl.
    destruct (dict_get id (rx_map s)) as [data|] eqn:G.
    - change (dict_get id (dict_del id (rx_map s)) = None).
      rewrite dict_get_del by apply rx_map_nodup. rewrite N.eqb_refl. reflexivity.
    - exact G.
  Qed.

  Theorem pop_twice id : closed s = false ->
    trace (step (step s (OPop id)) (OPop id)) = trace (step s (OPop id)) ++ [EExc EX_KEY].
  Proof.
    intros Cl. pose proof (pop_removes id Cl) as G.
    assert (Cl' : closed (step s (OPop id)) = false).
    { unfold step. rewrite Cl. destruct (dict_get id (rx_map s)); exact Cl. }
    generalize dependent (step s (OPop id)). intros s1 G Cl'.
    unfold step. rewrite Cl', G. reflexivity.
  Qed.
End Receiver.

(** At the moment a transfer is delivered the store maps its id to its data. *)
Lemma delivery_stored fl xid ext data s acc :
  in_sess s = true -> rx_accept (rx_tmp s) fl xid = Some acc -> has_end fl = true ->
  dict_get xid (rx_map (fst (recv_frame (FMsg (MXferSeg fl xid ext data)) s))) = Some (acc ++ data).
Proof.
  intros H1 H2 H3.
  change (dict_get xid (v_map (rv (fst (recv_frame (FMsg (MXferSeg fl xid ext data)) s)))) = Some (acc ++ data)).
  rewrite rv_recv_frame_msg, rv_handle_seg, H1, H2, H3. cbn [v_map fst snd].
  rewrite dict_get_set, N.eqb_refl. reflexivity.
Qed.

(** ** No delivery mixes transfers (C17) *)

Definition open_at (h : list frame) (xid : N) (acc : bytes) : Prop :=
  exists pre fl0 e0 d0 mid,
    h = pre ++ FMsg (MXferSeg fl0 xid e0 d0) :: mid /\
    has_start fl0 = true /\ has_end fl0 = false /\
    Forall (fun f => is_start f = false) mid /\
    Forall (fun f => is_end_of xid f = false) mid /\
    acc = d0 ++ concat (map (contrib xid) mid).

Definition delivered_at (h : list frame) (xid : N) (d : bytes) : Prop :=
  exists pre fl0 e0 d0 mid post,
    h = pre ++ FMsg (MXferSeg fl0 xid e0 d0) :: mid ++ post /\
    has_start fl0 = true /\
    Forall (fun f => is_start f = false) mid /\
    d = d0 ++ concat (map (contrib xid) mid) /\
    ((has_end fl0 = true /\ mid = []) \/
     (has_end fl0 = false /\
      exists mid' fle ee de, mid = mid' ++ [FMsg (MXferSeg fle xid ee de)] /\ has_end fle = true /\
                             Forall (fun f => is_end_of xid f = false) mid')).

Definition NM (h : list frame) : Prop :=
  let st := rx_spec h in
  (forall xid acc, snd (fst st) = Some (xid, acc) -> fst (fst st) = true /\ open_at h xid acc) /\
  (forall xid d, In (xid, d) (snd st) -> delivered_at h xid d).

Lemma delivered_at_snoc h f xid d : delivered_at h xid d -> delivered_at (h ++ [f]) xid d.
Proof.
  intros (pre & fl0 & e0 & d0 & mid & post & E & H). exists pre, fl0, e0, d0, mid, (post ++ [f]).
  split; [|exact H]. rewrite E. rewrite <- !app_assoc. cbn [app]. rewrite <- !app_assoc. reflexivity.
Qed.

Lemma open_at_snoc h f xid acc :
  open_at h xid acc -> is_start f = false -> is_end_of xid f = false ->
  open_at (h ++ [f]) xid (acc ++ contrib xid f).
Proof.
  intros (pre & fl0 & e0 & d0 & mid & E & H1 & H2 & H3 & H4 & H5) Hs He.
  exists pre, fl0, e0, d0, (mid ++ [f]). repeat split; try assumption.
  - rewrite E, <- app_assoc. reflexivity.
  - apply Forall_app. split; [exact H3|]. constructor; [exact Hs|constructor].
  - apply Forall_app. split; [exact H4|]. constructor; [exact He|constructor].
  - rewrite H5, map_app, concat_app. cbn [map concat]. rewrite app_nil_r, app_assoc. reflexivity.
Qed.

Lemma open_at_deliver h xid acc fl e d :
  open_at h xid acc -> has_start fl = false -> has_end fl = true ->
  delivered_at (h ++ [FMsg (MXferSeg fl xid e d)]) xid (acc ++ d).
Proof.
  intros (pre & fl0 & e0 & d0 & mid & E & H1 & H2 & H3 & H4 & H5) Hs He.
  exists pre, fl0, e0, d0, (mid ++ [FMsg (MXferSeg fl xid e d)]), []. repeat split.
  - rewrite E, app_nil_r, <- app_assoc. reflexivity.
  - exact H1.
  - apply Forall_app. split; [exact H3|]. constructor; [exact Hs|constructor].
  - rewrite H5, map_app, concat_app. cbn [map concat contrib]. rewrite N.eqb_refl, app_nil_r, app_assoc. reflexivity.
  - right. split; [exact H2|]. exists mid, fl, e, d. repeat split; assumption.
Qed.

Lemma NM_all h : NM h.
Proof.
  induction h as [|f h IH] using rev_ind.
  - split; cbn; intros; [discriminate|contradiction].
  - unfold NM in *. rewrite rx_spec_snoc. destruct (rx_spec h) as [[sess cur] out].
    cbn [fst snd] in IH. destruct IH as [IH1 IH2].
    assert (Same : (forall xid acc, cur = Some (xid, acc) -> is_start f = false /\ is_end_of xid f = false /\ contrib xid f = []) ->
                   (forall xid acc, cur = Some (xid, acc) -> sess = true /\ open_at (h ++ [f]) xid acc) /\
                   (forall xid d, In (xid, d) out -> delivered_at (h ++ [f]) xid d)).
    { intros Hq. split.
      - intros xid acc Hc. destruct (IH1 _ _ Hc) as [Hs Ho]. split; [exact Hs|].
        destruct (Hq _ _ Hc) as (Q1 & Q2 & Q3). rewrite <- (app_nil_r acc), <- Q3. apply open_at_snoc; assumption.
      - intros xid d Hin. apply delivered_at_snoc, IH2, Hin. }
    destruct f as [c|m]; [apply Same; intros; repeat split; reflexivity|].
    destruct m as [fl xid ext data|fl xid len|r xid| |fl r|ri r|ka smru xmru nid ext];
      try (apply Same; intros; repeat split; reflexivity).
    + (* segment *)
      cbn [rx_spec_step]. destruct sess.
      2:{ apply Same. intros x a Hc. destruct (IH1 _ _ Hc) as [Hs _]. discriminate Hs. }
      unfold rx_accept. destruct (has_start fl) eqn:St.
      * (* START: accepted *)
        destruct (has_end fl) eqn:En; cbn [fst snd].
        -- split; [intros; discriminate|]. intros x d Hin. apply in_app_or in Hin.
           destruct Hin as [Hin|[[= <- <-]|[]]]; [apply delivered_at_snoc, IH2, Hin|].
           exists h, fl, ext, data, [], [].
           split; [reflexivity|]. split; [exact St|]. split; [constructor|].
           split; [cbn; rewrite app_nil_r; reflexivity|]. left. split; [exact En|reflexivity].
        -- split; [|intros x d Hin; apply delivered_at_snoc, IH2, Hin].
           intros x a [= <- <-]. split; [reflexivity|].
           exists h, fl, ext, data, [].
           split; [reflexivity|]. split; [exact St|]. split; [exact En|]. split; [constructor|].
           split; [constructor|]. cbn. rewrite app_nil_r. reflexivity.
      * destruct cur as [[cid acc]|].
        2:{ apply Same. intros; discriminate. }
        destruct (cid =? xid) eqn:Ec.
        -- apply N.eqb_eq in Ec. subst cid. destruct (IH1 _ _ eq_refl) as [_ Ho].
           destruct (has_end fl) eqn:En; cbn [fst snd].
           ++ split; [intros; discriminate|]. intros x d Hin. apply in_app_or in Hin.
              destruct Hin as [Hin|[[= <- <-]|[]]]; [apply delivered_at_snoc, IH2, Hin|].
              apply open_at_deliver; assumption.
           ++ split; [|intros x d Hin; apply delivered_at_snoc, IH2, Hin].
              intros x a [= <- <-]. split; [reflexivity|].
              replace data with (contrib xid (FMsg (MXferSeg fl xid ext data))) at 2
                by (cbn [contrib]; rewrite N.eqb_refl; reflexivity).
              apply open_at_snoc; [exact Ho|exact St|]. cbn [is_end_of]. rewrite En. reflexivity.
        -- apply Same. intros x a [= -> ->]. cbn [is_start is_end_of contrib].
           rewrite St, (N.eqb_sym xid x), Ec, andb_false_r. repeat split; reflexivity.
    + (* SESS_INIT *)
      cbn [rx_spec_step fst snd]. split.
      * intros x a Hc. split; [reflexivity|]. destruct (IH1 _ _ Hc) as [_ Ho].
        replace a with (a ++ contrib x (FMsg (MSessInit ka smru xmru nid ext))) by (cbn [contrib]; apply app_nil_r).
        apply open_at_snoc; [exact Ho|reflexivity|reflexivity].
      * intros x d Hin. apply delivered_at_snoc, IH2, Hin.
Qed.

Theorem no_mixed_delivery h xid d : In (xid, d) (deliver_spec h) -> delivered_at h xid d.
Proof. intros H. apply (proj2 (NM_all h)), H. Qed.
