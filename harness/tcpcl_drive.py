''' Deterministic two-endpoint driver for the real tcpcl.session.ContactHandler.

Two ContactHandler objects (A = active, B = passive) are connected by fake
stream sockets; every event-loop iteration is an explicit *op* chosen by the
caller, so any interleaving, chunking and back-pressure pattern can be
replayed.  Ops (tuples; ``e`` is 'A' or 'B'):

  ('start', e)                 ContactHandler.start()
  ('send', e, data)            D-Bus send_bundle_data(data)
  ('term', e, reason)          D-Bus terminate(reason)
  ('close', e)                 D-Bus close()
  ('pop', e, bid)              D-Bus recv_bundle_pop_data(str(bid))
  ('txpump', e, accept)        one _avail_tx_notls dispatch; the socket accepts <= accept octets
  ('rxpump', e, n)             one _avail_rx_notls dispatch; recv returns <= n octets
  ('pq', e)                    one _process_queue idle dispatch
  ('fire', e, 'keepalive'|'idle')   dispatch that timer now
  ('inject', e, data)          adversarial octets appended to e's inbound wire
  ('eof', e)                   peer disconnect seen by e (inbound EOF)

An op whose GLib source is not registered is a no-op (returns ran=False),
exactly as in the Coq model.
'''
import env  # noqa: F401
import socket

import dbus
import dbus.service
from gi.repository import GLib

import tcpcl.config
import tcpcl.session
from tcpcl import messages, contact  # noqa: F401


class FakeSock(object):
    ''' One end of an in-memory stream. '''

    def __init__(self, name, addr):
        self.name = name
        self.addr = addr
        self.peer = None
        self.inbox = bytearray()
        self.eof = False
        self.closed = False
        self.accept = 1 << 30   # octets the next send() accepts (0 => error)
        self.readmax = 1 << 30  # octets the next recv() returns at most
        self.sent = bytearray()  # every octet accepted by send() (the wire, this direction)

    def setblocking(self, flag):
        pass

    def fileno(self):
        return -1 if self.closed else 3

    def getpeername(self):
        return self.peer.addr

    def getsockname(self):
        return self.addr

    def send(self, data):
        if self.closed or self.accept <= 0:
            raise socket.error('send failed')
        size = min(len(data), self.accept)
        self.sent += data[:size]
        if not self.peer.closed:
            # like TCP: a write towards a peer that has already closed is still accepted locally
            # (the octets go nowhere); the closure is learnt from the end-of-stream on the read side
            self.peer.inbox += data[:size]
        return size

    def recv(self, size):
        if self.closed:
            raise socket.error('closed')
        size = min(size, self.readmax, len(self.inbox))
        if size == 0:
            if self.eof:
                return b''
            raise BlockingIOError('no data')
        data = bytes(self.inbox[:size])
        del self.inbox[:size]
        return data

    def shutdown(self, how):
        if self.peer is not None:
            self.peer.eof = True

    def close(self):
        self.closed = True
        if self.peer is not None:
            self.peer.eof = True


class Endpoint(object):
    def __init__(self, name, handler, sock):
        self.name = name
        self.h = handler
        self.sock = sock
        self.closed_cb = 0


def canon_args(args):
    out = []
    for arg in args:
        if isinstance(arg, (bytes, bytearray)):
            out.append(['bytes', bytes(arg).hex()])
        elif isinstance(arg, bool):
            out.append(['bool', bool(arg)])
        elif isinstance(arg, int):
            out.append(['int' if type(arg).__module__ in ('builtins', 'enum') or True else type(arg).__name__, int(arg)])
        elif isinstance(arg, str):
            out.append([type(arg).__name__ if type(arg) is not str else 'str', str(arg)])
        elif isinstance(arg, (list, tuple)):
            out.append(['list', canon_args(arg)])
        elif isinstance(arg, dict):
            out.append(['dict', sorted((str(k), canon_args([v])[0]) for (k, v) in arg.items())])
        elif arg is None:
            out.append(['none', None])
        else:
            out.append([type(arg).__name__, repr(arg)])
    return out


class System(object):
    ''' Two connected endpoints under the virtual GLib context. '''

    def __init__(self, cfg_a=None, cfg_b=None, node_a='dtn://a/', node_b='dtn://b/', addrs=None):
        GLib.CTX.reset()
        del dbus.service.EVENT_LOG[:]
        self.ctx = GLib.CTX
        defaults = dict(tls_enable=False, require_tls=None, keepalive_time=0, idle_time=0,
                        segment_size_mru=10 * 1024 ** 2, segment_size_tx_initial=int(0.1 * 1024 ** 2))
        conf_a = dict(defaults, node_id=node_a)
        conf_a.update(cfg_a or {})
        conf_b = dict(defaults, node_id=node_b)
        conf_b.update(cfg_b or {})
        self.cfg = {'A': tcpcl.config.Config(**conf_a), 'B': tcpcl.config.Config(**conf_b)}
        bus = dbus.bus.BusConnection()
        for cfg in self.cfg.values():
            cfg._bus_conn = bus
        (addr_a, addr_b) = [tuple(x) for x in (addrs or (('10.0.0.1', 40000), ('10.0.0.2', 4556)))]
        sock_a = FakeSock('A', addr_a)
        sock_b = FakeSock('B', addr_b)
        sock_a.peer = sock_b
        sock_b.peer = sock_a
        hdl_a = tcpcl.session.ContactHandler(
            hdl_kwargs=dict(config=self.cfg['A'], sock=sock_a, toaddr=addr_b),
            bus_kwargs=dict(conn=bus, object_path='/A'))
        hdl_b = tcpcl.session.ContactHandler(
            hdl_kwargs=dict(config=self.cfg['B'], sock=sock_b, fromaddr=addr_a),
            bus_kwargs=dict(conn=bus, object_path='/B'))
        self.ep = {'A': Endpoint('A', hdl_a, sock_a), 'B': Endpoint('B', hdl_b, sock_b)}
        for endp in self.ep.values():
            endp.h.set_on_close(self._mk_on_close(endp))
        self.escaped = []  # (op index, endpoint, exception class name, message)
        self.opidx = 0

    @staticmethod
    def _mk_on_close(endp):
        def func():
            endp.closed_cb += 1
            dbus.service.EVENT_LOG.append(dict(kind='closed', obj='/' + endp.name, name='on_close',
                                               signature=None, args=()))
        return func

    # -------------------------------------------------------------- sources
    def _src(self, endp, kind, name, cond=None):
        found = self.ctx.find(kind=kind, name=name, owner=endp.h, cond=cond)
        return found[0] if found else None

    def sources(self, e):
        endp = self.ep[e]
        out = []
        for src in self.ctx.sources.values():
            if src.owner is endp.h:
                out.append((src.kind, src.name, src.cond))
        return sorted(out, key=repr)

    # -------------------------------------------------------------- ops
    def apply(self, oper):
        ''' Apply one op.  Returns dict(ran=bool, exc=<class name or None>, ret=...). '''
        self.opidx += 1
        kind = oper[0]
        endp = self.ep[oper[1]]
        hdl = endp.h
        res = dict(ran=True, exc=None, ret=None)
        path = '/' + oper[1]

        def call(func, *args):
            try:
                res['ret'] = func(*args)
            except Exception as err:  # escapes a D-Bus method / callback
                res['exc'] = err.__class__.__name__
                self.escaped.append((self.opidx, oper[1], err.__class__.__name__, str(err)))
                dbus.service.EVENT_LOG.append(dict(kind='exc', obj=path, name=err.__class__.__name__,
                                                   signature=None, args=(str(err),)))

        def dispatch(src):
            if src is None:
                res['ran'] = False
                return
            (_ran, exc) = self.ctx.run(src)
            if exc is not None:
                res['exc'] = exc.__class__.__name__
                self.escaped.append((self.opidx, oper[1], exc.__class__.__name__, str(exc)))
                dbus.service.EVENT_LOG.append(dict(kind='exc', obj=path, name=exc.__class__.__name__,
                                                   signature=None, args=(str(exc),)))

        if kind == 'start':
            call(hdl.start)
        elif kind == 'send':
            call(hdl.send_bundle_data, dbus.ByteArray(oper[2]))
        elif kind == 'term':
            call(hdl.terminate, oper[2])
        elif kind == 'close':
            call(hdl.close)
        elif kind == 'pop':
            call(hdl.recv_bundle_pop_data, str(oper[2]))
        elif kind == 'params':
            call(hdl.get_session_parameters)
        elif kind == 'txpump':
            # ('txpump', e, accept) or ('txpump', e, 'idle'|'io', accept)
            # the IO_OUT watch and the idle source are the same function
            if len(oper) == 3:
                accept = oper[2]
                src = self._src(endp, 'idle', '_avail_tx_notls') or self._src(endp, 'io', '_avail_tx_notls', GLib.IO_OUT)
            elif oper[2] == 'idle':
                accept = oper[3]
                src = self._src(endp, 'idle', '_avail_tx_notls')
            else:
                accept = oper[3]
                src = self._src(endp, 'io', '_avail_tx_notls', GLib.IO_OUT)
            endp.sock.accept = accept
            dispatch(src)
            endp.sock.accept = 1 << 30
        elif kind == 'rxpump':
            endp.sock.readmax = oper[2]
            if len(endp.sock.inbox) == 0 and not endp.sock.eof:
                res['ran'] = False  # nothing readable: GLib would not dispatch
            else:
                dispatch(self._src(endp, 'io', '_avail_rx_notls', GLib.IO_IN))
            endp.sock.readmax = 1 << 30
        elif kind == 'pq':
            dispatch(self._src(endp, 'idle', '_process_queue'))
        elif kind == 'fire':
            name = {'keepalive': '_keepalive_timeout', 'idle': '_idle_timeout'}[oper[2]]
            src = self._src(endp, 'timeout', name)
            if src is not None and len(oper) > 3 and oper[3] == 'due' and src.due > self.ctx.now_ms:
                src = None  # GLib only dispatches a timer that is due
            dispatch(src)
        elif kind == 'advance':
            self.ctx.advance(oper[2])
        elif kind == 'inject':
            endp.sock.inbox += oper[2]
        elif kind == 'eof':
            endp.sock.eof = True
        else:
            raise ValueError('unknown op %r' % (oper,))
        return res

    # -------------------------------------------------------------- observation
    def snapshot(self, e):
        endp = self.ep[e]
        hdl = endp.h
        return dict(
            state=hdl._state,
            in_conn=bool(hdl._in_conn), in_sess=bool(hdl._in_sess), in_term=bool(hdl._in_term),
            closed=(hdl.get_app_socket() is None),
            rx_alive=bool(self.ctx.find(kind='io', name='_avail_rx_notls', owner=hdl)),
            rx_buf=bytes(hdl._Messenger__rx_buf),
            msg_tx_buf=bytes(hdl._Messenger__tx_buf),
            conn_tx_buf=bytes(hdl._Connection__tx_buf),
            wire_out=bytes(endp.sock.sent),
            inbox=bytes(endp.sock.inbox),
            sources=self.sources(e),
            seg_size=hdl._send_segment_size,
            keepalive=hdl._keepalive_time,
            ka_due=(lambda t: t[0].due if t else None)(self.ctx.find(kind='timeout', name='_keepalive_timeout', owner=hdl)),
            idle_due=(lambda t: t[0].due if t else None)(self.ctx.find(kind='timeout', name='_idle_timeout', owner=hdl)),
            n_src=(len(self.ctx.find(kind='io', name='_avail_tx_notls', owner=hdl)),
                   len(self.ctx.find(kind='idle', name='_avail_tx_notls', owner=hdl)),
                   len(self.ctx.find(kind='idle', name='_process_queue', owner=hdl))),
            idle=bool(tcpcl.session.ContactHandler.is_sess_idle.__wrapped__(hdl)),
            tx_queue=[str(k) for k in hdl._tx_map.keys()],
            rx_queue=[str(k) for k in hdl._rx_map.keys()],
            tx_pend_start=[it.transfer_id for it in hdl._tx_pend_start],
            tx_pend_ack=sorted(it.transfer_id for it in hdl._tx_pend_ack),
            tx_tmp=(None if hdl._tx_tmp is None else hdl._tx_tmp.transfer_id),
            rx_tmp=(None if hdl._rx_tmp is None else hdl._rx_tmp.transfer_id),
        )

    def events(self, e=None):
        ''' D-Bus boundary events so far: (obj, kind, name, signature, canon args). '''
        out = []
        for evt in dbus.service.EVENT_LOG:
            if e is not None and evt['obj'] != '/' + e:
                continue
            out.append((evt['obj'], evt['kind'], evt['name'], evt['signature'], canon_args(evt['args'])))
        return out

    def emitted(self, e):
        ''' Every octet endpoint e has produced so far (on the wire or still
        buffered in its two TX buffers). '''
        snap = self.snapshot(e)
        return snap['wire_out'] + snap['conn_tx_buf'] + snap['msg_tx_buf']

    def enabled(self):
        ''' Ops that would run right now (used by schedulers). '''
        out = []
        for (e, endp) in self.ep.items():
            for src in self.ctx.sources.values():
                if src.owner is not endp.h:
                    continue
                if src.name == '_avail_tx_notls':
                    out.append(('txpump', e))
                elif src.name == '_avail_rx_notls' and (endp.sock.inbox or endp.sock.eof):
                    out.append(('rxpump', e))
                elif src.name == '_process_queue':
                    out.append(('pq', e))
        return sorted(set(out))

    def drain(self, limit=100000, accept=1 << 30, nread=1 << 30):
        ''' Fair round-robin scheduler with full reads/writes until quiescent. '''
        steps = 0
        while steps < limit:
            ena = self.enabled()
            if not ena:
                break
            for (kind, e) in ena:
                if kind == 'txpump':
                    self.apply(('txpump', e, accept))
                elif kind == 'rxpump':
                    self.apply(('rxpump', e, nread))
                else:
                    self.apply(('pq', e))
                steps += 1
        return steps

    def establish(self):
        self.apply(('start', 'A'))
        self.apply(('start', 'B'))
        self.drain()
        return self.ep['A'].h._in_sess and self.ep['B'].h._in_sess
