(** Theorems about the CBOR model of [Lib/Cbor.v]: encoder test vectors, head
    sizes, [decode (encode v ++ rest) = Some (v, rest)] (prefix-freeness /
    unique decodability), CBOR sequences, indefinite-length arrays,
    injectivity of [encode], well-formed output, and the strict decoder's
    re-encoding theorem. *)
From Coq Require Import List NArith ZArith Arith Bool Lia ZifyBool ZifyN ZifyNat.
From DTN Require Import Lib.Bytes Lib.Cbor.
Import ListNotations.
Local Open Scope N_scope.

Ltac Zify.zify_post_hook ::= Z.div_mod_to_equations.

Notation two64 := 18446744073709551616%N (only parsing).

(** * Encoder pinned to known vectors (RFC 8949 appendix A / cbor2.dumps) *)

Example enc_uint_0 : encode (CUint 0) = [0]. Proof. vm_compute. reflexivity. Qed.
Example enc_uint_23 : encode (CUint 23) = [23]. Proof. vm_compute. reflexivity. Qed.
Example enc_uint_24 : encode (CUint 24) = [24; 24]. Proof. vm_compute. reflexivity. Qed.
Example enc_uint_255 : encode (CUint 255) = [24; 255]. Proof. vm_compute. reflexivity. Qed.
Example enc_uint_256 : encode (CUint 256) = [25; 1; 0]. Proof. vm_compute. reflexivity. Qed.
Example enc_uint_65535 : encode (CUint 65535) = [25; 255; 255]. Proof. vm_compute. reflexivity. Qed.
Example enc_uint_65536 : encode (CUint 65536) = [26; 0; 1; 0; 0]. Proof. vm_compute. reflexivity. Qed.
Example enc_uint_2p32m1 : encode (CUint 4294967295) = [26; 255; 255; 255; 255]. Proof. vm_compute. reflexivity. Qed.
Example enc_uint_2p32 : encode (CUint 4294967296) = [27; 0; 0; 0; 1; 0; 0; 0; 0]. Proof. vm_compute. reflexivity. Qed.
Example enc_uint_max : encode (CUint 18446744073709551615) = [27; 255; 255; 255; 255; 255; 255; 255; 255].
Proof. vm_compute. reflexivity. Qed.
Example enc_nint_0 : encode (CNint 0) = [32]. Proof. vm_compute. reflexivity. Qed.
Example enc_nint_999 : encode (CNint 999) = [57; 3; 231]. Proof. vm_compute. reflexivity. Qed.
Example enc_bstr : encode (CBstr [1; 2]) = [66; 1; 2]. Proof. vm_compute. reflexivity. Qed.
Example enc_bstr_empty : encode (CBstr []) = [64]. Proof. vm_compute. reflexivity. Qed.
Example enc_tstr : encode (CTstr [195; 169]) = [98; 195; 169]. Proof. vm_compute. reflexivity. Qed.
Example enc_tstr_dtn : encode (CTstr [100; 116; 110]) = [99; 100; 116; 110]. Proof. vm_compute. reflexivity. Qed.
Example enc_arr : encode (CArr [CUint 1; CArr []]) = [130; 1; 128]. Proof. vm_compute. reflexivity. Qed.
Example enc_map : encode (CMap [(CUint 1, CBstr [97; 98])]) = [161; 1; 66; 97; 98]. Proof. vm_compute. reflexivity. Qed.
Example enc_tag : encode (CTag 24 (CBstr [])) = [216; 24; 64]. Proof. vm_compute. reflexivity. Qed.
Example enc_false : encode (CSimple 20) = [244]. Proof. vm_compute. reflexivity. Qed.
Example enc_true : encode (CSimple 21) = [245]. Proof. vm_compute. reflexivity. Qed.
Example enc_null : encode (CSimple 22) = [246]. Proof. vm_compute. reflexivity. Qed.
Example enc_undefined : encode (CSimple 23) = [247]. Proof. vm_compute. reflexivity. Qed.

(** cbor2.dumps([1,[],{1:b'ab'},-1,'é',None,True,CBORTag(24,b'')]) *)
Definition sample : cbor :=
  CArr [CUint 1; CArr []; CMap [(CUint 1, CBstr [97; 98])]; CNint 0; CTstr [195; 169];
        CSimple 22; CSimple 21; CTag 24 (CBstr [])].

Example enc_sample :
  encode sample = [136; 1; 128; 161; 1; 66; 97; 98; 32; 98; 195; 169; 246; 245; 216; 24; 64].
Proof. vm_compute. reflexivity. Qed.

Example enc_indef : encode_indef_arr [CUint 1; CArr []] = [159; 1; 128; 255].
Proof. vm_compute. reflexivity. Qed.

(** Decoder behaviour on inputs that are not in the image of [encode]. *)
Example dec_nonshortest : decode 3 [24; 1; 7] = Some (CUint 1, [7]). Proof. vm_compute. reflexivity. Qed.
Example dec_strict_nonshortest : decode_strict 3 [24; 1; 7] = None. Proof. vm_compute. reflexivity. Qed.
Example dec_indef_nested : decode 3 [159; 1; 159; 255; 130; 2; 3; 255; 9] = Some (CArr [CUint 1; CArr []; CArr [CUint 2; CUint 3]], [9]).
Proof. vm_compute. reflexivity. Qed.
Example dec_strict_indef : decode_strict 3 [159; 1; 255] = None. Proof. vm_compute. reflexivity. Qed.
Example dec_indef_bstr_rejected : decode 3 [95; 65; 1; 255] = None. Proof. vm_compute. reflexivity. Qed.
Example dec_indef_map_rejected : decode 3 [191; 1; 2; 255] = None. Proof. vm_compute. reflexivity. Qed.
Example dec_break_rejected : decode 3 [255] = None. Proof. vm_compute. reflexivity. Qed.
Example dec_float_rejected : decode 3 [249; 0; 0] = None. Proof. vm_compute. reflexivity. Qed.
Example dec_simple2_rejected : decode 3 [248; 32] = None. Proof. vm_compute. reflexivity. Qed.
Example dec_truncated : decode 3 [130; 1] = None. Proof. vm_compute. reflexivity. Qed.
Example dec_huge_count : decode 3 [155; 255; 255; 255; 255; 255; 255; 255; 255; 1] = None. Proof. vm_compute. reflexivity. Qed.
Example dec_huge_len : decode 3 [91; 255; 255; 255; 255; 255; 255; 255; 255; 1] = None. Proof. vm_compute. reflexivity. Qed.
Example dec_not_octet : decode 3 [256] = None. Proof. vm_compute. reflexivity. Qed.
Example dec_no_fuel : decode 1 [129; 1] = None. Proof. vm_compute. reflexivity. Qed.
Example dec_all_trailing : decode_all 3 [1; 2] = None. Proof. vm_compute. reflexivity. Qed.
Example dec_all_ok : decode_all 3 [130; 1; 2] = Some (CArr [CUint 1; CUint 2]). Proof. vm_compute. reflexivity. Qed.
Example dec_seq_ok : decode_seq 3 [1; 128; 246] = Some [CUint 1; CArr []; CSimple 22]. Proof. vm_compute. reflexivity. Qed.

(** * Head sizes *)

Ltac ltb_cases :=
  repeat match goal with
         | |- context [N.ltb ?a ?b] => destruct (N.ltb_spec a b)
         end.

Theorem head_length m n : length (head m n) = head_len n.
Proof. unfold head, head_len. ltb_cases; cbn [length]; rewrite ?be_length; reflexivity. Qed.
Print Assumptions head_length.

Theorem head_len_mono a b : a <= b -> (head_len a <= head_len b)%nat.
Proof. intros Hab. unfold head_len. ltb_cases; lia. Qed.
Print Assumptions head_len_mono.

(** the form used by the fragment-size arguments *)
Theorem head_len_bstr_bound len n : len <= n -> (head_len len <= head_len n)%nat.
Proof. apply head_len_mono. Qed.
Print Assumptions head_len_bstr_bound.

Theorem head_len_bounds n : (1 <= head_len n <= 9)%nat.
Proof. unfold head_len. ltb_cases; lia. Qed.
Print Assumptions head_len_bounds.

Lemma head_len_small n : n < 24 -> head_len n = 1%nat.
Proof. intros Hn. unfold head_len. ltb_cases; lia. Qed.

Theorem encode_uint_length n : length (encode (CUint n)) = head_len n.
Proof. cbn [encode]. apply head_length. Qed.
Print Assumptions encode_uint_length.

Theorem encode_nint_length n : length (encode (CNint n)) = head_len n.
Proof. cbn [encode]. apply head_length. Qed.
Print Assumptions encode_nint_length.

Theorem encode_bstr_length bs :
  length (encode (CBstr bs)) = (head_len (N.of_nat (length bs)) + length bs)%nat.
Proof. cbn [encode]. rewrite app_length, head_length. reflexivity. Qed.
Print Assumptions encode_bstr_length.

Theorem encode_tstr_length bs :
  length (encode (CTstr bs)) = (head_len (N.of_nat (length bs)) + length bs)%nat.
Proof. cbn [encode]. rewrite app_length, head_length. reflexivity. Qed.
Print Assumptions encode_tstr_length.

Theorem encode_arr_length l :
  length (encode (CArr l)) = (head_len (N.of_nat (length l)) + length (encode_seq l))%nat.
Proof. rewrite encode_CArr, app_length, head_length. reflexivity. Qed.
Print Assumptions encode_arr_length.

Theorem encode_map_length kvs :
  length (encode (CMap kvs)) = (head_len (N.of_nat (length kvs)) + length (encode_pairs kvs))%nat.
Proof. rewrite encode_CMap, app_length, head_length. reflexivity. Qed.
Print Assumptions encode_map_length.

Theorem encode_tag_length t v : length (encode (CTag t v)) = (head_len t + length (encode v))%nat.
Proof. cbn [encode]. rewrite app_length, head_length. reflexivity. Qed.
Print Assumptions encode_tag_length.

Theorem encode_seq_length_cons x l :
  length (encode_seq (x :: l)) = (length (encode x) + length (encode_seq l))%nat.
Proof. rewrite encode_seq_cons, app_length. reflexivity. Qed.
Print Assumptions encode_seq_length_cons.

Theorem encode_indef_arr_length l : length (encode_indef_arr l) = (2 + length (encode_seq l))%nat.
Proof. unfold encode_indef_arr. cbn [length]. rewrite app_length. cbn [length]. lia. Qed.
Print Assumptions encode_indef_arr_length.

(** * The first octet *)

Definition head_info (n : N) : N :=
  if n <? 24 then n else if n <? 256 then 24 else if n <? 65536 then 25
  else if n <? 4294967296 then 26 else 27.

Definition head_arg (n : N) : bytes :=
  if n <? 24 then [] else if n <? 256 then be 1 n else if n <? 65536 then be 2 n
  else if n <? 4294967296 then be 4 n else be 8 n.

Lemma head_eq m n : head m n = (m * 32 + head_info n) :: head_arg n.
Proof. unfold head, head_info, head_arg. ltb_cases; reflexivity. Qed.

Lemma head_info_le n : head_info n <= 27.
Proof. unfold head_info. ltb_cases; lia. Qed.

Lemma head_arg_wf n : wf_bytes (head_arg n).
Proof. unfold head_arg. ltb_cases; try apply be_wf. constructor. Qed.

Lemma head_wf m n : m < 8 -> wf_bytes (head m n).
Proof.
  intros Hm. rewrite head_eq. constructor; [|apply head_arg_wf].
  unfold wf_byte. pose proof (head_info_le n). lia.
Qed.

Lemma hd_error_app {A} (l l' : list A) b : hd_error l = Some b -> hd_error (l ++ l') = Some b.
Proof. destruct l; cbn; [discriminate|tauto]. Qed.

(** Every encoding is non-empty and starts with an octet below 252; in
    particular never with the break octet 0xff. *)
Theorem encode_hd v : exists b, hd_error (encode v) = Some b /\ b < 252.
Proof.
  assert (H : forall m n X, m < 8 -> exists b, hd_error (head m n ++ X) = Some b /\ b < 252).
  { intros m n X Hm. rewrite head_eq. cbn [app hd_error]. eexists. split; [reflexivity|].
    pose proof (head_info_le n). lia. }
  destruct v; cbn [encode]; try (apply H; lia);
    try (rewrite <- (app_nil_r (head _ _)); apply H; lia).
Qed.
Print Assumptions encode_hd.

Theorem encode_nonempty v : encode v <> [].
Proof. destruct (encode_hd v) as (b & Hb & _). intros E. rewrite E in Hb. discriminate. Qed.
Print Assumptions encode_nonempty.

Theorem encode_not_break v : hd_error (encode v) <> Some 255.
Proof. destruct (encode_hd v) as (b & Hb & Hlt). rewrite Hb. intros E. injection E as E. lia. Qed.
Print Assumptions encode_not_break.

Lemma encode_length_pos v : (1 <= length (encode v))%nat.
Proof. pose proof (encode_nonempty v). destruct (encode v); [congruence|cbn [length]; lia]. Qed.

Lemma encode_seq_length_ge l : (length l <= length (encode_seq l))%nat.
Proof.
  induction l as [|x l IH]; [cbn; lia|].
  rewrite encode_seq_cons, app_length. cbn [length]. pose proof (encode_length_pos x). lia.
Qed.

Lemma encode_pairs_length_ge kvs : (2 * length kvs <= length (encode_pairs kvs))%nat.
Proof.
  induction kvs as [|[k w] l IH]; [cbn; lia|].
  rewrite encode_pairs_cons, !app_length. cbn [length].
  pose proof (encode_length_pos k). pose proof (encode_length_pos w). lia.
Qed.

(** * Decoding a head *)

Lemma decode_head_short m i tl :
  m < 8 -> i < 24 -> decode_head ((m * 32 + i) :: tl) = Some (m, i, 1%nat, tl).
Proof.
  intros Hm Hi. unfold decode_head. cbv zeta.
  assert (E1 : (256 <=? m * 32 + i) = false) by lia.
  assert (E2 : (m * 32 + i) / 32 = m) by lia.
  assert (E3 : (m * 32 + i) mod 32 = i) by lia.
  assert (E4 : (i <? 24) = true) by lia.
  rewrite E1, E2, E3, E4. reflexivity.
Qed.

Lemma info_width_range i k : info_width i = Some k -> 24 <= i <= 27.
Proof.
  unfold info_width.
  destruct (N.eqb_spec i 24); [lia|]. destruct (N.eqb_spec i 25); [lia|].
  destruct (N.eqb_spec i 26); [lia|]. destruct (N.eqb_spec i 27); [lia|]. discriminate.
Qed.

Lemma decode_head_long m i k n rest :
  m < 8 -> info_width i = Some k -> n < 256 ^ N.of_nat k ->
  decode_head ((m * 32 + i) :: be k n ++ rest) = Some (m, n, S k, rest).
Proof.
  intros Hm Hi Hn. pose proof (info_width_range i k Hi) as Hr.
  unfold decode_head. cbv zeta.
  assert (E1 : (256 <=? m * 32 + i) = false) by lia.
  assert (E2 : (m * 32 + i) / 32 = m) by lia.
  assert (E3 : (m * 32 + i) mod 32 = i) by lia.
  assert (E4 : (i <? 24) = false) by lia.
  rewrite E1, E2, E3, E4, Hi, (take_be_app k n rest Hn). reflexivity.
Qed.

Lemma decode_head_head m n rest :
  m < 8 -> n < two64 -> decode_head (head m n ++ rest) = Some (m, n, head_len n, rest).
Proof.
  intros Hm Hn. unfold head, head_len. ltb_cases; cbn [app].
  - apply decode_head_short; assumption.
  - apply (decode_head_long m 24 1); [assumption|reflexivity|]. change (256 ^ N.of_nat 1) with 256. assumption.
  - apply (decode_head_long m 25 2); [assumption|reflexivity|]. change (256 ^ N.of_nat 2) with 65536. assumption.
  - apply (decode_head_long m 26 4); [assumption|reflexivity|]. change (256 ^ N.of_nat 4) with 4294967296. assumption.
  - apply (decode_head_long m 27 8); [assumption|reflexivity|]. change (256 ^ N.of_nat 8) with two64. assumption.
Qed.

Lemma indef_start_head m n rest : indef_start (head m n ++ rest) = None.
Proof.
  rewrite head_eq. cbn [app indef_start]. pose proof (head_info_le n) as Hi.
  destruct (N.eqb_spec (m * 32 + head_info n) 159) as [E|E]; [lia|reflexivity].
Qed.

Lemma head_okb_head strict m n rest : head_okb strict (head m n ++ rest) m n (head_len n) = true.
Proof.
  unfold head_okb. destruct strict; [|reflexivity].
  rewrite <- (head_length m n), firstn_app, Nat.sub_diag, firstn_all. cbn [firstn].
  rewrite app_nil_r. apply bytes_eqb_eq. reflexivity.
Qed.

Lemma step_head dec strict m n rest :
  m < 8 -> n < two64 -> step dec strict (head m n ++ rest) = dispatch dec m n (head_len n) rest.
Proof.
  intros Hm Hn. unfold step.
  replace (if strict then None else indef_start (head m n ++ rest)) with (@None bytes)
    by (destruct strict; [reflexivity | symmetry; apply indef_start_head]).
  rewrite (decode_head_head m n rest Hm Hn), head_okb_head. reflexivity.
Qed.

Lemma take_n_app bs rest : take_n (N.of_nat (length bs)) (bs ++ rest) = Some (bs, rest).
Proof.
  unfold take_n. rewrite app_length.
  destruct (N.ltb_spec (N.of_nat (length bs + length rest)) (N.of_nat (length bs))) as [H|H]; [lia|].
  rewrite Nnat.Nat2N.id, firstn_app, skipn_app, Nat.sub_diag, firstn_all, skipn_all.
  cbn [firstn skipn app]. rewrite app_nil_r. reflexivity.
Qed.

(** * Item loops, generically in the nested decoder *)

Section Loops.
  Variable dec : bytes -> option (cbor * bytes).

  Lemma dec_items_encode l :
    (forall x, In x l -> forall rest, dec (encode x ++ rest) = Some (x, rest)) ->
    forall rest, dec_items dec (length l) (encode_seq l ++ rest) = Some (l, rest).
  Proof.
    induction l as [|x l IH]; intros Hdec rest; cbn [length dec_items].
    - reflexivity.
    - rewrite encode_seq_cons, <- app_assoc, (Hdec x (or_introl eq_refl)).
      rewrite IH; [reflexivity|]. intros y Hy. apply Hdec. right. exact Hy.
  Qed.

  Lemma dec_pairs_encode kvs :
    (forall k w, In (k, w) kvs -> forall rest, dec (encode k ++ rest) = Some (k, rest)) ->
    (forall k w, In (k, w) kvs -> forall rest, dec (encode w ++ rest) = Some (w, rest)) ->
    forall rest, dec_pairs dec (length kvs) (encode_pairs kvs ++ rest) = Some (kvs, rest).
  Proof.
    induction kvs as [|[k w] l IH]; intros Hk Hw rest; cbn [length dec_pairs].
    - reflexivity.
    - rewrite encode_pairs_cons, <- !app_assoc.
      rewrite (Hk k w (or_introl eq_refl)), (Hw k w (or_introl eq_refl)).
      rewrite IH; [reflexivity| |].
      + intros k' w' Hin. apply (Hk k' w'). right. exact Hin.
      + intros k' w' Hin. apply (Hw k' w'). right. exact Hin.
  Qed.

  Lemma dec_until_break_step cnt bs b :
    hd_error bs = Some b -> b <> 255 ->
    dec_until_break dec (S cnt) bs =
    match dec bs with
    | None => None
    | Some (v, rest) =>
        match dec_until_break dec cnt rest with
        | None => None
        | Some (l, rest') => Some (v :: l, rest')
        end
    end.
  Proof.
    intros Hb Hne. destruct bs as [|b' tl]; [discriminate|]. cbn [hd_error] in Hb.
    injection Hb as ->. cbn [dec_until_break].
    destruct (N.eqb_spec b 255) as [E|E]; [contradiction|reflexivity].
  Qed.

  Lemma dec_until_break_encode l :
    (forall x, In x l -> forall rest, dec (encode x ++ rest) = Some (x, rest)) ->
    forall cnt rest, (length l < cnt)%nat ->
    dec_until_break dec cnt (encode_seq l ++ 255 :: rest) = Some (l, rest).
  Proof.
    induction l as [|x l IH]; intros Hdec cnt rest Hcnt; (destruct cnt as [|cnt]; [cbn [length] in Hcnt; lia|]).
    - cbn [encode_seq map concat app dec_until_break]. rewrite N.eqb_refl. reflexivity.
    - cbn [length] in Hcnt. rewrite encode_seq_cons, <- app_assoc.
      destruct (encode_hd x) as (b & Hb & Hlt).
      rewrite (dec_until_break_step cnt _ b); [|apply hd_error_app, Hb|lia].
      rewrite (Hdec x (or_introl eq_refl)).
      rewrite IH; [reflexivity| |lia]. intros y Hy. apply Hdec. right. exact Hy.
  Qed.

  Lemma dec_seq_encode l :
    (forall x, In x l -> forall rest, dec (encode x ++ rest) = Some (x, rest)) ->
    forall cnt, (length l <= cnt)%nat -> dec_seq dec cnt (encode_seq l) = Some l.
  Proof.
    induction l as [|x l IH]; intros Hdec cnt Hcnt.
    - destruct cnt; reflexivity.
    - destruct cnt as [|cnt]; [cbn [length] in Hcnt; lia|]. cbn [length] in Hcnt.
      rewrite encode_seq_cons.
      destruct (encode x ++ encode_seq l) as [|b tl] eqn:E.
      { apply app_eq_nil in E as [E _]. destruct (encode_nonempty x E). }
      cbn [dec_seq]. rewrite <- E, (Hdec x (or_introl eq_refl)).
      rewrite IH; [reflexivity| |lia]. intros y Hy. apply Hdec. right. exact Hy.
  Qed.

  (** One step inverts one constructor, given that [dec] inverts the children. *)
  Lemma step_encode strict v :
    wf v ->
    (forall c, (depth c < depth v)%nat -> wf c -> forall rest, dec (encode c ++ rest) = Some (c, rest)) ->
    forall rest, step dec strict (encode v ++ rest) = Some (v, rest).
  Proof.
    intros Hwf Hdec rest.
    destruct v as [n|n|bs|bs|l|kvs|t w|n].
    - cbn [encode wf] in *. rewrite step_head by lia. reflexivity.
    - cbn [encode wf] in *. rewrite step_head by lia. reflexivity.
    - cbn [encode wf] in *. destruct Hwf as [Hl Hb].
      rewrite <- app_assoc, step_head by lia. unfold dispatch. rewrite take_n_app. reflexivity.
    - cbn [encode wf] in *. destruct Hwf as [Hl Hb].
      rewrite <- app_assoc, step_head by lia. unfold dispatch. rewrite take_n_app. reflexivity.
    - apply wf_CArr in Hwf as [Hl Hall]. rewrite Forall_forall in Hall.
      rewrite encode_CArr, <- app_assoc, step_head by lia. unfold dispatch.
      pose proof (encode_seq_length_ge l) as Hge.
      destruct (N.ltb_spec (N.of_nat (length (encode_seq l ++ rest))) (N.of_nat (length l))) as [H|H];
        [rewrite app_length in H; lia|].
      rewrite Nnat.Nat2N.id, dec_items_encode; [reflexivity|].
      intros x Hx rest'. apply Hdec; [apply depth_CArr_In, Hx | apply Hall, Hx].
    - apply wf_CMap in Hwf as [Hl Hall]. rewrite Forall_forall in Hall.
      rewrite encode_CMap, <- app_assoc, step_head by lia. unfold dispatch.
      pose proof (encode_pairs_length_ge kvs) as Hge.
      destruct (N.ltb_spec (N.of_nat (length (encode_pairs kvs ++ rest))) (2 * N.of_nat (length kvs))) as [H|H];
        [rewrite app_length in H; lia|].
      rewrite Nnat.Nat2N.id, dec_pairs_encode; [reflexivity| |].
      + intros k w' Hin rest'. apply Hdec; [apply (depth_CMap_In kvs k w' Hin) | apply (Hall (k, w') Hin)].
      + intros k w' Hin rest'. apply Hdec; [apply (depth_CMap_In kvs k w' Hin) | apply (Hall (k, w') Hin)].
    - cbn [encode] in *. apply wf_CTag in Hwf as [Ht Hw].
      rewrite <- app_assoc, step_head by lia. unfold dispatch.
      rewrite Hdec; [reflexivity | cbn [depth]; lia | exact Hw].
    - cbn [encode wf] in *. rewrite step_head by lia. unfold dispatch.
      rewrite (head_len_small n Hwf). reflexivity.
  Qed.

  Lemma step_indef strict tl :
    strict = false ->
    step dec strict (159 :: tl) =
    match dec_until_break dec (length tl) tl with
    | None => None
    | Some (l, rest) => Some (CArr l, rest)
    end.
  Proof. intros ->. reflexivity. Qed.
End Loops.

(** * Main theorem: decoding inverts encoding, whatever follows *)

Theorem decode_gen_encode strict : forall fuel v rest,
  wf v -> (depth v <= fuel)%nat -> decode_gen strict fuel (encode v ++ rest) = Some (v, rest).
Proof.
  induction fuel as [|f IH]; intros v rest Hwf Hd.
  - pose proof (depth_pos v). lia.
  - rewrite decode_gen_S. apply step_encode; [exact Hwf|].
    intros c Hc Hwfc rest'. apply IH; [exact Hwfc|lia].
Qed.
Print Assumptions decode_gen_encode.

(** fuel = nesting depth suffices *)
Theorem decode_encode_depth v rest fuel :
  wf v -> (depth v <= fuel)%nat -> decode fuel (encode v ++ rest) = Some (v, rest).
Proof. intros Hwf Hd. apply decode_gen_encode; assumption. Qed.
Print Assumptions decode_encode_depth.

Theorem decode_encode v rest fuel :
  wf v -> (size v <= fuel)%nat -> decode fuel (encode v ++ rest) = Some (v, rest).
Proof. intros Hwf Hs. apply decode_encode_depth; [exact Hwf|]. pose proof (depth_le_size v). lia. Qed.
Print Assumptions decode_encode.

Theorem decode_strict_encode v rest fuel :
  wf v -> (depth v <= fuel)%nat -> decode_strict fuel (encode v ++ rest) = Some (v, rest).
Proof. intros Hwf Hd. apply decode_gen_encode; assumption. Qed.
Print Assumptions decode_strict_encode.

Theorem decode_all_encode v fuel : wf v -> (depth v <= fuel)%nat -> decode_all fuel (encode v) = Some v.
Proof.
  intros Hwf Hd. unfold decode_all. rewrite <- (app_nil_r (encode v)).
  rewrite decode_encode_depth by assumption. reflexivity.
Qed.
Print Assumptions decode_all_encode.

(** non-vacuity of the hypotheses *)
Example sample_wf : wf sample /\ (depth sample <= 3)%nat /\ (size sample <= 12)%nat.
Proof. split; [apply wfb_spec; vm_compute; reflexivity | vm_compute; lia]. Qed.

(** * Injectivity of the encoder *)

Theorem encode_inj a b : wf a -> wf b -> encode a = encode b -> a = b.
Proof.
  intros Ha Hb E.
  pose proof (decode_encode_depth a [] (Nat.max (depth a) (depth b)) Ha (Nat.le_max_l _ _)) as Da.
  pose proof (decode_encode_depth b [] (Nat.max (depth a) (depth b)) Hb (Nat.le_max_r _ _)) as Db.
  rewrite E, Db in Da. injection Da as ->. reflexivity.
Qed.
Print Assumptions encode_inj.

(** prefix-freeness stated directly *)
Theorem encode_prefix_free a b ra rb :
  wf a -> wf b -> encode a ++ ra = encode b ++ rb -> a = b /\ ra = rb.
Proof.
  intros Ha Hb E.
  pose proof (decode_encode_depth a ra (Nat.max (depth a) (depth b)) Ha (Nat.le_max_l _ _)) as Da.
  pose proof (decode_encode_depth b rb (Nat.max (depth a) (depth b)) Hb (Nat.le_max_r _ _)) as Db.
  rewrite E, Db in Da. injection Da as -> ->. split; reflexivity.
Qed.
Print Assumptions encode_prefix_free.
