(* C14 -- a TCPCL endpoint negotiates its session settings correctly and keeps
   its keepalive and idle timers.  About the executable model Model/TcpclSess.v
   (s = run c ops: every configuration and every operation list).  The ties of
   the model's formulas (keepalive = min, initial segment size, clamp <= MRU)
   to the code are in Props/TcpclTie.v and are not repeated here.

   Two statements are FALSE of the model as first written and are proved with an
   explicit extra hypothesis (suffix _partial), the counterexample being kept
   (suffix _refuted): a SESS_INIT whose node id does not decode (non-ASCII in the
   model = UnicodeDecodeError in merge_session_params) sets _in_sess and the peer
   SESS_INIT but raises before the negotiated values are merged, so
     - keepalive_time is not the minimum of the two SESS_INIT values
       (C14_keepalive_min_refuted), and
     - after a second such SESS_INIT the segment size exceeds the (new) peer MRU
       (C14_seg_le_mru_refuted).
   With "the peer's node id is ASCII" both hold (C14_keepalive_min_partial,
   C14_seg_le_mru_partial).

   Timers: the exact form of the keepalive invariant is
     ka_due = Some (t + keepalive_time*1000)  with  t_send <= t <= now
   (t_send = clock at the last send_message): merge_session_params re-arms the
   timer at the time of the merge, which on the active side is later than the
   last send (C14_keepalive_active_not_exact); on the passive side, where
   SESS_INIT is sent in the same callback, t = t_send exactly
   (C14_keepalive_armed_passive).  The idle timer is exact:
     idle_due = Some (max(t_send, t_recv) + idle_time*1000). *)
From Coq Require Import List NArith Bool.
Import ListNotations.
From DTN Require Import Lib.Bytes Model.TcpclMsg Model.TcpclSess
  Proofs.TcpclRobustLib Proofs.TcpclRobustC14.
Local Open Scope N_scope.

(* ---- (14a) keepalive = min of the two SESS_INIT values; ours is the configured one *)
Theorem C14_keepalive_min_partial : forall c ops a b,
  let s := run c ops in
  in_sess s = true -> sessinit_this s = Some a -> sessinit_peer s = Some b ->
  ascii (si_nodeid b) = true ->
  keepalive_time s = N.min (si_keepalive a) (si_keepalive b) /\ si_keepalive a = c_keepalive c.
Proof. exact keepalive_min_partial. Qed.
Print Assumptions C14_keepalive_min_partial.

Theorem C14_keepalive_min_refuted :
  exists c ops a b,
    let s := run c ops in
    in_sess s = true /\ sessinit_this s = Some a /\ sessinit_peer s = Some b
    /\ keepalive_time s <> N.min (si_keepalive a) (si_keepalive b).
Proof. exact keepalive_min_refuted. Qed.
Print Assumptions C14_keepalive_min_refuted.

Definition c14_cfg : cfg := mkCfg true [97] 30 60 1000 500 None.
Definition c14_ops : list op :=
  [OStart; ORx (MAGIC ++ [4; 0]); ORx (encode_msg (MSessInit 20 400 1000 [98] []))].
Example C14_keepalive_min_nonvacuous :
  let s := run c14_cfg c14_ops in
  in_sess s = true /\ sessinit_this s = Some (mkSI 30 1000 (2^64 - 1) [97])
  /\ sessinit_peer s = Some (mkSI 20 400 1000 [98]) /\ ascii [98] = true
  /\ keepalive_time s = 20 /\ seg_size s = 400 /\ idle_time s = 60.
Proof. vm_compute. repeat split. Qed.

(* a negotiated interval of 0 disables the keepalive timer *)
Theorem C14_keepalive_zero_disables : forall c ops,
  let s := run c ops in keepalive_time s = 0 -> ka_due s = None.
Proof. exact keepalive_zero_disables. Qed.
Print Assumptions C14_keepalive_zero_disables.

(* ---- (14b) segment size: at most the peer's MRU, at most the configured initial size *)
Theorem C14_seg_le_mru_partial : forall c ops p,
  let s := run c ops in
  in_sess s = true -> sessinit_peer s = Some p -> ascii (si_nodeid p) = true ->
  sessinit_this s <> None ->
  seg_size s <= si_seg_mru p /\ seg_size s = N.min (c_seg_init c) (si_seg_mru p).
Proof. exact seg_le_mru_partial. Qed.
Print Assumptions C14_seg_le_mru_partial.

Theorem C14_seg_le_mru_refuted :
  exists c ops p,
    let s := run c ops in
    in_sess s = true /\ sessinit_peer s = Some p /\ ~ seg_size s <= si_seg_mru p.
Proof. exact seg_le_mru_refuted. Qed.
Print Assumptions C14_seg_le_mru_refuted.

Theorem C14_seg_le_init : forall c ops, seg_size (run c ops) <= c_seg_init c.
Proof. exact seg_le_init. Qed.
Print Assumptions C14_seg_le_init.

(* ---- (14c) keepalive timer *)
Theorem C14_keepalive_armed : forall c ops,
  let s := run c ops in
  closed s = false -> 0 < keepalive_time s ->
  exists t, ka_due s = Some (t + keepalive_time s * 1000) /\ t_send s <= t <= now s.
Proof. exact keepalive_armed. Qed.
Print Assumptions C14_keepalive_armed.

Theorem C14_keepalive_armed_passive : forall c ops,
  let s := run c ops in
  c_passive c = true -> closed s = false -> 0 < keepalive_time s ->
  ka_due s = Some (t_send s + keepalive_time s * 1000).
Proof. exact keepalive_armed_passive. Qed.
Print Assumptions C14_keepalive_armed_passive.

Example C14_keepalive_active_not_exact :
  let s := run cfg_a [OStart; ORx (MAGIC ++ [4; 0]); OAdvance 5000;
                      ORx (encode_msg (MSessInit 20 400 1000 [98] []))] in
  closed s = false /\ keepalive_time s = 20 /\ t_send s = 0 /\ now s = 5000 /\ ka_due s = Some 25000.
Proof. exact keepalive_armed_active_not_exact. Qed.

Theorem C14_keepalive_sent : forall s d,
  ka_due s = Some d -> d <= now s -> closed s = false ->
  sent (step s OFireKa) = sent s ++ [FMsg MKeepalive].
Proof. exact keepalive_sent. Qed.
Print Assumptions C14_keepalive_sent.

(* a KEEPALIVE is sent whenever the negotiated interval elapses with nothing else sent *)
Theorem C14_keepalive_fires : forall c ops,
  let s := run c ops in
  closed s = false -> 0 < keepalive_time s ->
  exists d, ka_due s = Some d
    /\ t_send s + keepalive_time s * 1000 <= d <= now s + keepalive_time s * 1000
    /\ forall dt, d <= now s + dt ->
         sent (step (step s (OAdvance dt)) OFireKa) = sent s ++ [FMsg MKeepalive].
Proof. exact keepalive_fires. Qed.
Print Assumptions C14_keepalive_fires.

Example C14_keepalive_nonvacuous :
  let s := run c14_cfg c14_ops in
  closed s = false /\ keepalive_time s = 20 /\ ka_due s = Some 20000
  /\ sent (step (step s (OAdvance 20000)) OFireKa) = sent s ++ [FMsg MKeepalive].
Proof. vm_compute. repeat split. Qed.

(* ---- (14d) idle timer *)
Theorem C14_idle_armed : forall c ops,
  let s := run c ops in
  closed s = false -> 0 < idle_time s ->
  idle_due s = Some (N.max (t_send s) (t_recv s) + idle_time s * 1000).
Proof. exact idle_armed. Qed.
Print Assumptions C14_idle_armed.

Theorem C14_idle_zero_disables : forall c ops,
  let s := run c ops in idle_time s = 0 -> idle_due s = None.
Proof. exact idle_zero_disables. Qed.
Print Assumptions C14_idle_zero_disables.

Theorem C14_closed_no_timers : forall c ops,
  let s := run c ops in closed s = true -> ka_due s = None /\ idle_due s = None.
Proof. exact closed_no_timers. Qed.
Print Assumptions C14_closed_no_timers.

Theorem C14_idle_armed_in_session : forall c ops d,
  let s := run c ops in idle_due s = Some d -> in_sess s = true /\ closed s = false.
Proof. exact idle_armed_in_session. Qed.
Print Assumptions C14_idle_armed_in_session.

(* idle timeout in an established session: SESS_TERM with reason 1 *)
Theorem C14_idle_term : forall c ops d,
  let s := run c ops in
  idle_due s = Some d -> d <= now s -> in_term s = false -> in_sess s = true ->
  sent (step s OFireIdle) = sent s ++ [FMsg (MSessTerm 0 1)].
Proof. exact idle_term. Qed.
Print Assumptions C14_idle_term.

(* idle timeout while already terminating: the endpoint closes *)
Theorem C14_terminating_closes : forall s d,
  idle_due s = Some d -> d <= now s -> in_term s = true -> closed (step s OFireIdle) = true.
Proof. exact terminating_closes. Qed.
Print Assumptions C14_terminating_closes.

Example C14_idle_nonvacuous :
  let s := run c14_cfg (c14_ops ++ [OAdvance 60000]) in
  idle_due s = Some 60000 /\ in_term s = false /\ in_sess s = true
  /\ sent (step s OFireIdle) = sent s ++ [FMsg (MSessTerm 0 1)]
  /\ in_term (step s OFireIdle) = true
  /\ closed (step (step (step s OFireIdle) (OAdvance 60000)) OFireIdle) = true.
Proof. vm_compute. repeat split. Qed.
