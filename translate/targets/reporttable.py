''' Translator target: status-report tables of the BP agent  ->  coq/Gen/ReportTable.v

Sources (parsed with ``ast``, fail closed on any other shape):
  * bp/util.py      BundleContainer.create_report: the ``FLAGS`` and ``STATUS_FIELD`` dict literals, the
                    "no report-to" test, the status-time flag, the reason default and the primary block of
                    the reply (bundle_flags / crc_type keywords),
  * bp/encoding/blocks.py   PrimaryBlock.Flag values, AbstractBlock.CrcType values,
  * bp/encoding/admin.py    StatusInfoArray field order, StatusReport.ReasonCode values, the record type
                            bound to StatusReport (``@AdminRecord.bind_type(n)``),
  * bp/agent.py     the reason recorded by ``_do_fwd`` on failure, the identity test order in ``recv_bundle``
                    is NOT translated (hand model + correspondence).
'''
import ast
import os


class TranslateError(Exception):
    pass


def _parse(path):
    with open(path, 'r') as infile:
        return ast.parse(infile.read(), filename=path)


def _find_class(node, name):
    for item in node.body:
        if isinstance(item, ast.ClassDef) and item.name == name:
            return item
    raise TranslateError('class %s not found' % name)


def _find_func(node, name):
    for item in node.body:
        if isinstance(item, ast.FunctionDef) and item.name == name:
            return item
    raise TranslateError('function %s not found' % name)


def _int_enum(cls):
    ''' name -> int for simple ``NAME = <int literal>`` members of an enum class body. '''
    out = {}
    for item in cls.body:
        if isinstance(item, ast.Assign) and len(item.targets) == 1 and isinstance(item.targets[0], ast.Name):
            if isinstance(item.value, ast.Constant) and isinstance(item.value.value, int) and not isinstance(item.value.value, bool):
                out[item.targets[0].id] = item.value.value
            else:
                raise TranslateError('enum member %s.%s is not an int literal' % (cls.name, item.targets[0].id))
        elif isinstance(item, ast.Expr) and isinstance(item.value, ast.Constant) and isinstance(item.value.value, str):
            continue  # docstring
        elif isinstance(item, ast.Pass):
            continue
        else:
            raise TranslateError('unexpected statement in enum %s: %s' % (cls.name, ast.dump(item)[:80]))
    if not out:
        raise TranslateError('enum %s has no members' % cls.name)
    return out


def _dotted(node):
    ''' a.b.c attribute chain -> 'a.b.c' '''
    parts = []
    while isinstance(node, ast.Attribute):
        parts.append(node.attr)
        node = node.value
    if not isinstance(node, ast.Name):
        raise TranslateError('not a dotted name: %s' % ast.dump(node)[:80])
    parts.append(node.id)
    return '.'.join(reversed(parts))


def _local_assign(func, name):
    for item in func.body:
        if isinstance(item, ast.Assign) and len(item.targets) == 1 and isinstance(item.targets[0], ast.Name) and item.targets[0].id == name:
            return item.value
    raise TranslateError('%s: no top-level assignment to %s' % (func.name, name))


def _kw(call, name):
    for item in call.keywords:
        if item.arg == name:
            return item.value
    raise TranslateError('keyword %s missing in call' % name)


ACTIONS = ('receive', 'forward', 'deliver', 'delete')


def generate(repo_src):
    blocks = _parse(os.path.join(repo_src, 'bp', 'encoding', 'blocks.py'))
    admin = _parse(os.path.join(repo_src, 'bp', 'encoding', 'admin.py'))
    util = _parse(os.path.join(repo_src, 'bp', 'util.py'))
    agent = _parse(os.path.join(repo_src, 'bp', 'agent.py'))

    flag = _int_enum(_find_class(_find_class(blocks, 'PrimaryBlock'), 'Flag'))
    crc_type = _int_enum(_find_class(_find_class(blocks, 'AbstractBlock'), 'CrcType'))
    status_report = _find_class(admin, 'StatusReport')
    reason = _int_enum(_find_class(status_report, 'ReasonCode'))
    # record type: decorator @AdminRecord.bind_type(<int>)
    rec_type = None
    for deco in status_report.decorator_list:
        if isinstance(deco, ast.Call) and _dotted(deco.func) == 'AdminRecord.bind_type' and len(deco.args) == 1 \
                and isinstance(deco.args[0], ast.Constant) and isinstance(deco.args[0].value, int):
            rec_type = deco.args[0].value
    if rec_type is None:
        raise TranslateError('StatusReport is not bound with @AdminRecord.bind_type(<int>)')
    # StatusInfoArray field order
    sia = _find_class(admin, 'StatusInfoArray')
    fdesc = None
    for item in sia.body:
        if isinstance(item, ast.Assign) and isinstance(item.targets[0], ast.Name) and item.targets[0].id == 'fields_desc':
            fdesc = item.value
    if not isinstance(fdesc, ast.Tuple):
        raise TranslateError('StatusInfoArray.fields_desc is not a tuple')
    status_order = []
    for elt in fdesc.elts:
        if not (isinstance(elt, ast.Call) and _dotted(elt.func) == 'PacketField' and elt.args
                and isinstance(elt.args[0], ast.Constant) and isinstance(elt.args[0].value, str)):
            raise TranslateError('StatusInfoArray field is not PacketField(<name>, ...)')
        status_order.append(elt.args[0].value)

    create = _find_func(_find_class(util, 'BundleContainer'), 'create_report')
    flags_dict = _local_assign(create, 'FLAGS')
    field_dict = _local_assign(create, 'STATUS_FIELD')
    if not isinstance(flags_dict, ast.Dict) or not isinstance(field_dict, ast.Dict):
        raise TranslateError('FLAGS / STATUS_FIELD are not dict literals')
    req_flag = {}
    for (key, val) in zip(flags_dict.keys, flags_dict.values):
        if not (isinstance(key, ast.Constant) and isinstance(key.value, str)):
            raise TranslateError('FLAGS key is not a string literal')
        name = _dotted(val)
        if not name.startswith('PrimaryBlock.Flag.') or name.split('.')[-1] not in flag:
            raise TranslateError('FLAGS value %s is not a PrimaryBlock.Flag member' % name)
        req_flag[key.value] = name.split('.')[-1]
    status_field = {}
    for (key, val) in zip(field_dict.keys, field_dict.values):
        if not (isinstance(key, ast.Constant) and isinstance(key.value, str) and isinstance(val, ast.Constant) and isinstance(val.value, str)):
            raise TranslateError('STATUS_FIELD is not a str->str literal')
        if val.value not in status_order:
            raise TranslateError('STATUS_FIELD value %s is not a StatusInfoArray field' % val.value)
        status_field[key.value] = val.value
    if sorted(req_flag) != sorted(ACTIONS) or sorted(status_field) != sorted(ACTIONS):
        raise TranslateError('FLAGS/STATUS_FIELD keys are %s / %s, expected %s' % (sorted(req_flag), sorted(status_field), sorted(ACTIONS)))

    # "if status_dest is None or status_dest == 'dtn:none': return None"
    none_eid = None
    for item in create.body:
        if isinstance(item, ast.If) and isinstance(item.test, ast.BoolOp) and isinstance(item.test.op, ast.Or) \
                and len(item.body) == 1 and isinstance(item.body[0], ast.Return) \
                and isinstance(item.body[0].value, ast.Constant) and item.body[0].value.value is None:
            for cmp_ in item.test.values:
                if isinstance(cmp_, ast.Compare) and len(cmp_.ops) == 1 and isinstance(cmp_.ops[0], ast.Eq) \
                        and isinstance(cmp_.comparators[0], ast.Constant) and isinstance(cmp_.comparators[0].value, str):
                    none_eid = cmp_.comparators[0].value
    if none_eid != 'dtn:none':
        raise TranslateError('the no-report-to test against the literal dtn:none was not found (got %r)' % (none_eid,))

    # status_ts = bool(own_flags & PrimaryBlock.Flag.X)
    ts_val = _local_assign(create, 'status_ts')
    if not (isinstance(ts_val, ast.Call) and isinstance(ts_val.func, ast.Name) and ts_val.func.id == 'bool'
            and isinstance(ts_val.args[0], ast.BinOp) and isinstance(ts_val.args[0].op, ast.BitAnd)):
        raise TranslateError('status_ts is not bool(flags & FLAG)')
    ts_flag = _dotted(ts_val.args[0].right).split('.')[-1]
    if ts_flag not in flag:
        raise TranslateError('status_ts flag %s unknown' % ts_flag)

    # report = StatusReport(..., reason_code=(self.status_reason if self.status_reason else StatusReport.ReasonCode.X), ...)
    rep_val = _local_assign(create, 'report')
    if not (isinstance(rep_val, ast.Call) and _dotted(rep_val.func) == 'StatusReport'):
        raise TranslateError('report is not StatusReport(...)')
    rc_val = _kw(rep_val, 'reason_code')
    if not isinstance(rc_val, ast.IfExp):
        raise TranslateError('reason_code is not a conditional expression')
    default_reason = _dotted(rc_val.orelse).split('.')[-1]
    if default_reason not in reason:
        raise TranslateError('default reason %s unknown' % default_reason)
    if _dotted(_kw(rep_val, 'subj_source')) != 'self.bundle.primary.source' or _dotted(_kw(rep_val, 'subj_ts')) != 'self.bundle.primary.create_ts':
        raise TranslateError('report subject is not the primary block source / create_ts')

    # reply.bundle.primary = PrimaryBlock(bundle_flags=PrimaryBlock.Flag.X, destination=self.bundle.primary.report_to, crc_type=AbstractBlock.CrcType.Y)
    reply_call = None
    for item in create.body:
        if isinstance(item, ast.Assign) and isinstance(item.targets[0], ast.Attribute) and _dotted(item.targets[0]) == 'reply.bundle.primary':
            reply_call = item.value
    if not (isinstance(reply_call, ast.Call) and _dotted(reply_call.func) == 'PrimaryBlock'):
        raise TranslateError('reply.bundle.primary = PrimaryBlock(...) not found')
    allowed = {'bundle_flags', 'destination', 'crc_type'}
    if {kw.arg for kw in reply_call.keywords} != allowed:
        raise TranslateError('reply primary block keywords are %s' % sorted(kw.arg for kw in reply_call.keywords))
    rf_val = _kw(reply_call, 'bundle_flags')
    reply_flags = []
    stack = [rf_val]
    while stack:
        cur = stack.pop()
        if isinstance(cur, ast.BinOp) and isinstance(cur.op, ast.BitOr):
            stack += [cur.left, cur.right]
        else:
            name = _dotted(cur).split('.')[-1]
            if name not in flag:
                raise TranslateError('reply flag %s unknown' % name)
            reply_flags.append(name)
    if _dotted(_kw(reply_call, 'destination')) != 'self.bundle.primary.report_to':
        raise TranslateError('reply destination is not the report-to EID')
    reply_crc = _dotted(_kw(reply_call, 'crc_type')).split('.')[-1]
    if reply_crc not in crc_type:
        raise TranslateError('reply crc type %s unknown' % reply_crc)

    # agent._do_fwd: ctr.record_action('delete', StatusReport.ReasonCode.X) in the except handler
    do_fwd = _find_func(_find_class(agent, 'Agent'), '_do_fwd')
    fwd_reason = None
    for node in ast.walk(do_fwd):
        if isinstance(node, ast.ExceptHandler):
            for sub in ast.walk(node):
                if isinstance(sub, ast.Call) and isinstance(sub.func, ast.Attribute) and sub.func.attr == 'record_action' \
                        and len(sub.args) == 2 and isinstance(sub.args[0], ast.Constant) and sub.args[0].value == 'delete':
                    fwd_reason = _dotted(sub.args[1]).split('.')[-1]
    if fwd_reason not in reason:
        raise TranslateError('_do_fwd failure reason not found')

    lines = []
    out = lines.append
    out('(* GENERATED by translate/targets/reporttable.py from bp/util.py (create_report), bp/encoding/blocks.py,')
    out('   bp/encoding/admin.py, bp/agent.py (_do_fwd).  Do not edit. *)')
    out('From Coq Require Import NArith List.')
    out('Import ListNotations.')
    out('Local Open Scope N_scope.')
    out('')
    out('(* PrimaryBlock.Flag *)')
    for (name, val) in sorted(flag.items(), key=lambda kv: (kv[1], kv[0])):
        out('Definition FLAG_%s : N := %d.' % (name, val))
    out('')
    out('(* AbstractBlock.CrcType *)')
    for (name, val) in sorted(crc_type.items(), key=lambda kv: kv[1]):
        out('Definition CRCTYPE_%s : N := %d.' % (name, val))
    out('')
    out('(* StatusReport.ReasonCode *)')
    for (name, val) in sorted(reason.items(), key=lambda kv: kv[1]):
        out('Definition REASON_%s : N := %d.' % (name, val))
    out('')
    out('(* create_report: FLAGS[action] *)')
    for act in ACTIONS:
        out('Definition req_flag_%s : N := FLAG_%s.' % (act, req_flag[act]))
    out('')
    out('(* create_report: position of STATUS_FIELD[action] in StatusInfoArray.fields_desc *)')
    for act in ACTIONS:
        out('Definition status_index_%s : nat := %d.  (* %s *)' % (act, status_order.index(status_field[act]), status_field[act]))
    out('Definition status_array_len : nat := %d.' % len(status_order))
    out('')
    out('Definition status_time_flag : N := FLAG_%s.' % ts_flag)
    out('Definition default_reason : N := REASON_%s.' % default_reason)
    out('Definition fwd_fail_reason : N := REASON_%s.' % fwd_reason)
    expr = '0'
    for name in sorted(set(reply_flags)):
        expr = '(N.lor %s FLAG_%s)' % (expr, name)
    out('Definition report_bundle_flags : N := %s.' % expr)
    out('Definition report_crc_type : N := CRCTYPE_%s.' % reply_crc)
    out('Definition status_record_type : N := %d.' % rec_type)
    out('')
    return {'Gen/ReportTable.v': '\n'.join(lines) + '\n'}
