''' Minimal stand-in for dbus-python, for driving dtn-demo-agent offline.
Records every signal emission / method return with the Python type tree of
its arguments so that the harness can check them against the declared
D-Bus signature (see harness/dbussig.py).
'''
from . import exceptions
from .exceptions import DBusException


class String(str):
    def __new__(cls, value='', variant_level=0):
        return str.__new__(cls, value)


class ObjectPath(str):
    pass


class Boolean(int):
    pass


class _Int(int):
    def __new__(cls, value=0, variant_level=0):
        return int.__new__(cls, value)


class Byte(_Int):
    pass


class Int16(_Int):
    pass


class UInt16(_Int):
    pass


class Int32(_Int):
    pass


class UInt32(_Int):
    pass


class Int64(_Int):
    pass


class UInt64(_Int):
    pass


class Double(float):
    pass


class Array(list):
    def __init__(self, iterable=(), signature=None, variant_level=0):
        list.__init__(self, iterable)
        self.signature = signature


class Dictionary(dict):
    def __init__(self, mapping_or_iterable=(), signature=None, variant_level=0):
        dict.__init__(self, mapping_or_iterable)
        self.signature = signature


class ByteArray(bytes):
    pass


class Struct(tuple):
    pass


class Interface(object):
    def __init__(self, obj, dbus_interface):
        self._obj = obj
        self._iface = dbus_interface

    def __getattr__(self, name):
        return getattr(self._obj, name)


from . import bus, service, mainloop  # noqa: E402,F401
