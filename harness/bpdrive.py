''' Reusable driver for the real ``bp.agent.Agent`` (used by C05/C06/C08/C10/C11/C12/C19).

    import env                                   # FIRST (harness/stubs + /repo/src on sys.path)
    import bpdrive
    drv = bpdrive.BpDriver(node_id='dtn://me/',
                           rx_routes=[('^dtn://me/.*', 'deliver'), ('.*', 'forward')],
                           tx_routes=[dict(pattern='.*', next_nodeid='dtn://hop/', cl_type='fake', mtu=None)])
    obs = drv.recv(bpdrive.encode_bundle(dict(dest='dtn://me/app', src='dtn://a/', ...)))
    obs['deliveries'], obs['transmitted'], obs['reports'], obs['events'], obs['actions'], drv.seen()

What the driver does and does not do
  * builds ``bp.config.Config`` + stub bus, constructs the real ``Agent`` with every application the
    agent loads by default (``bp.app``: admin, fragment, bpsec, sand, safe, zeroconf - ``APPS_LOADED``),
  * installs one fake convergence layer per name in ``cl_types`` into ``agent._cl_agent``; it captures the
    octets given to the sender returned by ``send_bundle_func(raw_config)``,
  * registers ONE extra RX chain step (default order 25: after the BPSec verification steps 19/20 and
    before the order-30 application handlers, which may interrupt the chain) that records a *delivery*
    when the container carries the ``deliver`` action at that point.  That is the delivery callback an
    application would get (``AbstractApplication._recv_for`` tests exactly ``'deliver' in ctr.actions``),
  * freezes time: every ``datetime`` reference inside ``bp.*`` modules is replaced by a virtual clock,
  * drains ``GLib.CTX`` idle sources in id order until none remain (deferred sends, reports, forwarding,
    reassembly re-injection); exceptions escaping a callback are recorded (``escaped``),
  * decodes everything the CL was given with plain ``cbor2`` and an independent CRC (no scapy, no
    ``bp.encoding``, no ``crcmod`` stub) -> ``decode_bundle``.

Input bundles are built with ``encode_bundle`` (plain ``cbor2`` + the independent CRC), never with the
code under test.
'''
import datetime as _real_datetime
import io
import re
import sys
import types

import cbor2

# --------------------------------------------------------------------------- independent CRCs


def _crc_reflected(data, poly, width):
    mask = (1 << width) - 1
    crc = mask
    for octet in bytes(data):
        crc ^= octet
        for _ in range(8):
            crc = (crc >> 1) ^ poly if crc & 1 else crc >> 1
    return (crc ^ mask) & mask


def crc16_x25(data):
    ''' CRC-16/X-25 (RFC 9171 CRC type 1), bitwise. '''
    return _crc_reflected(data, 0x8408, 16)


def crc32c(data):
    ''' CRC-32C Castagnoli (RFC 9171 CRC type 2), bitwise. '''
    return _crc_reflected(data, 0x82F63B78, 32)


assert crc16_x25(b'123456789') == 0x906E
assert crc32c(b'123456789') == 0xE3069283

CRC_LEN = {1: 2, 2: 4}
CRC_FUN = {1: crc16_x25, 2: crc32c}

# primary block flags (RFC 9171 section 4.2.3)
FLAG_IS_FRAGMENT = 0x000001
FLAG_PAYLOAD_ADMIN = 0x000002
FLAG_NO_FRAGMENT = 0x000004
FLAG_USER_APP_ACK = 0x000020
FLAG_REQ_STATUS_TIME = 0x000040
FLAG_REQ_RECEPTION = 0x004000
FLAG_REQ_FORWARDING = 0x010000
FLAG_REQ_DELIVERY = 0x020000
FLAG_REQ_DELETION = 0x040000
FLAG_REQ_ANY = FLAG_REQ_RECEPTION | FLAG_REQ_FORWARDING | FLAG_REQ_DELIVERY | FLAG_REQ_DELETION

# --------------------------------------------------------------------------- plain-cbor2 bundle codec


def eid_to_cbor(eid):
    if eid is None or eid == 'dtn:none':
        return [1, 0]
    if eid.startswith('dtn:'):
        return [1, eid[4:]]
    if eid.startswith('ipn:'):
        return [2, [int(part) for part in eid[4:].split('.')]]
    raise ValueError('unsupported EID %r' % (eid,))


def eid_from_cbor(item):
    if not isinstance(item, list) or len(item) != 2:
        raise ValueError('EID is not a 2-array: %r' % (item,))
    (scheme, ssp) = item
    if scheme == 1:
        if ssp == 0:
            return 'dtn:none'
        if not isinstance(ssp, str):
            raise ValueError('dtn SSP not text/0: %r' % (ssp,))
        return 'dtn:' + ssp
    if scheme == 2:
        return 'ipn:' + '.'.join(str(part) for part in ssp)
    raise ValueError('unknown EID scheme %r' % (scheme,))


def _with_crc(fields, crc_type, bad_crc=False):
    ''' Encode one block array, computing the CRC over the encoding with a zeroed CRC field. '''
    if crc_type == 0:
        return cbor2.dumps(fields)
    size = CRC_LEN[crc_type]
    pre = cbor2.dumps(fields + [b'\x00' * size])
    val = CRC_FUN[crc_type](pre)
    if bad_crc:
        val ^= 1
    return pre[:-size] + val.to_bytes(size, 'big')


def encode_bundle(spec):
    ''' Build bundle octets from a dict, independently of bp.encoding.

    spec keys: dest, src, report_to (EID strings; default 'dtn:none'), flags (int), time, seq, lifetime,
    frag=(offset, total) or None (sets IS_FRAGMENT itself), crc (0/1/2 for all blocks), payload (bytes),
    blocks = list of dict(type, num, flags=0, crc=None, data=bytes) extension blocks (before the payload),
    bad_crc = set of block numbers (0 = primary) whose CRC is corrupted, payload_num (default 1),
    payload_crc (default crc).
    '''
    crc = spec.get('crc', 2)
    flags = int(spec.get('flags', 0))
    frag = spec.get('frag')
    if frag is not None:
        flags |= FLAG_IS_FRAGMENT
    bad = set(spec.get('bad_crc', ()))
    pri = [7, flags, crc, eid_to_cbor(spec.get('dest')), eid_to_cbor(spec.get('src')),
           eid_to_cbor(spec.get('report_to')), [int(spec.get('time', 0)), int(spec.get('seq', 0))],
           int(spec.get('lifetime', 3600000))]
    if flags & FLAG_IS_FRAGMENT:
        (off, total) = frag if frag is not None else (0, 0)
        pri += [int(off), int(total)]
    out = b'\x9f' + _with_crc(pri, crc, 0 in bad)
    for blk in spec.get('blocks', ()):
        bcrc = blk.get('crc', crc)
        if bcrc is None:
            bcrc = crc
        out += _with_crc([blk['type'], blk['num'], blk.get('flags', 0), bcrc, bytes(blk['data'])], bcrc, blk['num'] in bad)
    pnum = spec.get('payload_num', 1)
    pcrc = spec.get('payload_crc', crc)
    out += _with_crc([1, pnum, spec.get('payload_flags', 0), pcrc, bytes(spec.get('payload', b''))], pcrc, pnum in bad)
    return out + b'\xff'


def _check_raw_crc(raw_item, crc_type):
    if crc_type == 0:
        return True
    if crc_type not in CRC_LEN:
        return False
    size = CRC_LEN[crc_type]
    # the CRC byte string is the last array element: head (0x42 / 0x44) + value are the trailing octets
    given = raw_item[-size:]
    zeroed = raw_item[:-size] + b'\x00' * size
    return CRC_FUN[crc_type](zeroed).to_bytes(size, 'big') == given


def decode_bundle(raw):
    ''' Decode bundle octets with plain cbor2.  CRCs are verified over the octets as transmitted
    (RFC 9171 section 4.2.1), not over a re-encoding.

    :return: dict(ok, error, indefinite, primary=dict(...), blocks=[dict(...)], payload, crc_ok (all),
        admin=dict(...) for administrative records / status reports (RFC 9171 section 6.1)).
    '''
    raw = bytes(raw)
    res = dict(ok=False, error=None, size=len(raw), indefinite=raw[:1] == b'\x9f', raw_hex=raw.hex())
    try:
        items = []
        if raw[:1] == b'\x9f':
            stream = io.BytesIO(raw)
            stream.read(1)
            dec = cbor2.CBORDecoder(stream)
            while True:
                start = stream.tell()
                if raw[start:start + 1] == b'\xff':
                    if start + 1 != len(raw):
                        raise ValueError('trailing octets after break')
                    break
                if start >= len(raw):
                    raise ValueError('missing break')
                item = dec.decode()
                items.append((item, raw[start:stream.tell()]))
        else:
            raise ValueError('bundle is not an indefinite-length array')
        if not items:
            raise ValueError('no primary block')
        (pri, pri_raw) = items[0]
        if not isinstance(pri, list) or len(pri) < 8:
            raise ValueError('primary block shape')
        flags = pri[1]
        crc_type = pri[2]
        want = 8 + (2 if flags & FLAG_IS_FRAGMENT else 0) + (1 if crc_type else 0)
        if len(pri) != want:
            raise ValueError('primary block has %d items, expected %d' % (len(pri), want))
        primary = dict(
            version=pri[0], flags=flags, crc_type=crc_type,
            dest=eid_from_cbor(pri[3]), src=eid_from_cbor(pri[4]), report_to=eid_from_cbor(pri[5]),
            time=pri[6][0], seq=pri[6][1], lifetime=pri[7],
            lifetime_is_uint=(isinstance(pri[7], int) and not isinstance(pri[7], bool) and pri[7] >= 0),
            frag=((pri[8], pri[9]) if flags & FLAG_IS_FRAGMENT else None),
            crc_ok=_check_raw_crc(pri_raw, crc_type),
            is_admin=bool(flags & FLAG_PAYLOAD_ADMIN),
        )
        blocks = []
        for (blk, blk_raw) in items[1:]:
            if not isinstance(blk, list) or len(blk) not in (5, 6):
                raise ValueError('canonical block shape')
            if len(blk) != 5 + (1 if blk[3] else 0):
                raise ValueError('canonical block CRC presence')
            blocks.append(dict(type=blk[0], num=blk[1], flags=blk[2], crc_type=blk[3], data=blk[4],
                               crc_ok=_check_raw_crc(blk_raw, blk[3])))
        res.update(primary=primary, blocks=blocks)
        pay = [blk for blk in blocks if blk['type'] == 1]
        res['payload'] = pay[-1]['data'] if pay else None
        res['payload_last'] = bool(blocks) and blocks[-1]['type'] == 1
        res['crc_ok'] = primary['crc_ok'] and all(blk['crc_ok'] for blk in blocks)
        res['ident'] = ident_of(primary)
        if primary['is_admin'] and pay and isinstance(pay[-1]['data'], bytes):
            res['admin'] = decode_admin_record(pay[-1]['data'])
        res['ok'] = True
    except Exception as err:  # malformed output is an observation, not a crash of the harness
        res['error'] = '%s: %s' % (err.__class__.__name__, err)
    return res


def decode_admin_record(data):
    ''' RFC 9171 section 6.1: [record type, content]; type 1 = status report (section 6.1.1):
    [[received, forwarded, delivered, deleted], reason, subject source EID, subject creation timestamp,
    (fragment offset, payload length)] with each status = [bool] or [bool, dtn time]. '''
    out = dict(ok=False, error=None)
    try:
        rec = cbor2.loads(data)
        if not isinstance(rec, list) or len(rec) != 2:
            raise ValueError('administrative record is not a 2-array')
        out['record_type'] = rec[0]
        if rec[0] != 1:
            out['content'] = rec[1]
            out['ok'] = True
            return out
        rep = rec[1]
        if not isinstance(rep, list) or len(rep) not in (4, 6):
            raise ValueError('status report has %r items' % (len(rep) if isinstance(rep, list) else None,))
        stat = rep[0]
        if not isinstance(stat, list) or len(stat) != 4:
            raise ValueError('status information is not a 4-array')
        names = ('received', 'forwarded', 'delivered', 'deleted')
        status = {}
        for (name, item) in zip(names, stat):
            if not isinstance(item, list) or len(item) not in (1, 2) or not isinstance(item[0], bool):
                raise ValueError('status item %s malformed: %r' % (name, item))
            if len(item) == 2 and not (isinstance(item[1], int) and item[1] >= 0):
                raise ValueError('status time %s malformed: %r' % (name, item))
            status[name] = dict(asserted=item[0], time=(item[1] if len(item) == 2 else None))
        if not isinstance(rep[1], int) or isinstance(rep[1], bool) or rep[1] < 0:
            raise ValueError('reason code malformed: %r' % (rep[1],))
        out.update(status=status, reason=rep[1], subj_src=eid_from_cbor(rep[2]),
                   subj_time=rep[3][0], subj_seq=rep[3][1],
                   subj_frag=((rep[4], rep[5]) if len(rep) == 6 else None))
        out['ok'] = True
    except Exception as err:
        out['error'] = '%s: %s' % (err.__class__.__name__, err)
    return out


def forwarded_size(spec, node_id, now_ms):
    ''' Encoded size of the bundle as this node must forward it (RFC 9171 5.4 / 4.4): received blocks plus a
    Previous Node block and, when the creation time is known, a Bundle Age block (numbers 2 and 3, no CRC, as a
    fresh node adds them), computed with the independent encoder.  Only for bundles that carry no such blocks. '''
    enc = spec_for_encode(spec)
    extra = [dict(type=6, num=2, crc=0, data=cbor2.dumps(eid_to_cbor(node_id)))]
    if enc.get('time', 0) != 0:
        extra.append(dict(type=7, num=3, crc=0, data=cbor2.dumps(int(now_ms) - int(enc['time']))))
    return len(encode_bundle(dict(enc, blocks=list(enc.get('blocks', ())) + extra)))


def ident_of(primary):
    ''' Bundle identity per RFC 9171 section 4.2.2 / property C10: source, creation timestamp and, for
    fragments, offset and total length. '''
    base = (primary['src'], primary['time'], primary['seq'])
    if primary.get('frag') is not None:
        base += tuple(primary['frag'])
    return base


# --------------------------------------------------------------------------- virtual clock

DTN_EPOCH = _real_datetime.datetime(2000, 1, 1, 0, 0, 0, 0, _real_datetime.timezone.utc)


class Clock(object):
    ''' Virtual wall clock in DTN-time milliseconds; ``tick`` ms are added after every reading. '''

    def __init__(self, now_ms=800000000000, tick=0):
        self.now_ms = now_ms
        self.tick = tick
        self.reads = 0

    def read(self):
        val = self.now_ms
        self.now_ms += self.tick
        self.reads += 1
        return val


_ACTIVE_CLOCK = [Clock()]


class _FrozenDatetime(_real_datetime.datetime):
    @classmethod
    def now(cls, tz=None):
        val = DTN_EPOCH + _real_datetime.timedelta(milliseconds=_ACTIVE_CLOCK[0].read())
        # an instance of this subclass, so isinstance() tests against either class object succeed
        return cls(val.year, val.month, val.day, val.hour, val.minute, val.second, val.microsecond,
                   tzinfo=(tz if tz is not None else None))

    @classmethod
    def utcnow(cls):
        return cls.now(None)


_SHIM = types.ModuleType('datetime')
for _name in dir(_real_datetime):
    if not _name.startswith('__'):
        setattr(_SHIM, _name, getattr(_real_datetime, _name))
_SHIM.datetime = _FrozenDatetime


def install_clock(clock):
    ''' Point every ``datetime`` module / class reference held by a ``bp.*`` module at the virtual clock.
    (Generic over how the module imported it, so a refactoring of the import style does not matter.) '''
    _ACTIVE_CLOCK[0] = clock
    for (name, mod) in list(sys.modules.items()):
        if mod is None or not (name == 'bp' or name.startswith('bp.')):
            continue
        for (attr, val) in list(vars(mod).items()):
            if val is _real_datetime:
                setattr(mod, attr, _SHIM)
            elif val is _real_datetime.datetime:
                setattr(mod, attr, _FrozenDatetime)


# --------------------------------------------------------------------------- the driver

APPS_LOADED = None  # filled at first construction: names in bp.app.base.APPLICATIONS


class FakeCL(object):
    ''' What ``Agent.send_bundle`` needs from a CL adaptor: ``send_bundle_func(raw_config) -> callable(data)``
    (plus ``serv_name`` for ``_bus_name_changed``). '''

    def __init__(self, driver, name):
        self._driver = driver
        self.name = name
        self.serv_name = None
        self.sent = []

    def send_bundle_func(self, tx_params):
        def sender(data):
            self._driver._on_cl_send(self, tx_params, bytes(data))
        return sender

    def bind(self, conn):
        pass

    def unbind(self):
        pass


class BpDriver(object):

    def __init__(self, node_id='dtn://me/', rx_routes=(), tx_routes=(), cl_types=('fake',), clock=None,
                 capture_order=25, config_kwargs=None, app_config=None):
        '''
        :param rx_routes: list of (regex string, action string) - ``RxRouteItem`` in table order.
        :param tx_routes: list of dict(pattern, next_nodeid='dtn://hop/', cl_type='fake', mtu=None, raw_config={}).
        :param cl_types: names of fake CLs to install (a tx route naming another type has no CL object).
        :param capture_order: order of the delivery-capturing RX chain step (None = do not register).
        :param config_kwargs: extra ``bp.config.Config`` fields (accept_after_verify, key files, ...).
        :param app_config: ``Config.apps`` dict.
        '''
        global APPS_LOADED
        import dbus.bus
        import dbus.service
        from gi.repository import GLib
        import bp.config
        import bp.agent
        import bp.app.base
        import bp.util
        import bp.encoding
        self.GLib = GLib
        self.bp_util = bp.util
        self.bp_encoding = bp.encoding
        GLib.CTX.reset()
        del dbus.service.EVENT_LOG[:]
        self.clock = clock or Clock()
        install_clock(self.clock)
        import re
        kwargs = dict(config_kwargs or {})
        cfg = bp.config.Config(node_id=node_id, **kwargs)
        if app_config:
            cfg.apps = dict(app_config)
        cfg._bus_conn = dbus.bus.BusConnection()
        for (pat, action) in rx_routes:
            cfg.rx_route_table.append(bp.config.RxRouteItem(eid_pattern=re.compile(pat), action=action))
        for item in tx_routes:
            cfg.tx_route_table.append(bp.config.TxRouteItem(
                eid_pattern=re.compile(item['pattern']),
                next_nodeid=item.get('next_nodeid', 'dtn://hop/'),
                cl_type=item.get('cl_type', 'fake'),
                mtu=item.get('mtu'),
                raw_config=dict(item.get('raw_config', {}), _route_index=len(cfg.tx_route_table)),
            ))
        self.cfg = cfg
        self.node_id = node_id
        self.agent = bp.agent.Agent(cfg, bus_kwargs=dict(conn=cfg._bus_conn, object_path='/org/ietf/dtn/bp/Agent'))
        APPS_LOADED = sorted(bp.app.base.APPLICATIONS.keys())
        self.cl = {}
        for name in cl_types:
            self.cl[name] = FakeCL(self, name)
            self.agent._cl_agent[name] = self.cl[name]
        # observation logs (whole lifetime); recv() returns the slice belonging to one input
        self.events = []
        self.deliveries = []
        self.transmitted = []
        self.send_attempts = []
        self.recv_calls = []
        if capture_order is not None:
            self.add_rx_step(capture_order, 'harness delivery capture', self._capture_delivery)
        # record every send_bundle attempt (reports with no route never reach a CL)
        orig_send = self.agent.send_bundle
        drv = self

        def send_wrapper(ctr):
            ent = dict(dest=ctr.bundle.primary.destination if ctr.bundle.primary is not None else None,
                       admin=None, ok=None, exc=None)
            try:
                ent['admin'] = bool(ctr.bundle.primary.getfieldval('bundle_flags') & FLAG_PAYLOAD_ADMIN) or any(
                    isinstance(blk.payload, bp.encoding.AdminRecord) for blk in ctr.bundle.blocks)
            except Exception:
                pass
            drv.send_attempts.append(ent)
            try:
                ret = orig_send(ctr)
                ent['ok'] = True
                return ret
            except Exception as err:
                ent['ok'] = False
                ent['exc'] = err.__class__.__name__
                drv.events.append(('send_fail', ent['admin'], ent['dest']))
                raise
        self.agent.send_bundle = send_wrapper
        # every recv_bundle call (including re-injected reassembled bundles)
        orig_recv = self.agent.recv_bundle

        def recv_wrapper(ctr):
            drv.recv_calls.append(ctr)
            return orig_recv(ctr)
        self.agent.recv_bundle = recv_wrapper

    # ------------------------------------------------------------------ hooks
    def add_rx_step(self, order, name, func):
        ''' Register an application-like RX chain step ``func(ctr) -> bool`` (True interrupts). '''
        self.agent._rx_chain.append(self.bp_util.ChainStep(order=order, name=name, action=func))
        self.agent._rx_chain.sort()

    def add_tx_step(self, order, name, func):
        self.agent._tx_chain.append(self.bp_util.ChainStep(order=order, name=name, action=func))
        self.agent._tx_chain.sort()

    def chains(self):
        return dict(rx=[(step.order, step.name) for step in self.agent._rx_chain],
                    tx=[(step.order, step.name) for step in self.agent._tx_chain])

    def _capture_delivery(self, ctr):
        if 'deliver' not in ctr.actions:
            return False
        pri = ctr.bundle.primary
        try:
            payload = bytes(ctr.block_num(1).getfieldval('btsd') or b'')
        except Exception:
            payload = None
        ent = dict(ident=tuple(ctr.bundle_ident()), dest=pri.destination, src=pri.source,
                   flags=int(pri.getfieldval('bundle_flags')),
                   is_fragment=bool(pri.getfieldval('bundle_flags') & FLAG_IS_FRAGMENT),
                   payload_hex=(payload.hex() if payload is not None else None))
        self.deliveries.append(ent)
        self.events.append(('deliver', ent))
        return False

    def _on_cl_send(self, cl_obj, tx_params, data):
        dec = decode_bundle(data)
        ent = dict(cl=cl_obj.name, route_index=(tx_params or {}).get('_route_index') if isinstance(tx_params, dict) else None,
                   size=len(data), raw_hex=data.hex(), bundle=dec)
        cl_obj.sent.append(ent)
        self.transmitted.append(ent)
        self.events.append(('tx', ent))

    # ------------------------------------------------------------------ running
    def drain(self, max_steps=10000):
        ''' Run idle sources in id order until none remain.
        :return: list of exception class names that escaped callbacks during this drain. '''
        ctx = self.GLib.CTX
        before = len(ctx.escaped)
        steps = 0
        while True:
            idle = sorted((src for src in ctx.sources.values() if src.kind == 'idle'), key=lambda src: src.sid)
            if not idle:
                break
            ctx.run(idle[0])
            steps += 1
            if steps > max_steps:
                raise RuntimeError('idle sources never drained')
        return [err.__class__.__name__ for err in ctx.escaped[before:]]

    def recv(self, raw):
        ''' Feed one encoded bundle as the CL adaptor callback does (``BundleContainer(Bundle(data))`` then
        ``Agent.recv_bundle``), drain, and return the observations caused by this input. '''
        marks = (len(self.events), len(self.deliveries), len(self.transmitted), len(self.send_attempts), len(self.recv_calls))
        obs = dict(decode_error=None, recv_exc=None)
        ctr = None
        try:
            ctr = self.bp_util.BundleContainer(self.bp_encoding.Bundle(bytes(raw)))
        except Exception as err:
            obs['decode_error'] = err.__class__.__name__
        if ctr is not None:
            try:
                self.agent.recv_bundle(ctr)
            except Exception as err:
                obs['recv_exc'] = err.__class__.__name__
        obs['escaped'] = self.drain()
        obs['events'] = self.events[marks[0]:]
        obs['deliveries'] = self.deliveries[marks[1]:]
        obs['transmitted'] = self.transmitted[marks[2]:]
        obs['send_attempts'] = self.send_attempts[marks[3]:]
        obs['reports'] = [ent for ent in obs['transmitted'] if is_status_report(ent['bundle'])]
        obs['forwarded'] = [ent for ent in obs['transmitted'] if not is_status_report(ent['bundle'])]
        ctrs = self.recv_calls[marks[4]:]
        obs['actions'] = [sorted(item.actions.keys()) for item in ctrs]
        obs['status_reason'] = [(int(item.status_reason) if isinstance(item.status_reason, int) else item.status_reason)
                                for item in ctrs]
        return obs

    def recv_all(self, raws):
        return [self.recv(raw) for raw in raws]

    def seen(self):
        ''' The agent's seen-identity set, sorted. '''
        return sorted((tuple(item) for item in self.agent._seen_bundle_ident), key=repr)

    def reassembly_pending(self):
        frag = self.agent._app.get('fragment')
        return sorted((tuple(key) for key in getattr(frag, '_reassembly', {})), key=repr)


def is_status_report(dec):
    ''' A decoded (plain cbor2) bundle that is an administrative record of type 1. '''
    return bool(dec.get('ok') and dec['primary']['is_admin'] and dec.get('admin', {}).get('record_type') == 1)


def event_summary(evt):
    ''' Small JSON-able rendering of one driver event. '''
    if evt[0] == 'deliver':
        return ['deliver', list(evt[1]['ident']), evt[1]['dest']]
    if evt[0] == 'tx':
        dec = evt[1]['bundle']
        if not dec.get('ok'):
            return ['tx-undecodable', dec.get('error')]
        if is_status_report(dec):
            adm = dec['admin']
            return ['report', dec['primary']['dest'], adm.get('subj_src'), adm.get('subj_time'), adm.get('subj_seq'),
                    [name for name in ('received', 'forwarded', 'delivered', 'deleted') if adm['status'][name]['asserted']],
                    adm.get('reason'), evt[1]['route_index']]
        return ['tx', list(dec['ident']), dec['primary']['dest'], evt[1]['route_index'], evt[1]['size']]
    return list(evt)


# --------------------------------------------------------------------------- bridge to coq/Model/BpAgent.v
#
# A *case* is a JSON-able dict:
#   node_id, rx_routes=[[regex, action], ...], tx_routes=[{pattern, cl_type, mtu}, ...], now_ms,
#   hist=[bundle spec (see encode_bundle) with optional model-only keys:
#         'sec' (reason code the BPSec steps are expected to produce if the bundle is to be delivered,
#                known from how the bundle was built), 'prep' (0/1/2, see Model/BpAgent.v b_prep)]
# The same case is run through the real agent (run_case_impl) and rendered as Coq terms (coq_case) for
# BpAgent.run_render; canon_impl() brings the driver's observations to the model's printed shape.

ACTION_TERM = {'receive': 'ARecv', 'forward': 'AFwd', 'deliver': 'ADlv', 'delete': 'ADel'}
SAND_GROUP_EID = 'ipn:100.1'


class EidTable(object):
    ''' EID string <-> number used by the model (0 = dtn:none). '''

    def __init__(self):
        self.ids = {'dtn:none': 0}
        self.names = ['dtn:none']

    def get(self, eid):
        if eid is None:
            eid = 'dtn:none'
        if eid not in self.ids:
            self.ids[eid] = len(self.names)
            self.names.append(eid)
        return self.ids[eid]


def unknown_bib(num=10):
    ''' A Block Integrity Block (type 11) whose security context id is unknown to the agent: the
    verification step answers UNKNOWN_SEC (13) when the bundle is to be delivered. '''
    asb = (cbor2.dumps([1]) + cbor2.dumps(99) + cbor2.dumps(0) + cbor2.dumps([1, '//sec/'])
           + cbor2.dumps([[[1, b'x']]]))
    return dict(type=11, num=num, data_hex=asb.hex())


FLAG_ACME_REQUEST = FLAG_USER_APP_ACK
ACME_RECORD_TYPE = 65536


def acme_record_hex(kind, id_chal=b'idchal-never-registered'):
    ''' Payload of an ACME administrative record (bp/app/admin.py, record type 65536) that the admin element
    REJECTS, i.e. records 'delete' for after the bundle was accepted for delivery:
      'response'  a response whose id-chal was never registered by send_acme_request,
      'request'   a request (bundle flag USER_APP_ACK) whose id-chal was never registered by start_expect_acme_request,
      'no-alg'    a request for a registered id-chal (case key acme_expect) offering no acceptable hash algorithm. '''
    if kind == 'response':
        msg = {1: id_chal, 2: b'token-bundle', 3: [-16, b'h' * 32]}
    elif kind == 'request':
        msg = {1: id_chal, 2: b'token-bundle', 4: [-16]}
    elif kind == 'no-alg':
        msg = {1: id_chal, 2: b'token-bundle', 4: [999]}
    else:
        raise ValueError(kind)
    return cbor2.dumps([ACME_RECORD_TYPE, msg]).hex()


def refused_acme_spec(kind, node_id, **fields):
    ''' A bundle for the node's administrative endpoint that the admin element refuses (model input refuse). '''
    id_chal = b'idchal-registered' if kind == 'no-alg' else b'idchal-never-registered'
    flags = int(fields.pop('flags', 0)) | FLAG_PAYLOAD_ADMIN | (0 if kind == 'response' else FLAG_ACME_REQUEST)
    spec = dict(dest=node_id, flags=flags, payload_hex=acme_record_hex(kind, id_chal), refuse=True)
    spec.update(fields)
    return spec


def spec_for_encode(spec):
    out = dict(spec)
    for key in ('sec', 'prep', 'note', 'model_size', 'model_fragfeas', 'refuse'):
        out.pop(key, None)
    if 'payload_hex' in out:
        out['payload'] = bytes.fromhex(out.pop('payload_hex'))
    if 'blocks' in out:
        out['blocks'] = [dict(blk, data=(bytes.fromhex(blk['data_hex']) if 'data_hex' in blk else blk['data'])) for blk in out['blocks']]
    return out


def case_eids(case):
    ''' Every EID string that can occur in the case, numbered deterministically. '''
    tab = EidTable()
    tab.get(case['node_id'])
    tab.get(SAND_GROUP_EID)
    for spec in case['hist']:
        for key in ('src', 'dest', 'report_to'):
            tab.get(spec.get(key))
    return tab


def coq_opt_pair(val):
    return '(@None (N * N))' if val is None else '(Some (%d, %d))' % (val[0], val[1])


REPORT_SIZE_BAND = (60, 200)   # every status report this agent builds for the harness' EIDs encodes to 60..200 octets
FRAG_MARGIN = 100              # slack around the exact fragmentation budget (C05 owns the exact arithmetic)


class AmbiguousCase(Exception):
    ''' The case has an MTU inside a band where only the exact size arithmetic (C05) decides. '''


def mtu_class_report(mtu):
    ''' Model field t_rpt: 0 report sent whole, 1 fragmentation infeasible, 2 fragmented. '''
    if mtu is None or mtu >= REPORT_SIZE_BAND[1]:
        return 0
    if mtu < REPORT_SIZE_BAND[0]:
        return 1
    raise AmbiguousCase('route MTU %d inside the status-report size band' % mtu)


def frag_feasible(case, spec, size):
    ''' Model field b_fragfeas for the first TX route matching the destination (evaluated with re here,
    first-match again by the model): True when every fragment clearly fits, False when clearly not. '''
    import re
    paylen = len(spec_for_encode(spec).get('payload', b''))
    for item in case['tx_routes']:
        if re.compile(item['pattern']).match(spec.get('dest') or 'dtn:none') is not None:
            mtu = item.get('mtu')
            if mtu is None:
                return True
            if size <= mtu < size + FRAG_MARGIN:
                raise AmbiguousCase('MTU %d within %d of the bundle size %d' % (mtu, FRAG_MARGIN, size))
            hdr = size - paylen
            if mtu >= hdr + FRAG_MARGIN:
                return True
            if mtu < hdr:
                return False
            raise AmbiguousCase('MTU %d inside the header band of a %d-octet bundle' % (mtu, size))
    return True


def coq_bundle(spec, tab, size, fragfeas=True):
    flags = int(spec.get('flags', 0)) & ~FLAG_IS_FRAGMENT
    payload = spec_for_encode(spec).get('payload', b'')
    bad = set(spec.get('bad_crc', ()))
    sec = spec.get('sec')
    return '(mkBundle %d %d %d %d %d %s %d %d %s %s %d %d %s %s)' % (
        tab.get(spec.get('src')), tab.get(spec.get('dest')), tab.get(spec.get('report_to')),
        spec.get('time', 0), spec.get('seq', 0), coq_opt_pair(spec.get('frag')), flags, len(payload),
        'false' if bad else 'true',
        '(@None N)' if sec is None else '(Some %d)' % sec,
        spec.get('prep', 0), size, 'true' if fragfeas else 'false', 'true' if spec.get('refuse') else 'false')


def coq_case(case):
    ''' -> (coq term of type (list (N*N) * agent * list bundle), EidTable) '''
    import re
    tab = case_eids(case)
    matches = []
    universe = list(tab.names)
    rx_terms = []
    for (idx, (pat, action)) in enumerate(case['rx_routes']):
        rx_terms.append('(%d, %s)' % (idx, ACTION_TERM.get(action, 'AOther')))
        comp = re.compile(pat)
        for eid in universe:
            if comp.match(eid) is not None:
                matches.append('(%d, %d)' % (idx, tab.get(eid)))
    tx_terms = []
    for (idx, item) in enumerate(case['tx_routes']):
        pid = 1000 + idx
        mtu = item.get('mtu')
        rpt_class = item['model_rpt'] if 'model_rpt' in item else mtu_class_report(mtu)
        tx_terms.append('(mkTx %d %s %s %d)' % (pid, 'true' if item.get('cl_type', 'fake') == 'fake' else 'false',
                                                '(@None N)' if mtu is None else '(Some %d)' % mtu, rpt_class))
        comp = re.compile(item['pattern'])
        for eid in universe:
            if comp.match(eid) is not None:
                matches.append('(%d, %d)' % (pid, tab.get(eid)))
    bundles = []
    for spec in case['hist']:
        # model inputs owned by C05: either decided here with a safety band (frag_feasible raises AmbiguousCase
        # inside it), or supplied by the caller from an independent size computation (model_size) and from what
        # was really transmitted (model_fragfeas) - never from the code path under test
        size = spec['model_size'] if 'model_size' in spec else len(encode_bundle(spec_for_encode(spec)))
        feas = spec['model_fragfeas'] if 'model_fragfeas' in spec else frag_feasible(case, spec, size)
        bundles.append(coq_bundle(spec, tab, size, feas))

    def lst(items, typ):
        return '(@nil %s)' % typ if not items else '[' + '; '.join(items) + ']'
    agent = '(mkAgent %d [%d] %s %s (@nil ident) (@nil reasm) %d 0)' % (
        tab.get(case['node_id']), tab.get(SAND_GROUP_EID), lst(rx_terms, '(N * action)'), lst(tx_terms, 'txroute'),
        case.get('now_ms', 800000000000))
    term = '(%s, %s, %s)' % (lst(matches, '(N * N)'), agent, lst(bundles, 'bundle'))
    return (term, tab)


COQ_RUN = "(fun c : (list (N * N) * BpAgent.agent * list BpAgent.bundle) => let '(m, a, h) := c in BpAgent.run_render (BpAgent.table_matches m) a h)"


def run_case_impl(case, extra=None):
    ''' Run the case through the real agent. :return: (driver, [observation per input]) '''
    drv = BpDriver(node_id=case['node_id'], rx_routes=[tuple(item) for item in case['rx_routes']],
                   tx_routes=case['tx_routes'], clock=Clock(now_ms=case.get('now_ms', 800000000000), tick=0),
                   **(extra or {}))
    if case.get('acme_expect'):
        # id-chal values the admin element is told to expect requests for (so that a request reaches the
        # hash-algorithm negotiation)
        from bp.app.admin import AcmeChallenge
        for id_chal in case['acme_expect']:
            drv.agent._app['admin'].start_expect_acme_request(AcmeChallenge.b64encode(id_chal.encode()), 'token-chal', 'key-thumbprint')
    obs = [drv.recv(encode_bundle(spec_for_encode(spec))) for spec in case['hist']]
    return (drv, obs)


def _frag3(frag):
    return [0, 0, 0] if frag is None else [1, frag[0], frag[1]]


def canon_event(evt, tab):
    ''' One driver event in the shape of BpAgent.render_event. '''
    if evt[0] == 'deliver':
        ent = evt[1]
        ident = list(ent['ident'])
        frag = tuple(ident[3:5]) if len(ident) == 5 else None
        return [0, tab.get(ident[0]), ident[1], ident[2]] + _frag3(frag) + [tab.get(ent['dest'])]
    if evt[0] == 'send_fail':
        return [4, 1 if evt[1] else 0]
    if evt[0] == 'tx':
        dec = evt[1]['bundle']
        route = evt[1]['route_index'] if evt[1]['route_index'] is not None else 999999
        if not dec.get('ok'):
            return [99, 0]
        pri = dec['primary']
        if is_status_report(dec) and dec['admin'].get('ok'):
            adm = dec['admin']
            stat = [adm['status'][name] for name in ('received', 'forwarded', 'delivered', 'deleted')]
            timed = [item['time'] is not None for item in stat]
            want = [item['asserted'] for item in stat]
            if timed == want and any(want):
                with_time = 1
            elif not any(timed):
                with_time = 0
            else:
                with_time = 2
            blk_crc = set(blk['crc_type'] for blk in dec['blocks'])
            crc = pri['crc_type'] if blk_crc == {pri['crc_type']} else 98
            return ([3, tab.get(pri['dest']), tab.get(pri['src']), tab.get(pri['report_to']), pri['flags'], crc,
                     pri['time'], pri['seq']] + [1 if item else 0 for item in want]
                    + [with_time, adm['reason'], tab.get(adm['subj_src']), adm['subj_time'], adm['subj_seq'], route])
        return [1, tab.get(pri['src']), pri['time'], pri['seq']] + _frag3(pri['frag']) + [tab.get(pri['dest']), route]
    return [97, 0]


def collapse_fragments(events, was_fragment):
    ''' Fragments the agent created for one bundle (consecutive transmissions with the same first three
    identity components, destination and route, while the input itself was not a fragment) become ONE
    event [2, src, time, seq, 0, 0, 0, dst, route]; their number and sizes are C05's subject. '''
    out = []
    for evt in events:
        if evt == [4, 0] and out and out[-1] == [4, 0] and not was_fragment:
            continue    # one failed send_bundle per fragment (route without CL): the model records one
        if evt[0] == 1 and evt[4] == 1 and not was_fragment:
            merged = [2] + evt[1:4] + [0, 0, 0] + evt[7:9]
            if out and out[-1] == merged:
                continue
            out.append(merged)
        else:
            out.append(evt)
    return out


def canon_impl(drv, obs_list, tab, specs=None):
    ''' Observations of a whole case in the shape printed by BpAgent.run_render, with the per-input
    processings flattened (the model result is flattened the same way by canon_model). '''
    per_input = []
    for (idx, obs) in enumerate(obs_list):
        events = [canon_event(evt, tab) for evt in obs['events']]
        was_fragment = bool(specs and specs[idx].get('frag') is not None)
        per_input.append(dict(events=collapse_fragments(events, was_fragment), calls=len(obs['actions'])))
    seen = []
    for ident in drv.agent._seen_bundle_ident:
        ident = list(ident)
        seen.append([tab.get(ident[0]), ident[1], ident[2]] + _frag3(tuple(ident[3:5]) if len(ident) == 5 else None))
    return dict(inputs=per_input, seen=sorted(seen), pending=len(drv.reassembly_pending()))


def canon_model(res):
    ''' Parsed result of BpAgent.run_render -> same shape as canon_impl. '''
    (per_input, seen, pending) = res
    out = []
    for procs in per_input:
        events = []
        for evs in procs:
            events.extend([list(evt) for evt in evs])
        out.append(dict(events=events, calls=len(procs)))
    return dict(inputs=out, seen=sorted(list(item) for item in seen), pending=pending)


# --------------------------------------------------------------------------- running a case, helpers for oracles

def slim_event(evt):
    if evt[0] == 'tx':
        ent = evt[1]
        dec = dict(ent['bundle'])
        dec.pop('raw_hex', None)
        for blk in dec.get('blocks', []):
            if isinstance(blk.get('data'), bytes):
                blk['data'] = blk['data'].hex()
        if isinstance(dec.get('payload'), bytes):
            dec['payload'] = dec['payload'].hex()
        return ['tx', dict(route_index=ent['route_index'], size=ent['size'], bundle=dec)]
    if evt[0] == 'deliver':
        return ['deliver', dict(evt[1], ident=list(evt[1]['ident']))]
    return list(evt)


def run_impl(case):
    ''' (canonical observations for the model comparison, JSON-able raw observations for the oracle) '''
    tab = case_eids(case)
    (drv, obs) = run_case_impl(case)
    canon = canon_impl(drv, obs, tab, case['hist'])
    raw = [dict(events=[slim_event(evt) for evt in item['events']], actions=item['actions'], escaped=item['escaped'],
                recv_exc=item['recv_exc'], decode_error=item['decode_error']) for item in obs]
    return (canon, raw)


def spec_ident(spec):
    base = (spec.get('src') or 'dtn:none', spec.get('time', 0), spec.get('seq', 0))
    if spec.get('frag') is not None:
        base += tuple(spec['frag'])
    return base


def first_route(routes, eid):
    for (idx, (pat, action)) in enumerate(routes):
        if re.compile(pat).match(eid) is not None:
            return (idx, action)
    return (None, None)


def expect_forward(case, spec):
    ''' True / False / None (undetermined here: sizes near the MTU are C05's). '''
    dest = spec.get('dest') or 'dtn:none'
    for item in case['tx_routes']:
        if re.compile(item['pattern']).match(dest) is not None:
            if item.get('cl_type', 'fake') != 'fake':
                return False
            mtu = item.get('mtu')
            if mtu is None:
                return True
            size = len(encode_bundle(spec_for_encode(spec)))
            if mtu >= size + FRAG_MARGIN:
                return True
            if spec.get('frag') is not None or int(spec.get('flags', 0)) & FLAG_NO_FRAGMENT:
                return True    # sent whole, whatever the size (C05's concern)
            try:
                return bool(frag_feasible(case, spec, size))
            except AmbiguousCase:
                return None
    return False
