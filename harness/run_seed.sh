#!/bin/sh
# run_seed.sh <Cxx> <suffix> [check ids...]: run the checks of /verif (private copy) against the seeded worktree /tmp/seed/<Cxx><suffix>.
# Never runs in /verif itself: coq/Gen is regenerated from the tree under test.
P="$1"; SUF="$2"; shift 2; CHECKS="${*:-$P}"
VM="/tmp/vm_$P$SUF"; LOG="/tmp/seed/$P$SUF.run.log"
rsync -a --delete --exclude build --exclude .git /verif/ "$VM/" || exit 2
cd "$VM" || exit 2
: > "$LOG"
for id in $CHECKS; do
  echo "=== $id against $P$SUF" >> "$LOG"
  VERIF_REPO="/tmp/seed/$P$SUF" timeout 2400 ./check "$id" --tier quick > "$VM/out_$id.txt" 2>&1; RC=$?
  grep -E "VIOLATION|obligations|violations" "$VM/out_$id.txt" | cut -c1-300 | head -6 >> "$LOG"
  echo "rc=$RC" >> "$LOG"
  # first violation's description from evidence
  /venv/bin/python - "$VM/evidence/$id.json" >> "$LOG" 2>/dev/null <<'PY'
import json,sys
e=json.load(open(sys.argv[1]))
def walk(o,depth=0):
    if isinstance(o,dict):
        for k,v in o.items():
            if k in ('violations','failures') and isinstance(v,list):
                for x in v[:3]: print('  ', json.dumps(x)[:400])
            else: walk(v,depth+1)
    elif isinstance(o,list) and depth<3:
        for x in o[:50]: walk(x,depth+1)
walk(e)
PY
done
cat "$LOG"
rm -rf "$VM"
