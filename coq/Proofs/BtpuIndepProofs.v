(** Transfers with different keys (channel = local interface, PEER address,
    local address, VLAN tag; transfer number) do not influence each other:
    what the receiver holds and completes for one key while segments of
    several transfers arrive interleaved is what it holds and completes when
    the segments of that key arrive alone.  With the single-transfer theorem:
    every interleaving of complete transfers with pairwise different keys
    queues each bundle exactly once. *)
From Coq Require Import ZArith NArith List Bool Lia ZifyBool ZifyN ZifyNat Arith Permutation.
From DTN Require Import Lib.Bytes Model.Btpu Proofs.BtpuProofs Proofs.BtpuSendProofs Proofs.BtpuRecvProofs.
Import ListNotations.
Local Open Scope N_scope.

(** * [key_eqb] decides equality of keys *)

Lemma opt_eqb_eq a b : opt_eqb a b = true -> a = b.
Proof. destruct a, b; cbn; intros H; try discriminate; [apply N.eqb_eq in H; congruence|reflexivity]. Qed.

Lemma chan_eqb_eq a b : chan_eqb a b = true -> a = b.
Proof.
  unfold chan_eqb. rewrite !andb_true_iff. intros [[[H1 H2] H3] H4].
  apply N.eqb_eq in H1, H2, H3. apply opt_eqb_eq in H4. destruct a, b. cbn in *. congruence.
Qed.

Lemma key_eqb_eq a b : key_eqb a b = true -> a = b.
Proof.
  unfold key_eqb. rewrite andb_true_iff. intros [H1 H2]. apply chan_eqb_eq in H1. apply N.eqb_eq in H2.
  destruct a, b. cbn in *. congruence.
Qed.

Lemma key_eqb_sym a b : key_eqb a b = key_eqb b a.
Proof.
  destruct (key_eqb a b) eqn:E.
  - apply key_eqb_eq in E. subst. symmetry. apply key_eqb_refl.
  - destruct (key_eqb b a) eqn:E'; [|reflexivity]. apply key_eqb_eq in E'. subst. rewrite key_eqb_refl in E. discriminate.
Qed.

(** The peer address is part of the key: channels that differ in it are different keys. *)
Lemma key_eqb_peer a b x y : c_peer a <> c_peer b -> key_eqb (a, x) (b, y) = false.
Proof.
  intros H. destruct (key_eqb (a, x) (b, y)) eqn:E; [|reflexivity]. apply key_eqb_eq in E. congruence.
Qed.

(** * Other keys are left alone *)

Lemma plookup_pset_other k k' v l : key_eqb k k' = false -> plookup k (pset k' v l) = plookup k l.
Proof.
  intros Hne. induction l as [|[k2 v2] t IH]; cbn [pset plookup].
  - rewrite Hne. reflexivity.
  - destruct (key_eqb k' k2) eqn:E.
    + apply key_eqb_eq in E. subst k2. cbn [plookup]. rewrite Hne. reflexivity.
    + cbn [plookup]. rewrite IH. reflexivity.
Qed.

Lemma plookup_pdel_other k k' l : key_eqb k k' = false -> plookup k (pdel k' l) = plookup k l.
Proof.
  intros Hne. induction l as [|[k2 v2] t IH]; cbn [pdel plookup]; [reflexivity|].
  destruct (key_eqb k' k2) eqn:E.
  - apply key_eqb_eq in E. subst k2. rewrite Hne. exact IH.
  - cbn [plookup]. rewrite IH. reflexivity.
Qed.

Lemma recv_item_other k st it :
  key_eqb k (item_key it) = false -> plookup k (r_prog (recv_item st it)) = plookup k (r_prog st).
Proof.
  intros Hne. unfold recv_item, recv_seg, item_key in *.
  destruct (it_data it) as [|d0 dt]; [reflexivity|].
  destruct (seg_step _ _ _ _) as [[x'|] [full|]]; unfold add_rx; cbn [fst r_prog];
    try (apply plookup_pdel_other; exact Hne); try (apply plookup_pset_other; exact Hne); reflexivity.
Qed.

(** * The own key: the step depends on the own entry only *)

Definition next_cur (cur : option xfer) (it : item) : option xfer :=
  match it_data it with
  | [] => cur
  | _ :: _ =>
      match seg_step cur (it_last it) (it_idx it) (it_data it) with
      | (_, Some _) => None
      | (Some x', None) => Some x'
      | (None, None) => cur
      end
  end.

Lemma recv_item_same st it :
  plookup (item_key it) (r_prog (recv_item st it)) = next_cur (plookup (item_key it) (r_prog st)) it.
Proof.
  unfold recv_item, recv_seg, next_cur, item_key.
  destruct (it_data it) as [|d0 dt]; [reflexivity|].
  destruct (seg_step _ _ _ _) as [[x'|] [full|]]; unfold add_rx; cbn [fst r_prog];
    try apply plookup_pdel_same; try apply plookup_pset_same; reflexivity.
Qed.

Lemma item_out_cur st st' it :
  plookup (item_key it) (r_prog st) = plookup (item_key it) (r_prog st') -> item_out st it = item_out st' it.
Proof. intros H. unfold item_out. rewrite H. reflexivity. Qed.

(** * Independence *)

Lemma independent_gen k : forall l s s',
  plookup k (r_prog s) = plookup k (r_prog s') ->
  plookup k (r_prog (fold_left recv_item l s)) = plookup k (r_prog (fold_left recv_item (for_key k l) s'))
  /\ completions k s l = completions k s' (for_key k l).
Proof.
  induction l as [|it t IH]; intros s s' H; [split; [exact H|reflexivity]|].
  cbn [for_key filter fold_left completions]. fold (for_key k t).
  destruct (key_eqb (item_key it) k) eqn:E.
  - pose proof (key_eqb_eq _ _ E) as Ek. cbn [fold_left completions]. rewrite E.
    assert (H2 : plookup k (r_prog (recv_item s it)) = plookup k (r_prog (recv_item s' it))).
    { rewrite <- Ek. rewrite !recv_item_same. rewrite Ek. rewrite H. reflexivity. }
    destruct (IH _ _ H2) as [A B]. split; [exact A|].
    rewrite B. f_equal. apply item_out_cur. rewrite Ek. exact H.
  - assert (H2 : plookup k (r_prog (recv_item s it)) = plookup k (r_prog s')).
    { rewrite recv_item_other; [exact H|]. rewrite key_eqb_sym. exact E. }
    destruct (IH _ _ H2) as [A B]. split; [exact A|]. cbn [app]. exact B.
Qed.

Theorem independent k l st :
  plookup k (r_prog (fold_left recv_item l st)) = plookup k (r_prog (fold_left recv_item (for_key k l) st))
  /\ completions k st l = completions k st (for_key k l).
Proof. apply independent_gen. reflexivity. Qed.

(** * Completions are what is queued *)

Lemma queued_recv_item st it : queued (recv_item st it) = queued st ++ item_out st it.
Proof.
  unfold recv_item, recv_seg, item_out, queued, item_key.
  destruct (it_data it) as [|d0 dt]; [cbn [fst]; rewrite app_nil_r; reflexivity|].
  destruct (seg_step _ _ _ _) as [[x'|] [full|]]; unfold add_rx; cbn [fst snd r_queue];
    try (rewrite map_app; reflexivity); rewrite app_nil_r; reflexivity.
Qed.

Lemma queued_all_key k : forall l st,
  Forall (fun it => key_eqb (item_key it) k = true) l ->
  queued (fold_left recv_item l st) = queued st ++ completions k st l.
Proof.
  induction l as [|it t IH]; intros st H; cbn [fold_left completions]; [rewrite app_nil_r; reflexivity|].
  inversion H as [|? ? Hk Ht]; subst. rewrite Hk, (IH _ Ht), queued_recv_item, app_assoc. reflexivity.
Qed.

Lemma for_key_all k l : Forall (fun it => key_eqb (item_key it) k = true) (for_key k l).
Proof. apply Forall_forall. intros it Hin. apply filter_In in Hin. tauto. Qed.

(** * Interleaved complete transfers *)

Lemma recv_item_seg hs xid conv st s :
  seg_encodable hs xid s -> recv_frame conv st (seg_frame hs xid s) = recv_item st (seg_item conv xid s).
Proof.
  intros He. rewrite (recv_frame_seg hs xid conv st s He). destruct s as [[i d] b]. reflexivity.
Qed.

Lemma fold_items hs xid conv : forall l st,
  Forall (seg_encodable hs xid) l ->
  fold_left (fun s it => recv_frame conv s (seg_frame hs xid it)) l st
  = fold_left recv_item (map (seg_item conv xid) l) st.
Proof.
  induction l as [|s t IH]; intros st H; [reflexivity|]. inversion H; subst.
  cbn [map fold_left]. rewrite recv_item_seg by assumption. apply IH. assumption.
Qed.

(** Whatever else arrives in between (segments of transfers with other keys,
    complete or not): if the segments of the transfer [(conv, xid)] of [data]
    are among the arrivals [l], each exactly once, in any order, and nothing
    was in progress under that key, then exactly that bundle is completed for
    the key, exactly once. *)
Theorem interleaved_transfer hs mtu xid conv data st l p :
  xfer_okb hs mtu xid data = true ->
  plookup (conv, xid) (r_prog st) = None ->
  Permutation p (segments hs mtu data) ->
  for_key (conv, xid) l = map (seg_item conv xid) p ->
  completions (conv, xid) st l = [data]
  /\ plookup (conv, xid) (r_prog (fold_left recv_item l st)) = None.
Proof.
  intros Hok Hfresh Hp Hl. apply xfer_okb_spec in Hok. pose proof Hok as (Hm & Hf & _).
  destruct (independent (conv, xid) l st) as [A B]. rewrite A, B, Hl.
  assert (Henc : Forall (seg_encodable hs xid) p).
  { eapply Permutation_Forall; [symmetry; exact Hp|]. apply (segments_encodable _ _ _ _ Hok). }
  pose proof (reassembly_segs hs xid conv st (segments hs mtu data)
                (segments_shape hs mtu data Hm) (segments_ge2 hs mtu data Hm Hf)
                (segments_encodable hs mtu xid data Hok) Hfresh p Hp) as R.
  cbn zeta in R. rewrite (segments_concat hs mtu data Hm) in R.
  rewrite (fold_items hs xid conv p st Henc) in R. destruct R as (R1 & _ & _ & R4 & _).
  split; [|exact R4].
  pose proof (queued_all_key (conv, xid) (for_key (conv, xid) l) st (for_key_all _ _)) as Q.
  rewrite Hl in Q.
  unfold queued in Q at 1. rewrite R1, map_app in Q. cbn [map snd] in Q.
  apply app_inv_head in Q. symmetry. exact Q.
Qed.

Example interleaved_nonvacuous :
  let a := mkChan 1 1 255 None in
  let b := mkChan 1 2 255 None in
  let sa := segments (xfer_hints 40) 30 (mkdata 1 40) in
  let sb := segments (xfer_hints 30) 30 (mkdata 2 30) in
  let l := [seg_item a 0 (nth 1 sa (0, [], false)); seg_item b 0 (nth 0 sb (0, [], false));
            seg_item a 0 (nth 0 sa (0, [], false)); seg_item b 0 (nth 2 sb (0, [], false));
            seg_item a 0 (nth 3 sa (0, [], false)); seg_item b 0 (nth 1 sb (0, [], false));
            seg_item a 0 (nth 2 sa (0, [], false))] in
  xfer_okb (xfer_hints 40) 30 0 (mkdata 1 40) = true /\ xfer_okb (xfer_hints 30) 30 0 (mkdata 2 30) = true
  /\ key_eqb (a, 0) (b, 0) = false
  /\ completions (a, 0) rx_init l = [mkdata 1 40] /\ completions (b, 0) rx_init l = [mkdata 2 30]
  /\ queued (fold_left recv_item l rx_init) = [mkdata 2 30; mkdata 1 40].
Proof. vm_compute. repeat split. Qed.
