''' C19 - Status reports are sent exactly when requested and say what happened.

 1. proof obligations: coq/Props/C19.v (stated over Gen/ReportTable.v, regenerated from the source);
 2. ties: (a) translator target ``reporttable`` (create_report's FLAGS / STATUS_FIELD dicts, flag values,
    reply primary block) cross-checked against the live Python objects; (b) correspondence between the real
    agent and Model/BpAgent.v over the grid  request-flag subsets x report-to kinds x outcomes, plus random
    histories;
 3. oracle: the property text + RFC 9171 section 6.1.1 evaluated on the administrative-record bundles the
    implementation handed to the convergence layer, decoded with plain cbor2 and an independent CRC.
'''
import env  # noqa: F401  (first)
import concurrent.futures
import itertools
import json
import os
import sys
import time

from common import Check, CoqError
env.shim_oscrypto()
import bpdrive as B  # noqa: E402
import cbor2  # noqa: E402
import check_C10  # noqa: E402  (generator of random histories, report_routable)

# Defects of the unchanged code rediscovered by the oracle, reported to the coordinator, not (yet) listed
# in known_findings.json.  Printed as PENDING-FINDING; they do not fail the run.
PENDING_FINDINGS = {}  # the residual corner (fragments on a route whose CL is not attached) is a KNOWN finding now

NODE = 'dtn://n0/'
RPT = 'dtn://rpt/ep'
SRC = 'dtn://src/'
REQ_BITS = [B.FLAG_REQ_RECEPTION, B.FLAG_REQ_FORWARDING, B.FLAG_REQ_DELIVERY, B.FLAG_REQ_DELETION, B.FLAG_REQ_STATUS_TIME]
STATUS_FLAG = dict(received=B.FLAG_REQ_RECEPTION, forwarded=B.FLAG_REQ_FORWARDING, delivered=B.FLAG_REQ_DELIVERY,
                   deleted=B.FLAG_REQ_DELETION)
BIG = (b'ABCDEFGHIJKLMNOPQRSTUVWXYZ' * 20).hex()
HOP = cbor2.dumps([30, 3]).hex()

# outcome -> (rx routes, tx routes for the data path, destination, per-bundle extras, history shaping)
OUTCOMES = {
    'deliver-by-route': dict(rx=[['^dtn://dst/', 'deliver']], tx=[], dest='dtn://dst/app'),
    'deliver-admin-endpoint': dict(rx=[['.*', 'forward']], tx=[], dest=NODE),
    'forward-whole': dict(rx=[['^dtn://dst/', 'forward']], tx=[dict(pattern='^dtn://dst/', mtu=None)], dest='dtn://dst/app'),
    'forward-fragmented': dict(rx=[['^dtn://dst/', 'forward']], tx=[dict(pattern='^dtn://dst/', mtu=270)], dest='dtn://dst/app',
                               extra=dict(payload_hex=BIG)),
    'forward-fragmentation-infeasible': dict(rx=[['^dtn://dst/', 'forward']], tx=[dict(pattern='^dtn://dst/', mtu=30)], dest='dtn://dst/app'),
    'forward-nonpayload-part-exceeds-mtu': dict(rx=[['^dtn://dst/', 'forward']], tx=[dict(pattern='^dtn://dst/', mtu=256)], dest='dtn://dst/app',
                                                extra=dict(blocks=[dict(type=192, num=7, data_hex=('5A' * 300))])),
    'forward-must-not-fragment': dict(rx=[['^dtn://dst/', 'forward']], tx=[dict(pattern='^dtn://dst/', mtu=30)], dest='dtn://dst/app',
                                      extra_flags=B.FLAG_NO_FRAGMENT),
    'forward-no-tx-route': dict(rx=[['^dtn://dst/', 'forward']], tx=[], dest='dtn://dst/app'),
    'forward-cl-not-attached': dict(rx=[['^dtn://dst/', 'forward']], tx=[dict(pattern='^dtn://dst/', cl_type='absent')], dest='dtn://dst/app'),
    'forward-fragmented-cl-not-attached': dict(rx=[['^dtn://dst/', 'forward']], tx=[dict(pattern='^dtn://dst/', mtu=270, cl_type='absent')],
                                               dest='dtn://dst/app', extra=dict(payload_hex=BIG)),
    'forward-creation-time-0': dict(rx=[['^dtn://dst/', 'forward']], tx=[dict(pattern='^dtn://dst/', mtu=None)], dest='dtn://dst/app',
                                    extra=dict(time=0)),
    'forward-with-extension-block-number-2': dict(rx=[['^dtn://dst/', 'forward']], tx=[dict(pattern='^dtn://dst/', mtu=None)], dest='dtn://dst/app',
                                                  extra=dict(blocks=[dict(type=10, num=2, data_hex=HOP)]), warmup=True),
    'forward-of-a-fragment': dict(rx=[['^dtn://dst/', 'forward']], tx=[dict(pattern='^dtn://dst/', mtu=None)], dest='dtn://dst/app',
                                  extra=dict(frag=[3, 20])),
    'delete-by-route': dict(rx=[['^dtn://dst/', 'delete']], tx=[], dest='dtn://dst/app'),
    'no-route': dict(rx=[['^dtn://other/', 'deliver']], tx=[], dest='dtn://dst/app'),
    'unknown-route-action': dict(rx=[['^dtn://dst/', 'drop']], tx=[], dest='dtn://dst/app'),
    'security-failure': dict(rx=[['^dtn://dst/', 'deliver']], tx=[], dest='dtn://dst/app', extra=dict(blocks=[B.unknown_bib()], sec=13)),
    'security-block-but-forwarded': dict(rx=[['^dtn://dst/', 'forward']], tx=[dict(pattern='^dtn://dst/', mtu=None)], dest='dtn://dst/app',
                                         extra=dict(blocks=[B.unknown_bib()], sec=13)),
    'fragment-awaiting-reassembly': dict(rx=[['^dtn://dst/', 'deliver']], tx=[], dest='dtn://dst/app', extra=dict(frag=[0, 10])),
    'fragments-reassembled': dict(rx=[['^dtn://dst/', 'deliver']], tx=[], dest='dtn://dst/app', pair=True),
    'own-source': dict(rx=[['^dtn://dst/', 'deliver']], tx=[], dest='dtn://dst/app', extra=dict(src=NODE)),
    'repeat': dict(rx=[['^dtn://dst/', 'deliver']], tx=[], dest='dtn://dst/app', twice=True),
    'invalid-crc': dict(rx=[['^dtn://dst/', 'deliver']], tx=[], dest='dtn://dst/app', extra=dict(bad_crc=[1])),
}
# report-to kind -> (report_to EID, tx routes for the report path)
REPORT_TO = {
    'none': ('dtn:none', [dict(pattern='^dtn:none', mtu=None)]),
    'routed': (RPT, [dict(pattern='^dtn://rpt/', mtu=None)]),
    'no-tx-route': (RPT, []),
    'own-node-unrouted': (NODE, []),
    'own-node-routed': (NODE, [dict(pattern='^dtn://n0/$', mtu=None)]),
    'cl-not-attached': (RPT, [dict(pattern='^dtn://rpt/', cl_type='absent')]),
    'route-mtu-too-small': (RPT, [dict(pattern='^dtn://rpt/', mtu=30)]),
}


def grid_cases(quick):
    out = []
    for (oname, odef) in OUTCOMES.items():
        kinds = list(REPORT_TO)
        if quick:
            kinds = ['none', 'routed', 'no-tx-route']
            if oname in ('deliver-by-route', 'forward-whole', 'delete-by-route'):
                kinds += ['own-node-routed', 'cl-not-attached', 'route-mtu-too-small']
            if oname in ('own-source', 'repeat', 'invalid-crc'):
                kinds = ['routed']
        for kind in kinds:
            (rpt, rpt_routes) = REPORT_TO[kind]
            hist = []
            if odef.get('warmup'):
                hist.append(dict(dest=odef['dest'], src=SRC, report_to='dtn:none', flags=0, time=500, seq=999, payload_hex=b'WARMUP'.hex()))
            for (idx, bits) in enumerate(itertools.product([0, 1], repeat=len(REQ_BITS))):
                flags = sum(flag for (flag, bit) in zip(REQ_BITS, bits) if bit) | odef.get('extra_flags', 0)
                spec = dict(dest=odef['dest'], src=SRC, report_to=rpt, flags=flags, time=1000, seq=idx, payload_hex=b'HELLO'.hex())
                spec.update(odef.get('extra', {}))
                if odef.get('pair'):
                    hist.append(dict(spec, frag=[0, 10]))
                    hist.append(dict(spec, frag=[5, 10], payload_hex=b'WORLD'.hex()))
                else:
                    hist.append(spec)
                    if odef.get('twice'):
                        hist.append(dict(spec))
            out.append(('grid:%s/%s' % (oname, kind),
                        dict(node_id=NODE, rx_routes=odef['rx'], tx_routes=rpt_routes + odef['tx'], hist=hist, now_ms=800000000000)))
    return out


def sweep_cases():
    ''' Forward route with an MTU within a few octets of the bundle as it must be forwarded: payload lengths
    0, 1, 23, 24 x MTU = size+1 ... size-8, size-20, size/2 x every request-flag subset that includes the
    forwarding or the deletion report.  One agent per (payload length, MTU offset); each bundle has its own
    destination and transmit route so that the MTU is relative to ITS size, computed with the independent
    encoder (B.forwarded_size), not by the code under test. '''
    out = []
    subsets = [bits for bits in itertools.product([0, 1], repeat=len(REQ_BITS)) if bits[1] or bits[3]]
    for length in (0, 1, 23, 24):
        for off in [1, 0, -1, -2, -3, -4, -5, -6, -7, -8, -20, 'half']:
            hist = []
            tx = [dict(pattern='^dtn://rpt/', mtu=None)]
            for (idx, bits) in enumerate(subsets):
                flags = sum(flag for (flag, bit) in zip(REQ_BITS, bits) if bit)
                spec = dict(dest='dtn://d/%02d' % idx, src=SRC, report_to=RPT, flags=flags, time=1000, seq=idx, payload_hex='41' * length)
                size = B.forwarded_size(spec, NODE, 800000000000)
                mtu = size // 2 if off == 'half' else size + off
                spec['model_size'] = size
                hist.append(spec)
                tx.append(dict(pattern='^dtn://d/%02d$' % idx, mtu=mtu, model_rpt=0))
            out.append(('sweep:payload-%d/mtu-size%s' % (length, ('/2' if off == 'half' else '%+d' % off)),
                        dict(node_id=NODE, rx_routes=[['^dtn://d/', 'forward']], tx_routes=tx, hist=hist, now_ms=800000000000)))
    return out


def fill_observed_fragfeas(case, raw):
    ''' Model input b_fragfeas for the sweep: did fragments of this bundle really reach a CL? '''
    for (spec, obs) in zip(case['hist'], raw):
        frags = [evt for evt in obs['events'] if evt[0] == 'tx' and (evt[1]['bundle'].get('primary') or {}).get('frag') is not None
                 and not (evt[1]['bundle'].get('primary') or {}).get('is_admin')]
        spec['model_fragfeas'] = bool(frags) and spec.get('frag') is None


# ----------------------------------------------------------------------------- the oracle

def fragments_without_cl(case, spec):
    ''' The first TX route matching the destination has an MTU below the bundle size and names a CL that
    is not attached (input class of the residual finding). '''
    import re
    dest = spec.get('dest') or 'dtn:none'
    for item in case['tx_routes']:
        if re.compile(item['pattern']).match(dest) is not None:
            size = len(B.encode_bundle(B.spec_for_encode(spec)))
            return item.get('cl_type', 'fake') != 'fake' and item.get('mtu') is not None and item['mtu'] < size
    return False


def oracle_c19(case, raw):
    ''' Property text + RFC 9171 6.1.1 over the observations.  :return: list of (signature, what). '''
    bad = []
    accepted = {}      # identity -> spec of the accepted copy
    node = case['node_id']
    for (idx, (spec, obs)) in enumerate(zip(case['hist'], raw)):
        ident = B.spec_ident(spec)
        txs = [evt[1] for evt in obs['events'] if evt[0] == 'tx']
        reports = [ent for ent in txs if (ent['bundle'].get('primary') or {}).get('is_admin')
                   and (ent['bundle'].get('primary') or {}).get('src') == node]
        fwds = [ent for ent in txs if ent not in reports]
        delivers = [evt[1] for evt in obs['events'] if evt[0] == 'deliver']
        where = 'input %d ident %r flags 0x%x report-to %s' % (idx, ident, int(spec.get('flags', 0)), spec.get('report_to'))
        ignorable = bool(spec.get('bad_crc')) or spec.get('src') == node or ident in accepted
        if ignorable:
            if reports:
                bad.append(('C19/report-for-a-bundle-that-must-be-ignored', where))
            continue
        accepted[ident] = spec
        subject = spec
        if spec.get('frag') is not None and delivers:
            # reports after a completed reassembly are about the whole bundle, whose primary block is the
            # first fragment's (offset 0)
            firsts = [val for (key, val) in accepted.items() if key[:3] == ident[:3] and len(key) == 5 and key[3] == 0]
            if firsts:
                subject = firsts[-1]
            # the reassembled whole bundle has been received and acted on under its own identity: a later whole
            # copy (or a re-reassembly) of it is a repeat
            for ent in delivers:
                if tuple(ent['ident']) == ident[:3]:
                    accepted.setdefault(ident[:3], subject)
        flags = int(subject.get('flags', 0))
        for ent in reports:
            dec = ent['bundle']
            if not dec.get('ok'):
                bad.append(('C19/report-bundle-undecodable', where + ' ' + str(dec.get('error'))))
                continue
            pri = dec['primary']
            adm = dec.get('admin') or {}
            if (subject.get('report_to') or 'dtn:none') == 'dtn:none':
                bad.append(('C19/report-although-report-to-is-none', where))
            if pri['dest'] != (subject.get('report_to') or 'dtn:none'):
                bad.append(('C19/report-not-addressed-to-report-to', where + ' sent to ' + pri['dest']))
            # the report bundle itself (RFC 9171 4.3.1, 4.3.2, 6.1)
            if pri['version'] != 7 or not pri['is_admin'] or not pri['lifetime_is_uint'] or not dec['indefinite']:
                bad.append(('C19/report-primary-block-malformed', where + ' ' + repr(pri)))
            if not dec['crc_ok'] or pri['crc_type'] == 0 or any(blk['crc_type'] == 0 for blk in dec['blocks']):
                bad.append(('C19/report-crc-missing-or-invalid', where))
            if not dec['payload_last'] or [blk['num'] for blk in dec['blocks'] if blk['type'] == 1] != [1]:
                bad.append(('C19/report-payload-block-misplaced', where))
            if pri['flags'] & (B.FLAG_REQ_ANY | B.FLAG_REQ_STATUS_TIME):
                bad.append(('C19/report-requests-further-reports', where + ' flags 0x%x' % pri['flags']))
            if pri['frag'] is not None:
                bad.append(('C19/report-sent-as-fragment', where))
                continue
            if not adm.get('ok') or adm.get('record_type') != 1:
                bad.append(('C19/administrative-record-malformed', where + ' ' + repr(adm)[:200]))
                continue
            # subject
            if adm['subj_src'] != subject.get('src') or (adm['subj_time'], adm['subj_seq']) != (subject.get('time', 0), subject.get('seq', 0)):
                sig = 'C19/subject-mismatch'
                # _apply_primary stamps a creation time of 0 as soon as forwarding is ATTEMPTED (send_bundle runs it
                # before the TX chain), so the report of a failed forward names the rewritten timestamp as well
                dest0 = spec.get('dest') or 'dtn:none'
                tried_fwd = dest0 != node and dest0 != B.SAND_GROUP_EID and B.first_route(case['rx_routes'], dest0)[1] == 'forward'
                if adm['subj_src'] == subject.get('src') and subject.get('time', 0) == 0 and (fwds or tried_fwd):
                    sig = 'C19/subject-timestamp-rewritten/creation-time-0-forwarded'
                bad.append((sig, where + ' report names (%s, %s, %s)' % (adm['subj_src'], adm['subj_time'], adm['subj_seq'])))
            # statuses: requested and occurred
            # (a bundle delivered to an application that then refuses it - model input refuse - was delivered AND deleted)
            occurred = dict(received=True, delivered=bool(delivers), forwarded=bool(fwds),
                            deleted=(not delivers and not fwds) or bool(subject.get('refuse') and not fwds))
            want_time = bool(flags & B.FLAG_REQ_STATUS_TIME)
            asserted = [name for name in STATUS_FLAG if adm['status'][name]['asserted']]
            if not asserted:
                bad.append(('C19/report-asserts-nothing', where))
            for name in STATUS_FLAG:
                item = adm['status'][name]
                if item['asserted'] and not flags & STATUS_FLAG[name]:
                    bad.append(('C19/asserts-unrequested-status:' + name, where))
                if item['asserted'] and not occurred[name]:
                    if name == 'forwarded':
                        sig = 'C19/asserts-forwarded-but-forwarding-failed'
                        if fragments_without_cl(case, spec):
                            sig = 'C19/asserts-forwarded-but-nothing-sent/fragments-on-route-whose-cl-is-not-attached'
                        bad.append((sig, where + ' asserted %r, nothing handed to a CL' % (asserted,)))
                    else:
                        bad.append(('C19/asserts-status-that-did-not-occur:' + name, where + ' asserted %r' % (asserted,)))
                if item['asserted'] and (item['time'] is not None) != want_time:
                    bad.append(('C19/status-time-presence', where + ' %s time %r requested %r' % (name, item['time'], want_time)))
                if not item['asserted'] and item['time'] is not None:
                    bad.append(('C19/status-time-on-unasserted-item', where))
            if fwds and adm['status']['deleted']['asserted']:
                bad.append(('C19/forwarded-bundle-reported-deleted', where))
        if len(reports) > 1:
            bad.append(('C19/more-than-one-report-for-one-processing', where))
        # a bundle routed to forwarding of which nothing reached a CL was deleted: say so if asked to
        dest = spec.get('dest') or 'dtn:none'
        routed_fwd = dest != node and dest != B.SAND_GROUP_EID and B.first_route(case['rx_routes'], dest)[1] == 'forward'
        if (routed_fwd and not fwds and not delivers and flags & B.FLAG_REQ_DELETION
                and check_C10.report_routable(case, subject.get('report_to'))):
            told = any((ent['bundle'].get('admin') or {}).get('status', {}).get('deleted', {}).get('asserted') for ent in reports)
            if not told:
                sig = 'C19/nothing-sent-but-no-deletion-report'
                if fragments_without_cl(case, spec):
                    sig = 'C19/asserts-forwarded-but-nothing-sent/fragments-on-route-whose-cl-is-not-attached'
                bad.append((sig, where + ': routed to forward, nothing handed to a CL, deletion report requested and routable, reports %r' % (
                    [[name for name in STATUS_FLAG if (ent['bundle'].get('admin') or {}).get('status', {}).get(name, {}).get('asserted')] for ent in reports],)))
        # a whole forwarded bundle has the size the independent encoder predicts (guards the MTU sweep)
        if 'model_size' in spec:
            for ent in fwds:
                if (ent['bundle'].get('primary') or {}).get('frag') is None and ent['size'] != spec['model_size']:
                    bad.append(('C19/harness-size-prediction-off', where + ' predicted %d sent %d' % (spec['model_size'], ent['size'])))
    return bad


# ----------------------------------------------------------------------------- translator cross-check

def check_report_table(chk):
    ''' Every generated constant against the live Python objects it was translated from. '''
    import bp.util
    import bp.encoding
    import inspect
    import textwrap
    import ast
    flag = bp.encoding.PrimaryBlock.Flag
    # the two dicts are locals of create_report: evaluate their literals in the module's namespace
    src = textwrap.dedent(inspect.getsource(bp.util.BundleContainer.create_report))
    func = ast.parse(src).body[0]
    live = {}
    for node in func.body:
        if isinstance(node, ast.Assign) and isinstance(node.targets[0], ast.Name) and node.targets[0].id in ('FLAGS', 'STATUS_FIELD'):
            live[node.targets[0].id] = eval(compile(ast.Expression(node.value), '<create_report>', 'eval'), vars(bp.util))
    order = [fld.name for fld in bp.encoding.StatusInfoArray.fields_desc]
    want = {}
    for name in flag.__members__:
        want['FLAG_' + name] = int(flag[name])
    for act in ('receive', 'forward', 'deliver', 'delete'):
        want['req_flag_' + act] = int(live['FLAGS'][act])
        want['status_index_' + act] = order.index(live['STATUS_FIELD'][act])
    want['status_array_len'] = len(order)
    want['REASON_NO_ROUTE'] = int(bp.encoding.StatusReport.ReasonCode.NO_ROUTE)
    want['REASON_NO_INFO'] = int(bp.encoding.StatusReport.ReasonCode.NO_INFO)
    want['CRCTYPE_CRC32'] = int(bp.encoding.AbstractBlock.CrcType.CRC32)
    names = sorted(want)
    terms = ['(%s)' % name for name in names]
    got = chk.coq_eval('table', ['Gen.ReportTable'], terms, '(fun x => x)')
    diffs = [(name, want[name], val) for (name, val) in zip(names, got) if want[name] != val]
    # the values the RFC assigns (independent of both)
    rfc = dict(FLAG_IS_FRAGMENT=1, FLAG_PAYLOAD_ADMIN=2, FLAG_NO_FRAGMENT=4, FLAG_REQ_STATUS_TIME=0x40, FLAG_REQ_RECEPTION_REPORT=0x4000,
               FLAG_REQ_FORWARDING_REPORT=0x10000, FLAG_REQ_DELIVERY_REPORT=0x20000, FLAG_REQ_DELETION_REPORT=0x40000,
               req_flag_receive=0x4000, req_flag_forward=0x10000, req_flag_deliver=0x20000, req_flag_delete=0x40000,
               status_index_receive=0, status_index_forward=1, status_index_deliver=2, status_index_delete=3, REASON_NO_ROUTE=6)
    rfc_diffs = [(name, val, want.get(name)) for (name, val) in rfc.items() if want.get(name) != val]
    chk.coverage['report_table_constants'] = len(names)
    return (diffs, rfc_diffs)


def corpus_cases():
    out = []
    cdir = os.path.join(os.path.dirname(os.path.abspath(__file__)), 'corpus')
    for name in sorted(os.listdir(cdir)):
        if name.startswith('C19_') and name.endswith('.json'):
            with open(os.path.join(cdir, name)) as infile:
                out.append(('corpus:' + name, json.load(infile)['case']))
    return out


def main():
    chk = Check('C19', level='proof', description=__doc__)
    if chk.args.replay:
        with open(chk.args.replay) as infile:
            rep = json.load(infile)
        case = rep['replay']['case'] if 'replay' in rep else rep['case']
        (canon, raw) = B.run_impl(case)
        bad = oracle_c19(case, raw)
        for (idx, (spec, obs)) in enumerate(zip(case['hist'], canon['inputs'])):
            print(idx, B.spec_ident(spec), spec.get('dest'), 'flags 0x%x' % int(spec.get('flags', 0)), spec.get('report_to'), obs['events'])
        for (sig, what) in bad:
            print('ORACLE-FAIL %s: %s' % (sig, what))
        real = [item for item in bad if item[0] not in PENDING_FINDINGS and chk.known_match(item[0]) is None]
        print('replay: %d oracle failure(s), %d known/pending finding(s)' % (len(real), len(bad) - len(real)))
        sys.exit(1 if real else 0)

    phase = {}
    mark = time.time()
    props_ok = chk.coq_props()
    phase['coq_props'] = round(time.time() - mark, 1)
    (tr_ok, tr_err) = chk.translate_ok('reporttable')
    table_detail = tr_err
    if tr_ok and props_ok:
        try:
            (diffs, rfc_diffs) = check_report_table(chk)
            if diffs:
                (tr_ok, table_detail) = (False, 'generated constants differ from the live objects: %r' % (diffs[:4],))
            chk.obligation('table:flag-and-status-values-match-rfc9171', not rfc_diffs, repr(rfc_diffs[:4]))
        except CoqError as err:
            (tr_ok, table_detail) = (False, str(err)[:400])
    chk.obligation('translator:reporttable', tr_ok, table_detail)

    cases = corpus_cases() + grid_cases(chk.quick()) + sweep_cases()
    for _ in range(40 if chk.quick() else 6000):
        cases.append(('random', check_C10.gen_case(chk.rng, chk.rng.choice([4, 8, 12]))))

    mark = time.time()
    B.BpDriver(node_id=NODE)   # import everything once, before the workers fork
    with concurrent.futures.ProcessPoolExecutor(max_workers=12) as pool:
        impl = list(pool.map(B.run_impl, [case for (_tag, case) in cases], chunksize=4))
    phase['impl'] = round(time.time() - mark, 1)
    for ((tag, case), (_canon, raw)) in zip(cases, impl):
        if tag.startswith('sweep:'):
            fill_observed_fragfeas(case, raw)
    mark = time.time()
    model = None
    model_err = ''
    try:
        terms = [B.coq_case(case)[0] for (_tag, case) in cases]
        model = [B.canon_model(res) for res in chk.coq_eval('grid', ['Model.BpAgent'], terms, B.COQ_RUN, chunk=max(14, -(-len(terms) // 48)))]
    except CoqError as err:
        model_err = str(err)[:600]
    phase['coq_eval'] = round(time.time() - mark, 1)
    chk.coverage['phase_seconds'] = phase

    pending_hits = {}
    disagree = []
    reports_seen = 0
    for (idx, ((tag, case), (canon, raw))) in enumerate(zip(cases, impl)):
        bad = oracle_c19(case, raw)
        for (sig, what) in bad:
            if sig in PENDING_FINDINGS:
                pending_hits.setdefault(sig, '%s [%s]' % (what, tag))
                continue
            chk.fail(signature=sig, what='%s [%s]' % (what, tag), replay_obj=dict(case=case))
        # one evaluation per received bundle
        for (k, (spec, obs)) in enumerate(zip(case['hist'], canon['inputs'])):
            reps = [evt for evt in obs['events'] if evt[0] == 3]
            reports_seen += len(reps)
            kinds = sorted(set(evt[0] for evt in obs['events']))
            chk.case(ident=(tag, k, json.dumps(spec, sort_keys=True)), nontrivial=bool(obs['events']),
                     sample=(dict(case=tag, flags='0x%x' % int(spec.get('flags', 0)), report_to=spec.get('report_to'), dest=spec.get('dest'),
                                  events=obs['events']) if reps and k % 7 == 3 else None))
            chk.count('report_to', spec.get('report_to'))
            chk.count('request_flags_subset', '0x%x' % (int(spec.get('flags', 0)) & (B.FLAG_REQ_ANY | B.FLAG_REQ_STATUS_TIME)))
            chk.count('events_per_bundle', ','.join({0: 'deliver', 1: 'tx', 2: 'tx-fragments', 3: 'report', 4: 'send-fail'}.get(x, str(x)) for x in kinds) or 'none')
        chk.count('case_kind', tag.split(':')[0])
        if tag.startswith('grid:'):
            chk.count('outcome', tag[5:].split('/')[0])
        if tag.startswith('sweep:'):
            chk.count('mtu_sweep', tag[6:])
        if model is not None and model[idx] != canon:
            disagree.append((idx, tag))
            first = next((k for (k, (x, y)) in enumerate(zip(canon['inputs'], model[idx]['inputs'])) if x != y), None)
            detail = dict(case_index=idx, tag=tag, first_differing_input=first,
                          impl=(canon['inputs'][first] if first is not None else canon['seen']),
                          model=(model[idx]['inputs'][first] if first is not None else model[idx]['seen']))
            chk.coverage.setdefault('disagreements', []).append(detail)
            if len(chk.coverage['disagreements']) == 1:
                with open(os.path.join(os.path.dirname(os.path.abspath(__file__)), '..', 'build', 'C19_disagreement.json'), 'w') as out:
                    json.dump(dict(case=case, detail=detail), out, indent=1)
    if model is None:
        chk.obligation('correspondence:flags-x-report-to-x-outcome', False, 'model evaluation failed: ' + model_err)
    else:
        chk.obligation('correspondence:flags-x-report-to-x-outcome', not disagree,
                       '%d of %d cases disagree, first %r' % (len(disagree), len(cases), disagree[:3]))
    for (sig, what) in sorted(pending_hits.items()):
        print('PENDING-FINDING: property=C19 %s -- %s (e.g. %s)' % (sig, PENDING_FINDINGS[sig], what))
    chk.coverage['pending_findings_reproduced'] = sorted(pending_hits)
    chk.coverage['status_reports_decoded'] = reports_seen
    chk.coverage['grid'] = dict(outcomes=sorted(OUTCOMES), report_to_kinds=sorted(REPORT_TO), flag_subsets=2 ** len(REQ_BITS))
    chk.coverage['refuted_or_partial_theorems'] = [
        'C19_content_partial / C19_content_refuted  <->  C19/asserts-forwarded-but-nothing-sent/fragments-on-route-whose-cl-is-not-attached '
        '(the general case C19/asserts-forwarded-but-forwarding-failed was fixed in cf814c0: C19_failed_forward_deleted_only)',
        'C19_only_if_and_content (subject guarded by creation time <> 0) / C19_subject_refuted  <->  C19/subject-timestamp-rewritten/creation-time-0-forwarded',
        'C19_emitted_if_partial / C19_emitted_if_refuted_no_route, _fragment: requested reception reports never sent (not demanded by the property text: "only if")',
    ]
    chk.finish(
        rule='grid: every subset of the five request flags (reception, forwarding, delivery, deletion, status time) x report-to kinds '
             '(dtn:none, routed endpoint, endpoint without transmit route for every outcome; own node, CL not attached, MTU too small for '
             'three outcomes in the quick tier and for all in the thorough tier) x %d outcomes (%s), one agent per (outcome, report-to) fed the 32 bundles in turn, plus random histories from the C10 '
             'generator and the corpus, plus an MTU sweep on the forward route (payload 0/1/23/24 octets x MTU = forwarded size +1..-8, -20, /2, '
             'size from the independent encoder, x the 24 flag subsets containing forwarding or deletion; model inputs b_size from that size and '
             'b_fragfeas from whether fragments were really transmitted); every bundle handed to the fake CL is decoded with plain cbor2 and an independent CRC and checked '
             'against the property text / RFC 9171 6.1.1; the same cases run through BpAgent.run_render in Coq and are compared event by '
             'event; one evaluation = one received bundle, non-trivial = it caused at least one event' % (len(OUTCOMES), ', '.join(sorted(OUTCOMES))),
        assumptions=[
            'harness stubs for dbus, gi.repository.GLib (virtual main context, idle sources run in id order), portion, crcmod and the '
            'oscrypto version shim are trusted to behave like the libraries they stand for',
            'applications loaded: %s; delivery callback = chain step at order 25; clock frozen (every datetime reference in bp.* replaced)' % (B.APPS_LOADED,),
            '"occurred" is read off the implementation\'s other observations: delivered = delivery callback fired, forwarded = the bundle (or '
            'fragments of it) was handed to a CL, deleted = neither',
            'model inputs decided elsewhere: CRC gate (C08), BPSec verdict (C12), block insertion in _do_fwd (C11), fragmentation budget (C05)',
            'the if-direction (a requested report that is never sent: no-route drop, fragments awaiting reassembly) is not treated as a '
            'violation because the property text says "only if"; it is recorded as C19_emitted_if_refuted_* in Coq',
        ])


if __name__ == '__main__':
    main()
