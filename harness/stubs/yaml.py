''' empty stub '''


def safe_load(stream):
    raise NotImplementedError('yaml stub')
