(** Theorems about the interval-set model Lib/Ivl.v: [add] keeps normal form
    and is pointwise union, normal forms are unique (so the code's
    [valid == total_valid] is a coverage test), order/duplication independence
    of a sequence of additions, and the udpcl range encoding round trip.
    Concrete [Example]s pin [add] to harness/stubs/portion.py. *)
From Coq Require Import ZArith NArith List Bool Lia ZifyBool ZifyN ZifyNat Permutation.
From DTN Require Import Lib.Ivl.
Import ListNotations.
Local Open Scope N_scope.

Ltac Zify.zify_post_hook ::= Z.div_mod_to_equations.

(** * Boolean / propositional normal form *)

Lemma normfromb_spec s : forall b, normfromb b s = true <-> normfrom b s.
Proof.
  induction s as [|[lo hi] r IH]; intros b; cbn [normfromb normfrom].
  - tauto.
  - rewrite !andb_true_iff, IH, N.leb_le, N.ltb_lt. tauto.
Qed.

Lemma normb_spec s : normb s = true <-> norm s.
Proof. apply normfromb_spec. Qed.

Ltac norm_by_compute := apply normb_spec; vm_compute; reflexivity.

Lemma normfrom_weaken s : forall b b', normfrom b s -> b' <= b -> normfrom b' s.
Proof.
  destruct s as [|[lo hi] r]; cbn [normfrom]; intros; [exact I|].
  intuition lia.
Qed.

Lemma normfrom_norm b s : normfrom b s -> norm s.
Proof. intros H. apply (normfrom_weaken s b 0 H). lia. Qed.

Lemma norm_tail lo hi r : norm ((lo, hi) :: r) -> norm r.
Proof. cbn [norm normfrom]. intros (_ & _ & H). exact (normfrom_norm _ _ H). Qed.

Lemma norm_empty : norm empty.
Proof. exact I. Qed.

Lemma norm_full total : norm (full total).
Proof.
  unfold full. destruct (total =? 0) eqn:E; cbn [norm normfrom]; [exact I|]. lia.
Qed.

Lemma norm_singleton x : norm (singleton x).
Proof. cbn. lia. Qed.

Lemma norm_closed a b : a <= b -> norm (closed a b).
Proof. cbn. lia. Qed.

(** * Membership basics *)

Lemma inrange_spec lo hi x : inrange lo hi x = true <-> lo <= x < hi.
Proof. unfold inrange. lia. Qed.

Lemma mem_existsb x s : mem x s = existsb (fun p => (fst p <=? x) && (x <? snd p)) s.
Proof.
  induction s as [|[lo hi] r IH]; cbn [mem existsb fst snd]; [reflexivity|].
  rewrite IH. reflexivity.
Qed.

Lemma mem_app x a b : mem x (a ++ b) = mem x a || mem x b.
Proof.
  induction a as [|[lo hi] r IH]; cbn [mem app]; [reflexivity|].
  rewrite IH, orb_assoc. reflexivity.
Qed.

(** Nothing below the bound is a member. *)
Lemma mem_below s : forall b x, normfrom b s -> x < b -> mem x s = false.
Proof.
  induction s as [|[lo hi] r IH]; intros b x Hn Hx; cbn [mem]; [reflexivity|].
  cbn [normfrom] in Hn. destruct Hn as (H1 & H2 & H3).
  rewrite (IH (hi + 1) x H3) by lia. unfold inrange. lia.
Qed.

Lemma mem_full x total : mem x (full total) = (x <? total).
Proof.
  unfold full. destruct (total =? 0) eqn:E; cbn [mem]; unfold inrange; lia.
Qed.

Lemma mem_singleton x y : mem x (singleton y) = (x =? y).
Proof. cbn [singleton mem]. unfold inrange. lia. Qed.

Lemma mem_closed x a b : mem x (closed a b) = (a <=? x) && (x <=? b).
Proof. cbn [closed mem]. unfold inrange. lia. Qed.

(** * [ins] / [add] are pointwise union *)

Lemma mem_ins x s : forall lo hi,
  mem x (ins lo hi s) = mem x s || inrange lo hi x.
Proof.
  induction s as [|[lo' hi'] r IH]; intros lo hi; cbn [ins mem].
  - rewrite orb_false_r. reflexivity.
  - destruct (hi <? lo') eqn:E1; [|destruct (hi' <? lo) eqn:E2].
    + cbn [mem]. destruct (inrange lo hi x), (inrange lo' hi' x), (mem x r); reflexivity.
    + cbn [mem]. rewrite IH.
      destruct (inrange lo hi x), (inrange lo' hi' x), (mem x r); reflexivity.
    + rewrite IH.
      assert (Hr : inrange (N.min lo lo') (N.max hi hi') x
                   = inrange lo hi x || inrange lo' hi' x) by (unfold inrange; lia).
      rewrite Hr.
      destruct (inrange lo hi x), (inrange lo' hi' x), (mem x r); reflexivity.
Qed.

(** The pointwise law holds for any [s], normal or not. *)
Lemma mem_add_any x lo hi s :
  mem x (add lo hi s) = mem x s || ((lo <=? x) && (x <? hi)).
Proof.
  unfold add. destruct (hi <=? lo) eqn:E.
  - assert (H : (lo <=? x) && (x <? hi) = false) by lia.
    rewrite H, orb_false_r. reflexivity.
  - rewrite mem_ins. reflexivity.
Qed.

Theorem mem_add x lo hi s :
  norm s -> mem x (add lo hi s) = mem x s || ((lo <=? x) && (x <? hi)).
Proof. intros _. apply mem_add_any. Qed.
Print Assumptions mem_add.

Example mem_add_nonvacuous : norm [(0, 5); (7, 9)].
Proof. norm_by_compute. Qed.

(** * [ins] / [add] keep normal form *)

Lemma ins_normfrom s : forall b lo hi,
  normfrom b s -> b <= lo -> lo < hi -> normfrom b (ins lo hi s).
Proof.
  induction s as [|[lo' hi'] r IH]; intros b lo hi Hn Hb Hlt; cbn [ins].
  - cbn [normfrom]. lia.
  - cbn [normfrom] in Hn. destruct Hn as (H1 & H2 & H3).
    destruct (hi <? lo') eqn:E1; [|destruct (hi' <? lo) eqn:E2].
    + cbn [normfrom]. repeat split; try lia. exact H3.
    + cbn [normfrom]. repeat split; try lia. apply IH; [exact H3| lia | lia].
    + apply IH; [|lia|lia]. apply (normfrom_weaken r (hi' + 1) b H3). lia.
Qed.

Lemma add_normfrom b lo hi s :
  normfrom b s -> b <= lo -> normfrom b (add lo hi s).
Proof.
  intros Hn Hb. unfold add. destruct (hi <=? lo) eqn:E; [exact Hn|].
  apply ins_normfrom; [exact Hn | exact Hb | lia].
Qed.

Theorem add_norm lo hi s : norm s -> norm (add lo hi s).
Proof. intros Hn. apply add_normfrom; [exact Hn | lia]. Qed.
Print Assumptions add_norm.

Lemma norm_closedopen lo hi : norm (closedopen lo hi).
Proof. apply add_norm. exact I. Qed.

Lemma mem_closedopen x lo hi : mem x (closedopen lo hi) = (lo <=? x) && (x <? hi).
Proof. unfold closedopen. rewrite mem_add_any. reflexivity. Qed.

(** * Uniqueness of normal forms *)

Lemma norm_ext_from a : forall b ba bb,
  normfrom ba a -> normfrom bb b -> (forall x, mem x a = mem x b) -> a = b.
Proof.
  induction a as [|[l1 h1] r1 IH]; intros [|[l2 h2] r2] ba bb Ha Hb Hx.
  - reflexivity.
  - exfalso. specialize (Hx l2). cbn [mem normfrom] in *. unfold inrange in Hx. lia.
  - exfalso. specialize (Hx l1). cbn [mem normfrom] in *. unfold inrange in Hx. lia.
  - cbn [normfrom] in Ha, Hb.
    destruct Ha as (A1 & A2 & A3). destruct Hb as (B1 & B2 & B3).
    assert (Hm1 : forall x, x < h1 + 1 -> mem x r1 = false)
      by (intros x Hlt; exact (mem_below r1 (h1 + 1) x A3 Hlt)).
    assert (Hm2 : forall x, x < h2 + 1 -> mem x r2 = false)
      by (intros x Hlt; exact (mem_below r2 (h2 + 1) x B3 Hlt)).
    assert (El : l1 = l2).
    { pose proof (Hx l1) as X1. pose proof (Hx l2) as X2.
      cbn [mem] in X1, X2. unfold inrange in X1, X2.
      destruct (l1 <? l2) eqn:C1.
      - rewrite (Hm2 l1) in X1 by lia. lia.
      - destruct (l2 <? l1) eqn:C2; [|lia].
        rewrite (Hm1 l2) in X2 by lia. lia. }
    subst l2.
    assert (Eh : h1 = h2).
    { pose proof (Hx h1) as X1. pose proof (Hx h2) as X2.
      cbn [mem] in X1, X2. unfold inrange in X1, X2.
      destruct (h1 <? h2) eqn:C1.
      - rewrite (Hm1 h1) in X1 by lia. lia.
      - destruct (h2 <? h1) eqn:C2; [|lia].
        rewrite (Hm2 h2) in X2 by lia. lia. }
    subst h2.
    f_equal. apply (IH r2 (h1 + 1) (h1 + 1) A3 B3).
    intros x. destruct (x <? h1 + 1) eqn:C.
    + rewrite Hm1, Hm2 by lia. reflexivity.
    + specialize (Hx x). cbn [mem] in Hx. unfold inrange in Hx.
      assert (F : (l1 <=? x) && (x <? h1) = false) by lia.
      rewrite F in Hx. exact Hx.
Qed.

Theorem norm_ext a b :
  norm a -> norm b -> (forall x, mem x a = mem x b) -> a = b.
Proof. intros Ha Hb. exact (norm_ext_from a b 0 0 Ha Hb). Qed.
Print Assumptions norm_ext.

Example norm_ext_nonvacuous :
  norm (add 4 8 (add 7 9 (add 0 5 []))) /\ norm [(0, 9)]
  /\ add 4 8 (add 7 9 (add 0 5 [])) = [(0, 9)].
Proof. split; [norm_by_compute | split; [norm_by_compute | vm_compute; reflexivity]]. Qed.

(** * Structural equality *)

Lemma eqb_eq a : forall b, eqb a b = true <-> a = b.
Proof.
  induction a as [|[l1 h1] r1 IH]; intros [|[l2 h2] r2]; cbn [eqb];
    try (split; [discriminate|discriminate]); [tauto|].
  rewrite !andb_true_iff, IH. split.
  - intros ((E1 & E2) & E3). f_equal; [f_equal; lia | exact E3].
  - intros E. injection E as -> -> ->. repeat split; lia.
Qed.

Lemma eqb_refl a : eqb a a = true.
Proof. apply eqb_eq. reflexivity. Qed.

(** * Completeness test: [valid == closedopen(0,total)] is a coverage test *)

Theorem complete_iff s total :
  norm s -> (eqb s (full total) = true <-> forall x, mem x s = (x <? total)).
Proof.
  intros Hn. split.
  - intros E x. apply eqb_eq in E. subst s. apply mem_full.
  - intros H. apply eqb_eq. apply norm_ext; [exact Hn | apply norm_full |].
    intros x. rewrite mem_full. apply H.
Qed.
Print Assumptions complete_iff.

Theorem complete_intro s total :
  norm s ->
  (forall x, x < total -> mem x s = true) ->
  (forall x, mem x s = true -> x < total) ->
  s = full total.
Proof.
  intros Hn Hcov Hbnd. apply eqb_eq. apply complete_iff; [exact Hn|].
  intros x. destruct (x <? total) eqn:C.
  - apply Hcov. lia.
  - destruct (mem x s) eqn:M; [|reflexivity].
    apply Hbnd in M. lia.
Qed.
Print Assumptions complete_intro.

(** Conversely, an incomplete cover is never equal to [full total]. *)
Theorem incomplete_neq s total x :
  x < total -> mem x s = false -> eqb s (full total) = false.
Proof.
  intros Hx Hm. destruct (eqb s (full total)) eqn:E; [|reflexivity].
  apply eqb_eq in E. subst s. rewrite mem_full in Hm. lia.
Qed.
Print Assumptions incomplete_neq.

Example complete_nonvacuous :
  let s := add 3 10 (add 0 4 []) in
  norm s /\ eqb s (full 10) = true /\ eqb (add 5 10 (add 0 4 [])) (full 10) = false.
Proof. split; [norm_by_compute | vm_compute; split; reflexivity]. Qed.

(** * Sequences of additions *)

Lemma add_all_norm ps : forall s, norm s -> norm (add_all ps s).
Proof.
  unfold add_all. induction ps as [|p ps IH]; intros s Hn; cbn [fold_left]; [exact Hn|].
  apply IH. apply add_norm. exact Hn.
Qed.

Lemma add_all_mem x ps : forall s,
  mem x (add_all ps s)
  = mem x s || existsb (fun p => (fst p <=? x) && (x <? snd p)) ps.
Proof.
  unfold add_all. induction ps as [|p ps IH]; intros s; cbn [fold_left existsb].
  - rewrite orb_false_r. reflexivity.
  - rewrite IH. unfold add_piece. rewrite mem_add_any, orb_assoc. reflexivity.
Qed.

Theorem fold_add_mem x (ps : list (N * N)) :
  mem x (fold_left (fun s p => add (fst p) (snd p) s) ps [])
  = existsb (fun p => (fst p <=? x) && (x <? snd p)) ps.
Proof. exact (add_all_mem x ps []). Qed.
Print Assumptions fold_add_mem.

Theorem fold_add_norm (ps : list (N * N)) :
  norm (fold_left (fun s p => add (fst p) (snd p) s) ps []).
Proof. exact (add_all_norm ps [] I). Qed.
Print Assumptions fold_add_norm.

Lemma existsb_perm {A} (f : A -> bool) l l' :
  Permutation l l' -> existsb f l = existsb f l'.
Proof.
  induction 1; cbn [existsb].
  - reflexivity.
  - rewrite IHPermutation. reflexivity.
  - destruct (f x), (f y); reflexivity.
  - rewrite IHPermutation1. exact IHPermutation2.
Qed.

(** Two piece lists with the same coverage give the same interval set, from
    any normal starting point. *)
Theorem add_all_ext ps qs s :
  norm s ->
  (forall x, existsb (fun p => (fst p <=? x) && (x <? snd p)) ps
             = existsb (fun p => (fst p <=? x) && (x <? snd p)) qs) ->
  add_all ps s = add_all qs s.
Proof.
  intros Hn H. apply norm_ext; try (apply add_all_norm; exact Hn).
  intros x. rewrite !add_all_mem, H. reflexivity.
Qed.
Print Assumptions add_all_ext.

Theorem add_all_perm ps qs s :
  norm s -> Permutation ps qs -> add_all ps s = add_all qs s.
Proof.
  intros Hn HP. apply add_all_ext; [exact Hn|]. intros x. apply existsb_perm. exact HP.
Qed.
Print Assumptions add_all_perm.

(** Arrival order of the pieces does not matter. *)
Theorem fold_add_perm (ps qs : list (N * N)) :
  Permutation ps qs ->
  fold_left (fun s p => add (fst p) (snd p) s) ps []
  = fold_left (fun s p => add (fst p) (snd p) s) qs [].
Proof. exact (add_all_perm ps qs [] I). Qed.
Print Assumptions fold_add_perm.

(** Duplicated pieces do not matter. *)
Theorem fold_add_dup (ps : list (N * N)) :
  fold_left (fun s p => add (fst p) (snd p) s) (ps ++ ps) []
  = fold_left (fun s p => add (fst p) (snd p) s) ps [].
Proof.
  apply (add_all_ext (ps ++ ps) ps [] I). intros x.
  rewrite existsb_app. apply orb_diag.
Qed.
Print Assumptions fold_add_dup.

(** More generally, only the set of pieces matters. *)
Theorem fold_add_incl (ps qs : list (N * N)) :
  incl ps qs -> incl qs ps ->
  fold_left (fun s p => add (fst p) (snd p) s) ps []
  = fold_left (fun s p => add (fst p) (snd p) s) qs [].
Proof.
  intros H1 H2. apply (add_all_ext ps qs [] I). intros x.
  set (f := fun p : N * N => (fst p <=? x) && (x <? snd p)).
  destruct (existsb f ps) eqn:E1; destruct (existsb f qs) eqn:E2; try reflexivity.
  - apply existsb_exists in E1. destruct E1 as (p & Hin & Hp).
    assert (X : existsb f qs = true) by (apply existsb_exists; exists p; auto).
    congruence.
  - apply existsb_exists in E2. destruct E2 as (p & Hin & Hp).
    assert (X : existsb f ps = true) by (apply existsb_exists; exists p; auto).
    congruence.
Qed.
Print Assumptions fold_add_incl.

Example fold_add_perm_nonvacuous :
  Permutation [(0, 5); (7, 9); (4, 8)] [(4, 8); (0, 5); (7, 9)]
  /\ fold_left (fun s p => add (fst p) (snd p) s) [(4, 8); (0, 5); (7, 9)] [] = [(0, 9)].
Proof.
  split; [|vm_compute; reflexivity].
  apply Permutation_sym. apply (Permutation_cons_app [(0, 5); (7, 9)] [] (4, 8)).
  apply Permutation_refl.
Qed.

(** * Algebra of [add] (consequences of uniqueness) *)

Theorem add_comm l1 h1 l2 h2 s :
  norm s -> add l1 h1 (add l2 h2 s) = add l2 h2 (add l1 h1 s).
Proof.
  intros Hn. apply norm_ext; try (apply add_norm, add_norm; exact Hn).
  intros x. rewrite !mem_add_any.
  destruct (mem x s), ((l1 <=? x) && (x <? h1)), ((l2 <=? x) && (x <? h2)); reflexivity.
Qed.
Print Assumptions add_comm.

(** Adding something already covered changes nothing. *)
Theorem add_covered lo hi s :
  norm s -> (forall x, lo <= x < hi -> mem x s = true) -> add lo hi s = s.
Proof.
  intros Hn Hc. apply norm_ext; [apply add_norm; exact Hn | exact Hn |].
  intros x. rewrite mem_add_any.
  destruct ((lo <=? x) && (x <? hi)) eqn:E.
  - rewrite Hc by lia. reflexivity.
  - apply orb_false_r.
Qed.
Print Assumptions add_covered.

Theorem add_idem lo hi s : norm s -> add lo hi (add lo hi s) = add lo hi s.
Proof.
  intros Hn. apply add_covered; [apply add_norm; exact Hn|].
  intros x Hx. rewrite mem_add_any.
  assert (E : (lo <=? x) && (x <? hi) = true) by lia.
  rewrite E. apply orb_true_r.
Qed.
Print Assumptions add_idem.

Lemma union_norm a b : norm a -> norm (union a b).
Proof. intros Hn. apply add_all_norm. exact Hn. Qed.

Lemma mem_union x a b : mem x (union a b) = mem x a || mem x b.
Proof. unfold union. rewrite add_all_mem, <- mem_existsb. reflexivity. Qed.

Theorem union_comm a b : norm a -> norm b -> union a b = union b a.
Proof.
  intros Ha Hb. apply norm_ext; try (apply union_norm; assumption).
  intros x. rewrite !mem_union. apply orb_comm.
Qed.
Print Assumptions union_comm.

Lemma normalize_norm ps : norm (normalize ps).
Proof. exact (add_all_norm ps [] I). Qed.

(** A set in normal form is a fixed point of normalisation. *)
Theorem normalize_id s : norm s -> normalize s = s.
Proof.
  intros Hn. apply norm_ext; [apply normalize_norm | exact Hn |].
  intros x. unfold normalize. rewrite add_all_mem, <- mem_existsb. reflexivity.
Qed.
Print Assumptions normalize_id.

(** * Range encoding round trip *)

(** Adding an interval that lies beyond everything present, with a gap,
    appends it. *)
Lemma ins_append acc : forall lo hi,
  lo < hi ->
  Forall (fun p => fst p < snd p /\ snd p < lo) acc ->
  ins lo hi acc = acc ++ [(lo, hi)].
Proof.
  induction acc as [|[lo' hi'] r IH]; intros lo hi Hlt Hall; cbn [ins app]; [reflexivity|].
  inversion Hall as [|? ? Hh Ht]; subst. cbn [fst snd] in Hh.
  destruct (hi <? lo') eqn:E1; [lia|].
  destruct (hi' <? lo) eqn:E2; [|lia].
  rewrite (IH lo hi Hlt Ht). reflexivity.
Qed.

Lemma range_decode_encode_from s : forall b last acc,
  normfrom b s -> last <= b ->
  Forall (fun p => fst p < snd p /\ snd p < b) acc ->
  range_decode_from last acc (range_encode_from last s) = acc ++ s.
Proof.
  induction s as [|[lo hi] r IH]; intros b last acc Hn Hl Hacc;
    cbn [range_encode_from range_decode_from].
  - rewrite app_nil_r. reflexivity.
  - cbn [normfrom] in Hn. destruct Hn as (H1 & H2 & H3).
    replace (last + (lo - last)) with lo by lia.
    replace (lo + (hi - lo)) with hi by lia.
    assert (Ea : add lo hi acc = acc ++ [(lo, hi)]).
    { unfold add. destruct (hi <=? lo) eqn:E; [lia|].
      apply ins_append; [exact H2|].
      eapply Forall_impl; [|exact Hacc]. cbn beta. intros p Hp. lia. }
    rewrite Ea.
    rewrite (IH (hi + 1) hi (acc ++ [(lo, hi)]) H3).
    + rewrite <- app_assoc. reflexivity.
    + lia.
    + apply Forall_app. split.
      * eapply Forall_impl; [|exact Hacc]. cbn beta. intros p Hp. lia.
      * constructor; [cbn [fst snd]; lia | constructor].
Qed.

Theorem range_decode_encode s : norm s -> range_decode (range_encode s) = s.
Proof.
  intros Hn. unfold range_decode, range_encode.
  rewrite (range_decode_encode_from s 0 0 [] Hn); [reflexivity | lia | constructor].
Qed.
Print Assumptions range_decode_encode.

Lemma range_decode_from_norm2 l :
  (forall last acc, norm acc -> norm (range_decode_from last acc l))
  /\ (forall o last acc, norm acc -> norm (range_decode_from last acc (o :: l))).
Proof.
  induction l as [|a l [IH1 IH2]].
  - split; intros; cbn [range_decode_from]; assumption.
  - split.
    + intros last acc Hn. apply IH2. exact Hn.
    + intros o last acc Hn. cbn [range_decode_from]. apply IH1. apply add_norm. exact Hn.
Qed.

Lemma range_decode_from_norm l last acc :
  norm acc -> norm (range_decode_from last acc l).
Proof. apply (proj1 (range_decode_from_norm2 l)). Qed.

(** Whatever a peer sends, the decoded value is in normal form. *)
Theorem range_decode_norm l : norm (range_decode l).
Proof. apply range_decode_from_norm. exact I. Qed.
Print Assumptions range_decode_norm.

Example range_nonvacuous :
  norm [(0, 5); (7, 9); (20, 21)]
  /\ range_encode [(0, 5); (7, 9); (20, 21)] = [0; 5; 2; 2; 11; 1]
  /\ range_decode [0; 5; 2; 2; 11; 1] = [(0, 5); (7, 9); (20, 21)].
Proof. split; [norm_by_compute | vm_compute; split; reflexivity]. Qed.

(** * Behaviour pinned by computation *)

Example ex_adjacent_merge : add 5 10 (add 0 5 []) = [(0, 10)].
Proof. vm_compute. reflexivity. Qed.
Example ex_overlap_merge : add 3 8 (add 0 5 []) = [(0, 8)].
Proof. vm_compute. reflexivity. Qed.
Example ex_gap_kept : add 6 10 (add 0 5 []) = [(0, 5); (6, 10)].
Proof. vm_compute. reflexivity. Qed.
Example ex_empty_add : add 7 7 (add 0 5 []) = [(0, 5)].
Proof. vm_compute. reflexivity. Qed.
Example ex_reversed_add : add 9 7 (add 0 5 []) = [(0, 5)].
Proof. vm_compute. reflexivity. Qed.
Example ex_full_zero : full 0 = [] /\ closedopen 0 0 = full 0 /\ closedopen 0 7 = full 7.
Proof. vm_compute. auto. Qed.
Example ex_discrete :
  add 4 5 (closed 0 3) = closed 0 4 /\ union (singleton 4) (closed 0 3) = closed 0 4.
Proof. vm_compute. auto. Qed.

(** Agreement with harness/stubs/portion.py: each right-hand side is the
    output of
      /venv/bin/python -c "import sys; sys.path.insert(0,'/verif/harness/stubs');
        import portion as P; c=P.closedopen; print(<expr>)"
    for the expression in the comment ([s3] is c(10,20)|c(30,40)|c(50,60)). *)
Definition s3 : ivl := add 50 60 (add 30 40 (add 10 20 [])).

Example py_00 : (* c(0,5)|c(7,9)|c(4,8)  ->  [0,9) *)
  add 4 8 (add 7 9 (add 0 5 [])) = [(0, 9)].
Proof. vm_compute. reflexivity. Qed.
Example py_01 : (* s3  ->  [10,20) | [30,40) | [50,60) *)
  s3 = [(10, 20); (30, 40); (50, 60)].
Proof. vm_compute. reflexivity. Qed.
Example py_02 : (* s3|c(15,55)  ->  [10,60) *)
  add 15 55 s3 = [(10, 60)].
Proof. vm_compute. reflexivity. Qed.
Example py_03 : (* s3|c(0,10)  ->  [0,20) | [30,40) | [50,60) *)
  add 0 10 s3 = [(0, 20); (30, 40); (50, 60)].
Proof. vm_compute. reflexivity. Qed.
Example py_04 : (* s3|c(21,29)  ->  [10,20) | [21,29) | [30,40) | [50,60) *)
  add 21 29 s3 = [(10, 20); (21, 29); (30, 40); (50, 60)].
Proof. vm_compute. reflexivity. Qed.
Example py_05 : (* s3|c(20,30)  ->  [10,40) | [50,60) *)
  add 20 30 s3 = [(10, 40); (50, 60)].
Proof. vm_compute. reflexivity. Qed.
Example py_06 : (* s3|c(12,18)  ->  unchanged *)
  add 12 18 s3 = [(10, 20); (30, 40); (50, 60)].
Proof. vm_compute. reflexivity. Qed.
Example py_07 : (* s3|c(41,49)|c(61,70)  ->  [10,20) | [30,40) | [41,49) | [50,60) | [61,70) *)
  add 61 70 (add 41 49 s3) = [(10, 20); (30, 40); (41, 49); (50, 60); (61, 70)].
Proof. vm_compute. reflexivity. Qed.
Example py_08 : (* s3|c(0,100)  ->  [0,100) *)
  add 0 100 s3 = [(0, 100)].
Proof. vm_compute. reflexivity. Qed.
Example py_09 : (* empty()|c(3,4)|c(1,2)|c(2,3)  ->  [1,4) *)
  add 2 3 (add 1 2 (add 3 4 empty)) = [(1, 4)].
Proof. vm_compute. reflexivity. Qed.
Example py_10 : (* c(0,5)|c(7,7) and c(0,5)|c(9,7)  ->  [0,5) *)
  add 7 7 (add 0 5 []) = [(0, 5)] /\ add 9 7 (add 0 5 []) = [(0, 5)].
Proof. vm_compute. auto. Qed.

(** udpcl.agent.range_encode / range_decode run on the stub:
    range_encode(c(3,5)|c(7,9)) = [3,2,2,2]; range_decode([1,2,3]) = [1,3);
    range_decode([0,0,0,3]) = [0,3); range_decode([0,2,0,3]) = [0,5);
    range_decode([2,2,1,3,5]) = [2,4) | [5,8); range_encode(empty()) = []. *)
Example py_range :
  range_encode [(3, 5); (7, 9)] = [3; 2; 2; 2]
  /\ range_decode [1; 2; 3] = [(1, 3)]
  /\ range_decode [0; 0; 0; 3] = [(0, 3)]
  /\ range_decode [0; 2; 0; 3] = [(0, 5)]
  /\ range_decode [2; 2; 1; 3; 5] = [(2, 4); (5, 8)]
  /\ range_encode [] = [] /\ range_decode [] = [].
Proof. vm_compute. repeat split; reflexivity. Qed.
