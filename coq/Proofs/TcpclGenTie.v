(** Tie between the hand-written session model and the fragments of
    tcpcl/session.py that the translator regenerates on every run
    (Gen/SessParams.v).  If the code's expression for the negotiated
    keepalive, the initial segment size, the buffer-refill trigger, the idle
    predicates or the close-when-terminating test changes, the regenerated
    definitions change and these lemmas stop checking. *)
From Coq Require Import List NArith ZArith Bool Lia.
From RecordUpdate Require Import RecordSet.
From DTN Require Import Lib.Bytes Model.TcpclMsg Model.TcpclSess Gen.SessParams.
Import ListNotations RecordSetNotations.
Local Open Scope N_scope.

Definition none_b {A} (o : option A) : bool := match o with None => true | Some _ => false end.

Lemma tie_idle s :
  is_sess_idle s =
  gen_idle_handler (gen_idle_messenger (is_nil (rx_buf s)) (is_nil (msg_tx s)))
                   (none_b (rx_tmp s)) (none_b (tx_tmp s)) (is_nil (pend_start s)) (is_nil (pend_ack s)).
Proof.
  unfold is_sess_idle, gen_idle_handler, gen_idle_messenger, none_b.
  destruct (rx_tmp s), (tx_tmp s); reflexivity.
Qed.

Lemma tie_check_sess_term s :
  check_sess_term s = if gen_close_when (in_term s) (is_sess_idle s) then do_close s else s.
Proof. reflexivity. Qed.

Lemma tie_send_buffer_decreased buf_use s :
  send_buffer_decreased buf_use s = if gen_buf_trigger buf_use (seg_size s) then pq_trigger s else s.
Proof. reflexivity. Qed.

Lemma tie_merge s s' this peer :
  sessinit_this s = Some this -> sessinit_peer s = Some peer ->
  merge_session_params s = (s', None) ->
  keepalive_time s' = gen_keepalive (si_keepalive this) (si_keepalive peer)
  /\ seg_size s' = gen_seg_size (c_seg_init (cf s)) (si_seg_mru peer).
Proof.
  intros Ht Hp. unfold merge_session_params. rewrite Ht, Hp.
  destruct (negb (ascii (si_nodeid peer))); [discriminate|].
  intros E. inversion E; subst s'. cbn. split; reflexivity.
Qed.

(** The segment-size controller can compute anything: the clamp keeps the
    result within the peer's segment MRU (and at or above the floor when the
    floor itself is within the MRU). *)
Theorem clamp_le_mru next floor mru : gen_clamp next floor mru <= mru.
Proof. unfold gen_clamp. lia. Qed.

Theorem clamp_ge_floor next floor mru : floor <= mru -> floor <= gen_clamp next floor mru.
Proof. unfold gen_clamp. lia. Qed.

Theorem seg_size_le_mru init mru : gen_seg_size init mru <= mru.
Proof. unfold gen_seg_size. lia. Qed.

Theorem keepalive_is_min a b : gen_keepalive a b = N.min a b.
Proof. reflexivity. Qed.
