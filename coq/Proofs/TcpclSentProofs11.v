(** TCPCL endpoint model: (2e) an independent statement of the RFC 9174 frame
    grammar, and the proof that what an endpoint sends is a prefix of a legal
    sequence. *)
From Coq Require Import ZArith NArith List Bool Lia ZifyBool ZifyN ZifyNat Arith.
From RecordUpdate Require Import RecordSet.
From DTN Require Import Lib.Bytes Model.TcpclMsg Model.TcpclSess Proofs.TcpclSessBasics
  Proofs.TcpclSentProofs1 Proofs.TcpclSentProofs2 Proofs.TcpclSentProofs3 Proofs.TcpclSentProofs4
  Proofs.TcpclSentProofs5 Proofs.TcpclSentProofs6 Proofs.TcpclSentProofs7 Proofs.TcpclSentProofs8 Proofs.TcpclSentProofs9 Proofs.TcpclSentProofs10.
Import ListNotations RecordSetNotations.
Ltac Zify.zify_post_hook ::= Z.div_mod_to_equations.
Local Open Scope N_scope.


(** * (2e) The RFC 9174 grammar of one direction of a session *)

(** A contact header with the right magic and version (any flags). *)
Definition is_ch (f : frame) : bool :=
  match f with FContact c => bytes_eqb (ch_magic c) MAGIC && (ch_version c =? 4) | FMsg _ => false end.

(** After SESS_INIT: XFER_SEGMENT / XFER_ACK / XFER_REFUSE / KEEPALIVE /
    MSG_REJECT in any order, at most one SESS_TERM, and (when [strict]) no START
    segment after it.  [term] = a SESS_TERM has been seen. *)
Fixpoint body (strict term : bool) (l : list frame) : bool :=
  match l with
  | [] => true
  | f :: r =>
    match f with
    | FMsg (MXferSeg fl _ _ _) => (negb strict || negb term || negb (has_start fl)) && body strict term r
    | FMsg (MSessTerm _ _) => negb term && body strict true r
    | FMsg (MSessInit _ _ _ _ _) => false
    | FContact _ => false
    | FMsg _ => body strict term r
    end
  end.

(** contact header; SESS_INIT; body. *)
Definition legal_gen (strict : bool) (l : list frame) : bool :=
  match l with
  | f1 :: f2 :: r => is_ch f1 && is_initf f2 && body strict false r
  | _ => false
  end.

(** Every prefix of a legal sequence. *)
Definition legal_prefix_gen (strict : bool) (l : list frame) : bool :=
  match l with
  | [] => true
  | [f1] => is_ch f1
  | _ => legal_gen strict l
  end.

Definition legal := legal_gen true.
Definition legal_prefix := legal_prefix_gen true.
(** The grammar without the clause on START segments after SESS_TERM. *)
Definition legal_prefix_weak := legal_prefix_gen false.

Lemma body_app strict : forall a b term, body strict term (a ++ b) = true -> body strict term a = true.
Proof.
  induction a as [|f a IH]; intros b term H; [reflexivity|]. cbn [app body] in *.
  destruct f as [c|[]]; try discriminate H; try (eapply IH; exact H).
  - apply andb_true_iff in H. destruct H as [H1 H2]. rewrite H1. cbn [andb]. eapply IH; exact H2.
  - apply andb_true_iff in H. destruct H as [H1 H2]. rewrite H1. cbn [andb]. eapply IH; exact H2.
Qed.

(** [legal_prefix] is what its name says. *)
Theorem legal_prefix_spec strict l :
  legal_prefix_gen strict l = true <-> exists l', legal_gen strict (l ++ l') = true.
Proof.
  split.
  - destruct l as [|f1 [|f2 r]]; cbn [legal_prefix_gen].
    + intros _. exists [CH; FMsg (MSessInit 0 0 0 [] [])]. reflexivity.
    + intros H. exists [FMsg (MSessInit 0 0 0 [] [])]. cbn. rewrite H. reflexivity.
    + intros H. exists []. rewrite app_nil_r. exact H.
  - intros [l' H]. destruct l as [|f1 [|f2 r]]; cbn [legal_prefix_gen]; [reflexivity| |].
    + destruct l' as [|f2 r]; [discriminate H|]. cbn in H.
      apply andb_true_iff in H. destruct H as [H _]. apply andb_true_iff in H. destruct H as [H _]. exact H.
    + cbn [app legal_gen] in *. apply andb_true_iff in H. destruct H as [H1 H2]. rewrite H1. cbn [andb].
      eapply body_app. exact H2.
Qed.

(** What the invariants give about the frames after SESS_INIT. *)
Lemma body_ok strict : forall (r : list frame) (term : bool),
  AllMsg r -> ninit r = 0%nat ->
  (if term then nterm r = 0%nat /\ (strict = true -> Forall nostartf r)
   else (nterm r <= 1)%nat /\ (strict = true -> Forall nostartf (after_term r))) ->
  body strict term r = true.
Proof.
  induction r as [|f r IH]; intros term Ha Hi Ht; [reflexivity|].
  inversion Ha as [|f' r' [m Hm] Ha']. subst f' r' f. cbn [body].
  unfold ninit in Hi. cbn [filter is_initf] in Hi.
  unfold nterm in Ht. cbn [filter is_sess_term after_term] in Ht.
  assert (Htail : forall (P : frame -> Prop) x, (strict = true -> Forall P (x :: r)) -> strict = true -> Forall P r).
  { intros P x H E. specialize (H E). inversion H; assumption. }
  destruct m as [fl xid ext data|fl xid len|rr xid| |fl rr|a b|ka smru xmru nid ext];
    cbn [is_init is_sess_term] in Hi, Ht; try discriminate Hi.
  - (* segment *)
    destruct term.
    + destruct Ht as [Hn Hf]. cbn [negb orb].
      assert (Hx : negb strict || negb (has_start fl) = true).
      { destruct strict; [|reflexivity]. specialize (Hf eq_refl). inversion Hf as [|x y Hx Hy]. cbn [nostartf] in Hx.
        rewrite Hx. reflexivity. }
      rewrite orb_false_r, Hx. cbn [andb]. apply IH; [assumption|assumption|]. split; [exact Hn|eapply Htail; exact Hf].
    + cbn [negb]. rewrite orb_true_r. cbn [orb andb]. apply IH; assumption.
  - destruct term; [destruct Ht as [Hn Hf]; apply IH; [assumption|assumption|split; [exact Hn|eapply Htail; exact Hf]]|apply IH; assumption].
  - destruct term; [destruct Ht as [Hn Hf]; apply IH; [assumption|assumption|split; [exact Hn|eapply Htail; exact Hf]]|apply IH; assumption].
  - destruct term; [destruct Ht as [Hn Hf]; apply IH; [assumption|assumption|split; [exact Hn|eapply Htail; exact Hf]]|apply IH; assumption].
  - (* SESS_TERM *)
    destruct term.
    + destruct Ht as [Hn _]. cbn in Hn. discriminate Hn.
    + cbn [negb andb]. destruct Ht as [Hn Hf]. cbn [length] in Hn. apply IH; [assumption|assumption|].
      split; [unfold nterm; lia|exact Hf].
  - destruct term; [destruct Ht as [Hn Hf]; apply IH; [assumption|assumption|split; [exact Hn|eapply Htail; exact Hf]]|apply IH; assumption].
Qed.

Lemma grammar_from strict l :
  shape l ->
  (forall f1 f2 rest, l = f1 :: f2 :: rest -> is_initf f2 = true /\ ninit rest = 0%nat) ->
  (nterm l <= 1)%nat ->
  (strict = true -> Forall nostartf (after_term l)) ->
  legal_prefix_gen strict l = true.
Proof.
  intros Hs H2 Ht Hn. destruct l as [|f1 [|f2 r]]; [reflexivity| |].
  - destruct Hs as [Hs|(rest&Hs&_)]; [discriminate|]. inversion Hs. reflexivity.
  - destruct Hs as [Hs|(rest&Hs&Ha)]; [discriminate|]. inversion Hs. subst f1 rest.
    destruct (H2 _ _ _ eq_refl) as [Hi Hr]. cbn [legal_prefix_gen legal_gen]. rewrite Hi.
    change (is_ch CH) with true. cbn [andb].
    inversion Ha as [|x y [i Hx] Hy]. subst x y f2. cbn [is_initf] in Hi.
    apply body_ok; [exact Hy|exact Hr|]. split.
    + unfold nterm in *. cbn [filter is_sess_term CH] in Ht. destruct i; try discriminate Hi. exact Ht.
    + intros E. specialize (Hn E). cbn [after_term is_sess_term CH] in Hn.
      destruct i; try discriminate Hi. exact Hn.
Qed.

Lemma active_second c ops : c_passive c = false ->
  forall f1 f2 rest, sent (run c ops) = f1 :: f2 :: rest -> is_initf f2 = true /\ ninit rest = 0%nat.
Proof.
  intros Ha f1 f2 rest E. destruct (sess_init_active c ops Ha) as (_&H2&H3).
  destruct (H2 _ _ _ E) as (ka&mru&xm&nid&ext&Hf). split; [rewrite Hf; reflexivity|exact (H3 _ _ _ E)].
Qed.

(** (2e) An active endpoint, whatever the peer does: the grammar without the
    clause on START segments holds unconditionally ... *)
Theorem C04_grammar_active_weak c ops : c_passive c = false -> legal_prefix_weak (sent (run c ops)) = true.
Proof.
  intros Ha. apply grammar_from.
  - apply CF_run.
  - apply active_second, Ha.
  - pose proof (TC_run c ops) as H. unfold TC in H. rewrite H. destruct (in_term (run c ops)); lia.
  - discriminate.
Qed.

(** ... and the full grammar when the segment size in use is positive (the
    unconditional statement is refuted by [no_start_after_term_refuted]). *)
Theorem C04_grammar_active_partial c ops : c_passive c = false ->
  (forall k, pos_seg (run c (firstn k ops))) -> legal_prefix (sent (run c ops)) = true.
Proof.
  intros Ha Hp. apply grammar_from.
  - apply CF_run.
  - apply active_second, Ha.
  - pose proof (TC_run c ops) as H. unfold TC in H. rewrite H. destruct (in_term (run c ops)); lia.
  - intros _. destruct (Inv3_run c ops Hp) as (_&_&_&H). exact H.
Qed.

(** The peer behaves: after the contact header it sends SESS_INIT first and
    never a second one. *)
Definition peer_coop (h : list frame) : Prop :=
  match h with
  | c0 :: FMsg m :: r => is_initf c0 = false /\ is_init m = true /\ ninit r = 0%nat
  | _ :: FContact _ :: _ => False
  | _ => True
  end.

Lemma passive_second c ops : c_passive c = true -> peer_coop (handled (run c ops)) ->
  forall f1 f2 rest, sent (run c ops) = f1 :: f2 :: rest -> is_initf f2 = true /\ ninit rest = 0%nat.
Proof.
  intros Hp Hc f1 f2 rest E. destruct (InvP_run c ops) as (_&(C1&C2&_)&H1&H2).
  unfold P1, Q in *. rewrite cf_run in *. specialize (H1 Hp). specialize (H2 Hp). specialize (C2 Hp).
  destruct (handled (run c ops)) as [|c0 [|[c1|m] hs]]; cbn [peer_coop] in Hc.
  - rewrite (C2 H2) in E. discriminate.
  - destruct H2 as [H2 _]. rewrite E in H2. cbn in H2. lia.
  - contradiction.
  - destruct Hc as (Hc0&Hm&Hr). destruct (H2 Hm) as (g1&i&r'&E'&Hi). rewrite E in E'. inversion E'. subst g1 f2 r'.
    split; [exact Hi|]. rewrite E in H1. unfold ninit in *. cbn [filter is_initf] in H1.
    destruct C1 as [C1|(rr&C1&_)]; [rewrite E in C1; discriminate|]. rewrite E in C1. inversion C1. subst f1.
    cbn [is_initf CH] in H1. rewrite Hc0, Hi, Hm in H1. cbn [length] in H1. lia.
Qed.

Theorem C04_grammar_passive_weak c ops : c_passive c = true -> peer_coop (handled (run c ops)) ->
  legal_prefix_weak (sent (run c ops)) = true.
Proof.
  intros Hp Hc. apply grammar_from.
  - apply CF_run.
  - apply passive_second; assumption.
  - pose proof (TC_run c ops) as H. unfold TC in H. rewrite H. destruct (in_term (run c ops)); lia.
  - discriminate.
Qed.

Theorem C04_grammar_passive_partial c ops : c_passive c = true -> peer_coop (handled (run c ops)) ->
  (forall k, pos_seg (run c (firstn k ops))) -> legal_prefix (sent (run c ops)) = true.
Proof.
  intros Hp Hc Hs. apply grammar_from.
  - apply CF_run.
  - apply passive_second; assumption.
  - pose proof (TC_run c ops) as H. unfold TC in H. rewrite H. destruct (in_term (run c ops)); lia.
  - intros _. destruct (Inv3_run c ops Hs) as (_&_&_&H). exact H.
Qed.

(** What an active endpoint sends makes it a cooperating peer: every prefix of
    its frame sequence satisfies [peer_coop]. *)
Lemma active_is_coop cA opsA h more : c_passive cA = false ->
  sent (run cA opsA) = h ++ more -> peer_coop h.
Proof.
  intros Ha E. destruct h as [|c0 [|f2 r]]; [exact I|exact I|]. cbn [app] in E.
  destruct (active_second cA opsA Ha _ _ _ E) as [Hi Hr].
  destruct (CF_run cA opsA) as ([C1|(rr&C1&_)]&_); [rewrite E in C1; discriminate|]. rewrite E in C1. inversion C1. subst c0.
  destruct f2 as [c|m]; [discriminate Hi|]. cbn [peer_coop]. split; [reflexivity|]. split; [exact Hi|].
  rewrite ninit_app in Hr. lia.
Qed.

(** The two compose: a passive endpoint that has handled a prefix of what an
    active endpoint sent (the channel property, proved in C07) sends a prefix
    of a legal sequence. *)
Theorem C04_pair_weak cA opsA cB opsB : c_passive cA = false -> c_passive cB = true ->
  (exists more, sent (run cA opsA) = handled (run cB opsB) ++ more) ->
  legal_prefix_weak (sent (run cA opsA)) = true /\ legal_prefix_weak (sent (run cB opsB)) = true.
Proof.
  intros Ha Hb [more E]. split; [apply C04_grammar_active_weak, Ha|].
  apply C04_grammar_passive_weak; [exact Hb|]. eapply active_is_coop; [exact Ha|exact E].
Qed.

Theorem C04_pair_partial cA opsA cB opsB : c_passive cA = false -> c_passive cB = true ->
  (exists more, sent (run cA opsA) = handled (run cB opsB) ++ more) ->
  (forall k, pos_seg (run cA (firstn k opsA))) -> (forall k, pos_seg (run cB (firstn k opsB))) ->
  legal_prefix (sent (run cA opsA)) = true /\ legal_prefix (sent (run cB opsB)) = true.
Proof.
  intros Ha Hb [more E] HpA HpB. split; [apply C04_grammar_active_partial; assumption|].
  apply C04_grammar_passive_partial; [exact Hb| |exact HpB]. eapply active_is_coop; [exact Ha|exact E].
Qed.
