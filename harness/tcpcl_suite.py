''' Shared suite for the TCPCL session properties (C01, C04, C09, C14, C17, C18):
schedule generators, the model-vs-implementation correspondence, an
independent RFC 9174 stream decoder and the property oracles (written from the
property text and RFC 9174, over the implementation's observable behaviour:
wire octets, D-Bus events, method returns).
'''
import env  # noqa: F401
import struct

import dbus.service

import tcpcl_corr as TC
from tcpcl_drive import canon_args

IMPORTS = ['Model.TcpclMsg', 'Model.TcpclSess']


# ---------------------------------------------------------------------------
# Independent RFC 9174 decoder (plain struct; no scapy, no repo classes)
# ---------------------------------------------------------------------------
class Trunc(Exception):
    pass


def _take(buf, pos, size):
    if pos + size > len(buf):
        raise Trunc()
    return (buf[pos:pos + size], pos + size)


def decode_stream(buf):
    ''' Decode one direction of a TCPCLv4 connection.
    :return: (frames, rest) -- frames are dicts; rest = undecoded tail (a
        truncated final message, or everything after an unknown type). '''
    frames = []
    pos = 0
    buf = bytes(buf)
    if len(buf) < 6:
        return (frames, buf)
    frames.append(dict(t='contact', magic=buf[:4], version=buf[4], flags=buf[5]))
    pos = 6
    while pos < len(buf):
        start = pos
        try:
            mid = buf[pos]
            pos += 1
            if mid == 1:
                (raw, pos) = _take(buf, pos, 9)
                (flags, xid) = struct.unpack('!BQ', raw)
                ext = b''
                if flags & 0x02:
                    (raw, pos) = _take(buf, pos, 4)
                    (ext, pos) = _take(buf, pos, struct.unpack('!I', raw)[0])
                (raw, pos) = _take(buf, pos, 8)
                (data, pos) = _take(buf, pos, struct.unpack('!Q', raw)[0])
                frames.append(dict(t='seg', flags=flags, id=xid, ext=ext, data=data))
            elif mid == 2:
                (raw, pos) = _take(buf, pos, 17)
                (flags, xid, length) = struct.unpack('!BQQ', raw)
                frames.append(dict(t='ack', flags=flags, id=xid, len=length))
            elif mid == 3:
                (raw, pos) = _take(buf, pos, 9)
                (reason, xid) = struct.unpack('!BQ', raw)
                frames.append(dict(t='refuse', reason=reason, id=xid))
            elif mid == 4:
                frames.append(dict(t='keepalive'))
            elif mid == 5:
                (raw, pos) = _take(buf, pos, 2)
                frames.append(dict(t='term', flags=raw[0], reason=raw[1]))
            elif mid == 6:
                (raw, pos) = _take(buf, pos, 2)
                frames.append(dict(t='reject', rej_id=raw[0], reason=raw[1]))
            elif mid == 7:
                (raw, pos) = _take(buf, pos, 20)
                (keepalive, smru, xmru, nlen) = struct.unpack('!HQQH', raw)
                (nodeid, pos) = _take(buf, pos, nlen)
                (raw, pos) = _take(buf, pos, 4)
                (ext, pos) = _take(buf, pos, struct.unpack('!I', raw)[0])
                frames.append(dict(t='init', keepalive=keepalive, seg_mru=smru, xfer_mru=xmru, nodeid=nodeid, ext=ext))
            else:
                return (frames, buf[start:])
        except Trunc:
            return (frames, buf[start:])
    return (frames, b'')


def ext_items(region):
    ''' Independent TLV decoder for an extension-item region. '''
    items = []
    pos = 0
    while pos < len(region):
        if pos + 5 > len(region):
            return None
        (flags, typ, length) = struct.unpack('!BHH', region[pos:pos + 5])
        pos += 5
        if pos + length > len(region):
            return None
        items.append((flags, typ, region[pos:pos + length]))
        pos += length
    return items


# ---------------------------------------------------------------------------
# Observations of a finished run
# ---------------------------------------------------------------------------
def signals(run, e):
    ''' (name, python args) of the D-Bus signals endpoint e emitted, in order. '''
    return [(evt['name'], evt['args']) for evt in run.events if evt['obj'] == '/' + e and evt['kind'] == 'signal']


class RunRecord(object):
    ''' Everything kept from one executed schedule (the live objects of the
    real system are needed for some oracles, so keep the runner too). '''

    def __init__(self, runner, kind, meta=None):
        self.runner = runner
        self.kind = kind
        self.meta = meta or {}
        # global event log with order across both endpoints
        self.events = [dict(evt) for evt in dbus.service.EVENT_LOG]
        self.wire = {e: bytes(runner.sysm.ep[e].sock.sent) for e in 'AB'}
        self.snap = {e: runner.sysm.snapshot(e) for e in 'AB'}
        self.escaped = list(runner.sysm.escaped)
        # bundles accepted for sending (a call refused with an error to the caller queues nothing)
        self.queued = {e: list(runner.accepted[e]) for e in 'AB'}
        self.conf = runner.conf
        self.rx_store = {}
        for e in 'AB':
            hdl = runner.sysm.ep[e].h
            store = {}
            for (bid, item) in hdl._rx_map.items():
                store[bid] = item.file.getvalue()
            self.rx_store[e] = store

    def replay_obj(self):
        return dict(kind=self.kind, cfg_a=self.runner.cfg_a, cfg_b=self.runner.cfg_b,
                    ops=TC.jsonable_ops(self.runner.applied), meta=self.meta)


def finish(runner, kind, meta=None):
    runner.finish()
    return RunRecord(runner, kind, meta)


def victim_hints(runner, victim):
    ''' Transfer ids and lengths taken from the victim's own state, for
    adversarial frames that are "almost right". '''
    hdl = runner.sysm.ep[victim].h
    ids = [0, 9]
    lengths = [0, 1, 2, 2 ** 64 - 1]
    for (bid, item) in list(hdl._tx_map.items()):
        ids.append(int(bid))
        try:
            size = len(item.file.getvalue())
            lengths += [size, max(size - 1, 0)]
        except Exception:
            pass
    if hdl._tx_length:
        lengths.append(int(hdl._tx_length))
    if hdl._rx_tmp is not None:
        ids.append(int(hdl._rx_tmp.transfer_id))
    ids += [max(ids) + 1]
    return (tuple(ids), tuple(lengths))


# ---------------------------------------------------------------------------
# Generators (every random choice from the given rng)
# ---------------------------------------------------------------------------
def bounded_data(rng, seg):
    ''' Bundle data whose transfer needs at most ~40 segments of size seg. '''
    cap = max(1, min(seg, 10000)) * 40
    spec = TC.gen_data(rng)
    size = len(spec[1]) if spec[0] == 'lit' else spec[2]
    if size > cap:
        return ('lit', bytes(rng.randrange(256) for _ in range(min(cap, 60))))
    return spec


def eff_seg(conf_self, conf_peer):
    return max(1, min(conf_self['segment_size_tx_initial'], conf_peer['segment_size_mru']))


def gen_coop(rng, nops=120, with_term=False, with_pop=True, timers=False, full_io=False):
    ''' Two cooperating endpoints, random interleaving, chunking and back-pressure. '''
    (ca, cb) = TC.gen_config(rng)
    if not timers:
        ca['keepalive_time'] = cb['keepalive_time'] = 0
        ca['idle_time'] = cb['idle_time'] = 0
    runner = TC.Runner(cfg_a=ca, cfg_b=cb)
    seg = {'A': eff_seg(ca, cb), 'B': eff_seg(cb, ca)}
    workload = []
    for _ in range(rng.randrange(0, 5)):
        e = rng.choice('AB')
        workload.append(('send', e, bounded_data(rng, seg[e])))
    if with_term:
        term_at = rng.randrange(len(workload) + 1)
        workload.insert(term_at, ('term', rng.choice('AB'), rng.randrange(6)))
        if rng.random() < 0.3:
            workload.insert(rng.randrange(len(workload) + 1), ('term', rng.choice('AB'), rng.randrange(6)))
    choices = (1 << 30,) if full_io else (1, 2, 3, 7, 64, 1 << 30)
    TC.random_schedule(runner, rng, nops, workload, accept_choices=choices, read_choices=choices,
                       user_rate=0.12, timers=timers)
    return runner


def well_formed_frame(rng, ids=(0, 1, 2, 3, 9), lengths=(0, 1, 2, 4, 100)):
    ''' A syntactically valid frame chosen adversarially: ``ids`` and
    ``lengths`` may be taken from the victim's own transfer state (ids of its
    queued / in-flight transfers, their total and sent lengths). '''
    kind = rng.randrange(9)
    if kind == 0:
        return b'dtn!\x04' + bytes([rng.choice([0, 1])])
    if kind == 1:
        nodeid = rng.choice([b'dtn://x/', b'ipn:5.0', b''])
        return bytes([7]) + struct.pack('!HQQH', rng.choice([0, 1, 30]), rng.choice([1, 5, 1000]), 2 ** 64 - 1,
                                        len(nodeid)) + nodeid + struct.pack('!I', 0)
    if kind == 2:
        return bytes([5, rng.choice([0, 1]), rng.randrange(6)])
    if kind == 3:
        return bytes([4])
    if kind == 4:
        return bytes([6, rng.randrange(8), rng.randrange(1, 4)])
    if kind == 5:
        flags = rng.choice([0, 1, 2, 3])
        data = bytes(rng.randrange(256) for _ in range(rng.choice([0, 1, 4])))
        ext = b''
        if flags & 2:
            ext = struct.pack('!I', 13) + bytes([0, 0, 1, 0, 8]) + struct.pack('!Q', len(data))
            if rng.random() < 0.3:
                ext = struct.pack('!I', 0)
        return bytes([1, flags]) + struct.pack('!Q', rng.choice(ids)) + ext + struct.pack('!Q', len(data)) + data
    if kind == 6:
        return bytes([2, rng.choice([0, 1, 2, 3])]) + struct.pack('!QQ', rng.choice(ids), rng.choice(lengths))
    if kind == 7:
        return bytes([3, rng.randrange(6)]) + struct.pack('!Q', rng.choice(ids))
    return b'xxxx\x04\x00' if rng.random() < 0.5 else b'dtn!\x03\x00'


def gen_adversarial(rng, nmsgs=None, victim=None):
    ''' One endpoint (the victim) of a real pair receives well-formed frames
    chosen adversarially, injected at message boundaries, interleaved with its
    own user calls and event-loop iterations. '''
    (ca, cb) = TC.gen_config(rng)
    ca['keepalive_time'] = cb['keepalive_time'] = 0
    ca['idle_time'] = cb['idle_time'] = 0
    if rng.random() < 0.15:
        (ca if rng.random() < 0.5 else cb)['require_tls'] = rng.choice([True, False])
    runner = TC.Runner(cfg_a=ca, cfg_b=cb)
    victim = victim or rng.choice('AB')
    runner.apply(('start', 'A'))
    runner.apply(('start', 'B'))
    phase = rng.choice(['fresh', 'contact', 'established', 'established', 'established', 'terminating'])
    if phase != 'fresh':
        if phase == 'contact':
            runner.apply(('txpump', 'A', 'idle', 1 << 30))
            runner.apply(('rxpump', 'B', 1 << 30))
        else:
            TC.drain(runner)
    seg = eff_seg(ca if victim == 'A' else cb, cb if victim == 'A' else ca)
    injected = []
    for _ in range(rng.randrange(0, 3)):
        runner.apply(('send', victim, bounded_data(rng, seg)))
    if phase == 'terminating':
        runner.apply(('term', victim, 0))
    nmsgs = nmsgs if nmsgs is not None else rng.randrange(1, 8)
    for _ in range(nmsgs):
        frame = well_formed_frame(rng)
        injected.append(frame)
        runner.apply(('inject', victim, frame))
        for _ in range(rng.randrange(1, 4)):
            roll = rng.random()
            if roll < 0.5:
                runner.apply(('rxpump', victim, rng.choice([1, 3, 1 << 30])))
            elif roll < 0.7:
                runner.apply(('pq', victim))
            elif roll < 0.85:
                runner.apply(('txpump', victim, rng.choice(['idle', 'io']), 1 << 30))
            elif roll < 0.92:
                runner.apply(('send', victim, bounded_data(rng, seg)))
            else:
                runner.apply(('pop', victim, rng.choice([1, 2, 3, 9])))
    # let the victim digest everything it was given
    for _ in range(200):
        sock = runner.sysm.ep[victim].sock
        if runner.is_closed(victim) or not (sock.inbox or sock.eof):
            break
        before = len(sock.inbox)
        res = runner.apply(('rxpump', victim, 1 << 30))
        if res is None or not res.get('ran') or len(sock.inbox) == before:
            break
    return (runner, victim, injected, phase)


# ---------------------------------------------------------------------------
# Correspondence: model (in Coq) vs implementation
# ---------------------------------------------------------------------------
def correspondence(chk, records, name='sess', chunk=6):
    ''' Evaluate the model on every endpoint's op list and compare.
    :return: list of (record, endpoint, difference) '''
    terms = []
    records = [rec for rec in records if not rec.meta.get('no_model')]
    for rec in records:
        for e in 'AB':
            terms.append(rec.runner.model_term(e))
    results = chk.coq_eval(name, IMPORTS, terms, 'id', chunk=chunk, timeout=1200, prelude=TC.PRELUDE)
    diffs = []
    idx = 0
    for rec in records:
        for e in 'AB':
            diff = TC.compare(rec.runner.real_full(e), results[idx])
            idx += 1
            if diff is not None:
                diffs.append((rec, e, diff))
    return diffs


# ---------------------------------------------------------------------------
# Oracles.  Each returns a list of (signature, description) failures.
# ---------------------------------------------------------------------------
def delivered(rec, e):
    ''' Bundles announced as received (finished) at e, in order: (id, length). '''
    out = []
    for (name, args) in signals(rec, e):
        if name == 'recv_bundle_finished':
            out.append((str(args[0]), int(args[1]), str(args[2])))
    return out


def popped(rec, e):
    out = {}
    for evt in rec.events:
        if evt['obj'] == '/' + e and evt['kind'] == 'return' and evt['name'] == 'recv_bundle_pop_data':
            out.setdefault(str(evt['call_args'][0]), []).append(bytes(evt['args'][0]))
    return out


def oracle_c01(rec, quiescent_complete=False, started_complete=False):
    ''' Delivered = prefix of queued, byte-identical, in order; success only
    after the receiver holds the bundle. With started_complete (a run with
    termination, driven to quiescence): every transfer whose first segment
    was sent reaches the peer's receive queue. '''
    fails = []
    if started_complete:
        for (snd, rcv) in (('A', 'B'), ('B', 'A')):
            started = [str(a[0]) for (n, a) in signals(rec, snd) if n == 'send_bundle_started']
            refused = [str(a[0]) for (n, a) in signals(rec, snd) if n == 'send_bundle_finished' and str(a[2]).startswith('refused')]
            rfin = [str(a[0]) for (n, a) in signals(rec, rcv) if n == 'recv_bundle_finished']
            for bid in started:
                if bid not in rfin and bid not in refused:
                    fails.append(('C01 / transfer in progress when the session terminated never reached the peer',
                                  '%s->%s id %s of %d queued' % (snd, rcv, bid, len(rec.queued[snd]))))
    for (snd, rcv) in (('A', 'B'), ('B', 'A')):
        queued = rec.queued[snd]
        fin = delivered(rec, rcv)
        pops = popped(rec, rcv)
        if len(fin) > len(queued):
            fails.append(('C01 / more bundles delivered than queued', '%s->%s delivered %d queued %d' % (snd, rcv, len(fin), len(queued))))
            continue
        for (pos, (bid, length, result)) in enumerate(fin):
            want = queued[pos]
            have = None
            if bid in pops and pops[bid]:
                have = pops[bid][0]
            elif int(bid) in rec.rx_store[rcv]:
                have = rec.rx_store[rcv][int(bid)]
            if result != 'success' or length != len(want) or (have is not None and have != want):
                fails.append(('C01 / delivered bundle differs from the queued one',
                              '%s->%s position %d id %s len %d (queued %d)' % (snd, rcv, pos, bid, length, len(want))))
        # success only after the receiver holds the complete bundle
        seen_fin = set()
        for evt in rec.events:
            if evt['kind'] != 'signal':
                continue
            if evt['obj'] == '/' + rcv and evt['name'] == 'recv_bundle_finished':
                seen_fin.add(str(evt['args'][0]))
            if evt['obj'] == '/' + snd and evt['name'] == 'send_bundle_finished' and str(evt['args'][2]) == 'success':
                if str(evt['args'][0]) not in seen_fin:
                    fails.append(('C01 / success reported before the receiver held the bundle',
                                  '%s id %s' % (snd, evt['args'][0])))
        if quiescent_complete and len(fin) != len(queued):
            fails.append(('C01 / queued bundle never delivered at quiescence',
                          '%s->%s delivered %d of %d (lengths %s)' % (snd, rcv, len(fin), len(queued), [len(q) for q in queued])))
    return fails


def oracle_c04(rec):
    ''' RFC 9174 legality of each direction's octet stream. '''
    fails = []
    for (e, peer) in (('A', 'B'), ('B', 'A')):
        (frames, rest) = decode_stream(rec.wire[e])
        if not frames:
            continue
        if rest and len(rec.wire[e]) >= 6:
            # the socket accepts partial writes, so a truncated LAST message is fine; anything else is not
            (_f2, rest2) = decode_stream(rec.wire[e] + bytes(rec.snap[e]['conn_tx_buf']) + bytes(rec.snap[e]['msg_tx_buf']))
            if rest2:
                fails.append(('C04 / undecodable octets emitted', '%s: %d octets' % (e, len(rest2))))
        if frames[0]['t'] != 'contact' or frames[0]['magic'] != b'dtn!' or frames[0]['version'] != 4:
            fails.append(('C04 / stream does not start with a v4 contact header', e))
        body = frames[1:]
        if body and body[0]['t'] != 'init':
            fails.append(('C04 / first message is not SESS_INIT', '%s: %s' % (e, body[0]['t'])))
        if sum(1 for f in body if f['t'] == 'init') > 1:
            fails.append(('C04 / more than one SESS_INIT', e))
        if any(f['t'] == 'contact' for f in body):
            fails.append(('C04 / second contact header', e))
        terms = [idx for (idx, f) in enumerate(body) if f['t'] == 'term']
        if len(terms) > 1:
            fails.append(('C04 / more than one SESS_TERM', e))
        if terms:
            for f in body[terms[0] + 1:]:
                if f['t'] == 'seg' and f['flags'] & 2:
                    fails.append(('C04 / transfer started after SESS_TERM', '%s id %d' % (e, f['id'])))
        # transfers
        peer_frames = decode_stream(rec.wire[peer])[0]
        peer_init = [f for f in peer_frames if f['t'] == 'init']
        # the MRU the peer CONFIGURED (it may not have announced it yet on the wire)
        mru = rec.conf[peer]['segment_size_mru']
        cur = None
        seen_ids = []
        queued = rec.queued[e]
        for f in body:
            if f['t'] != 'seg':
                continue
            if len(f['data']) > mru:
                fails.append(('C04 / segment larger than the peer segment MRU', '%s id %d len %d mru %d' % (e, f['id'], len(f['data']), mru)))
            if f['flags'] & 2:
                if cur is not None:
                    fails.append(('C04 / transfer started while another is in progress', '%s id %d' % (e, f['id'])))
                if f['id'] in seen_ids:
                    fails.append(('C04 / transfer id reused', '%s id %d' % (e, f['id'])))
                seen_ids.append(f['id'])
                items = ext_items(f['ext'])
                total = None
                if items is None:
                    fails.append(('C04 / malformed extension items', '%s id %d' % (e, f['id'])))
                else:
                    tl = [it for it in items if it[1] == 1]
                    if len(tl) != 1 or len(tl[0][2]) != 8:
                        fails.append(('C04 / START segment without exactly one transfer-length extension', '%s id %d' % (e, f['id'])))
                    else:
                        total = struct.unpack('!Q', tl[0][2])[0]
                cur = dict(id=f['id'], data=b'', total=total)
            else:
                if cur is None or cur['id'] != f['id']:
                    fails.append(('C04 / segment without START or of another transfer', '%s id %d' % (e, f['id'])))
                    continue
                if f['ext']:
                    fails.append(('C04 / extension items outside START', '%s id %d' % (e, f['id'])))
            if cur is not None:
                cur['data'] += f['data']
                if f['flags'] & 1:
                    pos = len(seen_ids) - 1
                    if pos < len(queued) and (cur['data'] != queued[pos] or (cur['total'] is not None and cur['total'] != len(queued[pos]))):
                        fails.append(('C04 / segments do not concatenate to the bundle or wrong total length',
                                      '%s id %d' % (e, cur['id'])))
                    cur = None
        # ACK echo: acks of e answer the segments of peer, in order
        peer_segs = [f for f in peer_frames if f['t'] == 'seg']
        acks = [f for f in body if f['t'] == 'ack']
        if len(acks) > len(peer_segs):
            fails.append(('C04 / more XFER_ACK than segments received', e))
        cum = {}
        for (ack, seg) in zip(acks, peer_segs):
            if seg['flags'] & 2:
                cum[seg['id']] = 0
            cum[seg['id']] = cum.get(seg['id'], 0) + len(seg['data'])
            if ack['flags'] != seg['flags'] or ack['id'] != seg['id'] or ack['len'] != cum[seg['id']]:
                fails.append(('C04 / XFER_ACK does not echo the segment flags / cumulative length',
                              '%s ack %r for seg flags %d id %d cum %d' % (e, ack, seg['flags'], seg['id'], cum[seg['id']])))
    return fails


def oracle_c09(rec, quiescent):
    ''' Termination: one SESS_TERM each, reply marked, nothing started after,
    in-flight transfers complete, unstarted reported, both closed. '''
    fails = []
    terms = {}
    for e in 'AB':
        frames = decode_stream(rec.wire[e])[0]
        terms[e] = [(idx, f) for (idx, f) in enumerate(frames) if f['t'] == 'term']
        if len(terms[e]) > 1:
            fails.append(('C09 / more than one SESS_TERM', e))
        if terms[e]:
            for f in frames[terms[e][0][0] + 1:]:
                if f['t'] == 'seg' and f['flags'] & 2:
                    fails.append(('C09 / transfer started after SESS_TERM', '%s id %d' % (e, f['id'])))
    user_term = {e: any(m[0] == 'OTerm' for m in rec.runner.mops[e]) for e in 'AB'}
    for (e, peer) in (('A', 'B'), ('B', 'A')):
        if terms[e] and not user_term[e] and terms[peer]:
            # e only responded: its SESS_TERM must be marked as reply
            if not terms[e][0][1]['flags'] & 1:
                fails.append(('C09 / responding SESS_TERM not marked REPLY', e))
        if terms[e] and user_term[e] and not terms[peer]:
            if terms[e][0][1]['flags'] & 1:
                fails.append(('C09 / initiating SESS_TERM marked REPLY', e))
    if quiescent and (terms['A'] or terms['B']):
        for e in 'AB':
            if not rec.snap[e]['closed']:
                fails.append(('C09 / endpoint not closed at quiescence after termination', e))
        # every started transfer finished (success) at both ends or was reported
        for (snd, rcv) in (('A', 'B'), ('B', 'A')):
            started = [str(a[0]) for (n, a) in signals(rec, snd) if n == 'send_bundle_started']
            finished = {str(a[0]): str(a[2]) for (n, a) in signals(rec, snd) if n == 'send_bundle_finished'}
            rfin = [str(a[0]) for (n, a) in signals(rec, rcv) if n == 'recv_bundle_finished']
            sent_ids = [str(x) for x in range(1, len(rec.queued[snd]) + 1)]
            for bid in started:
                if bid in rfin and finished.get(bid) != 'success' and not str(finished.get(bid)).startswith('refused'):
                    fails.append(('C09 / transfer completed at the receiver but never acknowledged to the sender',
                                  '%s id %s result %s' % (snd, bid, finished.get(bid))))
                if bid not in rfin and bid not in finished:
                    fails.append(('C09 / transfer in progress at termination neither completed nor reported',
                                  '%s id %s' % (snd, bid)))
            for bid in sent_ids:
                if bid not in started and bid not in finished:
                    fails.append(('C09 / queued transfer silently lost at termination', '%s id %s' % (snd, bid)))
    elif quiescent:
        # no SESS_TERM reached the wire (terminate() before the session exists, close(), peer disconnect): an endpoint
        # that has closed must still have reported every bundle it accepted and never started
        for snd in 'AB':
            if not rec.snap[snd]['closed']:
                continue
            started = [str(a[0]) for (n, a) in signals(rec, snd) if n == 'send_bundle_started']
            finished = [str(a[0]) for (n, a) in signals(rec, snd) if n == 'send_bundle_finished']
            for bid in [str(x) for x in range(1, len(rec.queued[snd]) + 1)]:
                if bid not in started and bid not in finished:
                    fails.append(('C09 / queued transfer silently lost when the connection closed', '%s id %s' % (snd, bid)))
    return fails


# dbus-python marshalling rules for the basic types used (independent of the model)
def conforms_value(val, sig):
    ''' Does python value val marshal as the single complete type sig? '''
    if sig == 's':
        return isinstance(val, str)
    if sig == 'o':
        return isinstance(val, str) and val.startswith('/')
    if sig == 't':
        return isinstance(val, int) and not isinstance(val, bool) and 0 <= val < 2 ** 64
    if sig == 'y':
        return isinstance(val, int) and 0 <= val < 256
    if sig == 'b':
        return isinstance(val, (bool, int))
    if sig == 'v':
        if isinstance(val, bool):
            return True
        if isinstance(val, int):
            return -2 ** 31 <= val < 2 ** 31 or type(val).__name__ in ('UInt64', 'Int64', 'UInt32')
        return isinstance(val, (str, bytes, float, list, dict))
    if sig == 'ay':
        return isinstance(val, (bytes, bytearray)) or (isinstance(val, (list, tuple)) and all(conforms_value(x, 'y') for x in val))
    if sig == 'as':
        return isinstance(val, (list, tuple)) and all(isinstance(x, str) for x in val)
    if sig == 'ao':
        return hasattr(val, '__iter__') and all(conforms_value(x, 'o') for x in val)
    if sig == 'a{sv}':
        return isinstance(val, dict) and all(isinstance(k, str) and conforms_value(v, 'v') for (k, v) in val.items())
    return False


def split_sig(sig):
    ''' Split a signature string into single complete types. '''
    out = []
    pos = 0
    while pos < len(sig):
        if sig[pos] == 'a':
            if sig[pos + 1] == '{':
                end = sig.index('}', pos)
                out.append(sig[pos:end + 1])
                pos = end + 1
            else:
                out.append(sig[pos:pos + 2])
                pos += 2
        else:
            out.append(sig[pos])
            pos += 1
    return out


def oracle_c18(rec):
    fails = []
    for evt in rec.events:
        if evt['kind'] not in ('signal', 'return'):
            continue
        sig = evt['signature'] or ''
        parts = split_sig(sig)
        args = evt['args']
        if evt['kind'] == 'return':
            if sig == '':
                continue
            if len(parts) != 1 or not conforms_value(args[0], parts[0]):
                fails.append(('C18 / method return does not conform to its out_signature',
                              '%s.%s returned %s for %r' % (evt['obj'], evt['name'], type(args[0]).__name__, sig)))
        else:
            if len(parts) != len(args) or not all(conforms_value(a, p) for (a, p) in zip(args, parts)):
                fails.append(('C18 / signal arguments do not conform to the declared signature',
                              '%s.%s%r types %s' % (evt['obj'], evt['name'], sig, [type(a).__name__ for a in args])))
    for e in 'AB':
        sigs = signals(rec, e)
        # finished at most once per transfer
        fin = [str(a[0]) for (n, a) in sigs if n == 'send_bundle_finished']
        for bid in set(fin):
            if fin.count(bid) > 1:
                fails.append(('C18 / more than one finished signal for a transfer', '%s id %s' % (e, bid)))
        # send queue = queued and not finished
        queued_ids = []
        for evt in rec.events:
            if evt['obj'] == '/' + e and evt['kind'] == 'return' and evt['name'] == 'send_bundle_data':
                queued_ids.append(str(evt['args'][0]))
        want_tx = [bid for bid in queued_ids if bid not in fin]
        if not rec.snap[e]['closed'] and sorted(rec.snap[e]['tx_queue']) != sorted(want_tx):
            fails.append(('C18 / send queue differs from queued-and-not-finished',
                          '%s queue %s expected %s' % (e, rec.snap[e]['tx_queue'], want_tx)))
        # receive queue = finished and not popped
        rfin = [str(a[0]) for (n, a) in sigs if n == 'recv_bundle_finished']
        pops = popped(rec, e)
        want_rx = []
        for bid in rfin:
            want_rx.append(bid)
        for (bid, datas) in pops.items():
            for _ in datas:
                if bid in want_rx:
                    want_rx.remove(bid)
        if len(set(rfin)) == len(rfin) and sorted(rec.snap[e]['rx_queue']) != sorted(set(want_rx)):
            fails.append(('C18 / receive queue differs from finished-and-not-popped',
                          '%s queue %s expected %s' % (e, rec.snap[e]['rx_queue'], want_rx)))
        # idle indication sound after EVERY operation (per-op snapshots, layout of render_state)
        for (idx, st) in enumerate(rec.runner.snaps[e]):
            if st[14] == [1] and st[0][4] == 0:
                if st[1][0] != 0 or st[8] or st[12] != [0] or st[13] != [0] or st[10] or st[11]:
                    fails.append(('C18 / idle indication true while work is pending',
                                  '%s after op #%d: rx_buf %d octets, send queue %s' % (e, idx, st[1][0], st[8])))
                    break
        snap = rec.snap[e]
        # ... and it becomes true once everything has drained
        if not snap['closed'] and not snap['idle'] and not snap['tx_queue'] and snap['tx_tmp'] is None \
                and snap['rx_tmp'] is None and not snap['rx_buf'] and not snap['msg_tx_buf'] and not snap['conn_tx_buf']:
            fails.append(('C18 / idle indication stays false although nothing is queued, in progress, awaiting acknowledgement or buffered', e))
        if snap['idle'] and not snap['closed']:
            if snap['tx_queue'] or snap['rx_buf'] or snap['tx_tmp'] is not None or snap['rx_tmp'] is not None:
                fails.append(('C18 / idle indication true while work is pending', e))
    return fails


def oracle_c17(rec, victim, injected):
    ''' No exception escapes an event-loop callback; the endpoint keeps running. '''
    fails = []
    for (idx, oper, cls) in rec.runner.escaped_ops:
        if oper[0] in ('pop', 'term', 'send', 'close'):
            # an error returned to the D-Bus caller of a method is an API error, not a callback escape
            continue
        fails.append(('C17 / exception escaped an event-loop callback: %s in %s' % (cls, oper[0]),
                      'op #%d %r' % (idx, oper[:2])))
    return fails


# ---------------------------------------------------------------------------
# Common driver
# ---------------------------------------------------------------------------
ASSUMPTIONS = ['stub dbus/GLib (harness/stubs) stand in for dbus-python and GLib; fake in-memory sockets stand in for TCP',
               'TLS off; enable_test empty; segment-size modulation off (modelled rather than verified: see DESIGN.md section 8)']


def run_check(prop_id, build, evaluate, rule, rebuild_record=None, extra_props=('Props/TcpclTie.v',), search=None):
    ''' Standard shape of a TCPCL property check:
    proofs -> schedules on the real code -> model correspondence -> oracle. '''
    import json
    from common import Check
    chk = Check(prop_id, level='proof')
    if chk.args.replay:
        with open(chk.args.replay) as infile:
            rep = json.load(infile)['replay']
        if 'ops' not in rep:
            print('replay file names a broken obligation, not an input: %s' % json.dumps(rep)[:400])
            recs = build(chk)
        else:
            runner = TC.replay(rep['cfg_a'], rep['cfg_b'], TC.unjson_ops(rep['ops']))
            recs = [RunRecord(runner, rep['kind'], rep.get('meta'))]
    else:
        recs = build(chk)
    chk.coq_props()
    (tok, terr) = chk.translate_ok('sessparams')
    chk.obligation('translator:sessparams (negotiation, clamp, idle predicates, close-when-terminating regenerated from tcpcl/session.py)', tok, terr)
    (tok, terr) = chk.translate_ok('dbussigs')
    chk.obligation('translator:dbussigs (declared D-Bus signatures regenerated from the decorators)', tok, terr)
    for rel in extra_props:
        chk.coq_props_extra(rel)
    try:
        (ret, out) = chk.coq_make(['Model/TcpclSess.vo'])
        if ret != 0:
            raise RuntimeError('model does not build: ' + chk._first_error(out))
        diffs = correspondence(chk, recs)
        detail = '; '.join('%s %s %r' % (rec.kind, e, diff) for (rec, e, diff) in diffs[:3])
    except Exception as err:  # model evaluation itself failed
        diffs = None
        detail = 'model evaluation failed: %s' % str(err)[:500]
    chk.obligation('correspondence:tcpcl-session-model (per-op state digest, wire octets, D-Bus events, exceptions)',
                   diffs == [], detail)
    evaluate(chk, recs)
    broken = diffs or any(not okay for (_n, okay, _d) in chk.obligations)
    if broken and not chk.violations and search is not None and not chk.args.replay:
        # a proof obligation or the correspondence broke: look harder for a concrete failing input
        # (oracle only, ten times the budget) before reporting no-failing-input-found
        chk.coverage['search_after_break'] = True
        evaluate(chk, search(chk))
    if diffs and not chk.violations:
        for (rec, e, diff) in diffs[:2]:
            chk.fail('correspondence', 'model and implementation disagree at endpoint %s: %r' % (e, diff),
                     rec.replay_obj(), no_input=True)
    chk.finish(rule=rule, assumptions=ASSUMPTIONS)
