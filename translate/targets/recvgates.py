''' Translator target: the head of Agent.recv_bundle (the admission gates before the RX chain runs)
->  coq/Gen/RecvGates.v

Statements before the ``for step in self._rx_chain`` loop, in source order; logging calls and the pure
``ident = ctr.bundle_ident()`` are skipped, every other statement must be one of (fail closed otherwise):

    x = ctr.bundle.check_all_crc()  followed by  if x: <log>; return              -> GCrc
    if ctr.bundle.primary.source == self._config.node_id: <log>; return            -> GOwnSource
    if ident in self._seen_bundle_ident: <log>; return
    else: self._seen_bundle_ident.add(ident)                                         -> GSeenTest; GSeenRecord
    (a plain  self._seen_bundle_ident.add(ident)  statement)                         -> GSeenRecord
    ctr.record_action('receive')                                                     -> GReceive
'''
import ast
import os


class TranslateError(Exception):
    pass


def _is_log(stmt):
    return (isinstance(stmt, ast.Expr) and isinstance(stmt.value, ast.Call) and isinstance(stmt.value.func, ast.Attribute)
            and isinstance(stmt.value.func.value, ast.Attribute) and stmt.value.func.value.attr == '_logger')


def _dotted(node):
    parts = []
    while isinstance(node, ast.Attribute):
        parts.append(node.attr)
        node = node.value
    if not isinstance(node, ast.Name):
        return None
    parts.append(node.id)
    return '.'.join(reversed(parts))


def _only_return(body):
    rest = [item for item in body if not _is_log(item)]
    return len(rest) == 1 and isinstance(rest[0], ast.Return) and rest[0].value is None


def _is_seen_add(stmt, ident_name):
    return (isinstance(stmt, ast.Expr) and isinstance(stmt.value, ast.Call) and _dotted(stmt.value.func) == 'self._seen_bundle_ident.add'
            and len(stmt.value.args) == 1 and isinstance(stmt.value.args[0], ast.Name) and stmt.value.args[0].id == ident_name)


def collect(repo_src):
    with open(os.path.join(repo_src, 'bp', 'agent.py')) as infile:
        tree = ast.parse(infile.read())
    agent = [node for node in tree.body if isinstance(node, ast.ClassDef) and node.name == 'Agent']
    if not agent:
        raise TranslateError('class Agent not found')
    func = [node for node in agent[0].body if isinstance(node, ast.FunctionDef) and node.name == 'recv_bundle']
    if not func:
        raise TranslateError('Agent.recv_bundle not found')
    body = func[0].body
    if body and isinstance(body[0], ast.Expr) and isinstance(body[0].value, ast.Constant) and isinstance(body[0].value.value, str):
        body = body[1:]
    loops = [idx for (idx, stmt) in enumerate(body) if isinstance(stmt, ast.For) and _dotted(stmt.iter) == 'self._rx_chain']
    if len(loops) != 1:
        raise TranslateError('the RX chain loop was not found exactly once')
    head = [stmt for stmt in body[:loops[0]] if not _is_log(stmt)]
    gates = []
    ident_name = None
    crc_name = None
    for stmt in head:
        if (isinstance(stmt, ast.Assign) and len(stmt.targets) == 1 and isinstance(stmt.targets[0], ast.Name)
                and isinstance(stmt.value, ast.Call) and not stmt.value.args and not stmt.value.keywords):
            called = _dotted(stmt.value.func)
            if called == 'ctr.bundle.check_all_crc':
                crc_name = stmt.targets[0].id
                continue
            if called == 'ctr.bundle_ident':
                ident_name = stmt.targets[0].id
                continue
            raise TranslateError('unexpected assignment from %s()' % called)
        if isinstance(stmt, ast.If):
            test = stmt.test
            if isinstance(test, ast.Name) and crc_name is not None and test.id == crc_name and not stmt.orelse and _only_return(stmt.body):
                gates.append('GCrc')
                crc_name = None
                continue
            if (isinstance(test, ast.Compare) and len(test.ops) == 1 and isinstance(test.ops[0], ast.Eq)
                    and _dotted(test.left) == 'ctr.bundle.primary.source' and _dotted(test.comparators[0]) == 'self._config.node_id'
                    and not stmt.orelse and _only_return(stmt.body)):
                gates.append('GOwnSource')
                continue
            if (isinstance(test, ast.Compare) and len(test.ops) == 1 and isinstance(test.ops[0], ast.In)
                    and isinstance(test.left, ast.Name) and ident_name is not None and test.left.id == ident_name
                    and _dotted(test.comparators[0]) == 'self._seen_bundle_ident' and _only_return(stmt.body)):
                gates.append('GSeenTest')
                rest = [item for item in stmt.orelse if not _is_log(item)]
                if rest:
                    if len(rest) != 1 or not _is_seen_add(rest[0], ident_name):
                        raise TranslateError('the else branch of the seen test is not self._seen_bundle_ident.add(ident)')
                    gates.append('GSeenRecord')
                continue
            raise TranslateError('unexpected if-statement at line %d of recv_bundle' % stmt.lineno)
        if ident_name is not None and _is_seen_add(stmt, ident_name):
            gates.append('GSeenRecord')
            continue
        if (isinstance(stmt, ast.Expr) and isinstance(stmt.value, ast.Call) and _dotted(stmt.value.func) == 'ctr.record_action'
                and len(stmt.value.args) == 1 and isinstance(stmt.value.args[0], ast.Constant) and stmt.value.args[0].value == 'receive'):
            gates.append('GReceive')
            continue
        raise TranslateError('unexpected statement at line %d of recv_bundle: %s' % (stmt.lineno, ast.dump(stmt)[:80]))
    if crc_name is not None:
        raise TranslateError('check_all_crc() result is never tested')
    return gates


def generate(repo_src):
    gates = collect(repo_src)
    lines = ['(* GENERATED by translate/targets/recvgates.py from the head of Agent.recv_bundle (bp/agent.py): the',
             '   admission gates in source order.  Do not edit. *)',
             'From Coq Require Import List.',
             'Import ListNotations.',
             '',
             'Inductive gate := GCrc | GOwnSource | GSeenTest | GSeenRecord | GReceive.',
             '',
             'Definition recv_gates : list gate := [%s].' % '; '.join(gates),
             '']
    return {'Gen/RecvGates.v': '\n'.join(lines)}
