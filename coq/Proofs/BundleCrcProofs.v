(** Proofs for property C08 (block CRCs) over [Model/Bundle.v] and
    [Model/BundleCrc.v], using the CRC library ([Lib/Crc.v], [Lib/CrcProofs.v]).

    - transmit side: the output of [with_crc_*] (model of [update_crc]) carries,
      as its last 2/4 octets, the polynomial-specification CRC of the encoded
      block with those octets zeroed; CRC type 0 means no CRC item;
    - [crc_ok_* (with_crc_* x) = true];
    - receive side, under the canonical-re-encoding hypothesis: a burst of at
      most 16/32 bits in front of the CRC value, or any change of the CRC value
      itself, makes [crc_ok_*] false; the gate of the agent model then leaves
      the agent untouched;
    - the lax model of the implementation accepts a single-bit corruption
      ([detect_refuted]). *)
From Coq Require Import List NArith ZArith Arith Bool Lia ZifyBool ZifyN ZifyNat.
From DTN Require Import Lib.Bytes Lib.Cbor Lib.CborProofs Lib.Crc Lib.CrcProofs.
From DTN Require Import Model.Bundle Proofs.BundleProofs Model.BundleCrc.
From DTN Require Model.BpAgent Gen.CrcTable.
Import ListNotations.
Local Open Scope N_scope.

Ltac Zify.zify_post_hook ::= Z.div_mod_to_equations.

(** * Lists *)

Lemma app_eq_tail_len {A} (a c b d : list A) :
  a ++ b = c ++ d -> length b = length d -> a = c /\ b = d.
Proof.
  intros E L. apply app_eq_len; [|exact E].
  apply (f_equal (@length A)) in E. rewrite !app_length in E. lia.
Qed.

(** * Bursts survive a common suffix *)

Lemma is_burst_app_zeros w e k : is_burst w e -> is_burst w (e ++ zeros k).
Proof.
  intros (i & b & j & -> & Hl & Hin). exists i, b, (j + k)%nat. repeat split; auto.
  rewrite <- zeros_app, <- !app_assoc. reflexivity.
Qed.

Lemma burst_apart_app_r w a b s : burst_apart w a b -> burst_apart w (a ++ s) (b ++ s).
Proof.
  intros [Hl Hb]. split; [rewrite !app_length; lia|].
  rewrite !bits_of_bytes_app, xorl_app by (rewrite !bits_of_bytes_length; lia).
  rewrite xorl_nilpotent. apply is_burst_app_zeros. exact Hb.
Qed.

(** * Framing of an array whose last item is the CRC byte string *)

Lemma encode_arr_bstr_last its v :
  encode (CArr (its ++ [CBstr v])) = arr_pre its (length v) ++ v.
Proof.
  unfold arr_pre. rewrite encode_CArr, app_length, encode_seq_app. cbn [length].
  rewrite Nat.add_1_r. unfold encode_seq at 2. cbn [map concat encode].
  rewrite app_nil_r, <- !app_assoc. reflexivity.
Qed.

Lemma crc_field_1 x : crc_field 1 x = Some (crc16_x25_field x). Proof. reflexivity. Qed.
Lemma crc_field_2 x : crc_field 2 x = Some (crc32c_field x). Proof. reflexivity. Qed.
Lemma crc_zero_1 : crc_zero 1 = Some [0; 0]. Proof. reflexivity. Qed.
Lemma crc_zero_2 : crc_zero 2 = Some [0; 0; 0; 0]. Proof. reflexivity. Qed.
Lemma crc16_field_length x : length (crc16_x25_field x) = 2%nat. Proof. apply be_length. Qed.
Lemma crc32_field_length x : length (crc32c_field x) = 4%nat. Proof. apply be_length. Qed.

(** The CRC check of either block kind, on (items in front of the CRC item,
    CRC type, stored CRC). *)
Definition gen_ok (its : list cbor) (ct : N) (c : option bytes) : bool :=
  opt_bytes_eqb c (crc_field ct (encode (CArr (its ++ crc_items (crc_zero ct))))).

Lemma crc_ok_block_gen b : crc_ok_block b = gen_ok (cblock_head_items b) (bcrc_type b) (bcrc b).
Proof. destruct b. reflexivity. Qed.

Lemma crc_ok_primary_gen p : crc_ok_primary p = gen_ok (primary_head_items p) (crc_type p) (crc p).
Proof. destruct p. reflexivity. Qed.

Lemma encode_cblock_gen b : encode_cblock b = encode (CArr (cblock_head_items b ++ crc_items (bcrc b))).
Proof. destruct b. reflexivity. Qed.

Lemma encode_primary_gen p : encode_primary p = encode (CArr (primary_head_items p ++ crc_items (crc p))).
Proof. destruct p. reflexivity. Qed.

(** a passing check pins the stored value *)
Lemma gen_ok_16_inv its c : gen_ok its 1 c = true ->
  c = Some (crc16_x25_field (arr_pre its 2 ++ [0; 0])).
Proof.
  unfold gen_ok. rewrite crc_zero_1, crc_field_1. cbn [crc_items].
  rewrite (encode_arr_bstr_last its [0; 0]). cbn [length].
  destruct c as [v|]; cbn [opt_bytes_eqb]; [|discriminate].
  intros H. apply bytes_eqb_eq in H. now subst.
Qed.

Lemma gen_ok_32_inv its c : gen_ok its 2 c = true ->
  c = Some (crc32c_field (arr_pre its 4 ++ [0; 0; 0; 0])).
Proof.
  unfold gen_ok. rewrite crc_zero_2, crc_field_2. cbn [crc_items].
  rewrite (encode_arr_bstr_last its [0; 0; 0; 0]). cbn [length].
  destruct c as [v|]; cbn [opt_bytes_eqb]; [|discriminate].
  intros H. apply bytes_eqb_eq in H. now subst.
Qed.

(** ... and fixes how the encoding splits into "everything in front of the
    value" and the value *)
Lemma gen_ok_16_split its c pre v :
  gen_ok its 1 c = true -> encode (CArr (its ++ crc_items c)) = pre ++ v -> length v = 2%nat ->
  pre = arr_pre its 2 /\ v = crc16_x25_field (pre ++ [0; 0]).
Proof.
  intros H E L. apply gen_ok_16_inv in H. subst c. cbn [crc_items] in E.
  rewrite encode_arr_bstr_last, crc16_field_length in E.
  apply app_eq_tail_len in E; [|rewrite crc16_field_length; lia].
  destruct E as [<- <-]. split; reflexivity.
Qed.

Lemma gen_ok_32_split its c pre v :
  gen_ok its 2 c = true -> encode (CArr (its ++ crc_items c)) = pre ++ v -> length v = 4%nat ->
  pre = arr_pre its 4 /\ v = crc32c_field (pre ++ [0; 0; 0; 0]).
Proof.
  intros H E L. apply gen_ok_32_inv in H. subst c. cbn [crc_items] in E.
  rewrite encode_arr_bstr_last, crc32_field_length in E.
  apply app_eq_tail_len in E; [|rewrite crc32_field_length; lia].
  destruct E as [<- <-]. split; reflexivity.
Qed.

(** * Receive side, generic in the block kind *)

(** [pre ++ v]: a block with a valid CRC, [v] = the CRC value octets.
    [pre' ++ v']: the corrupted octets; [its'], [c'] the block they re-encode
    from.  Either the value is intact and [pre] suffered a short burst, or
    [pre] is intact and the value changed. *)
Lemma gen_detect_16 its c its' c' pre v pre' v' :
  gen_ok its 1 c = true -> encode (CArr (its ++ crc_items c)) = pre ++ v -> length v = 2%nat ->
  encode (CArr (its' ++ crc_items c')) = pre' ++ v' -> length v' = 2%nat ->
  (v' = v /\ burst_apart 16 pre pre') \/ (pre' = pre /\ v' <> v) ->
  gen_ok its' 1 c' = false.
Proof.
  intros H E L E' L' Hc. destruct (gen_ok its' 1 c') eqn:H'; [exfalso|reflexivity].
  destruct (gen_ok_16_split _ _ _ _ H E L) as [_ Hv].
  destruct (gen_ok_16_split _ _ _ _ H' E' L') as [_ Hv'].
  destruct Hc as [[-> Hb]|[-> Hne]].
  - apply (crc16_x25_field_burst (pre ++ [0; 0]) (pre' ++ [0; 0])); [now apply burst_apart_app_r|].
    now rewrite <- Hv, <- Hv'.
  - apply Hne. now rewrite Hv, Hv'.
Qed.

Lemma gen_detect_32 its c its' c' pre v pre' v' :
  gen_ok its 2 c = true -> encode (CArr (its ++ crc_items c)) = pre ++ v -> length v = 4%nat ->
  encode (CArr (its' ++ crc_items c')) = pre' ++ v' -> length v' = 4%nat ->
  (v' = v /\ burst_apart 32 pre pre') \/ (pre' = pre /\ v' <> v) ->
  gen_ok its' 2 c' = false.
Proof.
  intros H E L E' L' Hc. destruct (gen_ok its' 2 c') eqn:H'; [exfalso|reflexivity].
  destruct (gen_ok_32_split _ _ _ _ H E L) as [_ Hv].
  destruct (gen_ok_32_split _ _ _ _ H' E' L') as [_ Hv'].
  destruct Hc as [[-> Hb]|[-> Hne]].
  - apply (crc32c_field_burst (pre ++ [0; 0; 0; 0]) (pre' ++ [0; 0; 0; 0])); [now apply burst_apart_app_r|].
    now rewrite <- Hv, <- Hv'.
  - apply Hne. now rewrite Hv, Hv'.
Qed.

(** * Canonical blocks *)

Theorem detect_burst_block (b b' : cblock) (pre pre' v : bytes) :
  crc_ok_block b = true ->
  encode_cblock b = pre ++ v ->
  encode_cblock b' = pre' ++ v ->
  bcrc_type b' = bcrc_type b ->
  (bcrc_type b = 1 /\ length v = 2%nat /\ burst_apart 16 pre pre') \/
  (bcrc_type b = 2 /\ length v = 4%nat /\ burst_apart 32 pre pre') ->
  crc_ok_block b' = false.
Proof.
  rewrite !crc_ok_block_gen, !encode_cblock_gen. intros H E E' T [(T1 & L & B)|(T2 & L & B)].
  - rewrite T, T1 in *. eapply gen_detect_16; eauto.
  - rewrite T, T2 in *. eapply gen_detect_32; eauto.
Qed.

Theorem detect_field_block (b b' : cblock) (pre v v' : bytes) :
  crc_ok_block b = true ->
  encode_cblock b = pre ++ v ->
  encode_cblock b' = pre ++ v' ->
  bcrc_type b' = bcrc_type b ->
  length v' = length v -> v' <> v ->
  (bcrc_type b = 1 /\ length v = 2%nat) \/ (bcrc_type b = 2 /\ length v = 4%nat) ->
  crc_ok_block b' = false.
Proof.
  rewrite !crc_ok_block_gen, !encode_cblock_gen. intros H E E' T LL Hne [(T1 & L)|(T2 & L)].
  - rewrite T, T1 in *. eapply (gen_detect_16 _ _ _ _ pre v pre v'); eauto. lia.
  - rewrite T, T2 in *. eapply (gen_detect_32 _ _ _ _ pre v pre v'); eauto. lia.
Qed.

(** the same when the corrupted octets are read by the strict decoder: the
    re-encoding hypothesis is then automatic *)
Lemma strict_block_reencode bs c b :
  decode_one_strict bs = Some c -> cblock_of_cbor c = Some b -> encode_cblock b = bs.
Proof.
  intros D C. apply decode_one_strict_inv in D. apply cblock_of_cbor_inv in C.
  unfold encode_cblock. rewrite C. exact D.
Qed.

Corollary detect_burst_block_decoded (b b' : cblock) (pre pre' v : bytes) (c : cbor) :
  crc_ok_block b = true ->
  encode_cblock b = pre ++ v ->
  decode_one_strict (pre' ++ v) = Some c -> cblock_of_cbor c = Some b' ->
  bcrc_type b' = bcrc_type b ->
  (bcrc_type b = 1 /\ length v = 2%nat /\ burst_apart 16 pre pre') \/
  (bcrc_type b = 2 /\ length v = 4%nat /\ burst_apart 32 pre pre') ->
  crc_ok_block b' = false.
Proof.
  intros H E D C. apply (detect_burst_block b b' pre pre' v H E).
  eapply strict_block_reencode; eauto.
Qed.

(** * Primary block *)

Theorem detect_burst_primary (p p' : primary) (pre pre' v : bytes) :
  crc_ok_primary p = true ->
  encode_primary p = pre ++ v ->
  encode_primary p' = pre' ++ v ->
  crc_type p' = crc_type p ->
  (crc_type p = 1 /\ length v = 2%nat /\ burst_apart 16 pre pre') \/
  (crc_type p = 2 /\ length v = 4%nat /\ burst_apart 32 pre pre') ->
  crc_ok_primary p' = false.
Proof.
  rewrite !crc_ok_primary_gen, !encode_primary_gen. intros H E E' T [(T1 & L & B)|(T2 & L & B)].
  - rewrite T, T1 in *. eapply gen_detect_16; eauto.
  - rewrite T, T2 in *. eapply gen_detect_32; eauto.
Qed.

Theorem detect_field_primary (p p' : primary) (pre v v' : bytes) :
  crc_ok_primary p = true ->
  encode_primary p = pre ++ v ->
  encode_primary p' = pre ++ v' ->
  crc_type p' = crc_type p ->
  length v' = length v -> v' <> v ->
  (crc_type p = 1 /\ length v = 2%nat) \/ (crc_type p = 2 /\ length v = 4%nat) ->
  crc_ok_primary p' = false.
Proof.
  rewrite !crc_ok_primary_gen, !encode_primary_gen. intros H E E' T LL Hne [(T1 & L)|(T2 & L)].
  - rewrite T, T1 in *. eapply (gen_detect_16 _ _ _ _ pre v pre v'); eauto. lia.
  - rewrite T, T2 in *. eapply (gen_detect_32 _ _ _ _ pre v pre v'); eauto. lia.
Qed.

(** * Transmit side *)

Lemma gen_valid_octets its ct :
  crc_valid_octets ct (encode (CArr (its ++ crc_items (crc_field ct (encode (CArr (its ++ crc_items (crc_zero ct)))))))).
Proof.
  split; intros ->.
  - rewrite crc_zero_1, crc_field_1. cbn [crc_items].
    rewrite (encode_arr_bstr_last its [0; 0]), encode_arr_bstr_last, crc16_field_length. cbn [length].
    exists (arr_pre its 2). unfold crc16_x25_field. rewrite crc16_x25_spec. reflexivity.
  - rewrite crc_zero_2, crc_field_2. cbn [crc_items].
    rewrite (encode_arr_bstr_last its [0; 0; 0; 0]), encode_arr_bstr_last, crc32_field_length. cbn [length].
    exists (arr_pre its 4). unfold crc32c_field. rewrite crc32c_spec. reflexivity.
Qed.

Theorem tx_valid_block (b : cblock) : crc_valid_octets (bcrc_type b) (encode_cblock (with_crc_block b)).
Proof. destruct b. apply gen_valid_octets. Qed.

Theorem tx_valid_primary (p : primary) : crc_valid_octets (crc_type p) (encode_primary (with_crc_primary p)).
Proof.
  destruct p as [v f ct d s r t q lt fr c].
  exact (gen_valid_octets (primary_head_items (mkPrimary v f ct d s r t q lt fr c)) ct).
Qed.

Theorem tx_valid_bundle (b : bundle) :
  encode_bundle (with_crc_bundle b) =
    159 :: encode_primary (with_crc_primary (prim b))
        ++ concat (map (fun blk => encode_cblock (with_crc_block blk)) (blocks b)) ++ [255]
  /\ crc_valid_octets (crc_type (prim b)) (encode_primary (with_crc_primary (prim b)))
  /\ Forall (fun blk => crc_valid_octets (bcrc_type blk) (encode_cblock (with_crc_block blk))) (blocks b).
Proof.
  split; [|split].
  - unfold encode_bundle, encode_indef_arr, bundle_items, with_crc_bundle. cbn [prim blocks].
    rewrite encode_seq_cons. unfold encode_seq. rewrite !map_map, <- app_assoc. reflexivity.
  - apply tx_valid_primary.
  - apply Forall_forall. intros blk _. apply tx_valid_block.
Qed.

(** the zeroed message is the encoding of the block with a zero CRC field *)
Lemma gen_zeroed its ct pre v :
  ct = 1 \/ ct = 2 ->
  encode (CArr (its ++ crc_items (crc_field ct (encode (CArr (its ++ crc_items (crc_zero ct))))))) = pre ++ v ->
  length v = crc_width ct ->
  encode (CArr (its ++ crc_items (crc_zero ct))) = pre ++ repeat 0 (crc_width ct).
Proof.
  intros [-> | ->] E L.
  - rewrite crc_field_1 in E. rewrite crc_zero_1 in *. cbn [crc_items] in *.
    change (crc_width 1) with 2%nat in *. cbn [repeat].
    rewrite encode_arr_bstr_last in E. rewrite (encode_arr_bstr_last _ [0; 0]).
    rewrite crc16_field_length in E. apply app_eq_tail_len in E; [|rewrite crc16_field_length; lia].
    destruct E as [<- _]. reflexivity.
  - rewrite crc_field_2 in E. rewrite crc_zero_2 in *. cbn [crc_items] in *.
    change (crc_width 2) with 4%nat in *. cbn [repeat].
    rewrite encode_arr_bstr_last in E. rewrite (encode_arr_bstr_last _ [0; 0; 0; 0]).
    rewrite crc32_field_length in E. apply app_eq_tail_len in E; [|rewrite crc32_field_length; lia].
    destruct E as [<- _]. reflexivity.
Qed.

Theorem tx_zeroed_block (b : cblock) (pre v : bytes) :
  bcrc_type b = 1 \/ bcrc_type b = 2 ->
  encode_cblock (with_crc_block b) = pre ++ v -> length v = crc_width (bcrc_type b) ->
  encode_cblock (zero_block b) = pre ++ repeat 0 (crc_width (bcrc_type b)).
Proof.
  destruct b as [t n f ct d c].
  exact (gen_zeroed (cblock_head_items (mkCBlock t n f ct d c)) ct pre v).
Qed.

Theorem tx_zeroed_primary (p : primary) (pre v : bytes) :
  crc_type p = 1 \/ crc_type p = 2 ->
  encode_primary (with_crc_primary p) = pre ++ v -> length v = crc_width (crc_type p) ->
  encode_primary (zero_primary p) = pre ++ repeat 0 (crc_width (crc_type p)).
Proof.
  destruct p as [ve f ct d s r t q lt fr c].
  exact (gen_zeroed (primary_head_items (mkPrimary ve f ct d s r t q lt fr c)) ct pre v).
Qed.

(** CRC type 0: no CRC item *)
Theorem type0_block (b : cblock) : bcrc_type b = 0 ->
  bcrc (with_crc_block b) = None
  /\ length (cblock_items (with_crc_block b)) = 5%nat
  /\ hd_error (encode_cblock (with_crc_block b)) = Some 133.
Proof. destruct b as [t n f ct d c]. cbn [bcrc_type]. intros ->. repeat split. Qed.

Theorem type0_primary (p : primary) : crc_type p = 0 ->
  crc (with_crc_primary p) = None
  /\ length (primary_items (with_crc_primary p)) = match frag p with Some _ => 10%nat | None => 8%nat end.
Proof. destruct p as [v f ct d s r t q lt fr c]. cbn [crc_type frag]. intros ->. split; [reflexivity|]. destruct fr as [[o tt]|]; reflexivity. Qed.

(** non-zero type: exactly one more item, a byte string of the CRC width *)
Theorem typeN_block (b : cblock) : bcrc_type b = 1 \/ bcrc_type b = 2 ->
  length (cblock_items (with_crc_block b)) = 6%nat
  /\ exists v, bcrc (with_crc_block b) = Some v /\ length v = crc_width (bcrc_type b).
Proof.
  destruct b as [t n f ct d c]. cbn [bcrc_type]. intros [-> | ->]; (split; [reflexivity|]).
  - eexists. split; [reflexivity|]. apply be_length.
  - eexists. split; [reflexivity|]. apply be_length.
Qed.

(** * The check accepts what [with_crc_*] produced *)

Theorem check_accepts_block (b : cblock) : crc_ok_block (with_crc_block b) = true.
Proof.
  destruct b as [t n f ct d c]. unfold crc_ok_block, with_crc_block. cbn [bcrc bcrc_type set_bcrc btype bnum bflags btsd].
  destruct (crc_field ct _); cbn [opt_bytes_eqb]; [apply bytes_eqb_refl|reflexivity].
Qed.

Theorem check_accepts_primary (p : primary) : crc_ok_primary (with_crc_primary p) = true.
Proof.
  destruct p as [v f ct d s r t q lt fr c]. unfold crc_ok_primary, with_crc_primary.
  cbn [crc crc_type set_crc version flags dest src report_to create_time create_seq lifetime frag].
  destruct (crc_field ct _); cbn [opt_bytes_eqb]; [apply bytes_eqb_refl|reflexivity].
Qed.

Theorem check_accepts_bundle (b : bundle) : crc_ok_bundle (with_crc_bundle b) = true.
Proof.
  unfold crc_ok_bundle, with_crc_bundle. cbn [prim blocks]. rewrite check_accepts_primary. cbn [andb].
  rewrite forallb_forall. intros x Hx. apply in_map_iff in Hx. destruct Hx as (y & <- & _).
  apply check_accepts_block.
Qed.

(** * The gate of the agent model *)

Lemma crc_ok_bundle_false_block (bu : bundle) (blk : cblock) :
  In blk (blocks bu) -> crc_ok_block blk = false -> crc_ok_bundle bu = false.
Proof.
  intros Hin Hf. unfold crc_ok_bundle. apply andb_false_iff. right.
  destruct (forallb crc_ok_block (blocks bu)) eqn:E; [|reflexivity].
  rewrite forallb_forall in E. rewrite (E blk Hin) in Hf. discriminate.
Qed.

Lemma crc_ok_bundle_false_primary (bu : bundle) :
  crc_ok_primary (prim bu) = false -> crc_ok_bundle bu = false.
Proof. intros Hf. unfold crc_ok_bundle. rewrite Hf. reflexivity. Qed.

(** [ab]: the agent model's view of the received bundle [bu]; its [b_crc_ok]
    input is the codec model's [crc_ok_bundle]. *)
Theorem gate_first (matches : N -> BpAgent.eid -> bool) (a : BpAgent.agent) (ab : BpAgent.bundle) (bu : bundle) :
  BpAgent.b_crc_ok ab = crc_ok_bundle bu ->
  crc_ok_primary (prim bu) = false \/ (exists blk, In blk (blocks bu) /\ crc_ok_block blk = false) ->
  BpAgent.recv matches a ab = (a, [(ab, [])]).
Proof.
  intros Hv Hbad.
  assert (Hc : BpAgent.b_crc_ok ab = false).
  { rewrite Hv. destruct Hbad as [Hp|(blk & Hin & Hb)].
    - now apply crc_ok_bundle_false_primary.
    - now apply (crc_ok_bundle_false_block bu blk). }
  unfold BpAgent.recv, BpAgent.recv_core, BpAgent.accepted. rewrite Hc. reflexivity.
Qed.

(** * Non-vacuity of the receive-side hypotheses *)

(** payload block "hello", CRC-16; the corrupted one carries "hellp" *)
Definition ex_block : cblock := with_crc_block (mkCBlock 1 1 0 1 [104; 101; 108; 108; 111] None).
Definition ex_block' : cblock := set_bcrc (mkCBlock 1 1 0 1 [104; 101; 108; 108; 112] None) (bcrc ex_block).
Definition ex_pre : bytes := [134; 1; 1; 0; 1; 69; 104; 101; 108; 108] ++ [111] ++ [66].
Definition ex_pre' : bytes := [134; 1; 1; 0; 1; 69; 104; 101; 108; 108] ++ [112] ++ [66].

Example detect_burst_block_hyps :
  crc_ok_block ex_block = true
  /\ (exists v, encode_cblock ex_block = ex_pre ++ v /\ encode_cblock ex_block' = ex_pre' ++ v /\ length v = 2%nat)
  /\ bcrc_type ex_block' = bcrc_type ex_block /\ bcrc_type ex_block = 1
  /\ burst_apart 16 ex_pre ex_pre'
  /\ crc_ok_block ex_block' = false.
Proof.
  split; [vm_compute; reflexivity|]. split.
  { exists (ren_crc (bcrc ex_block)). vm_compute. repeat split. }
  split; [vm_compute; reflexivity|]. split; [vm_compute; reflexivity|]. split.
  { unfold ex_pre, ex_pre'.
    apply burst_apart_window; try (cbn; lia); try discriminate; repeat constructor; unfold wf_byte; lia. }
  vm_compute; reflexivity.
Qed.

(** CRC-32 and the primary block: the real bundle of [BundleProofs] *)
Example detect_hyps_real_bundle :
  crc_ok_primary (prim real_bundle) = true /\ crc_type (prim real_bundle) = 2
  /\ Forall (fun b => crc_ok_block b = true) (blocks real_bundle)
  /\ map bcrc_type (blocks real_bundle) = [1; 0; 2].
Proof.
  split; [vm_compute; reflexivity|]. split; [vm_compute; reflexivity|]. split; [|vm_compute; reflexivity].
  repeat (apply Forall_cons; [vm_compute; reflexivity|]). apply Forall_nil.
Qed.

(** * The implementation's (lax) check does not detect every single-bit flip *)

(** valid bundle, every block CRC-16, payload " 0e" *)
Definition witness_bundle : bundle :=
  with_crc_bundle
    (mkBundle (mkPrimary 7 0 1 (EidDtn [47;47;109;101;47;97;112;112]) (EidDtn [47;47;97;47]) EidDtnNone
                         1000 1 3600000 None None)
              [mkCBlock 1 1 0 1 [32; 48; 101] None]).
Definition witness_octets : bytes :=
  unhex 52 0x9f890700018201682f2f6d652f6170708201642f2f612f820100821903e8011a0036ee8042ca5b860101000143203065424b7eff.
(** bit 5 (0x20) of octet 44, the head of the payload block's BTSD: bstr(3) -> tstr(3) *)
Definition witness_corrupted : bytes := xor_at 44 [32] witness_octets.

Theorem detect_refuted :
  wf_bundle witness_bundle /\ crc_ok_bundle witness_bundle = true
  /\ crc_type (prim witness_bundle) = 1 /\ map bcrc_type (blocks witness_bundle) = [1]
  /\ encode_bundle witness_bundle = witness_octets
  /\ (* the flipped octet lies inside the CRC-16 protected payload block, in front of its CRC value *)
     (exists pre blk, witness_octets = pre ++ blk ++ [255] /\ blk = encode_cblock (with_crc_block (mkCBlock 1 1 0 1 [32; 48; 101] None))
                      /\ length pre = 39%nat /\ length blk = 12%nat)
  /\ (* the received octets fail the RFC 9171 check of an independent receiver ... *)
     crc16_x25 (firstn 10 (skipn 39 witness_corrupted) ++ [0; 0]) <> unbe (firstn 2 (skipn 49 witness_corrupted))
  /\ (* ... but the implementation's check, done on the re-encoding of what it decoded, passes *)
     lax_verdict witness_corrupted = 2
  /\ (exists p lb, lax_decode_bundle witness_corrupted = Some (p, [lb]) /\ l_btsd lb = None
                   /\ lax_crc_ok_block lb = true /\ lblock_reencode lb <> firstn 12 (skipn 39 witness_corrupted)).
Proof.
  split; [apply wf_bundleb_spec; vm_compute; reflexivity|].
  split; [vm_compute; reflexivity|]. split; [vm_compute; reflexivity|]. split; [vm_compute; reflexivity|].
  split; [vm_compute; reflexivity|]. split.
  - exists (firstn 39 witness_octets), (firstn 12 (skipn 39 witness_octets)). vm_compute. repeat split.
  - split; [vm_compute; discriminate|]. split; [vm_compute; reflexivity|].
    eexists. eexists. split; [vm_compute; reflexivity|]. split; [vm_compute; reflexivity|].
    split; [vm_compute; reflexivity|]. vm_compute. discriminate.
Qed.

(** value-preserving re-spelling: type code 0x01 -> 0xf5 (CBOR true, read as 1) *)
Theorem detect_refuted_same_value :
  lax_verdict (xor_at 40 [244] witness_octets) = 2
  /\ (exists p lb, lax_decode_bundle (xor_at 40 [244] witness_octets) = Some (p, [lb])
                   /\ lblock_reencode lb = firstn 12 (skipn 39 witness_octets)
                   /\ lblock_reencode lb <> firstn 12 (skipn 39 (xor_at 40 [244] witness_octets))).
Proof.
  split; [vm_compute; reflexivity|]. eexists. eexists. split; [vm_compute; reflexivity|].
  split; [vm_compute; reflexivity|]. vm_compute. discriminate.
Qed.

(** altered EID normalised back: source //a/ -> //a? (one bit, octet 26, inside
    the CRC-16 primary block) *)
Definition eid_witness_octets : bytes :=
  unhex 91 0x9f89071a00064000018201682f2f6d652f6170708201642f2f612f8201672f2f612f727074821903e8011a0036ee8042b3f38601010001581e0102030102030102030102030102030102030102030102030102030102034261f3ff.

Theorem detect_refuted_eid :
  strict_verdict eid_witness_octets = (2, true)
  /\ lax_verdict (xor_at 26 [16] eid_witness_octets) = 2
  /\ (exists b, decode_bundle (xor_at 26 [16] eid_witness_octets) = Some b
                /\ src (prim b) = EidDtn [47; 47; 97; 63]
                /\ crc_ok_primary (prim b) = false
                /\ crc_ok_primary (impl_norm_primary (prim b)) = true
                /\ encode_primary (impl_norm_primary (prim b)) = firstn 49 (skipn 1 eid_witness_octets)).
Proof.
  split; [vm_compute; reflexivity|]. split; [vm_compute; reflexivity|].
  eexists. split; [vm_compute; reflexivity|]. repeat (split; [vm_compute; reflexivity|]). vm_compute; reflexivity.
Qed.

(** On strictly decoded octets the lax reading agrees with the codec model. *)
Lemma lax_of_strict_block (b : cblock) :
  (bcrc_type b = 0 /\ bcrc b = None) \/ bcrc_type b = 1 \/ bcrc_type b = 2 ->
  lax_crc_ok_block (lblock_of_cblock b) = crc_ok_block b.
Proof.
  destruct b as [t n f ct d c]. cbn [bcrc_type bcrc].
  intros [[-> ->]|[-> | ->]]; [reflexivity| |]; destruct c as [v|]; reflexivity.
Qed.

(** * Left-over or missing items of a canonical block array are rejected by both readings *)

Lemma strict_block_arity c b : cblock_of_cbor c = Some b -> block_arity_bad c = false.
Proof.
  destruct c as [| | | |l| | |]; cbn [cblock_of_cbor]; try discriminate.
  unfold cblock_of_items.
  destruct (pop_uint l) as [[t l1]|] eqn:E1; [|discriminate]. apply pop_uint_inv in E1. subst l.
  destruct (pop_uint l1) as [[n l2]|] eqn:E2; [|discriminate]. apply pop_uint_inv in E2. subst l1.
  destruct (pop_uint l2) as [[f l3]|] eqn:E3; [|discriminate]. apply pop_uint_inv in E3. subst l2.
  destruct (pop_uint l3) as [[ct l4]|] eqn:E4; [|discriminate]. apply pop_uint_inv in E4. subst l3.
  destruct (pop_bstr l4) as [[d l5]|] eqn:E5; [|discriminate]. apply pop_bstr_inv in E5. subst l4.
  destruct (crc_type_ok ct); [|discriminate].
  destruct (end_crc ct l5) as [c|] eqn:E6; [|discriminate]. intros _.
  apply end_crc_inv in E6. destruct E6 as [-> Hc].
  cbn [block_arity_bad nth_error length]. destruct c as [v|]; cbn [crc_items length].
  - destruct (N.eqb_spec ct 0) as [H0|H0]; [|reflexivity]. apply Hc in H0. discriminate.
  - rewrite (proj1 Hc eq_refl). reflexivity.
Qed.

Lemma lax_block_arity c b : lblock_of_cbor c = Some b -> block_arity_bad c = false.
Proof.
  destruct c as [| | | |l| | |]; cbn [lblock_of_cbor]; try discriminate.
  unfold lblock_of_items, lblock_head.
  destruct l as [|t [|n [|f [|ct0 [|d rest]]]]]; try discriminate.
  destruct (lax_uint t); [|discriminate]. destruct (lax_uint n); [|discriminate].
  destruct (lax_uint f); [|discriminate]. destruct (lax_uint ct0) as [ct|] eqn:Ect; [|discriminate].
  destruct (lax_bstr d); [|discriminate].
  cbn [block_arity_bad nth_error].
  destruct ct0 as [x| | | | | | |]; try (intros _; reflexivity).
  cbn [lax_uint] in Ect. injection Ect as ->.
  destruct (ct =? 0) eqn:E0.
  - destruct rest; [intros _; reflexivity|discriminate].
  - destruct ((ct =? 1) || (ct =? 2)); [|discriminate].
    destruct rest as [|v [|w rest]]; try discriminate. intros _. reflexivity.
Qed.

Lemma cblocks_of_arity : forall l bl, cblocks_of l = Some bl -> existsb block_arity_bad l = false.
Proof.
  induction l as [|c l IH]; intros bl H; [reflexivity|]. cbn [cblocks_of] in H.
  destruct (cblock_of_cbor c) as [b|] eqn:E; [|discriminate].
  destruct (cblocks_of l) as [r|] eqn:E2; [|discriminate].
  cbn [existsb]. rewrite (strict_block_arity c b E), (IH r eq_refl). reflexivity.
Qed.

Lemma lblocks_of_arity : forall l bl, lblocks_of l = Some bl -> existsb block_arity_bad l = false.
Proof.
  induction l as [|c l IH]; intros bl H; [reflexivity|]. cbn [lblocks_of] in H.
  destruct (lblock_of_cbor c) as [b|] eqn:E; [|discriminate].
  destruct (lblocks_of l) as [r|] eqn:E2; [|discriminate].
  cbn [existsb]. rewrite (lax_block_arity c b E), (IH r eq_refl). reflexivity.
Qed.

(** a canonical block array with left-over (or missing) items: no reading of the
    model decodes the bundle *)
Theorem arity_bad_rejected (bs : bytes) :
  arity_verdict bs = 1 -> decode_bundle bs = None /\ lax_decode_bundle bs = None.
Proof.
  unfold arity_verdict, decode_bundle, lax_decode_bundle.
  destruct (decode bundle_fuel bs) as [[c tl]|]; [|discriminate].
  destruct c as [| | | |l| | |]; try discriminate. destruct l as [|p rest]; [discriminate|].
  destruct (existsb block_arity_bad rest) eqn:E; [intros _|discriminate]. split.
  - cbn [bundle_of_cbor bundle_of_items]. destruct p as [| | | |pl| | |]; try reflexivity.
    destruct (primary_of_items pl); [|reflexivity].
    destruct (cblocks_of rest) as [bl|] eqn:E2; [|reflexivity].
    rewrite (cblocks_of_arity rest bl E2) in E. discriminate.
  - destruct p as [| | | |pl| | |]; try reflexivity.
    destruct (primary_of_items pl) as [pp|]; [|reflexivity]. destruct (is_admin pp); [reflexivity|].
    destruct (lblocks_of rest) as [bl|] eqn:E2; [|reflexivity].
    rewrite (lblocks_of_arity rest bl E2) in E. discriminate.
Qed.

(** the two structural single-bit corruptions of the corpus: next block swallowed
    (head 0x86 -> 0x87) and CRC type 2 -> 0 with the CRC item left over *)
Definition arity_witness_octets : bytes :=
  unhex 109 0x9f89071a00024004028201682f2f6d652f782f798201692f2f6e6f64652d622f820100821b000000a2fb40580c171903e844381fb39786071901000002491bffffffffffffffff44e583d6cb8601010101570c5fd276561a2dbcfcd9ef5abe279084381624cee40350427212ff.

Example arity_bad_nonvacuous :
  arity_verdict arity_witness_octets = 2 /\ strict_verdict arity_witness_octets = (2, true)
  /\ arity_verdict (xor_at 54 [1] arity_witness_octets) = 1
  /\ arity_verdict (xor_at 60 [2] arity_witness_octets) = 1.
Proof. repeat (split; [vm_compute; reflexivity|]). vm_compute; reflexivity. Qed.

(** * The table translated from [blocks.py] is the one the model uses *)

Theorem gen_table_field (ct : N) (bs : bytes) : CrcTable.gen_crc_field ct bs = crc_field ct bs.
Proof.
  unfold CrcTable.gen_crc_field, crc_field, CrcTable.CRCTYPE_CRC16, CrcTable.CRCTYPE_CRC32.
  destruct (ct =? 1); [reflexivity|]. destruct (ct =? 2); reflexivity.
Qed.

Theorem gen_table_types (ct : N) : In ct CrcTable.crc_type_values <-> crc_type_ok ct = true.
Proof.
  unfold CrcTable.crc_type_values, crc_type_ok. cbn [In]. rewrite N.ltb_lt. lia.
Qed.

Theorem gen_table_zero (ct : N) : In ct CrcTable.crc_type_values ->
  CrcTable.gen_crc_zero ct = crc_zero ct /\ CrcTable.gen_crc_width ct = crc_width ct.
Proof.
  unfold CrcTable.crc_type_values. cbn [In]. intros [<-|[<-|[<-|[]]]]; split; reflexivity.
Qed.

