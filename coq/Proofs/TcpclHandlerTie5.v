(** Tie between the endpoint model's [send_next] and the segment-producing part
    of ContactHandler._process_queue of tcpcl/session.py, regenerated on every
    run (Gen/TcpclSendNext.v): which segment is sent (flags, transfer-length
    extension, how many octets from which offset), the new offset, and whether
    the item moves to the set awaiting the final acknowledgement. *)
From Coq Require Import ZArith NArith List Bool Lia ZifyBool ZifyN ZifyNat Arith.
From RecordUpdate Require Import RecordSet.
From DTN Require Import Lib.Bytes Model.TcpclMsg Model.TcpclSess Gen.TcpclSendNext Proofs.TcpclSessBasics.
Import ListNotations RecordSetNotations.
Ltac Zify.zify_post_hook ::= Z.div_mod_to_equations.
Local Open Scope N_scope.

Lemma firstn_min {A} n (l : list A) : firstn (Nat.min n (length l)) l = firstn n l.
Proof.
  destruct (Nat.le_gt_cases n (length l)) as [H|H].
  - rewrite Nat.min_l by exact H. reflexivity.
  - rewrite Nat.min_r by lia. rewrite firstn_all, firstn_all2 by lia. reflexivity.
Qed.

(** Reading up to [sz] octets from offset [off] of a file holding [data]. *)
Lemma read_len (sz off : N) (data : bytes) :
  N.of_nat (length (firstn (N.to_nat sz) (skipn (N.to_nat off) data)))
  = N.min sz (N.of_nat (length data) - off).
Proof. rewrite firstn_length, skipn_length. lia. Qed.

Lemma read_seg (sz off : N) (data : bytes) :
  firstn (N.to_nat (N.min sz (N.of_nat (length data) - off))) (skipn (N.to_nat off) data)
  = firstn (N.to_nat sz) (skipn (N.to_nat off) data).
Proof.
  rewrite <- (firstn_min (N.to_nat sz)). f_equal. rewrite skipn_length. lia.
Qed.

Theorem tie_send_next s id data : tx_tmp s = Some (id, data) ->
  send_next s =
  match gen_send_next (seg_size s) (tx_len s) (N.of_nat (length data)) true false with
  | None => s
  | Some o =>
      let seg := firstn (N.to_nat (so_dlen o)) (skipn (N.to_nat (tx_len s)) data) in
      let ext := match so_ext_total o with Some t => total_length_ext t | None => [] end in
      let s1 := send_msg (MXferSeg (so_flags o) id ext seg) (s <| tx_len := so_newlen o |>) in
      if so_moved o
      then pq_trigger (s1 <| pend_ack := pend_ack s1 ++ [id] |> <| tx_tmp := None |> <| tx_len := 0 |>)
      else s1
  end.
Proof.
  intros H. unfold send_next. rewrite H. unfold gen_send_next.
  destruct ((tx_len s =? N.of_nat (length data)) && (0 <? tx_len s)); [reflexivity|].
  cbv zeta. cbn [so_flags so_ext_total so_dlen so_newlen so_moved].
  rewrite read_seg, read_len.
  unfold FLAG_START, FLAG_END.
  destruct (tx_len s =? 0);
    destruct (tx_len s + N.min (seg_size s) (N.of_nat (length data) - tx_len s) =? N.of_nat (length data)).
  - change (N.lor (N.lor 0 2) 1) with 3. change (2 + 1) with 3. change (has_end 3) with true. cbv iota. reflexivity.
  - change (N.lor 0 2) with 2. change (2 + 0) with 2. change (has_end 2) with false. cbv iota. reflexivity.
  - change (N.lor 0 1) with 1. change (0 + 1) with 1. change (has_end 1) with true. cbv iota. reflexivity.
  - change (0 + 0) with 0. change (has_end 0) with false. cbv iota. reflexivity.
Qed.

(** With the acknowledgement switch on and the test extension off (how the
    endpoint model runs) the other two outputs are off. *)
Theorem tie_send_next_switches sz off total o :
  gen_send_next sz off total true false = Some o -> so_priv o = false /\ so_unack o = false.
Proof.
  unfold gen_send_next. destruct ((off =? total) && (0 <? off)); [discriminate|]. cbv zeta.
  intros E. inversion E. cbn. rewrite andb_false_r. split; reflexivity.
Qed.
