(** TCPCL endpoint model: more field-by-field facts (receive buffer, transfer
    ids, transmit queue), used for the well-formedness of the frames sent. *)
From Coq Require Import ZArith NArith List Bool Lia ZifyBool ZifyN ZifyNat Arith.
From RecordUpdate Require Import RecordSet.
From DTN Require Import Lib.Bytes Model.TcpclMsg Model.TcpclSess Proofs.TcpclSessBasics
  Proofs.TcpclSentProofs1 Proofs.TcpclSentProofs2 Proofs.TcpclSentProofs3 Proofs.TcpclSentProofs4
  Proofs.TcpclSentProofs5 Proofs.TcpclSentProofs6 Proofs.TcpclSentProofs7 Proofs.TcpclSentProofs8 Proofs.TcpclSentProofs9 Proofs.TcpclSentProofs10 Proofs.TcpclSentProofs11 Proofs.TcpclSentProofs12 Proofs.TcpclSentProofs13.
Import ListNotations RecordSetNotations.
Ltac Zify.zify_post_hook ::= Z.div_mod_to_equations.
Local Open Scope N_scope.


Lemma rx_buf_recv_frame f s : rx_buf (fst (recv_frame f s)) = rx_buf s.
Proof. hm_unfold. destruct f as [c|m]; [|destruct m]; p_split; sum_leaf. Qed.

Lemma next_id_recv_frame f s : next_id (fst (recv_frame f s)) = next_id s.
Proof. hm_unfold. destruct f as [c|m]; [|destruct m]; p_split; sum_leaf. Qed.

Lemma dict_del_Forall {V} (P : N * V -> Prop) k d : Forall P d -> Forall P (dict_del k d).
Proof.
  induction 1 as [|[k' v'] d Hx Hd IH]; cbn [dict_del]; [constructor|].
  destruct (k' =? k); [exact Hd|constructor; assumption].
Qed.

Lemma pend_start_recv_frame (P : N * bytes -> Prop) f s :
  Forall P (pend_start s) -> Forall P (pend_start (fst (recv_frame f s))).
Proof.
  hm_unfold. destruct f as [c|m]; [|destruct m]; p_split; unfold close_pend; p_split; intros H; try exact H; try constructor;
    try (apply dict_del_Forall; exact H).
Qed.

Lemma rx_buf_step_o o s : not_rx o = true -> rx_buf (step s o) = rx_buf s.
Proof. intros Ho. destruct o; try discriminate Ho; st_unfold; p_split; s_leaf. Qed.

Lemma next_id_step_o o s : closed s = false -> not_rx o = true ->
  next_id (step s o) = match o with OSend _ => if in_term s then next_id s else next_id s + 1 | _ => next_id s end.
Proof. intros Hc Ho. destruct o; try discriminate Ho; st_unfold; rewrite ?Hc; p_split; s_leaf. Qed.

Lemma pend_start_step_o (P : N * bytes -> Prop) o s : not_rx o = true ->
  Forall P (pend_start s) -> (forall d, o = OSend d -> in_term s = false -> P (next_id s, d)) ->
  Forall P (pend_start (step s o)).
Proof.
  intros Ho. destruct o; try discriminate Ho; st_unfold; p_split; unfold close_pend; p_split; intros H Hs; try exact H;
    try constructor;
    try (apply Forall_app; split; [exact H|constructor; [apply Hs; reflexivity|constructor]]);
    try (match goal with E : pend_start s = _ :: _ |- _ => rewrite E in H; inversion H; assumption end);
    try (match goal with E : pend_start s = [] |- _ => rewrite E; constructor end);
    try (inversion H; assumption).
Qed.

Lemma tx_tmp_step_o_origin o s it : not_rx o = true ->
  tx_tmp (step s o) = Some it -> tx_tmp s = Some it \/ In it (pend_start s).
Proof.
  intros Ho. destruct o; try discriminate Ho; st_unfold; p_split; intros H; auto; try discriminate H;
    try (left; congruence);
    try (match goal with E : pend_start s = _ :: _ |- _ => right; rewrite E; left; congruence end);
    try (right; left; congruence).
Qed.
