(** TCPCL endpoint model: what handling the contact header does. *)
From Coq Require Import ZArith NArith List Bool Lia ZifyBool ZifyN ZifyNat Arith.
From RecordUpdate Require Import RecordSet.
From DTN Require Import Lib.Bytes Model.TcpclMsg Model.TcpclSess Proofs.TcpclSessBasics Proofs.TcpclSentProofs1 Proofs.TcpclSentProofs2 Proofs.TcpclSentProofs3.
Import ListNotations RecordSetNotations.
Ltac Zify.zify_post_hook ::= Z.div_mod_to_equations.
Local Open Scope N_scope.

(** * Handling the contact header *)

Definition tls_close (s : ep) : bool := match c_require_tls (cf s) with Some true => true | _ => false end.
Definition ch_proceed (c : contact) (s : ep) : bool :=
  contact_ok c && (c_passive (cf s) || match conhead_this s with Some _ => true | None => false end).
Definition CH : frame := FContact (mkContact MAGIC 4 0).

Definition out_contact (c : contact) (s : ep) : list frame :=
  if contact_ok c then
    (if c_passive (cf s) then [CH] else [])
    ++ (if ch_proceed c s && negb (tls_close s) && negb (c_passive (cf s)) then [FMsg (sess_init_msg (cf s))] else [])
  else [].

Ltac bool_contra :=
  exfalso;
  repeat match goal with
         | H : ?x = ?v, H' : context [?x] |- _ =>
             lazymatch type of H' with x = _ => fail | _ => rewrite H in H' end
         end;
  cbn [andb orb negb] in *; congruence.
Ltac c_leaf := cbn [app map concat]; sum_leaf; bool_leaf; try bool_contra.
Ltac hc_unfold := hm_unfold; unfold out_contact, ch_proceed, tls_close, contact_ok, CH, contact_flags, sess_init_msg.

Lemma sent_recv_contact c s : sent (fst (recv_frame (FContact c) s)) = sent s ++ out_contact c s.
Proof. hc_unfold. p_split; c_leaf. Qed.

Lemma msg_tx_recv_contact c s :
  msg_tx (fst (recv_frame (FContact c) s)) = msg_tx s ++ concat (map encode_frame (out_contact c s)).
Proof. hc_unfold. p_split; c_leaf. Qed.

Lemma in_conn_recv_contact c s : in_conn (fst (recv_frame (FContact c) s)) = in_conn s || ch_proceed c s.
Proof. hc_unfold. p_split; c_leaf. Qed.

Lemma conhead_this_recv_contact c s : conhead_this (fst (recv_frame (FContact c) s)) =
  if contact_ok c && c_passive (cf s) then Some 0 else conhead_this s.
Proof. hc_unfold. p_split; c_leaf. Qed.

Lemma closed_recv_contact c s : closed (fst (recv_frame (FContact c) s)) =
  closed s || negb (contact_ok c) || (ch_proceed c s && tls_close s).
Proof. hc_unfold. p_split; c_leaf. Qed.

Lemma in_sess_recv_contact c s : in_sess (fst (recv_frame (FContact c) s)) = in_sess s.
Proof. hc_unfold. p_split; sum_leaf. Qed.
Lemma in_term_recv_contact c s : in_term (fst (recv_frame (FContact c) s)) = in_term s.
Proof. hc_unfold. p_split; sum_leaf. Qed.
Lemma sessinit_peer_recv_contact c s : sessinit_peer (fst (recv_frame (FContact c) s)) = sessinit_peer s.
Proof. hc_unfold. p_split; sum_leaf. Qed.
Lemma seg_size_recv_contact c s : seg_size (fst (recv_frame (FContact c) s)) = seg_size s.
Proof. hc_unfold. p_split; sum_leaf. Qed.
Lemma keepalive_time_recv_contact c s : keepalive_time (fst (recv_frame (FContact c) s)) = keepalive_time s.
Proof. hc_unfold. p_split; sum_leaf. Qed.
Lemma tx_tmp_recv_contact c s : tx_tmp (fst (recv_frame (FContact c) s)) = tx_tmp s.
Proof. hc_unfold. p_split; sum_leaf. Qed.
Lemma tx_len_recv_contact c s : tx_len (fst (recv_frame (FContact c) s)) = tx_len s.
Proof. hc_unfold. p_split; sum_leaf. Qed.
Lemma rx_tmp_recv_contact c s : rx_tmp (fst (recv_frame (FContact c) s)) = rx_tmp s.
Proof. hc_unfold. p_split; sum_leaf. Qed.

Ltac app_ex_tac :=
  first [ exists []; rewrite app_nil_r; reflexivity
        | rewrite <- ?app_assoc; eexists; reflexivity ].
Ltac trace_ex_tac :=
  repeat (unfold state_trace, close_trace; p_norm; try case_step); app_ex_tac.

Lemma trace_recv_frame f s : exists t, trace (fst (recv_frame f s)) = trace s ++ t.
Proof. hm_unfold. destruct f as [c|m]; [|destruct m]; p_split; trace_ex_tac. Qed.
