(** The receiver of the BTP-U model: a transfer whose segments arrive each
    exactly once, in any order, is queued exactly once with the original
    data, and nothing is queued before the last segment has arrived. *)
From Coq Require Import ZArith NArith List Bool Lia ZifyBool ZifyN ZifyNat Arith Permutation Sorted.
From DTN Require Import Lib.Bytes Model.Btpu Proofs.BtpuProofs Proofs.BtpuSendProofs.
Import ListNotations.
Local Open Scope N_scope.

Ltac Zify.zify_post_hook ::= Z.div_mod_to_equations.

Definition ord (a b : N * bytes) : Prop := fst a < fst b.

(** * Sorted association lists *)

Lemma seg_mem_spec i l : seg_mem i l = true <-> In i (map fst l).
Proof.
  unfold seg_mem. rewrite existsb_exists, in_map_iff. split.
  - intros [p [Hp E]]. exists p. split; [lia|exact Hp].
  - intros [p [E Hp]]. exists p. split; [exact Hp|lia].
Qed.

Lemma seg_ins_perm i d l : Permutation (seg_ins i d l) ((i, d) :: l).
Proof.
  induction l as [|[j e] t IH]; cbn [seg_ins]; [reflexivity|].
  destruct (i <? j); [reflexivity|].
  transitivity ((j, e) :: (i, d) :: t); [apply perm_skip, IH|apply perm_swap].
Qed.

Lemma seg_ins_sorted i d l :
  StronglySorted ord l -> ~ In i (map fst l) -> StronglySorted ord (seg_ins i d l).
Proof.
  induction l as [|[j e] t IH]; intros Hs Hn; cbn [seg_ins].
  - constructor; constructor.
  - inversion Hs as [|? ? Hst Hfa]; subst.
    destruct (N.ltb_spec i j) as [Hlt|Hge].
    + constructor; [exact Hs|]. constructor; [exact Hlt|].
      eapply Forall_impl; [|exact Hfa]. unfold ord. cbn [fst]. intros a Ha. lia.
    + assert (Hij : i <> j) by (intros ->; apply Hn; left; reflexivity).
      constructor.
      * apply IH; [exact Hst|]. intros Hin. apply Hn. right. exact Hin.
      * eapply Permutation_Forall; [symmetry; apply seg_ins_perm|].
        constructor; [unfold ord; cbn [fst]; lia|exact Hfa].
Qed.

Lemma sorted_perm_eq : forall a b,
  StronglySorted ord a -> StronglySorted ord b -> Permutation a b -> a = b.
Proof.
  induction a as [|x a IH]; intros b Ha Hb Hp.
  - symmetry. apply Permutation_nil. exact Hp.
  - destruct b as [|y b].
    + symmetry in Hp. apply Permutation_nil in Hp. discriminate.
    + inversion Ha as [|? ? Ha' Hfa]; subst. inversion Hb as [|? ? Hb' Hfb]; subst.
      assert (Hxy : x = y).
      { assert (Hx : In x (y :: b)) by (eapply Permutation_in; [exact Hp|left; reflexivity]).
        assert (Hy : In y (x :: a)) by (eapply Permutation_in; [symmetry; exact Hp|left; reflexivity]).
        destruct Hx as [Hx|Hx]; [congruence|]. destruct Hy as [Hy|Hy]; [congruence|].
        rewrite Forall_forall in Hfa, Hfb. specialize (Hfa _ Hy). specialize (Hfb _ Hx).
        unfold ord in *. lia. }
      subst y. f_equal. apply IH; [exact Ha'|exact Hb'|]. eapply Permutation_cons_inv. exact Hp.
Qed.

Lemma sorted_nodup l : StronglySorted ord l -> NoDup (map fst l).
Proof.
  induction 1 as [|a t Hs IH Hfa]; cbn [map]; constructor; [|exact IH].
  intros Hin. apply in_map_iff in Hin as [b [E Hb]]. rewrite Forall_forall in Hfa.
  specialize (Hfa _ Hb). unfold ord in Hfa. lia.
Qed.

Lemma is_range_length : forall l lo hi, is_range l lo hi = true -> N.of_nat (length l) + lo = hi + 1.
Proof.
  induction l as [|x t IH]; intros lo hi H; cbn [is_range length] in *.
  - apply N.eqb_eq in H. lia.
  - apply andb_true_iff in H as [Hx Ht]. apply IH in Ht. lia.
Qed.

Lemma existsb_perm {A} (f : A -> bool) a b : Permutation a b -> existsb f a = existsb f b.
Proof.
  induction 1 as [|x l l' _ IH|x y l|l l' l'' _ IH1 _ IH2]; cbn [existsb].
  - reflexivity.
  - rewrite IH. reflexivity.
  - destruct (f x), (f y); reflexivity.
  - congruence.
Qed.

(** * Segment lists of the right shape *)

Lemma fst_seg s : fst s = (seg_idx s, seg_data s).
Proof. destruct s as [[i d] b]. reflexivity. Qed.

Lemma map_fst_fst l : map fst (map fst l) = map seg_idx l.
Proof. rewrite map_map. reflexivity. Qed.

Lemma map_snd_fst l : map snd (map fst l) = map seg_data l.
Proof. rewrite map_map. reflexivity. Qed.

Lemma shape_range : forall l idx,
  shape idx l -> l <> [] ->
  is_range (map seg_idx l) idx (idx + N.of_nat (length l) - 1) = true.
Proof.
  induction l as [|s t IH]; intros idx H Hne; [congruence|].
  destruct H as (Hi & _ & _ & Ht). cbn [map is_range length]. rewrite Hi, N.eqb_refl. cbn [andb].
  destruct t as [|s2 t2].
  - cbn [map is_range length]. apply N.eqb_eq. lia.
  - replace (idx + N.of_nat (S (length (s2 :: t2))) - 1) with (idx + 1 + N.of_nat (length (s2 :: t2)) - 1) by lia.
    apply IH; [exact Ht|congruence].
Qed.

Lemma shape_sorted : forall l idx, shape idx l -> StronglySorted ord (map fst l).
Proof.
  induction l as [|s t IH]; intros idx H; [constructor|].
  pose proof H as (Hi & _ & _ & Ht). cbn [map]. constructor; [eapply IH; exact Ht|].
  apply Forall_map. eapply Forall_impl; [|apply (shape_bounds _ _ Ht)]. cbn beta.
  intros a (Ha & _). unfold ord. rewrite !fst_seg. cbn [fst]. lia.
Qed.

Lemma shape_has_last : forall l idx, shape idx l -> l <> [] -> existsb seg_last l = true.
Proof.
  induction l as [|s t IH]; intros idx H Hne; [congruence|].
  destruct H as (_ & _ & Hl & Ht). cbn [existsb]. rewrite Hl.
  destruct t as [|s2 t2]; [reflexivity|]. cbn [is_nil orb]. eapply IH; [exact Ht|congruence].
Qed.

(** * One transfer: the state after a set of segments has been taken in *)

Section OneTransfer.
  Variable segs : list (N * bytes * bool).
  Hypothesis Hshape : shape 0 segs.
  Hypothesis Hge2 : (2 <= length segs)%nat.

  Let n : N := N.of_nat (length segs).

  Definition xof (cur : option xfer) : xfer :=
    match cur with Some x => x | None => mkXfer None [] end.

  (** [cur] is what the receiver holds after exactly the segments [l1]. *)
  Definition Rep (l1 : list (N * bytes * bool)) (cur : option xfer) : Prop :=
    StronglySorted ord (x_segs (xof cur))
    /\ Permutation (x_segs (xof cur)) (map fst l1)
    /\ x_end (xof cur) = if existsb seg_last l1 then Some (n - 1) else None.

  Lemma Rep_init : Rep [] None.
  Proof. unfold Rep, xof. cbn. repeat split; constructor. Qed.

  Lemma segs_nodup : NoDup (map seg_idx segs).
  Proof. rewrite <- map_fst_fst. apply sorted_nodup. eapply shape_sorted. exact Hshape. Qed.

  Lemma seg_facts s : In s segs ->
    seg_idx s < n /\ seg_data s <> [] /\ (seg_last s = true <-> seg_idx s + 1 = n).
  Proof using Hshape.
    clear Hge2. intros Hin. pose proof (shape_bounds _ _ Hshape) as Hb. rewrite Forall_forall in Hb.
    destruct (Hb _ Hin) as (_ & H1 & H2 & H3). unfold n. repeat split; try assumption; try lia.
    - intros E. apply H3 in E. lia.
    - intros E. apply H3. lia.
  Qed.

  (** The part of [seg_step] common to every new segment. *)
  Lemma step_common l1 s rest cur :
    Permutation (l1 ++ s :: rest) segs -> Rep l1 cur ->
    let x := xof cur in
    let e := if seg_last s then Some (seg_idx s) else x_end x in
    let sg := seg_ins (seg_idx s) (seg_data s) (x_segs x) in
    seg_mem (seg_idx s) (x_segs x) = false
    /\ StronglySorted ord sg
    /\ Permutation sg (map fst (l1 ++ [s]))
    /\ e = (if existsb seg_last (l1 ++ [s]) then Some (n - 1) else None).
  Proof.
    intros Hp (Hs & Hperm & Hend). cbn zeta.
    assert (Hin : In s segs) by (eapply Permutation_in; [exact Hp|apply in_or_app; right; left; reflexivity]).
    destruct (seg_facts s Hin) as (Hlt & Hd & Hlast).
    assert (Hnot : ~ In (seg_idx s) (map fst (x_segs (xof cur)))).
    { intros Hi. apply (Permutation_in _ (Permutation_map fst Hperm)) in Hi. rewrite map_fst_fst in Hi.
      pose proof (Permutation_NoDup (Permutation_sym (Permutation_map seg_idx Hp)) segs_nodup) as Hnd.
      rewrite map_app in Hnd. cbn [map] in Hnd. apply NoDup_remove_2 in Hnd. apply Hnd.
      apply in_or_app. left. exact Hi. }
    split; [|split; [|split]].
    - destruct (seg_mem (seg_idx s) (x_segs (xof cur))) eqn:E; [|reflexivity].
      apply seg_mem_spec in E. contradiction.
    - apply seg_ins_sorted; assumption.
    - rewrite map_app. cbn [map]. rewrite fst_seg.
      etransitivity; [apply seg_ins_perm|]. etransitivity; [|apply Permutation_cons_append].
      apply perm_skip. exact Hperm.
    - rewrite existsb_app. cbn [existsb]. rewrite orb_false_r.
      destruct (seg_last s) eqn:El.
      + rewrite orb_true_r. f_equal. pose proof (proj1 Hlast eq_refl). lia.
      + rewrite orb_false_r. exact Hend.
  Qed.

  Lemma step_nonfinal l1 s rest cur :
    Permutation (l1 ++ s :: rest) segs -> rest <> [] -> Rep l1 cur ->
    exists x', seg_step cur (seg_last s) (seg_idx s) (seg_data s) = (Some x', None)
               /\ Rep (l1 ++ [s]) (Some x').
  Proof.
    intros Hp Hrest HR.
    destruct (step_common l1 s rest cur Hp HR) as (Hmem & Hsorted & Hperm & He). cbn zeta in *.
    unfold seg_step. fold (xof cur). rewrite Hmem.
    set (e := if seg_last s then Some (seg_idx s) else x_end (xof cur)) in *.
    set (sg := seg_ins (seg_idx s) (seg_data s) (x_segs (xof cur))) in *.
    exists (mkXfer e sg). split.
    - assert (Hlen : (length sg < length segs)%nat).
      { rewrite (Permutation_length Hperm), map_length, <- (Permutation_length Hp), !app_length.
        cbn [length]. destruct rest; [congruence|cbn [length]; lia]. }
      rewrite He. destruct (existsb seg_last (l1 ++ [s])); [|reflexivity].
      destruct (N.eqb_spec (n - 1) 0) as [E0|_]; [unfold n in E0; lia|].
      destruct (is_range (map fst sg) 0 (n - 1)) eqn:Er; [|reflexivity].
      apply is_range_length in Er. rewrite map_length in Er. unfold n in Er. lia.
    - unfold Rep, xof. cbn [x_segs x_end]. repeat split; assumption.
  Qed.

  Lemma step_final l1 s cur :
    Permutation (l1 ++ [s]) segs -> Rep l1 cur ->
    seg_step cur (seg_last s) (seg_idx s) (seg_data s) = (None, Some (concat (map seg_data segs))).
  Proof.
    intros Hp HR.
    destruct (step_common l1 s [] cur Hp HR) as (Hmem & Hsorted & Hperm & He). cbn zeta in *.
    unfold seg_step. fold (xof cur). rewrite Hmem.
    set (e := if seg_last s then Some (seg_idx s) else x_end (xof cur)) in *.
    set (sg := seg_ins (seg_idx s) (seg_data s) (x_segs (xof cur))) in *.
    assert (Hne : segs <> []) by (intros E; rewrite E in Hge2; cbn in Hge2; lia).
    rewrite He, (existsb_perm seg_last _ _ Hp), (shape_has_last _ _ Hshape Hne).
    destruct (N.eqb_spec (n - 1) 0) as [E0|_]; [unfold n in E0; lia|].
    assert (Hsg : sg = map fst segs).
    { apply sorted_perm_eq; [exact Hsorted|eapply shape_sorted; exact Hshape|].
      etransitivity; [exact Hperm|]. apply Permutation_map. exact Hp. }
    rewrite Hsg, map_fst_fst, map_snd_fst.
    pose proof (shape_range _ _ Hshape Hne) as Hr. rewrite N.add_0_l in Hr. fold n in Hr. rewrite Hr.
    reflexivity.
  Qed.
End OneTransfer.

(** * The table of transfers in progress *)

Lemma opt_eqb_refl o : opt_eqb o o = true.
Proof. destruct o; cbn; [apply N.eqb_refl|reflexivity]. Qed.

Lemma chan_eqb_refl c : chan_eqb c c = true.
Proof. unfold chan_eqb. rewrite !N.eqb_refl, opt_eqb_refl. reflexivity. Qed.

Lemma key_eqb_refl k : key_eqb k k = true.
Proof. unfold key_eqb. rewrite chan_eqb_refl, N.eqb_refl. reflexivity. Qed.

Lemma plookup_pset_same k v l : plookup k (pset k v l) = Some v.
Proof.
  induction l as [|[k' v'] t IH]; cbn [pset plookup].
  - rewrite key_eqb_refl. reflexivity.
  - destruct (key_eqb k k') eqn:E; cbn [plookup]; [rewrite key_eqb_refl; reflexivity|rewrite E; exact IH].
Qed.

Lemma plookup_pdel_same k l : plookup k (pdel k l) = None.
Proof.
  induction l as [|[k' v'] t IH]; cbn [pdel plookup]; [reflexivity|].
  destruct (key_eqb k k') eqn:E; [exact IH|]. cbn [plookup]. rewrite E. exact IH.
Qed.


Lemma recv_seg_some conv st b x i d x' :
  d <> [] -> seg_step (plookup (conv, x) (r_prog st)) b i d = (Some x', None) ->
  let st' := fst (recv_seg conv st b x i d) in
  plookup (conv, x) (r_prog st') = Some x' /\ r_queue st' = r_queue st
  /\ r_next st' = r_next st /\ r_signals st' = r_signals st.
Proof.
  intros Hd Hs. unfold recv_seg. destruct d as [|d0 dt]; [congruence|].
  rewrite Hs. cbn [fst r_prog r_queue r_next r_signals].
  rewrite plookup_pset_same. repeat split; reflexivity.
Qed.

Lemma recv_seg_done conv st b x i d o full :
  d <> [] -> seg_step (plookup (conv, x) (r_prog st)) b i d = (o, Some full) ->
  let st' := fst (recv_seg conv st b x i d) in
  plookup (conv, x) (r_prog st') = None
  /\ r_queue st' = r_queue st ++ [(r_next st, full)]
  /\ r_next st' = r_next st + 1
  /\ r_signals st' = r_signals st ++ [(r_next st, blen full, c_peer conv)].
Proof.
  intros Hd Hs. unfold recv_seg. destruct d as [|d0 dt]; [congruence|].
  rewrite Hs. unfold add_rx. destruct o; cbn [fst r_prog r_queue r_next r_signals];
    rewrite plookup_pdel_same; repeat split; reflexivity.
Qed.

Lemma recv_frame_seg hs xid conv st s :
  seg_encodable hs xid s ->
  recv_frame conv st (seg_frame hs xid s)
  = fst (recv_seg conv st (seg_last s) xid (seg_idx s) (seg_data s)).
Proof.
  intros He. destruct (seg_frame_decode hs xid s He) as [Hd Hv].
  unfold recv_frame, recv_frame_r. rewrite Hd. cbn [f_msgs recv_msgs]. unfold recv_msg. rewrite Hv.
  destruct (seg_last s);
    destruct (recv_seg conv st _ xid (seg_idx s) (seg_data s)) as [st' [|]]; reflexivity.
Qed.

Lemma fold_left_map {A B C} (g : A -> C -> A) (f : B -> C) l : forall a,
  fold_left g (map f l) a = fold_left (fun s x => g s (f x)) l a.
Proof. induction l as [|x t IH]; intros a; [reflexivity|]. cbn [map fold_left]. apply IH. Qed.

(** * Reassembly in any order *)

Section Reassembly.
  Variables (hs : list hint) (xid : N) (conv : chan) (st : rx).
  Variable segs : list (N * bytes * bool).
  Hypothesis Hshape : shape 0 segs.
  Hypothesis Hge2 : (2 <= length segs)%nat.
  Hypothesis Henc : Forall (seg_encodable hs xid) segs.
  Hypothesis Hfresh : plookup (conv, xid) (r_prog st) = None.

  Let G (s : rx) (it : N * bytes * bool) : rx := recv_frame conv s (seg_frame hs xid it).

  Definition RInv (l1 : list (N * bytes * bool)) (s : rx) : Prop :=
    Rep segs l1 (plookup (conv, xid) (r_prog s))
    /\ r_queue s = r_queue st /\ r_next s = r_next st /\ r_signals s = r_signals st.

  Lemma in_perm_part (l1 rest : list (N * bytes * bool)) s :
    Permutation (l1 ++ s :: rest) segs -> In s segs.
  Proof. intros Hp. eapply Permutation_in; [exact Hp|]. apply in_or_app. right. left. reflexivity. Qed.

  Lemma prefix_inv : forall l1 rest,
    Permutation (l1 ++ rest) segs -> rest <> [] -> RInv l1 (fold_left G l1 st).
  Proof.
    induction l1 as [|s l1 IH] using rev_ind; intros rest Hp Hrest.
    - cbn [fold_left]. unfold RInv. rewrite Hfresh. split; [apply Rep_init|repeat split; reflexivity].
    - rewrite <- app_assoc in Hp. cbn [app] in Hp.
      rewrite fold_left_app. cbn [fold_left].
      destruct (IH (s :: rest) Hp ltac:(congruence)) as (HR & Hq & Hn & Hsg).
      set (s0 := fold_left G l1 st) in *.
      pose proof (in_perm_part _ _ _ Hp) as Hin.
      rewrite Forall_forall in Henc. pose proof (Henc _ Hin) as He.
      destruct (seg_facts segs Hshape s Hin) as (_ & Hd & _).
      destruct (step_nonfinal segs Hshape Hge2 l1 s rest _ Hp Hrest HR) as (x' & Hstep & HR').
      unfold G. rewrite (recv_frame_seg hs xid conv s0 s He).
      destruct (recv_seg_some conv s0 _ xid _ _ x' Hd Hstep) as (H1 & H2 & H3 & H4).
      unfold RInv. rewrite H1, H2, H3, H4. split; [exact HR'|]. repeat split; assumption.
  Qed.

  Theorem reassembly_segs l :
    Permutation l segs ->
    let fin := fold_left G l st in
    r_queue fin = r_queue st ++ [(r_next st, concat (map seg_data segs))]
    /\ r_signals fin = r_signals st ++ [(r_next st, blen (concat (map seg_data segs)), c_peer conv)]
    /\ r_next fin = r_next st + 1
    /\ plookup (conv, xid) (r_prog fin) = None
    /\ (forall l1 l2, l = l1 ++ l2 -> l2 <> [] ->
          r_queue (fold_left G l1 st) = r_queue st /\ r_signals (fold_left G l1 st) = r_signals st).
  Proof.
    intros Hp. cbn zeta.
    assert (Hprefix : forall l1 l2, l = l1 ++ l2 -> l2 <> [] ->
              r_queue (fold_left G l1 st) = r_queue st /\ r_signals (fold_left G l1 st) = r_signals st).
    { intros l1 l2 E Hne. subst l. destruct (prefix_inv l1 l2 Hp Hne) as (_ & Hq & _ & Hs). split; assumption. }
    assert (Hne : l <> []).
    { intros E. subst l. apply Permutation_length in Hp. cbn [length] in Hp. lia. }
    destruct (exists_last Hne) as (l1 & s & El). subst l.
    rewrite fold_left_app. cbn [fold_left].
    destruct (prefix_inv l1 [s] Hp ltac:(congruence)) as (HR & Hq & Hn & Hsg).
    set (s0 := fold_left G l1 st) in *.
    pose proof (in_perm_part _ _ _ Hp) as Hin.
    rewrite Forall_forall in Henc. pose proof (Henc _ Hin) as He.
    destruct (seg_facts segs Hshape s Hin) as (_ & Hd & _).
    pose proof (step_final segs Hshape Hge2 l1 s _ Hp HR) as Hstep.
    unfold G at 1 2 3 4. rewrite (recv_frame_seg hs xid conv s0 s He).
    destruct (recv_seg_done conv s0 _ xid _ _ _ _ Hd Hstep) as (H1 & H2 & H3 & H4).
    rewrite H1, H2, H3, H4, Hq, Hn, Hsg.
    split; [reflexivity|]. split; [reflexivity|]. split; [reflexivity|]. split; [reflexivity|]. exact Hprefix.
  Qed.
End Reassembly.

(** * Put together with the sender *)

Definition xfer_ok (hs : list hint) (mtu xid : N) (data : bytes) : Prop :=
  mtu_feasible_h hs mtu = true /\ fits (Some mtu) (blen data) = false
  /\ Forall wf_hint hs /\ (length hs <= MAX_LIST)%nat
  /\ xid < 4294967296 /\ blen data < 4294967296 /\ wf_bytes data /\ mtu < LEN_MOD + 4.

Lemma xfer_okb_spec hs mtu xid data : xfer_okb hs mtu xid data = true -> xfer_ok hs mtu xid data.
Proof.
  unfold xfer_okb, xfer_ok. rewrite !andb_true_iff, !N.ltb_lt, Nat.leb_le, wf_bytesb_spec, negb_true_iff.
  rewrite forallb_forall, Forall_forall.
  intros [[[[[[[H1 H2] H3] H4] H5] H6] H7] H8].
  split; [exact H1|]. split; [exact H2|]. split; [|tauto].
  intros x Hx. apply wf_hintb_spec, H3, Hx.
Qed.

Lemma segments_encodable hs mtu xid data :
  xfer_ok hs mtu xid data -> Forall (seg_encodable hs xid) (segments hs mtu data).
Proof.
  intros (Hm & Hf & Hh & Hn & Hx & Hl & Hw & Hmtu).
  pose proof (shape_bounds _ _ (segments_shape hs mtu data Hm)) as Hb.
  pose proof (segments_length_le hs mtu data Hm) as Hlen.
  assert (Hdl : Forall (fun s => (length (seg_data s) <= N.to_nat (remain_size hs mtu))%nat) (segments hs mtu data))
    by apply chunk_data_le.
  assert (Hdw : Forall (fun s => wf_bytes (seg_data s)) (segments hs mtu data))
    by (apply chunk_data_wf; exact Hw).
  rewrite Forall_forall in *. intros s Hs.
  destruct (Hb s Hs) as (_ & Hi & _). specialize (Hdl s Hs). specialize (Hdw s Hs).
  unfold seg_encodable. repeat split; try assumption.
  - apply Forall_forall. exact Hh.
  - unfold blen in Hl. lia.
  - unfold remain_size, head_len, mtu_feasible_h, head_len, LEN_MOD, blen in *. apply N.ltb_lt in Hm. lia.
Qed.

Theorem reassembly_h hs mtu xid conv st data p :
  xfer_okb hs mtu xid data = true ->
  plookup (conv, xid) (r_prog st) = None ->
  Permutation p (send_transfer_h hs (Some mtu) xid data) ->
  let fin := fold_left (recv_frame conv) p st in
  r_queue fin = r_queue st ++ [(r_next st, data)]
  /\ r_signals fin = r_signals st ++ [(r_next st, blen data, c_peer conv)]
  /\ plookup (conv, xid) (r_prog fin) = None
  /\ (forall p1 p2, p = p1 ++ p2 -> p2 <> [] ->
        r_queue (fold_left (recv_frame conv) p1 st) = r_queue st
        /\ r_signals (fold_left (recv_frame conv) p1 st) = r_signals st).
Proof.
  intros Hok Hfresh Hp. apply xfer_okb_spec in Hok. pose proof Hok as (Hm & Hf & _).
  unfold send_transfer_h in Hp. rewrite Hf in Hp.
  apply Permutation_map_inv in Hp as (l & El & Hpl). subst p. apply Permutation_sym in Hpl.
  pose proof (reassembly_segs hs xid conv st (segments hs mtu data)
                (segments_shape hs mtu data Hm) (segments_ge2 hs mtu data Hm Hf)
                (segments_encodable hs mtu xid data Hok) Hfresh l Hpl) as R.
  cbn zeta in R. rewrite (segments_concat hs mtu data Hm) in R.
  destruct R as (R1 & R2 & _ & R4 & R5). cbn zeta.
  rewrite !fold_left_map.
  split; [exact R1|]. split; [exact R2|]. split; [exact R4|].
  intros p1 p2 E Hne. apply map_eq_app in E as (l1 & l2 & El & E1 & E2). subst p1 p2.
  rewrite fold_left_map. apply (R5 l1 l2 El). intros ->. apply Hne. reflexivity.
Qed.
