(** placeholder while the proofs are being written *)
From Coq Require Import List NArith.
From DTN Require Import Lib.Bytes Model.Btpu.
Theorem C20_placeholder : blen nil = 0%N.
Proof. reflexivity. Qed.
Print Assumptions C20_placeholder.
