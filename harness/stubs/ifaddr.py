''' empty stub '''


def get_adapters():
    return []
