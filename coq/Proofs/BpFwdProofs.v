(** Proofs for property C11 over [Model/BpFwd.v]: what the octets of a forwarded bundle decode to.

    Structure
    - lists / block numbers: [insert_bl], [next_free] (pigeonhole by removal), [nodupb];
    - [fwd_blocks]: membership, filters ([fwd_filter_keep], previous node, age), distinct numbers, last block;
    - [finish]: field-wise description, well-formedness, CRCs; the round trip [fwd_wire]:
        decode_bundle (encode_bundle (do_fwd node now b)) = Some (do_fwd node now b);
    - the C11 statements (used by [Props/C11.v]) and the witnesses of the refuted ones. *)
From Coq Require Import List NArith ZArith Arith Bool Lia ZifyBool ZifyN ZifyNat Permutation.
From DTN Require Import Lib.Bytes Lib.Cbor Lib.CborProofs Lib.Crc Model.Bundle Proofs.BundleProofs Model.BpFwd.
Import ListNotations.
Local Open Scope N_scope.

Ltac Zify.zify_post_hook ::= Z.div_mod_to_equations.

(** * Lists *)

Lemma list_last_case {A} (l : list A) : l = [] \/ exists pre y, l = pre ++ [y].
Proof.
  destruct l as [|x t]; [left; reflexivity|right].
  destruct (exists_last (l := x :: t)) as (pre & y & E); [discriminate|]. exists pre, y. exact E.
Qed.

Lemma insert_bl_snoc x pre y : insert_bl x (pre ++ [y]) = pre ++ [x; y].
Proof.
  induction pre as [|z pre IH]; [reflexivity|].
  cbn [app insert_bl]. destruct (pre ++ [y]) as [|w t] eqn:E.
  - destruct pre; discriminate.
  - rewrite IH. reflexivity.
Qed.

(** [insert_bl] puts [x] somewhere: in front of at most one block *)
Lemma insert_bl_split x l :
  exists pre post, l = pre ++ post /\ insert_bl x l = pre ++ x :: post /\ (length post <= 1)%nat.
Proof.
  destruct (list_last_case l) as [->|(pre & y & ->)].
  - exists [], []. repeat split; cbn; lia.
  - exists pre, [y]. rewrite insert_bl_snoc. repeat split; cbn; lia.
Qed.

Lemma insert_bl_In x l y : In y (insert_bl x l) <-> y = x \/ In y l.
Proof.
  destruct (insert_bl_split x l) as (pre & post & -> & -> & _).
  rewrite !in_app_iff. cbn [In]. intuition congruence.
Qed.

Lemma insert_bl_perm x l : Permutation (x :: l) (insert_bl x l).
Proof.
  destruct (insert_bl_split x l) as (pre & post & -> & -> & _). apply Permutation_middle.
Qed.

Lemma insert_bl_filter q x l :
  q x = false -> filter q (insert_bl x l) = filter q l.
Proof.
  intros Hq. destruct (insert_bl_split x l) as (pre & post & -> & -> & _).
  rewrite !filter_app. cbn [filter]. rewrite Hq. reflexivity.
Qed.

Lemma insert_bl_filter_nil q x l :
  q x = true -> filter q l = [] -> filter q (insert_bl x l) = [x].
Proof.
  intros Hq Hn. destruct (insert_bl_split x l) as (pre & post & -> & -> & _).
  rewrite filter_app in Hn. apply app_eq_nil in Hn as [H1 H2].
  rewrite filter_app. cbn [filter]. rewrite Hq, H1, H2. reflexivity.
Qed.

Lemma insert_bl_map {B} (f : cblock -> B) x l : Permutation (f x :: map f l) (map f (insert_bl x l)).
Proof. change (f x :: map f l) with (map f (x :: l)). apply Permutation_map, insert_bl_perm. Qed.

Lemma filter_filter_sub {A} (q r : A -> bool) l :
  (forall x, q x = true -> r x = true) -> filter q (filter r l) = filter q l.
Proof.
  intros H. induction l as [|x l IH]; [reflexivity|]. cbn [filter].
  destruct (r x) eqn:Er; cbn [filter].
  - rewrite IH. reflexivity.
  - destruct (q x) eqn:Eq; [rewrite (H x Eq) in Er; discriminate|exact IH].
Qed.

Lemma filter_map_comm {A} (q : A -> bool) (f : A -> A) l :
  (forall x, q (f x) = q x) -> filter q (map f l) = map f (filter q l).
Proof.
  intros H. induction l as [|x l IH]; [reflexivity|]. cbn [map filter]. rewrite H.
  destruct (q x); cbn [map]; rewrite IH; reflexivity.
Qed.

Lemma map_ext_filter {A B} (q : A -> bool) (f g : A -> B) l :
  (forall x, q x = true -> f x = g x) -> map f (filter q l) = map g (filter q l).
Proof.
  intros H. apply map_ext_in. intros x Hx. apply filter_In in Hx as [_ Hq]. apply H, Hq.
Qed.

Lemma filter_nil_iff {A} (q : A -> bool) l : filter q l = [] <-> forall x, In x l -> q x = false.
Proof.
  induction l as [|x l IH]; cbn [filter In]; [intuition|].
  destruct (q x) eqn:E; split.
  - discriminate.
  - intros H. specialize (H x (or_introl eq_refl)). congruence.
  - intros H y [<-|Hy]; [exact E|apply IH; assumption].
  - intros H. apply IH. intros y Hy. apply H. right. exact Hy.
Qed.

Lemma NoDup_map_filter {A B} (f : A -> B) (q : A -> bool) l : NoDup (map f l) -> NoDup (map f (filter q l)).
Proof.
  induction l as [|x l IH]; cbn [map filter]; intros H; [constructor|].
  inversion H as [|? ? Hn Hd]; subst. destruct (q x); [|apply IH, Hd].
  cbn [map]. constructor; [|apply IH, Hd].
  intros Hin. apply Hn. apply in_map_iff in Hin as (y & E & Hy). apply filter_In in Hy as [Hy _].
  apply in_map_iff. exists y. split; assumption.
Qed.

Lemma In_map_filter {A B} (f : A -> B) (q : A -> bool) l y : In y (map f (filter q l)) -> In y (map f l).
Proof.
  intros H. apply in_map_iff in H as (x & E & Hx). apply filter_In in Hx as [Hx _].
  apply in_map_iff. exists x. split; assumption.
Qed.

(** * Block numbers *)

Lemma memN_spec x l : memN x l = true <-> In x l.
Proof.
  unfold memN. rewrite existsb_exists. split.
  - intros (y & Hy & E). apply N.eqb_eq in E. subst. exact Hy.
  - intros H. exists x. split; [exact H|apply N.eqb_refl].
Qed.

Lemma memN_false x l : memN x l = false <-> ~ In x l.
Proof. rewrite <- memN_spec. destruct (memN x l); intuition congruence. Qed.

Lemma removeN_In c l y : In y (removeN c l) <-> In y l /\ y <> c.
Proof.
  unfold removeN. rewrite filter_In. split; intros [H1 H2]; split; try exact H1.
  - apply negb_true_iff, N.eqb_neq in H2. exact H2.
  - apply negb_true_iff, N.eqb_neq. exact H2.
Qed.

Lemma filter_len_le {A} (q : A -> bool) l : (length (filter q l) <= length l)%nat.
Proof. induction l as [|x l IH]; cbn [filter length]; [lia|]. destruct (q x); cbn [length]; lia. Qed.

Lemma removeN_length c l : In c l -> (length (removeN c l) < length l)%nat.
Proof.
  unfold removeN. induction l as [|x l IH]; intros H; [destruct H|].
  cbn [filter]. destruct (N.eqb_spec x c) as [->|Hne]; cbn [negb length].
  - pose proof (filter_len_le (fun y => negb (y =? c)) l). lia.
  - destruct H as [->|H]; [congruence|]. specialize (IH H). lia.
Qed.

(** [get_block_num] returns a number that is not in use, and not far away *)
Lemma next_free_spec : forall fuel c used,
  (length used <= fuel)%nat ->
  ~ In (next_free fuel c used) used /\ c <= next_free fuel c used <= c + N.of_nat (length used).
Proof.
  induction fuel as [|f IH]; intros c used Hl.
  - destruct used; [|cbn in Hl; lia]. cbn. split; [tauto|lia].
  - cbn [next_free]. destruct (memN c used) eqn:E.
    + apply memN_spec in E. pose proof (removeN_length c used E) as Hlt.
      destruct (IH (c + 1) (removeN c used)) as [Hn Hb]; [lia|].
      split.
      * intros Hin. apply Hn. apply removeN_In. split; [exact Hin|]. lia.
      * lia.
    + apply memN_false in E. split; [exact E|lia].
Qed.

Lemma alloc_spec cnt used :
  ~ In (alloc cnt used) used /\ cnt + 1 <= alloc cnt used <= cnt + 1 + N.of_nat (length used).
Proof. unfold alloc. apply next_free_spec. lia. Qed.

Lemma nodupb_spec l : nodupb l = true <-> NoDup l.
Proof.
  induction l as [|x l IH]; cbn [nodupb]; [split; [constructor|reflexivity]|].
  rewrite andb_true_iff, negb_true_iff, IH. fold (memN x l). rewrite memN_false.
  split; [intros [H1 H2]; constructor; assumption|intros H; inversion H; subst; split; assumption].
Qed.

(** * Facts about single blocks *)

Lemma eid_eqb_eq a b : eid_eqb a b = true -> a = b.
Proof.
  destruct a, b; cbn [eid_eqb]; intros H; try discriminate; try reflexivity;
    apply bytes_eqb_eq in H; subst; reflexivity.
Qed.

Lemma eid_eqb_refl a : eid_eqb a a = true.
Proof. destruct a; cbn [eid_eqb]; try reflexivity; apply bytes_eqb_eq; reflexivity. Qed.

Lemma bump_hop_fields x :
  btype (bump_hop x) = btype x /\ bnum (bump_hop x) = bnum x /\ bflags (bump_hop x) = bflags x /\
  bcrc_type (bump_hop x) = bcrc_type x /\ bcrc (bump_hop x) = bcrc x.
Proof. unfold bump_hop. destruct (hop_view x) as [[l c]|]; repeat split; reflexivity. Qed.

Lemma bump_hop_btype x : btype (bump_hop x) = btype x.
Proof. apply bump_hop_fields. Qed.
Lemma bump_hop_bnum x : bnum (bump_hop x) = bnum x.
Proof. apply bump_hop_fields. Qed.

Lemma bump_hop_other x : (btype x =? BLOCK_HOP_COUNT) = false -> bump_hop x = x.
Proof. unfold bump_hop, hop_view. intros ->. reflexivity. Qed.

Lemma is_prev_type x : is_prev x = true -> btype x = 6.
Proof. unfold is_prev. intros H. apply andb_true_iff in H as [H _]. apply N.eqb_eq in H. exact H. Qed.
Lemma is_age_type x : is_age x = true -> btype x = 7.
Proof. unfold is_age. intros H. apply andb_true_iff in H as [H _]. apply N.eqb_eq in H. exact H. Qed.

Lemma bump_hop_is_prev x : is_prev (bump_hop x) = is_prev x.
Proof.
  destruct (btype x =? BLOCK_HOP_COUNT) eqn:E; [|rewrite bump_hop_other by exact E; reflexivity].
  apply N.eqb_eq in E. unfold is_prev. rewrite bump_hop_btype, E. reflexivity.
Qed.
Lemma bump_hop_is_age x : is_age (bump_hop x) = is_age x.
Proof.
  destruct (btype x =? BLOCK_HOP_COUNT) eqn:E; [|rewrite bump_hop_other by exact E; reflexivity].
  apply N.eqb_eq in E. unfold is_age. rewrite bump_hop_btype, E. reflexivity.
Qed.

Lemma norm_cblock_fields a x :
  btype (impl_norm_cblock a x) = btype x /\ bnum (impl_norm_cblock a x) = bnum x /\
  bflags (impl_norm_cblock a x) = bflags x /\ bcrc_type (impl_norm_cblock a x) = bcrc_type x /\
  bcrc (impl_norm_cblock a x) = bcrc x.
Proof.
  unfold impl_norm_cblock. destruct (a && (btype x =? 1)); [destruct (decode_admin_record (btsd x))|];
    repeat split; reflexivity.
Qed.

Lemma norm_cblock_other a x : (btype x =? 1) = false -> impl_norm_cblock a x = x.
Proof. unfold impl_norm_cblock. intros ->. rewrite andb_false_r. reflexivity. Qed.

(** what [finish] does to a block *)
Definition fin (a : bool) (x : cblock) : cblock := with_crc_block (impl_norm_cblock a x).

Lemma fin_btype a x : btype (fin a x) = btype x.
Proof. unfold fin. change (btype (with_crc_block ?y)) with (btype y). apply norm_cblock_fields. Qed.
Lemma fin_bnum a x : bnum (fin a x) = bnum x.
Proof. unfold fin. change (bnum (with_crc_block ?y)) with (bnum y). apply norm_cblock_fields. Qed.
Lemma fin_bflags a x : bflags (fin a x) = bflags x.
Proof. unfold fin. change (bflags (with_crc_block ?y)) with (bflags y). apply norm_cblock_fields. Qed.
Lemma fin_bcrc_type a x : bcrc_type (fin a x) = bcrc_type x.
Proof. unfold fin. change (bcrc_type (with_crc_block ?y)) with (bcrc_type y). apply norm_cblock_fields. Qed.
Lemma fin_btsd_other a x : (btype x =? 1) = false -> btsd (fin a x) = btsd x.
Proof. intros H. unfold fin. rewrite norm_cblock_other by exact H. reflexivity. Qed.
Lemma fin_btsd_norm a x : btsd (fin a x) = btsd (impl_norm_cblock a x).
Proof. reflexivity. Qed.

Lemma fin_core_other a x : (btype x =? 1) = false -> core (fin a x) = core x.
Proof.
  intros H. unfold core. rewrite fin_btype, fin_bnum, fin_bflags, fin_bcrc_type, fin_btsd_other by exact H.
  reflexivity.
Qed.

(** * [fwd_blocks] *)

Definition prev_num (bl : list cblock) : N := alloc 1 (used_nums (remove_all is_prev bl)).
Definition prev_blk (node : eid) (bl : list cblock) : cblock :=
  new_block BLOCK_PREV_NODE (prev_num bl) (encode_prev_node (impl_norm_eid node)).
Definition mid_blocks (node : eid) (bl : list cblock) : list cblock :=
  remove_all is_age (map bump_hop (insert_bl (prev_blk node bl) (remove_all is_prev bl))).
Definition age_num (node : eid) (bl : list cblock) : N := alloc (prev_num bl) (used_nums (mid_blocks node bl)).
Definition age_blk (node : eid) (now ct : N) (bl : list cblock) : cblock :=
  new_block BLOCK_AGE (age_num node bl) (encode (age_item now ct)).

Lemma fwd_blocks_eq node now ct bl :
  fwd_blocks node now ct bl =
  if ct =? 0 then mid_blocks node bl else insert_bl (age_blk node now ct bl) (mid_blocks node bl).
Proof. reflexivity. Qed.

Lemma mid_blocks_In node bl x :
  In x (mid_blocks node bl) ->
  is_age x = false /\ ((exists y, In y bl /\ is_prev y = false /\ x = bump_hop y) \/ x = prev_blk node bl).
Proof.
  unfold mid_blocks, remove_all. intros H. apply filter_In in H as [H Ha].
  apply negb_true_iff in Ha. split; [exact Ha|].
  apply in_map_iff in H as (y & <- & Hy). apply insert_bl_In in Hy as [->|Hy].
  - right. reflexivity.
  - left. apply filter_In in Hy as [Hy Hp]. apply negb_true_iff in Hp. exists y. repeat split; assumption.
Qed.

Lemma fwd_blocks_In node now ct bl x :
  In x (fwd_blocks node now ct bl) ->
  (exists y, In y bl /\ x = bump_hop y) \/ x = prev_blk node bl \/ (ct <> 0 /\ x = age_blk node now ct bl).
Proof.
  rewrite fwd_blocks_eq. intros H.
  assert (Hm : In x (mid_blocks node bl) ->
               (exists y, In y bl /\ x = bump_hop y) \/ x = prev_blk node bl \/ (ct <> 0 /\ x = age_blk node now ct bl)).
  { intros Hx. apply mid_blocks_In in Hx as [_ [(y & Hy & _ & E)|E]]; [left; exists y; split; assumption|right; left; exact E]. }
  destruct (N.eqb_spec ct 0) as [E|E]; [apply Hm, H|].
  apply insert_bl_In in H as [->|H]; [right; right; split; [exact E|reflexivity]|apply Hm, H].
Qed.

(** blocks of a class [_do_fwd] neither removes nor inserts: same blocks, same order, hop counts bumped *)
Lemma fwd_filter_keep (q : cblock -> bool) node now ct bl :
  (forall x, q x = true -> is_prev x = false /\ is_age x = false) ->
  (forall x, q (bump_hop x) = q x) ->
  q (prev_blk node bl) = false ->
  q (age_blk node now ct bl) = false ->
  filter q (fwd_blocks node now ct bl) = map bump_hop (filter q bl).
Proof.
  intros Hq Hb H6 H7.
  assert (Hm : filter q (mid_blocks node bl) = map bump_hop (filter q bl)).
  { unfold mid_blocks, remove_all.
    rewrite filter_filter_sub by (intros x Hx; apply Hq in Hx as [_ Hx]; rewrite Hx; reflexivity).
    rewrite filter_map_comm by exact Hb. f_equal.
    rewrite insert_bl_filter by exact H6.
    apply filter_filter_sub. intros x Hx. apply Hq in Hx as [Hx _]. rewrite Hx. reflexivity. }
  rewrite fwd_blocks_eq. destruct (ct =? 0); [exact Hm|].
  rewrite insert_bl_filter by exact H7. exact Hm.
Qed.

Definition t6 (x : cblock) : bool := btype x =? 6.
Definition t7 (x : cblock) : bool := btype x =? 7.
Definition t10 (x : cblock) : bool := btype x =? 10.
Definition t1 (x : cblock) : bool := btype x =? 1.

Lemma t6_not_age x : t6 x = true -> negb (is_age x) = true.
Proof.
  unfold t6. intros H. apply N.eqb_eq in H. destruct (is_age x) eqn:E; [|reflexivity].
  apply is_age_type in E. congruence.
Qed.

(** exactly the new Previous Node block, provided every received type-6 block is recognised *)
Lemma fwd_filter_prev node now ct bl :
  (forall x, In x bl -> btype x = 6 -> is_prev x = true) ->
  filter t6 (fwd_blocks node now ct bl) = [prev_blk node bl].
Proof.
  intros Hall.
  assert (Hm : filter t6 (mid_blocks node bl) = [prev_blk node bl]).
  { unfold mid_blocks, remove_all. rewrite filter_filter_sub by apply t6_not_age.
    rewrite filter_map_comm by (intros x; unfold t6; rewrite bump_hop_btype; reflexivity).
    rewrite insert_bl_filter_nil; [reflexivity|reflexivity|].
    apply filter_nil_iff. intros x Hx. apply filter_In in Hx as [Hx Hp]. apply negb_true_iff in Hp.
    unfold t6. destruct (N.eqb_spec (btype x) 6) as [E|E]; [|reflexivity].
    rewrite (Hall x Hx E) in Hp. discriminate. }
  rewrite fwd_blocks_eq. destruct (ct =? 0); [exact Hm|].
  rewrite insert_bl_filter by reflexivity. exact Hm.
Qed.

(** no received Bundle Age block stays, provided every received type-7 block is recognised *)
Lemma fwd_filter_age node now ct bl :
  (forall x, In x bl -> btype x = 7 -> is_age x = true) ->
  filter t7 (fwd_blocks node now ct bl) = if ct =? 0 then [] else [age_blk node now ct bl].
Proof.
  intros Hall.
  assert (Hm : filter t7 (mid_blocks node bl) = []).
  { apply filter_nil_iff. intros x Hx. apply mid_blocks_In in Hx as [Ha Hx].
    unfold t7. destruct (N.eqb_spec (btype x) 7) as [E|E]; [|reflexivity]. exfalso.
    destruct Hx as [(y & Hy & _ & ->) | ->]; [|discriminate].
    rewrite bump_hop_btype in E. rewrite bump_hop_is_age in Ha. rewrite (Hall y Hy E) in Ha. discriminate. }
  rewrite fwd_blocks_eq. destruct (ct =? 0); [exact Hm|].
  apply insert_bl_filter_nil; [reflexivity|exact Hm].
Qed.

(** ** distinct block numbers *)

Lemma used_filter q l : NoDup (used_nums l) -> NoDup (used_nums (filter q l)).
Proof.
  unfold used_nums. intros H. inversion H as [|? ? Hn Hd]; subst. constructor.
  - intros Hin. apply Hn. eapply In_map_filter. exact Hin.
  - apply NoDup_map_filter. exact Hd.
Qed.

Lemma used_insert x l :
  NoDup (used_nums l) -> ~ In (bnum x) (used_nums l) -> NoDup (used_nums (insert_bl x l)).
Proof.
  unfold used_nums. intros Hd Hn.
  apply Permutation_NoDup with (l := bnum x :: 0 :: map bnum l); [|constructor; assumption].
  eapply perm_trans; [apply perm_swap|]. apply perm_skip. apply insert_bl_map.
Qed.

Lemma used_bump l : used_nums (map bump_hop l) = used_nums l.
Proof.
  unfold used_nums. f_equal. rewrite map_map. apply map_ext. intros x. apply bump_hop_bnum.
Qed.

Lemma mid_blocks_nodup node bl : NoDup (used_nums bl) -> NoDup (used_nums (mid_blocks node bl)).
Proof.
  intros H. unfold mid_blocks, remove_all. apply used_filter. rewrite used_bump.
  apply used_insert; [apply used_filter, H|].
  cbn [prev_blk new_block bnum]. apply alloc_spec.
Qed.

Theorem fwd_blocks_nodup node now ct bl :
  NoDup (used_nums bl) -> NoDup (used_nums (fwd_blocks node now ct bl)).
Proof.
  intros H. rewrite fwd_blocks_eq. pose proof (mid_blocks_nodup node bl H) as Hm.
  destruct (ct =? 0); [exact Hm|]. apply used_insert; [exact Hm|].
  cbn [age_blk new_block bnum]. apply alloc_spec.
Qed.

(** ** numbers stay below 2^64 *)

Lemma used_nums_length l : length (used_nums l) = S (length l).
Proof. unfold used_nums. cbn [length]. rewrite map_length. reflexivity. Qed.

Lemma prev_num_bound bl : 2 <= prev_num bl <= 3 + N.of_nat (length bl).
Proof.
  unfold prev_num. pose proof (alloc_spec 1 (used_nums (remove_all is_prev bl))) as [_ H].
  rewrite used_nums_length in H. unfold remove_all in *.
  pose proof (filter_len_le (fun x => negb (is_prev x)) bl). lia.
Qed.

Lemma insert_bl_length x l : length (insert_bl x l) = S (length l).
Proof. rewrite <- (Permutation_length (insert_bl_perm x l)). reflexivity. Qed.

Lemma mid_blocks_length node bl : (length (mid_blocks node bl) <= S (length bl))%nat.
Proof.
  unfold mid_blocks, remove_all.
  eapply Nat.le_trans; [apply filter_len_le|]. rewrite map_length, insert_bl_length.
  pose proof (filter_len_le (fun x => negb (is_prev x)) bl). lia.
Qed.

Lemma age_num_bound node bl : age_num node bl <= 7 + 2 * N.of_nat (length bl).
Proof.
  unfold age_num. pose proof (alloc_spec (prev_num bl) (used_nums (mid_blocks node bl))) as [_ H].
  rewrite used_nums_length in H.
  pose proof (prev_num_bound bl). pose proof (mid_blocks_length node bl) as Hl. lia.
Qed.

(** ** the last block stays the last block *)

Lemma remove_all_snoc p pre y : p y = false -> remove_all p (pre ++ [y]) = remove_all p pre ++ [y].
Proof. intros H. unfold remove_all. rewrite filter_app. cbn [filter]. rewrite H. reflexivity. Qed.

Lemma is_prev_t1 x : btype x = 1 -> is_prev x = false.
Proof. intros H. unfold is_prev. rewrite H. reflexivity. Qed.
Lemma is_age_t1 x : btype x = 1 -> is_age x = false.
Proof. intros H. unfold is_age. rewrite H. reflexivity. Qed.

Theorem fwd_blocks_last node now ct pre pl :
  btype pl = 1 -> exists pre', fwd_blocks node now ct (pre ++ [pl]) = pre' ++ [pl].
Proof.
  intros H1.
  assert (Hm : exists pre', mid_blocks node (pre ++ [pl]) = pre' ++ [pl]).
  { unfold mid_blocks. rewrite (remove_all_snoc is_prev) by (apply is_prev_t1, H1).
    rewrite insert_bl_snoc. rewrite map_app. cbn [map].
    rewrite (bump_hop_other pl) by (rewrite H1; reflexivity).
    change (map bump_hop (remove_all is_prev pre) ++ [bump_hop (prev_blk node (pre ++ [pl])); pl])
      with (map bump_hop (remove_all is_prev pre) ++ [bump_hop (prev_blk node (pre ++ [pl]))] ++ [pl]).
    rewrite app_assoc. rewrite remove_all_snoc by (apply is_age_t1, H1). eexists. reflexivity. }
  rewrite fwd_blocks_eq. destruct Hm as [pre' Hm]. destruct (ct =? 0); [exists pre'; exact Hm|].
  rewrite Hm, insert_bl_snoc. exists (pre' ++ [age_blk node now ct (pre ++ [pl])]).
  rewrite <- app_assoc. reflexivity.
Qed.


(** * Typed block data on the wire *)

Lemma decode_one_encode v : Cbor.wf v -> (depth v <= bundle_fuel)%nat -> decode_one (encode v) = Some v.
Proof.
  intros Hw Hd. unfold decode_one. rewrite <- (app_nil_r (encode v)).
  rewrite decode_encode_depth by assumption. reflexivity.
Qed.

Lemma prev_node_roundtrip e : wf_eid e -> decode_prev_node (encode_prev_node e) = Some e.
Proof.
  intros H. unfold decode_prev_node, encode_prev_node.
  rewrite decode_one_encode; [apply eid_roundtrip, H|apply cbor_of_eid_wf, H|].
  pose proof (cbor_of_eid_depth e). unfold bundle_fuel. lia.
Qed.

Lemma bundle_age_roundtrip n : n < two64 -> decode_bundle_age (encode_bundle_age n) = Some n.
Proof.
  intros H. unfold decode_bundle_age, encode_bundle_age.
  rewrite decode_one_encode; [reflexivity|exact H|cbn; unfold bundle_fuel; lia].
Qed.

Lemma hop_count_roundtrip l c : l < two64 -> c < two64 -> decode_hop_count (encode_hop_count (l, c)) = Some (l, c).
Proof.
  intros Hl Hc. unfold decode_hop_count, encode_hop_count. cbn [fst snd].
  rewrite decode_one_encode; [reflexivity| |cbn; unfold bundle_fuel; lia].
  cbn. repeat split; try assumption; lia.
Qed.

Lemma decode_hop_count_inv bs l c :
  decode_hop_count bs = Some (l, c) -> decode bundle_fuel bs = Some (CArr [CUint l; CUint c], []).
Proof.
  unfold decode_hop_count, decode_one.
  destruct (decode bundle_fuel bs) as [[v rest]|]; [|discriminate].
  destruct rest; [|discriminate].
  repeat (match goal with |- (match ?x with _ => _ end = _) -> _ => destruct x end; try discriminate).
  intros H. injection H as -> ->. reflexivity.
Qed.

Lemma hop_view_bounds x l c : wf_cblock x -> hop_view x = Some (l, c) -> l < two64 /\ c < two64.
Proof.
  intros (_ & _ & _ & _ & Hlen & Hwf & _). unfold hop_view.
  destruct (btype x =? BLOCK_HOP_COUNT); [|discriminate]. intros H.
  apply decode_hop_count_inv in H. apply decode_wf in H as [H _]; [|exact Hwf|exact Hlen].
  cbn in H. tauto.
Qed.

Lemma encode_hop_count_length l c : (length (encode_hop_count (l, c)) <= 19)%nat.
Proof.
  unfold encode_hop_count. cbn [fst snd]. rewrite encode_arr_length.
  rewrite !encode_seq_length_cons. cbn [encode_seq map concat length].
  rewrite !encode_uint_length. cbn [length].
  pose proof (head_len_bounds l). pose proof (head_len_bounds c).
  change (head_len (N.of_nat 2)) with 1%nat. lia.
Qed.

(** * Well-formedness of what is encoded *)

Lemma crc_field_wf ct bs :
  ct < 3 ->
  match crc_field ct bs with
  | Some v => ct <> 0 /\ N.of_nat (length v) < two64 /\ wf_bytes v
  | None => ct = 0
  end.
Proof.
  intros H. unfold crc_field. destruct (N.eqb_spec ct 1) as [E1|E1].
  - cbv beta iota. unfold crc16_x25_field. rewrite be_length. split; [lia|]. split; [cbn; lia|apply be_wf].
  - destruct (N.eqb_spec ct 2) as [E2|E2]; [|lia].
    cbv beta iota. unfold crc32c_field. rewrite be_length. split; [lia|]. split; [cbn; lia|apply be_wf].
Qed.

Lemma with_crc_block_wf x : wf_cblock x -> wf_cblock (with_crc_block x).
Proof.
  intros (H1 & H2 & H3 & H4 & H5 & H6 & _). unfold with_crc_block, set_bcrc, wf_cblock.
  cbn [btype bnum bflags bcrc_type btsd bcrc]. repeat (split; [assumption|]).
  apply crc_field_wf, H4.
Qed.

Lemma with_crc_primary_wf p : wf_primary p -> wf_primary (with_crc_primary p).
Proof.
  intros (H1 & H2 & H3 & H4 & H5 & H6 & H7 & H8 & H9 & H10 & _).
  unfold with_crc_primary, set_crc, wf_primary, is_fragment.
  cbn [version flags crc_type dest src report_to create_time create_seq lifetime frag crc].
  repeat (split; [assumption|]). apply crc_field_wf, H3.
Qed.

Lemma apply_primary_wf now p : now < two64 -> wf_primary p -> wf_primary (apply_primary now p).
Proof.
  intros Hn (H1 & H2 & H3 & H4 & H5 & H6 & H7 & H8 & H9 & H10 & H11).
  unfold apply_primary, wf_primary, is_fragment, DEFAULT_LIFETIME.
  cbn [version flags crc_type dest src report_to create_time create_seq lifetime frag crc].
  repeat (split; [assumption|]).
  split; [destruct (create_time p =? 0); assumption|].
  split; [destruct (create_time p =? 0); [lia|assumption]|].
  split; [destruct (lifetime p =? 0); [lia|assumption]|].
  split; assumption.
Qed.

Lemma apply_norm_comm now p : impl_norm_primary (apply_primary now p) = apply_primary now (impl_norm_primary p).
Proof. reflexivity. Qed.

Lemma bump_hop_wf x : wf_cblock x -> hop_okb x = true -> wf_cblock (bump_hop x).
Proof.
  intros Hw Hok. unfold bump_hop. unfold hop_okb in Hok.
  destruct (hop_view x) as [[l c]|] eqn:E; [|exact Hw].
  destruct (hop_view_bounds x l c Hw E) as [Hl Hc].
  destruct Hw as (H1 & H2 & H3 & H4 & H5 & H6 & H7).
  unfold lt64 in Hok. apply N.ltb_lt in Hok.
  unfold set_btsd, wf_cblock. cbn [btype bnum bflags bcrc_type btsd bcrc].
  repeat (split; [assumption|]).
  split; [pose proof (encode_hop_count_length l (c + 1)); lia|].
  split; [|exact H7].
  unfold encode_hop_count. apply encode_wf. cbn. repeat split; try assumption; lia.
Qed.

Lemma new_block_wf t n d :
  t < two64 -> n < two64 -> N.of_nat (length d) < two64 -> wf_bytes d -> wf_cblock (new_block t n d).
Proof.
  intros. unfold new_block, wf_cblock. cbn [btype bnum bflags bcrc_type btsd bcrc].
  repeat split; try assumption; lia.
Qed.

Lemma age_item_wf now ct : now < two64 -> ct < two64 -> Cbor.wf (age_item now ct).
Proof. intros. unfold age_item. destruct (ct <=? now) eqn:E; cbn; lia. Qed.

Lemma encode_int_length v : (exists n, v = CUint n \/ v = CNint n) -> (length (encode v) <= 9)%nat.
Proof.
  intros (n & [-> | ->]); [rewrite encode_uint_length|rewrite encode_nint_length];
    pose proof (head_len_bounds n); lia.
Qed.


(** * The common hypothesis as propositions *)

Record fwd_in (node : eid) (now : N) (b : bundle) : Prop := mkFwdIn {
  in_wfp : wf_primary (impl_norm_primary (prim b));
  in_wfn : Forall wf_cblock (map (impl_norm_cblock (is_admin (prim b))) (blocks b));
  in_wfb : Forall wf_cblock (blocks b);
  in_adm : impl_admin_ok (impl_norm_bundle b) = true;
  in_nod : NoDup (used_nums (blocks b));
  in_len : N.of_nat (length (blocks b)) < 4294967296;
  in_hop : Forall (fun x => hop_okb x = true) (blocks b);
  in_raise : forall x, In x (blocks b) -> hop_raises x = false;
  in_now : now < two64;
  in_node_wf : wf_eid node;
  in_node_stable : impl_norm_eid node = node;
  in_node_len : N.of_nat (length (encode_prev_node node)) < two64
}.

Lemma existsb_false {A} (f : A -> bool) l : existsb f l = false <-> forall x, In x l -> f x = false.
Proof.
  induction l as [|y l IH]; cbn [existsb In]; [intuition|].
  rewrite orb_false_iff, IH. split.
  - intros [H1 H2] x [<-|Hx]; [exact H1|apply H2, Hx].
  - intros H. split; [apply H; left; reflexivity|intros x Hx; apply H; right; exact Hx].
Qed.

Lemma forallb_Forall {A} (f : A -> bool) l : forallb f l = true <-> Forall (fun x => f x = true) l.
Proof. rewrite forallb_forall, Forall_forall. reflexivity. Qed.

Lemma forallb_wf_cblock l : forallb wf_cblockb l = true <-> Forall wf_cblock l.
Proof.
  rewrite forallb_forall, Forall_forall. split; intros H x Hx; apply wf_cblockb_spec, H, Hx.
Qed.

Lemma fwd_inb_spec node now b : fwd_inb node now b = true -> fwd_in node now b.
Proof.
  unfold fwd_inb, node_okb, lt64. rewrite !andb_true_iff.
  intros [[[[[[[[[H1 H2] H3] H4] H5] H6] H7] H8] H9] [[H10 H11] H12]].
  constructor.
  - apply wf_primaryb_spec. exact H1.
  - apply forallb_wf_cblock. exact H2.
  - apply forallb_wf_cblock. exact H3.
  - exact H4.
  - apply nodupb_spec. exact H5.
  - apply N.ltb_lt. exact H6.
  - apply forallb_Forall. exact H7.
  - apply existsb_false. apply negb_true_iff. exact H8.
  - apply N.ltb_lt. exact H9.
  - apply wf_eidb_spec. exact H10.
  - apply eid_eqb_eq. exact H11.
  - apply N.ltb_lt. exact H12.
Qed.

(** * The forwarded bundle, field by field *)

Lemma do_fwd_prim node now b :
  prim (do_fwd node now b) = with_crc_primary (apply_primary now (impl_norm_primary (prim b))).
Proof. reflexivity. Qed.

Lemma do_fwd_blocks node now b :
  blocks (do_fwd node now b) =
  map (fin (is_admin (prim b))) (fwd_blocks node now (create_time (prim b)) (blocks b)).
Proof. unfold do_fwd, finish, with_crc_bundle, impl_norm_bundle. cbn [prim blocks]. rewrite map_map. reflexivity. Qed.

Section WithHyp.
  Variables (node : eid) (now : N) (b : bundle).
  Hypothesis Hin : fwd_in node now b.

  Let a := is_admin (prim b).
  Let ct := create_time (prim b).
  Let bl' := fwd_blocks node now ct (blocks b).

  Lemma in_ct : ct < two64.
  Proof. destruct (in_wfp _ _ _ Hin) as (_ & _ & _ & _ & _ & _ & H & _). exact H. Qed.

  Lemma prev_blk_wf : wf_cblock (prev_blk node (blocks b)).
  Proof.
    unfold prev_blk. rewrite (in_node_stable _ _ _ Hin). apply new_block_wf.
    - cbv. reflexivity.
    - pose proof (prev_num_bound (blocks b)). pose proof (in_len _ _ _ Hin). lia.
    - apply (in_node_len _ _ _ Hin).
    - apply encode_wf, cbor_of_eid_wf, (in_node_wf _ _ _ Hin).
  Qed.

  Lemma age_blk_wf : wf_cblock (age_blk node now ct (blocks b)).
  Proof.
    unfold age_blk. apply new_block_wf.
    - cbv. reflexivity.
    - pose proof (age_num_bound node (blocks b)). pose proof (in_len _ _ _ Hin). lia.
    - assert (H : (length (encode (age_item now ct)) <= 9)%nat).
      { apply encode_int_length. unfold age_item. destruct (ct <=? now); eexists; [left|right]; reflexivity. }
      lia.
    - apply encode_wf, age_item_wf; [apply (in_now _ _ _ Hin)|apply in_ct].
  Qed.

  Lemma fwd_block_wf x : In x bl' -> wf_cblock (fin a x).
  Proof.
    intros Hx. unfold fin. apply with_crc_block_wf.
    apply fwd_blocks_In in Hx as [(y & Hy & ->)|[->|[_ ->]]].
    - destruct (btype y =? 1) eqn:E1.
      + rewrite bump_hop_other by (apply N.eqb_eq in E1; rewrite E1; reflexivity).
        pose proof (in_wfn _ _ _ Hin) as H. rewrite Forall_forall in H. apply H.
        apply in_map. exact Hy.
      + rewrite norm_cblock_other by (rewrite bump_hop_btype; exact E1).
        pose proof (in_wfb _ _ _ Hin) as H. rewrite Forall_forall in H.
        pose proof (in_hop _ _ _ Hin) as H'. rewrite Forall_forall in H'.
        apply bump_hop_wf; [apply H, Hy|apply H', Hy].
    - rewrite norm_cblock_other by reflexivity. apply prev_blk_wf.
    - rewrite norm_cblock_other by reflexivity. apply age_blk_wf.
  Qed.

  Lemma do_fwd_wf_blocks : Forall wf_cblock (blocks (do_fwd node now b)).
  Proof.
    rewrite do_fwd_blocks. apply Forall_forall. intros z Hz. apply in_map_iff in Hz as (x & <- & Hx).
    apply fwd_block_wf. exact Hx.
  Qed.

  Lemma do_fwd_wf_prim : wf_primary (prim (do_fwd node now b)).
  Proof.
    rewrite do_fwd_prim. apply with_crc_primary_wf, apply_primary_wf; [apply (in_now _ _ _ Hin)|apply (in_wfp _ _ _ Hin)].
  Qed.

  Definition adm_blk (blk : cblock) : bool :=
    if btype blk =? 1 then match decode_admin_record (btsd blk) with Some _ => true | None => false end else true.

  Lemma do_fwd_admin_ok : impl_admin_ok (do_fwd node now b) = true.
  Proof.
    unfold impl_admin_ok. change (is_admin (prim (do_fwd node now b))) with a.
    destruct a eqn:Ea; [|reflexivity].
    pose proof (in_adm _ _ _ Hin) as Hadm. unfold impl_admin_ok in Hadm.
    change (is_admin (prim (impl_norm_bundle b))) with a in Hadm. rewrite Ea in Hadm.
    change (blocks (impl_norm_bundle b)) with (map (impl_norm_cblock a) (blocks b)) in Hadm.
    rewrite Ea in Hadm.
    fold adm_blk in Hadm |- *. rewrite forallb_forall in Hadm.
    rewrite do_fwd_blocks. apply forallb_forall. intros z Hz. apply in_map_iff in Hz as (x & <- & Hx).
    fold a. rewrite Ea. unfold adm_blk. rewrite fin_btype.
    destruct (btype x =? 1) eqn:E1; [|reflexivity].
    apply fwd_blocks_In in Hx as [(y & Hy & ->)|[->|[_ ->]]]; try discriminate.
    rewrite bump_hop_btype in E1.
    rewrite bump_hop_other by (apply N.eqb_eq in E1; rewrite E1; reflexivity).
    specialize (Hadm (impl_norm_cblock true y) (in_map _ _ _ Hy)). unfold adm_blk in Hadm.
    destruct (norm_cblock_fields true y) as (Ht & _). rewrite Ht, E1 in Hadm. exact Hadm.
  Qed.

  (** the octets handed to the CL decode to the forwarded bundle *)
  Theorem fwd_wire : decode_bundle (encode_bundle (do_fwd node now b)) = Some (do_fwd node now b).
  Proof.
    unfold decode_bundle. rewrite decode_encode_bundle by (apply do_fwd_wf_prim || apply do_fwd_wf_blocks).
    cbn [bundle_of_cbor]. rewrite bundle_tree_roundtrip by (apply do_fwd_wf_prim || apply do_fwd_wf_blocks).
    rewrite do_fwd_admin_ok. reflexivity.
  Qed.
End WithHyp.


(** * The inserted blocks are recognised by the implementation's own dissector *)

Lemma decode_encode_nil v : Cbor.wf v -> (depth v <= bundle_fuel)%nat -> decode bundle_fuel (encode v) = Some (v, []).
Proof. intros Hw Hd. rewrite <- (app_nil_r (encode v)) at 1. apply decode_encode_depth; assumption. Qed.

Lemma impl_prev_parses_encode e : wf_eid e -> impl_prev_parses (encode_prev_node e) = true.
Proof.
  intros H. unfold impl_prev_parses, encode_prev_node.
  destruct (encode (cbor_of_eid e)) eqn:E; [reflexivity|]. rewrite <- E.
  rewrite decode_encode_nil; [|apply cbor_of_eid_wf, H|pose proof (cbor_of_eid_depth e); unfold bundle_fuel; lia].
  destruct e; reflexivity.
Qed.

Lemma impl_age_parses_encode now ct : now < two64 -> ct < two64 -> impl_age_parses (encode (age_item now ct)) = true.
Proof.
  intros Hn Hc. unfold impl_age_parses.
  destruct (encode (age_item now ct)) eqn:E; [reflexivity|]. rewrite <- E.
  rewrite decode_encode_nil; [|apply age_item_wf; assumption|].
  - unfold age_item. destruct (ct <=? now); reflexivity.
  - unfold age_item. destruct (ct <=? now); cbn; unfold bundle_fuel; lia.
Qed.

Lemma Forall2_map_same {A B} (R : A -> B -> Prop) (f : A -> B) l :
  (forall x, In x l -> R x (f x)) -> Forall2 R l (map f l).
Proof.
  induction l as [|x l IH]; intros H; cbn [map]; constructor.
  - apply H. left. reflexivity.
  - apply IH. intros y Hy. apply H. right. exact Hy.
Qed.

Lemma map_ext_filter_in {A B} (q : A -> bool) (f g : A -> B) l :
  (forall x, In x l -> q x = true -> f x = g x) -> map f (filter q l) = map g (filter q l).
Proof.
  intros H. apply map_ext_in. intros x Hx. apply filter_In in Hx as [Hx Hq]. apply H; assumption.
Qed.

Lemma opt_bytes_eqb_refl o : opt_bytes_eqb o o = true.
Proof. destruct o; cbn [opt_bytes_eqb]; [apply bytes_eqb_eq|]; reflexivity. Qed.

Lemma crc_ok_with_crc_block y : crc_ok_block (with_crc_block y) = true.
Proof. unfold crc_ok_block. destruct y. apply opt_bytes_eqb_refl. Qed.

Lemma crc_ok_with_crc_primary p : crc_ok_primary (with_crc_primary p) = true.
Proof. unfold crc_ok_primary. destruct p. apply opt_bytes_eqb_refl. Qed.

(** * Property C11 over the forwarded bundle *)

Section C11.
  Variables (node : eid) (now : N) (b : bundle).
  Hypothesis Hb : fwd_inb node now b = true.

  Let Hin : fwd_in node now b := fwd_inb_spec node now b Hb.
  Let a := is_admin (prim b).
  Let ct := create_time (prim b).
  Let out := do_fwd node now b.

  Lemma c11_wire : decode_bundle (encode_bundle (do_fwd node now b)) = Some (do_fwd node now b).
  Proof. apply fwd_wire. exact Hin. Qed.

  Lemma c11_w w : decode_bundle (encode_bundle (do_fwd node now b)) = Some w -> w = do_fwd node now b.
  Proof. rewrite c11_wire. intros H. injection H as <-. reflexivity. Qed.

  (** filters of the transmitted block list *)
  Lemma out_filter (q : cblock -> bool) :
    (forall x, q (fin a x) = q x) ->
    filter q (blocks out) = map (fin a) (filter q (fwd_blocks node now ct (blocks b))).
  Proof. intros H. unfold out. rewrite do_fwd_blocks. apply filter_map_comm. exact H. Qed.

  Lemma primary_char :
    prim out = with_crc_primary (apply_primary now (impl_norm_primary (prim b))).
  Proof. reflexivity. Qed.

  Lemma primary_unchanged :
    eids_stableb (prim b) = true -> (create_time (prim b) =? 0) = false -> (lifetime (prim b) =? 0) = false ->
    version (prim out) = version (prim b) /\ flags (prim out) = flags (prim b) /\
    crc_type (prim out) = crc_type (prim b) /\
    dest (prim out) = dest (prim b) /\ src (prim out) = src (prim b) /\
    report_to (prim out) = report_to (prim b) /\
    create_time (prim out) = create_time (prim b) /\ create_seq (prim out) = create_seq (prim b) /\
    lifetime (prim out) = lifetime (prim b) /\ frag (prim out) = frag (prim b).
  Proof.
    unfold eids_stableb. rewrite !andb_true_iff. intros [[Hd Hs] Hr] Ht Hl.
    apply eid_eqb_eq in Hd, Hs, Hr. rewrite primary_char.
    unfold with_crc_primary, set_crc, apply_primary, impl_norm_primary.
    cbn [version flags crc_type dest src report_to create_time create_seq lifetime frag crc].
    rewrite Ht, Hl. repeat split; assumption.
  Qed.

  (** fields that never change, whatever the received values *)
  Lemma primary_always :
    version (prim out) = version (prim b) /\ flags (prim out) = flags (prim b) /\
    crc_type (prim out) = crc_type (prim b) /\ frag (prim out) = frag (prim b) /\
    (create_time (prim b) <> 0 -> create_time (prim out) = create_time (prim b) /\ create_seq (prim out) = create_seq (prim b)) /\
    (lifetime (prim b) <> 0 -> lifetime (prim out) = lifetime (prim b)).
  Proof.
    rewrite primary_char. unfold with_crc_primary, set_crc, apply_primary, impl_norm_primary.
    cbn [version flags crc_type dest src report_to create_time create_seq lifetime frag crc].
    split; [reflexivity|]. split; [reflexivity|]. split; [reflexivity|]. split; [reflexivity|].
    split.
    - intros H. apply N.eqb_neq in H. rewrite H. split; reflexivity.
    - intros H. apply N.eqb_neq in H. rewrite H. reflexivity.
  Qed.

  Lemma t1_fin x : t1 (fin a x) = t1 x.
  Proof. unfold t1. rewrite fin_btype. reflexivity. Qed.
  Lemma t6_fin x : t6 (fin a x) = t6 x.
  Proof. unfold t6. rewrite fin_btype. reflexivity. Qed.
  Lemma t7_fin x : t7 (fin a x) = t7 x.
  Proof. unfold t7. rewrite fin_btype. reflexivity. Qed.
  Lemma t10_fin x : t10 (fin a x) = t10 x.
  Proof. unfold t10. rewrite fin_btype. reflexivity. Qed.

  Lemma keep_t1 : filter t1 (fwd_blocks node now ct (blocks b)) = filter t1 (blocks b).
  Proof.
    rewrite fwd_filter_keep.
    - rewrite <- (map_id (filter t1 (blocks b))) at 2. apply map_ext_filter.
      intros x Hx. apply bump_hop_other. unfold t1 in Hx. apply N.eqb_eq in Hx. rewrite Hx. reflexivity.
    - intros x Hx. unfold t1 in Hx. apply N.eqb_eq in Hx. split; [apply is_prev_t1|apply is_age_t1]; exact Hx.
    - intros x. unfold t1. rewrite bump_hop_btype. reflexivity.
    - reflexivity.
    - reflexivity.
  Qed.

  Lemma payload_unchanged :
    payload_stableb b = true ->
    map core (filter t1 (blocks out)) = map core (filter t1 (blocks b)).
  Proof.
    intros Hs. rewrite out_filter by apply t1_fin. rewrite keep_t1. rewrite map_map.
    apply map_ext_filter_in. intros x Hxin Hx.
    unfold payload_stableb in Hs. rewrite forallb_forall in Hs. specialize (Hs x Hxin).
    unfold t1 in Hx. rewrite Hx in Hs. cbn [negb orb] in Hs. apply bytes_eqb_eq in Hs.
    unfold core. rewrite fin_btype, fin_bnum, fin_bflags, fin_bcrc_type, fin_btsd_norm.
    fold a in Hs. rewrite Hs. reflexivity.
  Qed.

  (** ** previous node *)
  Lemma prev_exactly_one :
    prev_parseb b = true ->
    exists blk, filter t6 (blocks out) = [blk] /\ decode_prev_node (btsd blk) = Some node.
  Proof.
    intros Hp. unfold prev_parseb in Hp. rewrite forallb_forall in Hp.
    rewrite out_filter by apply t6_fin. rewrite fwd_filter_prev.
    - cbn [map]. eexists. split; [reflexivity|].
      rewrite fin_btsd_other by reflexivity. cbn [prev_blk new_block btsd].
      rewrite (in_node_stable _ _ _ Hin). apply prev_node_roundtrip, (in_node_wf _ _ _ Hin).
    - intros x Hx E. specialize (Hp x Hx). change BLOCK_PREV_NODE with 6 in Hp. rewrite E in Hp. exact Hp.
  Qed.

  (** ** hop count *)
  Lemma keep_t10 : filter t10 (fwd_blocks node now ct (blocks b)) = map bump_hop (filter t10 (blocks b)).
  Proof.
    apply fwd_filter_keep.
    - intros x Hx. unfold t10 in Hx. apply N.eqb_eq in Hx. unfold is_prev, is_age. rewrite Hx. split; reflexivity.
    - intros x. unfold t10. rewrite bump_hop_btype. reflexivity.
    - reflexivity.
    - reflexivity.
  Qed.

  Lemma hop_count :
    Forall2 (fun rb wb =>
               bnum wb = bnum rb /\ bflags wb = bflags rb /\ bcrc_type wb = bcrc_type rb /\
               match decode_hop_count (btsd rb) with
               | Some (l, c) => decode_hop_count (btsd wb) = Some (l, c + 1)
               | None => btsd wb = btsd rb
               end)
            (filter t10 (blocks b)) (filter t10 (blocks out)).
  Proof.
    rewrite out_filter by apply t10_fin. rewrite keep_t10, map_map.
    apply Forall2_map_same. intros x Hx. apply filter_In in Hx as [Hx Ht].
    unfold t10 in Ht. pose proof Ht as Ht'. apply N.eqb_eq in Ht'.
    rewrite fin_bnum, fin_bflags, fin_bcrc_type, bump_hop_bnum.
    destruct (bump_hop_fields x) as (_ & _ & Hf & Hc & _). rewrite Hf, Hc.
    split; [reflexivity|]. split; [reflexivity|]. split; [reflexivity|].
    rewrite fin_btsd_other by (rewrite bump_hop_btype, Ht'; reflexivity).
    assert (Hv : hop_view x = decode_hop_count (btsd x)).
    { unfold hop_view. change BLOCK_HOP_COUNT with 10. rewrite Ht. reflexivity. }
    unfold bump_hop. rewrite Hv.
    destruct (decode_hop_count (btsd x)) as [[l c]|] eqn:E; [|reflexivity].
    cbn [set_btsd btsd].
    pose proof (in_wfb _ _ _ Hin) as Hw. rewrite Forall_forall in Hw.
    pose proof (in_hop _ _ _ Hin) as Hh. rewrite Forall_forall in Hh.
    destruct (hop_view_bounds x l c (Hw x Hx) Hv) as [Hl _].
    specialize (Hh x Hx). unfold hop_okb in Hh. rewrite Hv in Hh. unfold lt64 in Hh. apply N.ltb_lt in Hh.
    apply hop_count_roundtrip; assumption.
  Qed.

  (** ** bundle age *)
  Lemma age_at_most_one :
    age_parseb b = true ->
    (create_time (prim b) = 0 -> filter t7 (blocks out) = []) /\
    (create_time (prim b) <> 0 ->
     exists blk, filter t7 (blocks out) = [blk] /\
                 (create_time (prim b) <= now -> decode_bundle_age (btsd blk) = Some (now - create_time (prim b)))).
  Proof.
    intros Hp. unfold age_parseb in Hp. rewrite forallb_forall in Hp.
    assert (Hf : filter t7 (blocks out) =
                 map (fin a) (if ct =? 0 then [] else [age_blk node now ct (blocks b)])).
    { rewrite out_filter by apply t7_fin. rewrite fwd_filter_age; [reflexivity|].
      intros x Hx E. specialize (Hp x Hx). change BLOCK_AGE with 7 in Hp. rewrite E in Hp. exact Hp. }
    split.
    - intros E. rewrite Hf. fold ct in E. rewrite E. reflexivity.
    - intros E. fold ct in E. apply N.eqb_neq in E. rewrite Hf, E. cbn [map]. eexists. split; [reflexivity|].
      intros Hle. rewrite fin_btsd_other by reflexivity. cbn [age_blk new_block btsd].
      unfold age_item. fold ct in Hle. apply N.leb_le in Hle. rewrite Hle.
      apply bundle_age_roundtrip. pose proof (in_now _ _ _ Hin). lia.
  Qed.

  (** ** block numbers *)
  Lemma numbers_unique : NoDup (map bnum (blocks out)) /\ ~ In 0 (map bnum (blocks out)).
  Proof.
    assert (H : NoDup (used_nums (blocks out))).
    { unfold out. rewrite do_fwd_blocks. unfold used_nums. rewrite map_map.
      rewrite (map_ext (fun x => bnum (fin a x)) bnum) by (intros x; apply fin_bnum).
      apply (fwd_blocks_nodup node now ct (blocks b)), (in_nod _ _ _ Hin). }
    unfold used_nums in H. inversion H; subst. split; assumption.
  Qed.

  (** ** payload block last, numbered 1 *)
  Lemma payload_last_num1 :
    payload_last_num1b (blocks b) = true ->
    exists pre pl, blocks out = pre ++ [pl] /\ btype pl = 1 /\ bnum pl = 1.
  Proof.
    unfold payload_last_num1b. intros H.
    destruct (list_last_case (blocks b)) as [E|(pre & pl & E)]; rewrite E in H.
    - discriminate.
    - rewrite rev_app_distr in H. cbn [rev app] in H. apply andb_true_iff in H as [H1 Hn].
      apply N.eqb_eq in H1, Hn.
      destruct (fwd_blocks_last node now ct pre pl H1) as [pre' Hl].
      unfold out. rewrite do_fwd_blocks, E. fold ct. rewrite Hl, map_app. cbn [map].
      exists (map (fin (is_admin (prim b))) pre'), (fin (is_admin (prim b)) pl).
      split; [reflexivity|]. rewrite fin_btype, fin_bnum. split; assumption.
  Qed.

  (** ** CRCs *)
  Lemma crcs_valid : crc_ok_bundle out = true.
  Proof.
    unfold crc_ok_bundle. apply andb_true_iff. split.
    - rewrite primary_char. apply crc_ok_with_crc_primary.
    - unfold out. rewrite do_fwd_blocks. apply forallb_forall. intros z Hz.
      apply in_map_iff in Hz as (x & <- & _). apply crc_ok_with_crc_block.
  Qed.

  (** ** everything else *)
  Lemma untouched_fin x : untouchedb (fin a x) = untouchedb x.
  Proof.
    unfold untouchedb. rewrite fin_btype. change BLOCK_PAYLOAD with 1.
    destruct (btype x =? 1) eqn:E; [rewrite !andb_false_r; reflexivity|].
    unfold is_prev, is_age. rewrite fin_btype, fin_btsd_other by exact E. reflexivity.
  Qed.

  Lemma other_blocks_untouched :
    map core (filter untouchedb (blocks out)) = map core (filter untouchedb (blocks b)).
  Proof.
    rewrite out_filter by apply untouched_fin. rewrite fwd_filter_keep.
    - rewrite !map_map. apply map_ext_filter. intros x Hx.
      unfold untouchedb in Hx. rewrite !andb_true_iff, !negb_true_iff in Hx. destruct Hx as [[[_ _] H10] H1].
      rewrite bump_hop_other by exact H10. apply fin_core_other. exact H1.
    - intros x Hx. unfold untouchedb in Hx. rewrite !andb_true_iff, !negb_true_iff in Hx. tauto.
    - intros x. unfold untouchedb. rewrite bump_hop_is_prev, bump_hop_is_age, bump_hop_btype. reflexivity.
    - unfold untouchedb. assert (H : is_prev (prev_blk node (blocks b)) = true); [|rewrite H; reflexivity].
      unfold is_prev. cbn [prev_blk new_block btype btsd]. rewrite (in_node_stable _ _ _ Hin).
      rewrite impl_prev_parses_encode by apply (in_node_wf _ _ _ Hin). reflexivity.
    - unfold untouchedb. assert (H : is_age (age_blk node now ct (blocks b)) = true); [|rewrite H, andb_false_r; reflexivity].
      unfold is_age. cbn [age_blk new_block btype btsd].
      rewrite impl_age_parses_encode; [reflexivity|apply (in_now _ _ _ Hin)|apply (in_ct node now b Hin)].
  Qed.
End C11.


(** * From the CL callback to the CL sender *)

Theorem recv_fwd_sent node now bs b :
  decode_bundle bs = Some b -> fwd_inb node now b = true -> recv_crc_ok b = true ->
  eid_eqb (src (prim b)) node = false ->
  recv_fwd node now bs = RxSent (encode_bundle (do_fwd node now b)).
Proof.
  intros Hd Hb Hc Hs. unfold recv_fwd. rewrite Hd.
  pose proof (fwd_inb_spec node now b Hb) as Hin.
  assert (H1 : nodupb (used_nums (blocks b)) = true) by (apply nodupb_spec, (in_nod _ _ _ Hin)).
  rewrite H1, Hc, Hs. cbn [negb].
  assert (H2 : existsb hop_raises (blocks b) = false) by (apply existsb_false, (in_raise _ _ _ Hin)).
  rewrite H2. reflexivity.
Qed.

Theorem recv_fwd_duplicate_numbers node now bs b :
  decode_bundle bs = Some b -> nodupb (used_nums (blocks b)) = false ->
  recv_fwd node now bs = RxContainerRaises.
Proof. intros Hd Hn. unfold recv_fwd. rewrite Hd, Hn. reflexivity. Qed.

(** * Witnesses *)

Definition ex_node : eid := EidDtn [47; 47; 109; 101; 47].          (* dtn://me/ *)
Definition ex_now : N := 800000000000.
Definition ex_dest : eid := EidDtn [47; 47; 100; 47; 120].           (* dtn://d/x *)
Definition ex_primary (ct lt ctype : N) (d : eid) (fl : N) : primary :=
  mkPrimary 7 fl ctype d (EidIpn [1; 2]) EidDtnNone ct 3 lt None None.
Definition ex_prev : cblock := mkCBlock 6 2 0 0 (encode_prev_node (EidDtn [47; 47; 112; 47])) None.
Definition ex_hop : cblock := mkCBlock 10 3 0 1 (encode_hop_count (30, 3)) None.
Definition ex_age : cblock := mkCBlock 7 4 0 0 (encode_bundle_age 5) None.
Definition ex_unk : cblock := mkCBlock 192 5 1 2 [1; 2; 3] None.
Definition ex_pay : cblock := mkCBlock 1 1 0 2 [104; 105] None.
(** CRC values filled in, as a sender would *)
Definition mk_ex (p : primary) (bl : list cblock) : bundle := with_crc_bundle (mkBundle p bl).

(** a received bundle with one block of each kind: satisfies every hypothesis used below *)
Definition ex_bundle : bundle :=
  mk_ex (ex_primary 700000000000 1000 1 ex_dest 0) [ex_prev; ex_hop; ex_age; ex_unk; ex_pay].

Definition all_guards (node : eid) (now : N) (b : bundle) : list bool :=
  [fwd_inb node now b; eids_stableb (prim b); payload_stableb b; prev_parseb b; age_parseb b;
   payload_last_num1b (blocks b); negb (create_time (prim b) =? 0); negb (lifetime (prim b) =? 0);
   create_time (prim b) <=? now; recv_crc_ok b; negb (eid_eqb (src (prim b)) node)].

Example ex_bundle_hyps :
  all_guards ex_node ex_now ex_bundle = [true; true; true; true; true; true; true; true; true; true; true] /\
  decode_bundle (encode_bundle ex_bundle) = Some ex_bundle.
Proof. split; vm_compute; reflexivity. Qed.

(** what leaves the node: hop count [30,4] (CRC kept), unknown block as it came, previous node = dtn://me/
    numbered 2 (the number of the removed one), age 10^11 ms numbered 4, payload last *)
Example ex_bundle_forwarded :
  map core (blocks (do_fwd ex_node ex_now ex_bundle)) =
  [(10, 3, 0, 1, [130; 24; 30; 4]); (192, 5, 1, 2, [1; 2; 3]);
   (6, 2, 0, 0, [130; 1; 101; 47; 47; 109; 101; 47]);
   (7, 4, 0, 0, [27; 0; 0; 0; 23; 72; 118; 232; 0]);
   (1, 1, 0, 2, [104; 105])] /\
  recv_fwd ex_node ex_now (encode_bundle ex_bundle) = RxSent (encode_bundle (do_fwd ex_node ex_now ex_bundle)).
Proof. split; vm_compute; reflexivity. Qed.

(** witnesses of the refuted statements: each violates exactly one guard *)
Definition wit_time0 := mk_ex (ex_primary 0 1000 1 ex_dest 0) [ex_age; ex_pay].
Definition wit_life0 := mk_ex (ex_primary 700000000000 0 1 ex_dest 0) [ex_pay].
Definition query_dest : eid := EidDtn [47; 47; 100; 47; 120; 63; 121].   (* dtn://d/x?y *)
Definition wit_eid := mk_ex (ex_primary 700000000000 1000 0 query_dest 0) [ex_pay].
Definition query_report : status_report :=
  mkStatusReport (true, None) (false, None) (false, None) (false, None) 0
                 (EidDtn [47; 47; 120; 47; 97; 63; 98]) 5 1 None None.   (* subject source dtn://x/a?b *)
Definition wit_admin := mk_ex (ex_primary 700000000000 1000 1 ex_dest 2)
                              [mkCBlock 1 1 0 1 (encode_status_report query_report) None].
Definition wit_prevjunk := mk_ex (ex_primary 700000000000 1000 1 ex_dest 0) [mkCBlock 6 2 0 0 [5] None; ex_pay].
Definition wit_agejunk := mk_ex (ex_primary 700000000000 1000 1 ex_dest 0) [mkCBlock 7 2 0 0 [97; 120] None; ex_pay].
Definition wit_future := mk_ex (ex_primary 800000001000 1000 1 ex_dest 0) [ex_pay].
Definition wit_paypos := mk_ex (ex_primary 700000000000 1000 1 ex_dest 0) [ex_pay; ex_unk].

Example witnesses_guards :
  map (all_guards ex_node ex_now) [wit_time0; wit_life0; wit_eid; wit_admin; wit_prevjunk; wit_agejunk; wit_future; wit_paypos] =
  [[true; true; true; true; true; true; false; true; true; true; true];
   [true; true; true; true; true; true; true; false; true; true; true];
   [true; false; true; true; true; true; true; true; true; true; true];
   [true; true; false; true; true; true; true; true; true; true; true];
   [true; true; true; false; true; true; true; true; true; true; true];
   [true; true; true; true; false; true; true; true; true; true; true];
   [true; true; true; true; true; true; true; true; false; true; true];
   [true; true; true; true; true; false; true; true; true; true; true]].
Proof. vm_compute. reflexivity. Qed.

Definition wire (node : eid) (now : N) (b : bundle) : option bundle :=
  decode_bundle (encode_bundle (do_fwd node now b)).

Lemma time0_refutes :
  fwd_inb ex_node ex_now wit_time0 = true /\ eids_stableb (prim wit_time0) = true /\
  (lifetime (prim wit_time0) =? 0) = false /\
  exists w, wire ex_node ex_now wit_time0 = Some w /\
            create_time (prim wit_time0) = 0 /\ create_time (prim w) = ex_now /\
            create_seq (prim wit_time0) = 3 /\ create_seq (prim w) = 0 /\
            filter (fun x => btype x =? 7) (blocks wit_time0) <> [] /\ filter (fun x => btype x =? 7) (blocks w) = [].
Proof.
  split; [vm_compute; reflexivity|]. split; [vm_compute; reflexivity|]. split; [vm_compute; reflexivity|].
  eexists. split; [vm_compute; reflexivity|]. repeat split; try (vm_compute; reflexivity).
  vm_compute. discriminate.
Qed.

Lemma life0_refutes :
  fwd_inb ex_node ex_now wit_life0 = true /\ eids_stableb (prim wit_life0) = true /\
  (create_time (prim wit_life0) =? 0) = false /\
  exists w, wire ex_node ex_now wit_life0 = Some w /\ lifetime (prim wit_life0) = 0 /\ lifetime (prim w) = 3600000.
Proof.
  split; [vm_compute; reflexivity|]. split; [vm_compute; reflexivity|]. split; [vm_compute; reflexivity|].
  eexists. split; [vm_compute; reflexivity|]. split; vm_compute; reflexivity.
Qed.

Lemma eid_refutes :
  fwd_inb ex_node ex_now wit_eid = true /\
  (create_time (prim wit_eid) =? 0) = false /\ (lifetime (prim wit_eid) =? 0) = false /\
  recv_crc_ok wit_eid = true /\
  exists w, wire ex_node ex_now wit_eid = Some w /\ dest (prim w) <> dest (prim wit_eid).
Proof.
  split; [vm_compute; reflexivity|]. split; [vm_compute; reflexivity|]. split; [vm_compute; reflexivity|].
  split; [vm_compute; reflexivity|].
  eexists. split; [vm_compute; reflexivity|]. vm_compute. discriminate.
Qed.

Lemma admin_refutes :
  fwd_inb ex_node ex_now wit_admin = true /\ recv_crc_ok wit_admin = true /\
  exists w, wire ex_node ex_now wit_admin = Some w /\
            map btsd (filter (fun x => btype x =? 1) (blocks w)) <> map btsd (filter (fun x => btype x =? 1) (blocks wit_admin)).
Proof.
  split; [vm_compute; reflexivity|]. split; [vm_compute; reflexivity|].
  eexists. split; [vm_compute; reflexivity|]. vm_compute. discriminate.
Qed.

Lemma prevjunk_refutes :
  fwd_inb ex_node ex_now wit_prevjunk = true /\
  exists w, wire ex_node ex_now wit_prevjunk = Some w /\
            length (filter (fun x => btype x =? 6) (blocks w)) = 2%nat.
Proof. split; [vm_compute; reflexivity|]. eexists. split; vm_compute; reflexivity. Qed.

Lemma agejunk_refutes :
  fwd_inb ex_node ex_now wit_agejunk = true /\
  exists w, wire ex_node ex_now wit_agejunk = Some w /\
            length (filter (fun x => btype x =? 7) (blocks w)) = 2%nat.
Proof. split; [vm_compute; reflexivity|]. eexists. split; vm_compute; reflexivity. Qed.

Lemma future_refutes :
  fwd_inb ex_node ex_now wit_future = true /\ age_parseb wit_future = true /\
  ex_now < create_time (prim wit_future) /\
  exists w blk, wire ex_node ex_now wit_future = Some w /\
                filter (fun x => btype x =? 7) (blocks w) = [blk] /\
                decode_bundle_age (btsd blk) = None /\
                btsd blk = encode (CNint (create_time (prim wit_future) - ex_now - 1)).
Proof.
  split; [vm_compute; reflexivity|]. split; [vm_compute; reflexivity|]. split; [vm_compute; reflexivity|].
  eexists. eexists. split; [vm_compute; reflexivity|]. split; [vm_compute; reflexivity|].
  split; vm_compute; reflexivity.
Qed.

Lemma paypos_example :
  fwd_inb ex_node ex_now wit_paypos = true /\ payload_last_num1b (blocks wit_paypos) = false /\
  exists w, wire ex_node ex_now wit_paypos = Some w /\ payload_last_num1b (blocks w) = false /\
            map btype (blocks w) = [1; 6; 7; 192].
Proof.
  split; [vm_compute; reflexivity|]. split; [vm_compute; reflexivity|].
  eexists. split; [vm_compute; reflexivity|]. split; vm_compute; reflexivity.
Qed.

(** * Closed forms used by [Props/C11.v] (about [w] = what the transmitted octets decode to) *)

Lemma C11_primary_unchanged_partial_holds : forall (node : eid) (now : N) (b w : bundle),
  fwd_inb node now b = true ->
  eids_stableb (prim b) = true ->              (* no EID is changed by the text conversion (C02 class) *)
  (create_time (prim b) =? 0) = false ->       (* creation time not 0 *)
  (lifetime (prim b) =? 0) = false ->          (* lifetime not 0 *)
  decode_bundle (encode_bundle (do_fwd node now b)) = Some w ->
  version (prim w) = version (prim b) /\ flags (prim w) = flags (prim b) /\
  crc_type (prim w) = crc_type (prim b) /\
  dest (prim w) = dest (prim b) /\ src (prim w) = src (prim b) /\ report_to (prim w) = report_to (prim b) /\
  create_time (prim w) = create_time (prim b) /\ create_seq (prim w) = create_seq (prim b) /\
  lifetime (prim w) = lifetime (prim b) /\ frag (prim w) = frag (prim b).
Proof.
  intros node now b w Hb He Ht Hl Hw. apply (c11_w node now b Hb) in Hw. subst w.
  apply primary_unchanged; assumption.
Qed.

Lemma C11_primary_characterised_holds : forall (node : eid) (now : N) (b w : bundle),
  fwd_inb node now b = true ->
  decode_bundle (encode_bundle (do_fwd node now b)) = Some w ->
  prim w = with_crc_primary (apply_primary now (impl_norm_primary (prim b))) /\
  version (prim w) = version (prim b) /\ flags (prim w) = flags (prim b) /\
  crc_type (prim w) = crc_type (prim b) /\ frag (prim w) = frag (prim b) /\
  (create_time (prim b) <> 0 ->
   create_time (prim w) = create_time (prim b) /\ create_seq (prim w) = create_seq (prim b)) /\
  (lifetime (prim b) <> 0 -> lifetime (prim w) = lifetime (prim b)).
Proof.
  intros node now b w Hb Hw. apply (c11_w node now b Hb) in Hw. subst w.
  split; [reflexivity|]. apply primary_always.
Qed.

Lemma C11_primary_unchanged_refuted_time0_holds :
  exists (node : eid) (now : N) (b w : bundle),
    fwd_inb node now b = true /\ eids_stableb (prim b) = true /\ (lifetime (prim b) =? 0) = false /\
    decode_bundle (encode_bundle (do_fwd node now b)) = Some w /\
    create_time (prim b) = 0 /\ create_time (prim w) = now /\
    create_seq (prim b) = 3 /\ create_seq (prim w) = 0 /\
    (* and the received Bundle Age block is gone *)
    filter (fun x => btype x =? 7) (blocks b) <> [] /\ filter (fun x => btype x =? 7) (blocks w) = [].
Proof.
  destruct time0_refutes as (H1 & H2 & H3 & w & H4 & H5).
  exists ex_node, ex_now, wit_time0, w. repeat (split; [assumption|]). exact H5.
Qed.

Lemma C11_primary_unchanged_refuted_lifetime0_holds :
  exists (node : eid) (now : N) (b w : bundle),
    fwd_inb node now b = true /\ eids_stableb (prim b) = true /\ (create_time (prim b) =? 0) = false /\
    decode_bundle (encode_bundle (do_fwd node now b)) = Some w /\
    lifetime (prim b) = 0 /\ lifetime (prim w) = 3600000.
Proof.
  destruct life0_refutes as (H1 & H2 & H3 & w & H4 & H5).
  exists ex_node, ex_now, wit_life0, w. repeat (split; [assumption|]). exact H5.
Qed.

Lemma C11_primary_unchanged_refuted_eid_holds :
  exists (node : eid) (now : N) (b w : bundle),
    fwd_inb node now b = true /\ (create_time (prim b) =? 0) = false /\ (lifetime (prim b) =? 0) = false /\
    recv_crc_ok b = true /\
    decode_bundle (encode_bundle (do_fwd node now b)) = Some w /\ dest (prim w) <> dest (prim b).
Proof.
  destruct eid_refutes as (H1 & H2 & H3 & H4 & w & H5 & H6).
  exists ex_node, ex_now, wit_eid, w. repeat (split; [assumption|]). exact H6.
Qed.

Lemma C11_payload_unchanged_partial_holds : forall (node : eid) (now : N) (b w : bundle),
  fwd_inb node now b = true ->
  payload_stableb b = true ->       (* not a status report whose re-encoding differs (EID with ? / #) *)
  decode_bundle (encode_bundle (do_fwd node now b)) = Some w ->
  (* type, number, flags, CRC type and data of the type-1 block(s) *)
  map core (filter (fun x => btype x =? 1) (blocks w)) = map core (filter (fun x => btype x =? 1) (blocks b)).
Proof.
  intros node now b w Hb Hs Hw. apply (c11_w node now b Hb) in Hw. subst w.
  apply payload_unchanged; assumption.
Qed.

Lemma C11_payload_unchanged_refuted_holds :
  exists (node : eid) (now : N) (b w : bundle),
    fwd_inb node now b = true /\ recv_crc_ok b = true /\
    decode_bundle (encode_bundle (do_fwd node now b)) = Some w /\
    map btsd (filter (fun x => btype x =? 1) (blocks w)) <> map btsd (filter (fun x => btype x =? 1) (blocks b)).
Proof.
  destruct admin_refutes as (H1 & H2 & w & H3 & H4).
  exists ex_node, ex_now, wit_admin, w. repeat (split; [assumption|]). exact H4.
Qed.

Lemma C11_prev_node_exactly_one_partial_holds : forall (node : eid) (now : N) (b w : bundle),
  fwd_inb node now b = true ->
  prev_parseb b = true ->           (* every received type-6 block is one the implementation dissects *)
  decode_bundle (encode_bundle (do_fwd node now b)) = Some w ->
  exists blk, filter (fun x => btype x =? 6) (blocks w) = [blk] /\ decode_prev_node (btsd blk) = Some node.
Proof.
  intros node now b w Hb Hp Hw. apply (c11_w node now b Hb) in Hw. subst w.
  apply prev_exactly_one; assumption.
Qed.

Lemma C11_prev_node_exactly_one_refuted_holds :
  exists (node : eid) (now : N) (b w : bundle),
    fwd_inb node now b = true /\
    decode_bundle (encode_bundle (do_fwd node now b)) = Some w /\
    length (filter (fun x => btype x =? 6) (blocks w)) = 2%nat.
Proof.
  destruct prevjunk_refutes as (H1 & w & H2 & H3). exists ex_node, ex_now, wit_prevjunk, w. tauto.
Qed.

Lemma C11_hop_count_holds : forall (node : eid) (now : N) (b w : bundle),
  fwd_inb node now b = true ->
  decode_bundle (encode_bundle (do_fwd node now b)) = Some w ->
  Forall2 (fun rb wb =>
             bnum wb = bnum rb /\ bflags wb = bflags rb /\ bcrc_type wb = bcrc_type rb /\
             match decode_hop_count (btsd rb) with
             | Some (l, c) => decode_hop_count (btsd wb) = Some (l, c + 1)
             | None => btsd wb = btsd rb
             end)
          (filter (fun x => btype x =? 10) (blocks b)) (filter (fun x => btype x =? 10) (blocks w)).
Proof.
  intros node now b w Hb Hw. apply (c11_w node now b Hb) in Hw. subst w. apply hop_count; exact Hb.
Qed.

Lemma C11_age_at_most_one_partial_holds : forall (node : eid) (now : N) (b w : bundle),
  fwd_inb node now b = true ->
  age_parseb b = true ->            (* every received type-7 block is one the implementation dissects *)
  decode_bundle (encode_bundle (do_fwd node now b)) = Some w ->
  (create_time (prim b) = 0 -> filter (fun x => btype x =? 7) (blocks w) = []) /\
  (create_time (prim b) <> 0 ->
   exists blk, filter (fun x => btype x =? 7) (blocks w) = [blk] /\
               (create_time (prim b) <= now ->
                decode_bundle_age (btsd blk) = Some (now - create_time (prim b)))).
Proof.
  intros node now b w Hb Hp Hw. apply (c11_w node now b Hb) in Hw. subst w.
  apply age_at_most_one; assumption.
Qed.

Lemma C11_age_at_most_one_refuted_holds :
  exists (node : eid) (now : N) (b w : bundle),
    fwd_inb node now b = true /\
    decode_bundle (encode_bundle (do_fwd node now b)) = Some w /\
    length (filter (fun x => btype x =? 7) (blocks w)) = 2%nat.
Proof.
  destruct agejunk_refutes as (H1 & w & H2 & H3). exists ex_node, ex_now, wit_agejunk, w. tauto.
Qed.

Lemma C11_age_value_refuted_holds :
  exists (node : eid) (now : N) (b w : bundle) (blk : cblock),
    fwd_inb node now b = true /\ age_parseb b = true /\ now < create_time (prim b) /\
    decode_bundle (encode_bundle (do_fwd node now b)) = Some w /\
    filter (fun x => btype x =? 7) (blocks w) = [blk] /\
    decode_bundle_age (btsd blk) = None /\                                    (* not an unsigned integer *)
    btsd blk = encode (CNint (create_time (prim b) - now - 1)).             (* the integer now - creation < 0 *)
Proof.
  destruct future_refutes as (H1 & H2 & H3 & w & blk & H4 & H5 & H6 & H7).
  exists ex_node, ex_now, wit_future, w, blk. tauto.
Qed.

Lemma C11_block_numbers_unique_holds : forall (node : eid) (now : N) (b w : bundle),
  fwd_inb node now b = true ->      (* includes: the received numbers are distinct and none is 0 *)
  decode_bundle (encode_bundle (do_fwd node now b)) = Some w ->
  NoDup (map bnum (blocks w)) /\ ~ In 0 (map bnum (blocks w)).
Proof.
  intros node now b w Hb Hw. apply (c11_w node now b Hb) in Hw. subst w. apply numbers_unique; exact Hb.
Qed.

Lemma C11_payload_last_num1_holds : forall (node : eid) (now : N) (b w : bundle),
  fwd_inb node now b = true ->
  payload_last_num1b (blocks b) = true ->
  decode_bundle (encode_bundle (do_fwd node now b)) = Some w ->
  exists pre pl, blocks w = pre ++ [pl] /\ btype pl = 1 /\ bnum pl = 1.
Proof.
  intros node now b w Hb Hp Hw. apply (c11_w node now b Hb) in Hw. subst w.
  apply payload_last_num1; assumption.
Qed.

Lemma C11_crcs_valid_holds : forall (node : eid) (now : N) (b w : bundle),
  fwd_inb node now b = true ->
  decode_bundle (encode_bundle (do_fwd node now b)) = Some w ->
  crc_ok_bundle w = true.
Proof.
  intros node now b w Hb Hw. apply (c11_w node now b Hb) in Hw. subst w. apply crcs_valid; try exact Hb.
Qed.

Lemma C11_other_blocks_untouched_holds : forall (node : eid) (now : N) (b w : bundle),
  fwd_inb node now b = true ->
  decode_bundle (encode_bundle (do_fwd node now b)) = Some w ->
  map core (filter untouchedb (blocks w)) = map core (filter untouchedb (blocks b)).
Proof.
  intros node now b w Hb Hw. apply (c11_w node now b Hb) in Hw. subst w. apply other_blocks_untouched; exact Hb.
Qed.

Lemma C11_nonvacuous_holds :
  fwd_inb ex_node ex_now ex_bundle = true /\ eids_stableb (prim ex_bundle) = true /\
  payload_stableb ex_bundle = true /\ prev_parseb ex_bundle = true /\ age_parseb ex_bundle = true /\
  payload_last_num1b (blocks ex_bundle) = true /\
  (create_time (prim ex_bundle) =? 0) = false /\ (lifetime (prim ex_bundle) =? 0) = false /\
  create_time (prim ex_bundle) <= ex_now /\ recv_crc_ok ex_bundle = true /\
  eid_eqb (src (prim ex_bundle)) ex_node = false /\
  decode_bundle (encode_bundle ex_bundle) = Some ex_bundle /\
  map core (blocks (do_fwd ex_node ex_now ex_bundle)) =
  [(10, 3, 0, 1, [130; 24; 30; 4]); (192, 5, 1, 2, [1; 2; 3]);
   (6, 2, 0, 0, [130; 1; 101; 47; 47; 109; 101; 47]);
   (7, 4, 0, 0, [27; 0; 0; 0; 23; 72; 118; 232; 0]);
   (1, 1, 0, 2, [104; 105])].
Proof. repeat split; vm_compute; try reflexivity; discriminate. Qed.

