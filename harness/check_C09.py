''' C09 -- TCPCL termination is graceful, complete and always finishes. '''
import env  # noqa: F401
import json

import tcpcl_corr as TC
import tcpcl_suite as TS

# consequences of one root cause (an endpoint that closes while octets -- a final XFER_ACK or its own
# SESS_TERM reply -- are still in its connection-level TX buffer): the peer never gets them
KNOWN_CONSEQUENCES = (
    'C09 / transfer completed at the receiver but never acknowledged to the sender',
    'C09 / queued transfer silently lost at termination',
    'C09 / transfer in progress at termination neither completed nor reported',
)


def closed_with_buffered_octets(rec):
    ''' Did an endpoint close while octets were still in its connection-level
    TX buffer (only possible after a partial socket write)? '''
    for e in 'AB':
        snaps = rec.runner.snaps[e]
        for (idx, snap) in enumerate(snaps):
            if snap[0][4] == 1:
                if idx > 0 and snaps[idx - 1][3][0] > 0 and snaps[idx - 1][0][3] == 1:
                    return True
                break
    return False


def term_everywhere(chk, base_seed, positions, accept, nread):
    ''' A fixed base workload with terminate() inserted at every position. '''
    import random
    recs = []
    for pos in positions:
        for who in ('A', 'B', 'AB'):
            rng = random.Random(base_seed)
            runner = TC.Runner(cfg_a=dict(segment_size_tx_initial=3), cfg_b=dict(segment_size_tx_initial=4))
            runner.apply(('start', 'A'))
            runner.apply(('start', 'B'))
            if pos > 0:
                TC.drain(runner)
            runner.apply(('send', 'A', ('lit', bytes(range(10)))))
            runner.apply(('send', 'B', ('lit', bytes(range(7)))))
            runner.apply(('send', 'A', ('lit', b'xyz')))
            steps = 0
            while steps < pos:
                ena = TC.enabled_ops(runner, rng)
                if not ena:
                    break
                pick = ena[steps % len(ena)]
                if pick[0] == 'txpump':
                    runner.apply(('txpump', pick[1], pick[2], accept))
                elif pick[0] == 'rxpump':
                    runner.apply(('rxpump', pick[1], nread))
                else:
                    runner.apply(('pq', pick[1]))
                steps += 1
            for e in who:
                runner.apply(('term', e, 0))
            TC.drain(runner, accept=accept, nread=nread)
            recs.append(TS.finish(runner, 'term-at', dict(pos=pos, who=who, accept=accept, nread=nread, quiescent=True)))
    return recs


def build(chk):
    recs = []
    positions = list(range(0, 40, 3)) if chk.quick() else list(range(0, 80))
    recs += term_everywhere(chk, 11, positions, 1 << 30, 1 << 30)
    recs += term_everywhere(chk, 12, positions[::2], 1, 1 << 30)
    recs += term_everywhere(chk, 13, positions[::2], 1 << 30, 2)
    nruns = 10 if chk.quick() else 300
    for idx in range(nruns):
        runner = TS.gen_coop(chk.rng, nops=chk.rng.choice([40, 90]), with_term=True)
        TC.drain(runner)
        recs.append(TS.finish(runner, 'coop-term', dict(quiescent=True)))
    return recs


def evaluate(chk, recs):
    for rec in recs:
        terms = sum(1 for e in 'AB' for f in TS.decode_stream(rec.wire[e])[0] if f['t'] == 'term')
        chk.count('sess_term_frames', terms)
        chk.count('kind', rec.kind)
        chk.case(ident=json.dumps(rec.replay_obj(), sort_keys=True), nontrivial=(terms > 0),
                 sample=dict(kind=rec.kind, meta=rec.meta, ops=len(rec.runner.applied), terms=terms,
                             closed={e: rec.snap[e]['closed'] for e in 'AB'}))
        for (sig, what) in TS.oracle_c09(rec, quiescent=rec.meta.get('quiescent', False)):
            if sig in KNOWN_CONSEQUENCES and closed_with_buffered_octets(rec):
                # the known finding: _check_sess_term ignores the connection-level TX buffer
                sig = 'C09 / terminating side closes with the final XFER_ACK still in the connection-level TX buffer (partial socket write)'
            chk.fail(sig, what, rec.replay_obj())


if __name__ == '__main__':
    TS.run_check('C09', build, evaluate,
                 rule='a fixed three-bundle two-way workload with terminate() on A, B or both inserted at every position of a '
                      'round-robin schedule (full writes, 1-octet writes, 2-octet reads), then drained to quiescence; plus random '
                      'cooperative schedules with terminate() at random positions; non-trivial = a SESS_TERM reached the wire')
