(** TCPCL endpoint model: once terminating, the queue of unstarted transfers
    never grows (send_bundle_data is refused; nothing else adds to it). *)
From Coq Require Import ZArith NArith List Bool Lia ZifyBool ZifyN ZifyNat Arith.
From RecordUpdate Require Import RecordSet.
From DTN Require Import Lib.Bytes Model.TcpclMsg Model.TcpclSess Proofs.TcpclSessBasics
  Proofs.TcpclSentProofs1 Proofs.TcpclSentProofs2 Proofs.TcpclSentProofs3 Proofs.TcpclSentProofs4
  Proofs.TcpclSentProofs5 Proofs.TcpclSentProofs6 Proofs.TcpclSentProofs7 Proofs.TcpclSentProofs12.
Import ListNotations RecordSetNotations.
Ltac Zify.zify_post_hook ::= Z.div_mod_to_equations.
Local Open Scope N_scope.

Lemma dict_del_length {V} k (d : list (N * V)) : (length (dict_del k d) <= length d)%nat.
Proof.
  induction d as [|[k' v] d IH]; [cbn; lia|]. cbn [dict_del]. destruct (k' =? k); cbn [length]; lia.
Qed.

Lemma pend_len_recv_frame f s : (length (pend_start (fst (recv_frame f s))) <= length (pend_start s))%nat.
Proof.
  hm_unfold. destruct f as [c|m]; [|destruct m]; p_split; unfold close_pend; p_split; try lia; try (cbn [length]; lia);
    try apply dict_del_length.
Qed.

Lemma in_term_recv_frame_mono f s : in_term s = true -> in_term (fst (recv_frame f s)) = true.
Proof.
  intros H. destruct f as [c|m]; [rewrite in_term_recv_contact; exact H|].
  rewrite in_term_recv_msg, H. reflexivity.
Qed.

Lemma pend_len_step_o o s : in_term s = true -> not_rx o = true ->
  (length (pend_start (step s o)) <= length (pend_start s))%nat.
Proof.
  intros Ht Ho. destruct o; try discriminate Ho; st_unfold; rewrite ?Ht; p_split; unfold close_pend; p_split; try lia;
    try (cbn [length]; lia);
    try (match goal with E : pend_start s = _ |- _ => rewrite E end; cbn [length]; lia).
Qed.

(** Once the endpoint is terminating, no operation makes the queue of
    unstarted transfers longer. *)
Theorem pend_start_never_grows_when_terminating s o : in_term s = true ->
  (length (pend_start (step s o)) <= length (pend_start s))%nat.
Proof.
  intros Ht. destruct (closed s) eqn:Hc.
  { rewrite step_closed by exact Hc. destruct o; ep_cbn; lia. }
  destruct (not_rx o) eqn:Ho; [apply pend_len_step_o; assumption|].
  destruct o; try discriminate Ho. unfold step. rewrite Hc.
  destruct (is_nil data || negb (rx_alive s)); [lia|].
  assert (HP : in_term (fst (recv_raw data s)) = true
               /\ (length (pend_start (fst (recv_raw data s))) <= length (pend_start s))%nat).
  { apply (recv_raw_inv (fun s' => in_term s' = true /\ (length (pend_start s') <= length (pend_start s))%nat)).
    - intros s1 fr rest [H1 H2] _ _. split; [apply in_term_recv_frame_mono; exact H1|].
      eapply Nat.le_trans; [apply pend_len_recv_frame|]. ep_cbn. exact H2.
    - intros s1 b i t H. exact H.
    - split; [exact Ht|lia]. }
  destruct (recv_raw data s) as [s' [k|]]; cbn [fst] in HP; [unfold emit; ep_cbn|]; exact (proj2 HP).
Qed.
