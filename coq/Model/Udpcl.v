(** Executable model of the UDPCL agent's transfer path
    (/repo/src/udpcl/agent.py): [Agent._send_transfer] (one datagram or
    TRANSFER extension-map segments sized against the MTU), [_recv_datagram]
    (per-message dispatch on the first octet, one CBOR item at a time) and the
    TRANSFER branch of [_recv_ext_map] (reassembly keyed by peer and transfer
    id with [portion] interval bookkeeping).  Definitions only; the theorems
    are in Proofs/UdpclProofs.v and Props/C13.v.

    Tie to the code: the size arithmetic, the loop test/step, the slice bounds,
    the TRANSFER key and the field order of the two maps come from
    Gen/UdpclBudget.v, regenerated from the source on every run; everything
    else is hand-written and compared with the real agent by
    harness/check_C13.py.

    Conventions
    - octets are [N] ([Lib.Bytes]); a peer is a number (the harness maps it to an
      (address, port) pair, which is what [Transfer.key] uses);
    - [item.total_length] is [len(data)] (that is what [_add_tx_item] sets);
    - the receive path is modelled for [sock = None] or [require_tls = False]
      (the DTLS branches only log and skip the rest of the datagram there);
    - CBOR is the [Lib.Cbor] subset (no floats, no indefinite-length maps or
      strings, tags carry no meaning); extension keys other than TRANSFER are
      ignored, except the ones with side effects outside this model
      (SENDER_LISTEN, PEER_PROBE, PEER_CONFIRM, ECN_COUNTS), which make the
      model answer "outside the model" (code 2). *)
From Coq Require Import List NArith ZArith Arith Bool.
From DTN Require Import Lib.Bytes Lib.Cbor Lib.Ivl Gen.UdpclBudget.
Import ListNotations.
Local Open Scope N_scope.

Definition olen (l : bytes) : N := N.of_nat (length l).

(** * Sender *)

Definition field_item (xid total off : N) (frag : bytes) (f : field) : cbor :=
  match f with
  | FXid => CUint xid
  | FTotal => CUint total
  | FOffset => CUint off
  | FEmptyBstr => CBstr []
  | FFrag => CBstr frag
  | FConst n => CUint n
  end.

(** [{TRANSFER: [f1, f2, f3, f4]}] *)
Definition ext_of (fs : list field) (xid total off : N) (frag : bytes) : cbor :=
  CMap [(CUint transfer_key, CArr (map (field_item xid total off frag) fs))].

(** the segment message [{2: [xid, total, offset, frag]}] *)
Definition seg_msg (xid total off : N) (frag : bytes) : cbor := ext_of seg_fields xid total off frag.

(** [ext_base]: "the base extension map with the largest values present" *)
Definition ext_base (xid total : N) : cbor := ext_of ext_base_fields xid total total [].

Definition ext_base_encsize (xid total : N) : Z := Z.of_nat (length (encode (ext_base xid total))).
Definition data_size_encsize (xid total : N) : Z :=
  Z.of_nat (length (encode (field_item xid total total [] data_size_field))).

(** [remain_size]: may be zero or negative for a small MTU *)
Definition remain (mtu xid total : N) : Z :=
  remain_size (Z.of_N mtu) (ext_base_encsize xid total) (data_size_encsize xid total).

(** [data[lo:hi]] for non-negative bounds (negative bounds are only reached
    when [remain <= 0], where the loop never ends anyway). *)
Definition pyslice (data : bytes) (lo hi : Z) : bytes :=
  firstn (Z.to_nat hi - Z.to_nat lo) (skipn (Z.to_nat lo) data).

(** The while loop, on fuel; [None] = the fuel ran out.  Result: the
    (offset, fragment) pairs in the order produced. *)
Fixpoint seg_loop (fuel : nat) (data : bytes) (rem off : Z) : option (list (N * bytes)) :=
  match fuel with
  | O => None
  | S f =>
      if loop_test off (Z.of_nat (length data)) then
        match seg_loop f data rem (next_offset off rem) with
        | Some l => Some ((Z.to_N off, pyslice data (slice_lo off rem) (slice_hi off rem)) :: l)
        | None => None
        end
      else Some []
  end.

(** The fuel [S (length data)] is enough whenever [remain > 0]
    ([UdpclProofs.seg_loop_terminates]); with [remain <= 0] and a non-empty
    [data] no fuel is ([UdpclProofs.seg_loop_diverges]). *)
Definition send_pieces (data : bytes) (mtu xid : N) : option (list (N * bytes)) :=
  seg_loop (S (length data)) data (remain mtu xid (olen data)) init_offset.

Definition enc_piece (xid total : N) (p : N * bytes) : bytes :=
  encode (seg_msg xid total (fst p) (snd p)).

(** The datagrams of one send request; [None] = the real generator never
    stops producing datagrams. *)
Definition send_transfer (data : bytes) (mtu xid : N) : option (list bytes) :=
  if unsegmented (Z.of_nat (length data)) (Z.of_N mtu) then Some [data]
  else option_map (map (enc_piece xid (olen data))) (send_pieces data mtu xid).

(** [mtu_default = None]: never segmented *)
Definition send_transfer_opt (data : bytes) (mtu : option N) (xid : N) : option (list bytes) :=
  match mtu with
  | None => Some [data]
  | Some m => send_transfer data m xid
  end.

(** Specification vocabulary for the tiling statement: the pieces follow one
    another without gap or overlap starting at [off], none is empty. *)
Fixpoint contiguous_from (off : N) (ps : list (N * bytes)) : Prop :=
  match ps with
  | [] => True
  | (o, f) :: r => o = off /\ f <> [] /\ contiguous_from (off + olen f) r
  end.

(** * Receiver *)

(** [Transfer]: total_length, valid, data *)
Record xfer : Type := mk_xfer { x_total : N; x_valid : ivl; x_buf : bytes }.

(** (peer, transfer id) *)
Definition key : Type := (N * N)%type.
Definition key_eqb (a b : key) : bool := (fst a =? fst b) && (snd a =? snd b).

Fixpoint lookup (k : key) (l : list (key * xfer)) : option xfer :=
  match l with
  | [] => None
  | (k', v) :: r => if key_eqb k k' then Some v else lookup k r
  end.

(** dict assignment: in place if present, else appended *)
Fixpoint set_key (k : key) (v : xfer) (l : list (key * xfer)) : list (key * xfer) :=
  match l with
  | [] => [(k, v)]
  | (k', v') :: r => if key_eqb k k' then (k, v) :: r else (k', v') :: set_key k v r
  end.

Fixpoint del_key (k : key) (l : list (key * xfer)) : list (key * xfer) :=
  match l with
  | [] => []
  | (k', v') :: r => if key_eqb k k' then del_key k r else (k', v') :: del_key k r
  end.

(** [_rx_fragments] and what [_add_rx_item] has queued so far, in order: the
    bundle id of an entry is its position (nothing is popped in the model). *)
Record rstate : Type := mk_rstate { r_frags : list (key * xfer); r_queue : list (N * bytes) }.
Definition rstate0 : rstate := mk_rstate [] [].

(** [buf[off:off+len(frag)] = frag] on a bytearray (bounds clamp to the length;
    an offset beyond the end appends) *)
Definition splice (buf : bytes) (off : N) (frag : bytes) : bytes :=
  firstn (N.to_nat off) buf ++ frag ++ skipn (N.to_nat off + length frag) buf.

(** write one fragment; on [valid == total_valid] the entry goes away and the
    buffer comes out *)
Definition xwrite (x : xfer) (off : N) (frag : bytes) : option xfer * option bytes :=
  let buf' := splice (x_buf x) off frag in
  let v' := Ivl.add off (off + olen frag) (x_valid x) in
  if Ivl.eqb v' (full (x_total x)) then (None, Some buf')
  else (Some (mk_xfer (x_total x) v' buf'), None).

(** One TRANSFER item against the entry of its key ([None] = no entry):
    (new entry, bundle queued, raised).  A total that differs from the
    entry's raises [ValueError] before anything is changed. *)
Definition xstep (x : option xfer) (total off : N) (frag : bytes) : option xfer * option bytes * bool :=
  match x with
  | Some x0 => if x_total x0 =? total then (xwrite x0 off frag, false) else (x, None, true)
  | None => (xwrite (mk_xfer total [] (repeat 0 (N.to_nat total))) off frag, false)
  end.

Definition recv_segment (st : rstate) (peer xid total off : N) (frag : bytes) : rstate * option bytes * bool :=
  let k := (peer, xid) in
  match xstep (lookup k (r_frags st)) total off frag with
  | (x', out, err) =>
      if err then (st, None, true)
      else (mk_rstate (match x' with
                       | Some v => set_key k v (r_frags st)
                       | None => del_key k (r_frags st)
                       end)
                      (r_queue st ++ match out with Some b => [(peer, b)] | None => [] end),
            out, false)
  end.

(** A list of TRANSFER items (peer, xid, total, offset, fragment) one after
    the other; the per-item results. *)
Definition seg_event : Type := (N * N * N * N * bytes)%type.
Definition ev_key (e : seg_event) : key := let '(peer, xid, _, _, _) := e in (peer, xid).

Fixpoint run_segments (st : rstate) (evs : list seg_event) : rstate * list (option bytes * bool) :=
  match evs with
  | [] => (st, [])
  | (peer, xid, total, off, frag) :: r =>
      match recv_segment st peer xid total off frag with
      | (st', out, err) =>
          let '(st'', outs) := run_segments st' r in (st'', (out, err) :: outs)
      end
  end.

(** ** Extension maps *)

(** Python dict built by [cbor2.load]: the last pair with the key wins. *)
Definition find_transfer (kvs : list (cbor * cbor)) : option cbor :=
  fold_left (fun acc kv =>
               match fst kv with
               | CUint n => if n =? transfer_key then Some (snd kv) else acc
               | _ => acc
               end) kvs None.

(** keys whose handlers are outside this model *)
Definition other_key_ok (kv : cbor * cbor) : bool :=
  match fst kv with
  | CUint n => negb ((n =? 3) || (n =? 6) || (n =? 7) || (n =? 8))
  | _ => true
  end.

(** Result codes: 0 handled, 1 an exception leaves [_recv_datagram], 2 outside
    the model. *)
Definition recv_ext_map (st : rstate) (peer : N) (kvs : list (cbor * cbor)) : rstate * N :=
  if forallb other_key_ok kvs then
    match find_transfer kvs with
    | None => (st, 0)
    | Some (CArr [CUint xid; CUint total; CUint off; CBstr frag]) =>
        match recv_segment st peer xid total off frag with
        | (st', _, err) => (st', if err then 1 else 0)
        end
    | Some (CArr l) => if (length l =? 4)%nat then (st, 2) else (st, 1)   (* unpacking raises *)
    | Some _ => (st, 2)
    end
  else (st, 2).

(** ** Datagrams *)

Definition queue_bundle (st : rstate) (peer : N) (octets : bytes) : rstate :=
  mk_rstate (r_frags st) (r_queue st ++ [(peer, octets)]).

(** The message loop of [_recv_datagram].  Every message consumes at least one
    octet, so [S (length buf)] rounds are enough. *)
Fixpoint recv_loop (fuel : nat) (st : rstate) (peer : N) (buf : bytes) : rstate * N :=
  match fuel with
  | O => (st, 2)
  | S f =>
      match buf with
      | [] => (st, 0)
      | b :: _ =>
          if b =? 0 then (st, 0)                                  (* padding to the end *)
          else if (20 <=? b) && (b <=? 23) then (st, 0)           (* DTLS record: rest ignored *)
          else if b =? 6 then (st, 0)                             (* BPv6: rest ignored *)
          else if b / 32 =? 4 then                                (* array: a bundle *)
            match decode (length buf) buf with
            | Some (_, rest) =>
                recv_loop f (queue_bundle st peer (firstn (length buf - length rest) buf)) peer rest
            | None => (st, 1)
            end
          else if b / 32 =? 5 then                                (* map: extension map *)
            match decode (length buf) buf with
            | Some (CMap kvs, rest) =>
                match recv_ext_map st peer kvs with
                | (st', 0) => recv_loop f st' peer rest
                | r => r
                end
            | Some _ => (st, 2)
            | None => (st, 1)
            end
          else (st, 0)                                            (* unknown: rest ignored *)
      end
  end.

Definition recv_datagram (st : rstate) (peer : N) (buf : bytes) : rstate * N :=
  recv_loop (S (length buf)) st peer buf.

(** Messages as they appear on the wire, for the statement about datagrams
    made of several messages. *)
Inductive wmsg : Type :=
| WBundle (l : list cbor)          (* definite-length array *)
| WBundleIndef (l : list cbor)     (* indefinite-length array (BPv7 bundles) *)
| WExt (kvs : list (cbor * cbor)). (* extension map *)

Definition wenc (m : wmsg) : bytes :=
  match m with
  | WBundle l => encode (CArr l)
  | WBundleIndef l => encode_indef_arr l
  | WExt kvs => encode (CMap kvs)
  end.

Definition wmsg_wf (m : wmsg) : Prop :=
  match m with
  | WBundle l => wf (CArr l)
  | WBundleIndef l => Forall wf l
  | WExt kvs => wf (CMap kvs)
  end.

Definition handle_msg (st : rstate) (peer : N) (m : wmsg) : rstate * N :=
  match m with
  | WBundle _ | WBundleIndef _ => (queue_bundle st peer (wenc m), 0)
  | WExt kvs => recv_ext_map st peer kvs
  end.

(** one message after the other; the first non-zero code ends it *)
Fixpoint handle_all (st : rstate) (peer : N) (ms : list wmsg) : rstate * N :=
  match ms with
  | [] => (st, 0)
  | m :: r =>
      match handle_msg st peer m with
      | (st', 0) => handle_all st' peer r
      | res => res
      end
  end.

(** * Renderings for the correspondence run (harness/check_C13.py) *)

(** Adler-32 (additions and comparisons only: cheap under [vm_compute]) *)
Definition adler_step (st : N * N) (b : N) : N * N :=
  let s1 := fst st + b in
  let s1 := if s1 <? 65521 then s1 else s1 - 65521 in
  let s2 := snd st + s1 in
  (s1, if s2 <? 65521 then s2 else s2 - 65521).

Definition digest (l : bytes) : N :=
  let st := fold_left adler_step l (1, 0) in snd st * 65536 + fst st.

(** Cheap deterministic data for long bundles (harness: [pattern]): three
    wrapping counters, octet = their xor. *)
Definition step_wrap (a k : N) : N := let s := a + k in if s <? 256 then s else s - 256.

Fixpoint pattern_aux (len : nat) (a b c : N) : bytes :=
  match len with
  | O => []
  | S l =>
      let a' := step_wrap a 7 in
      let b' := if a' <? 7 then step_wrap b 13 else b in
      let c' := if (a' <? 7) && (b' <? 13) then step_wrap c 29 else c in
      N.lxor (N.lxor a' b') c' :: pattern_aux l a' b' c'
  end.

Definition pattern (seed : N) (len : nat) : bytes :=
  pattern_aux len (seed mod 256) ((seed / 256) mod 256) ((seed / 65536) mod 256).

(** bundles of more than 64 octets are [pattern] (the LCG of [mkdata] costs a
    32-bit multiplication and division per octet), shorter ones [mkdata] *)
Definition gen_data (seed len : N) : bytes :=
  if 64 <? len then pattern seed (N.to_nat len) else mkdata seed (N.to_nat len).

Definition opt_list {A} (o : option A) : list A := match o with Some x => [x] | None => [] end.

Definition mtu_of (l : list N) : option N := match l with m :: _ => Some m | [] => None end.

(** (mtu as 0/1-element list, xid, seed, length) -> datagrams ([] = never ends) *)
Definition run_send (c : list N * N * N * N) : list (list bytes) :=
  let '(mtu, xid, seed, len) := c in
  opt_list (send_transfer_opt (gen_data seed len) (mtu_of mtu) xid).

(** the same rendered per datagram as (length, octets, digest): all octets for
    bundles of at most 200 octets, the first 24 otherwise *)
Definition run_send_view (c : list N * N * N * N) : list (list (N * bytes * N)) :=
  let '(_, _, _, len) := c in
  map (map (fun d => (olen d, if len <=? 200 then d else firstn 24 d, digest d))) (run_send c).

Definition show_frags (l : list (key * xfer)) : list (N * N * N * ivl * N) :=
  map (fun kv => (fst (fst kv), snd (fst kv), x_total (snd kv), x_valid (snd kv), digest (x_buf (snd kv)))) l.

(** datagrams (peer, octets) into a fresh receiver: per datagram (bundles
    queued so far, code); the queue; the transfers in progress *)
Fixpoint recv_trace (st : rstate) (arr : list (N * bytes)) : list (N * N) * rstate :=
  match arr with
  | [] => ([], st)
  | (peer, d) :: r =>
      let '(st', code) := recv_datagram st peer d in
      let '(tr, st'') := recv_trace st' r in
      ((olen (map fst (r_queue st')), code) :: tr, st'')
  end.

Definition run_recv (arr : list (N * bytes)) : list (N * N) * list (N * bytes) * list (N * N * N * ivl * N) :=
  let '(tr, st) := recv_trace rstate0 arr in (tr, r_queue st, show_frags (r_frags st)).

(** transfers (mtu, xid, seed, length) sent by the model's sender; arrival =
    (peer, transfer index, datagram index) triples fed to a fresh receiver.
    Queue entries are rendered as (peer, length, digest). *)
Definition run_xfers (c : list (N * N * N * N) * list (N * nat * nat))
  : list (N * N) * list (N * N * N) * list (N * N * N * ivl * N) :=
  let '(xfers, arr) := c in
  let dgs := map (fun t => let '(mtu, xid, seed, len) := t in
                           match send_transfer (gen_data seed len) mtu xid with
                           | Some l => l
                           | None => []
                           end) xfers in
  let '(tr, st) := recv_trace rstate0
                     (map (fun a => let '(peer, ti, di) := a in (peer, nth di (nth ti dgs []) [])) arr) in
  (tr, map (fun e => (fst e, olen (snd e), digest (snd e))) (r_queue st), show_frags (r_frags st)).

(** * The pacing queue of one conversation ([TxSendWait._update_send])

    Two lanes of pending datagrams: the priority lane (non-transfer messages:
    polling, ECN feedback, PMTUD) and the paced lane (the datagrams of
    transfers, item after item, the fetched-but-waiting [cur_dgram] first).
    A tick sends every priority datagram, then as many paced datagrams as the
    token bucket allows -- the number [n] is an input here (the bucket is
    floating-point arithmetic on a clock; the harness feeds the observed
    number).  Datagrams are abstract ([D]); the harness uses numbers. *)
Section Pacing.
  Variable D : Type.

  Record pq : Type := mk_pq { q_pri : list D; q_paced : list D }.

  Inductive pq_ev : Type :=
  | EnqPri (ds : list D)      (* a non-transfer item enters the conversation queue *)
  | EnqPaced (ds : list D)    (* the datagrams of a transfer enter it *)
  | Tick (n : nat).           (* one pacing tick with tokens for [n] paced datagrams *)

  (** emitted datagrams are tagged with their lane ([true] = priority) *)
  Definition pq_step (st : pq) (e : pq_ev) : list (bool * D) * pq :=
    match e with
    | EnqPri ds => ([], mk_pq (q_pri st ++ ds) (q_paced st))
    | EnqPaced ds => ([], mk_pq (q_pri st) (q_paced st ++ ds))
    | Tick n => (map (pair true) (q_pri st) ++ map (pair false) (firstn n (q_paced st)),
                 mk_pq [] (skipn n (q_paced st)))
    end.

  Fixpoint pq_run (st : pq) (evs : list pq_ev) : list (bool * D) * pq :=
    match evs with
    | [] => ([], st)
    | e :: r =>
        let '(out, st') := pq_step st e in
        let '(outs, st'') := pq_run st' r in (out ++ outs, st'')
    end.

  (** everything enqueued on a lane, in order *)
  Definition enq_of (lane : bool) (evs : list pq_ev) : list D :=
    flat_map (fun e => match e with
                       | EnqPri ds => if lane then ds else []
                       | EnqPaced ds => if lane then [] else ds
                       | Tick _ => []
                       end) evs.

  Definition lane_of (lane : bool) (out : list (bool * D)) : list D :=
    map snd (filter (fun x => Bool.eqb (fst x) lane) out).
End Pacing.

(** events as (kind, numbers): 0 = priority item, 1 = transfer, 2 = tick [n] *)
Definition pq_ev_of (e : N * list N) : pq_ev N :=
  match fst e with
  | 0 => EnqPri N (snd e)
  | 1 => EnqPaced N (snd e)
  | _ => Tick N (N.to_nat (hd 0 (snd e)))
  end.

Definition run_pq (evs : list (N * list N)) : list N * (list N * list N) :=
  let '(out, st) := pq_run N (mk_pq N [] []) (map pq_ev_of evs) in
  (map snd out, (q_pri N st, q_paced N st)).
