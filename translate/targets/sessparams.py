''' Translate the small arithmetic/boolean fragments of tcpcl/session.py that the
TCPCL session model relies on into Coq definitions (fail closed):

  merge_session_params:   self._keepalive_time = min(this.keepalive, peer.keepalive)
                          self._send_segment_size = min(config.segment_size_tx_initial, peer.segment_mru)
  _modulate_tx_seg_size:  self._send_segment_size = min(max(next_seg_size, self._send_segment_size_min), peer.segment_mru)
  send_buffer_decreased:  if buf_use < 5 * self._send_segment_size: trigger
  Messenger.is_sess_idle: len(rx_buf) == 0 and len(tx_buf) == 0
  ContactHandler.is_sess_idle: Messenger.is_sess_idle(self) and self._rx_tmp is None and self._tx_tmp is None
                               and not self._tx_pend_start and not self._tx_pend_ack
  _check_sess_term:       if self._in_term and self.is_sess_idle(): close
'''
import ast
import os


class Shape(Exception):
    pass


def find_func(tree, cls_name, func_name):
    for node in tree.body:
        if isinstance(node, ast.ClassDef) and node.name == cls_name:
            for sub in node.body:
                if isinstance(sub, ast.FunctionDef) and sub.name == func_name:
                    return sub
    raise Shape('%s.%s not found' % (cls_name, func_name))


def attr_path(node):
    parts = []
    while isinstance(node, ast.Attribute):
        parts.append(node.attr)
        node = node.value
    if isinstance(node, ast.Name):
        parts.append(node.id)
        return '.'.join(reversed(parts))
    raise Shape('unexpected expression %s' % ast.dump(node))


NAMES = {
    'self._sessinit_this.keepalive': 'this_keepalive',
    'self._sessinit_peer.keepalive': 'peer_keepalive',
    'self._config.segment_size_tx_initial': 'seg_init',
    'self._sessinit_peer.segment_mru': 'peer_mru',
    'next_seg_size': 'next',
    'self._send_segment_size_min': 'floor',
    'buf_use': 'buf_use',
    'self._send_segment_size': 'seg_size',
}


def arith(node):
    ''' min/max/const*name expressions over whitelisted names -> Coq (N). '''
    if isinstance(node, ast.Call) and isinstance(node.func, ast.Name) and node.func.id in ('min', 'max') \
            and len(node.args) == 2 and not node.keywords:
        return '(N.%s %s %s)' % (node.func.id, arith(node.args[0]), arith(node.args[1]))
    if isinstance(node, ast.BinOp) and isinstance(node.op, ast.Mult) and isinstance(node.left, ast.Constant) \
            and isinstance(node.left.value, int):
        return '(%d * %s)' % (node.left.value, arith(node.right))
    if isinstance(node, (ast.Attribute, ast.Name)):
        path = attr_path(node)
        if path not in NAMES:
            raise Shape('name %s not whitelisted' % path)
        return NAMES[path]
    raise Shape('unexpected arithmetic %s' % ast.dump(node))


def assigned(func, target):
    ''' The value expression of the single assignment ``target = ...`` in func. '''
    found = []
    for node in ast.walk(func):
        if isinstance(node, ast.Assign) and len(node.targets) == 1:
            try:
                if attr_path(node.targets[0]) == target:
                    found.append(node.value)
            except Shape:
                pass
    if len(found) != 1:
        raise Shape('%d assignments to %s in %s' % (len(found), target, func.name))
    return found[0]


def idle_conj(node, table):
    ''' A conjunction of emptiness tests -> list of model booleans. '''
    if isinstance(node, ast.BoolOp) and isinstance(node.op, ast.And):
        out = []
        for val in node.values:
            out += idle_conj(val, table)
        return out
    text = ast.unparse(node)
    if text not in table:
        raise Shape('idle conjunct %r not whitelisted' % text)
    return [table[text]]


def generate(repo_src):
    with open(os.path.join(repo_src, 'tcpcl', 'session.py'), 'r') as infile:
        tree = ast.parse(infile.read())
    merge = find_func(tree, 'Messenger', 'merge_session_params')
    modul = find_func(tree, 'Messenger', '_modulate_tx_seg_size')
    keepalive = arith(assigned(merge, 'self._keepalive_time'))
    seg0 = arith(assigned(merge, 'self._send_segment_size'))
    clamp = arith(assigned(modul, 'self._send_segment_size'))
    # send_buffer_decreased: the single comparison guarding the trigger
    sbd = find_func(tree, 'ContactHandler', 'send_buffer_decreased')
    tests = [node for node in ast.walk(sbd) if isinstance(node, ast.If)]
    trig = None
    for node in tests:
        cmp_ = node.test
        if isinstance(cmp_, ast.Compare) and len(cmp_.ops) == 1 and isinstance(cmp_.ops[0], ast.Lt):
            if len(node.body) == 1 and ast.unparse(node.body[0]) == 'self._process_queue_trigger()':
                trig = '(%s <? %s)' % (arith(cmp_.left), arith(cmp_.comparators[0]))
    if trig is None:
        raise Shape('send_buffer_decreased trigger test not found')
    # idle predicates
    m_idle = find_func(tree, 'Messenger', 'is_sess_idle')
    h_idle = find_func(tree, 'ContactHandler', 'is_sess_idle')
    rets = [node for node in ast.walk(m_idle) if isinstance(node, ast.Return)]
    if len(rets) != 1:
        raise Shape('Messenger.is_sess_idle shape')
    m_conj = idle_conj(rets[0].value, {
        'len(self.__rx_buf) == 0': 'rx_empty',
        'len(self.__tx_buf) == 0': 'tx_empty',
    })
    rets = [node for node in ast.walk(h_idle) if isinstance(node, ast.Return)]
    if len(rets) != 1:
        raise Shape('ContactHandler.is_sess_idle shape')
    h_conj = idle_conj(rets[0].value, {
        'Messenger.is_sess_idle(self)': 'base',
        'self._rx_tmp is None': 'rx_tmp_none',
        'self._tx_tmp is None': 'tx_tmp_none',
        'not self._tx_pend_start': 'pend_start_empty',
        'not self._tx_pend_ack': 'pend_ack_empty',
    })
    chk = find_func(tree, 'ContactHandler', '_check_sess_term')
    ifs = [node for node in chk.body if isinstance(node, ast.If)]
    if len(ifs) != 1 or ast.unparse(ifs[0].test) != 'self._in_term and self.is_sess_idle()' \
            or ast.unparse(ifs[0].body[-1]) != 'self.close()':
        raise Shape('_check_sess_term shape')
    lines = [
        '(** GENERATED by translate/targets/sessparams.py from tcpcl/session.py -- do not edit. *)',
        'From Coq Require Import NArith Bool.',
        'Local Open Scope N_scope.',
        '',
        'Definition gen_keepalive (this_keepalive peer_keepalive : N) : N := %s.' % keepalive,
        'Definition gen_seg_size (seg_init peer_mru : N) : N := %s.' % seg0,
        'Definition gen_clamp (next floor peer_mru : N) : N := %s.' % clamp,
        'Definition gen_buf_trigger (buf_use seg_size : N) : bool := %s.' % trig,
        'Definition gen_idle_messenger (rx_empty tx_empty : bool) : bool := %s.' % ' && '.join(m_conj),
        'Definition gen_idle_handler (base rx_tmp_none tx_tmp_none pend_start_empty pend_ack_empty : bool) : bool := %s.'
        % ' && '.join(h_conj),
        'Definition gen_close_when (in_term idle : bool) : bool := in_term && idle.',
        '',
    ]
    return {'Gen/SessParams.v': '\n'.join(lines)}
