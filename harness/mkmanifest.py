''' Regenerate MANIFEST.json from harness/manifest_checks.json (claimed checks)
and properties.jsonl (everything else is listed under not_applicable with a
reason). Run after adding a check. '''
import json
import os

HERE = os.path.dirname(os.path.abspath(__file__))
VERIF = os.path.dirname(HERE)
props = [json.loads(line) for line in open(os.path.join(VERIF, 'properties.jsonl'))]
with open(os.path.join(HERE, 'manifest_checks.json')) as infile:
    src = json.load(infile)
claimed = src['checks']
checks = []
for prop in props:
    pid = prop['id']
    if pid not in claimed:
        continue
    ent = claimed[pid]
    checks.append(dict(
        property_id=pid,
        quick_cmd='./check %s --tier quick' % pid,
        thorough_cmd='./check %s --tier thorough' % pid,
        evidence_file='/verif/evidence/%s.json' % pid,
        replay_cmd_template='./check %s --replay {path}' % pid,
        engine='coq-proof+correspondence',
        level_claimed=dict(category=ent.get('category', 'proof'), text=ent['text'], design_ref=ent.get('design_ref', 'DESIGN.md section 6, ' + pid)),
        level_note=ent['note'],
        technique=ent['technique'],
    ))
not_app = [dict(property_id=p['id'], reason=src['not_applicable'].get(p['id'], 'check not built yet in this development (planned: see DESIGN.md section 6); not claimed until its Coq model, theorems and correspondence run'))
           for p in props if p['id'] not in claimed]
manifest = dict(
    version=1,
    setup_cmd='./setup.sh',
    hooks=dict(
        guard='DTN_DEMO_AGENT_VERIF',
        enable='no hooks are needed: checks import /repo/src with stub dbus/gi modules on PYTHONPATH (harness/env.py)',
        baseline_off_cmd='cd /repo && /venv/bin/python -m pytest -ra -q -p no:cacheprovider --timeout=900 --continue-on-collection-errors',
        source_commits=[],
        add_only=True,
    ),
    engines=[dict(name='coq-proof+correspondence', path='/verif/coq + /verif/harness',
                  serves_properties=sorted(claimed.keys()),
                  kind_free_text='Coq 8.16.1 theorems about executable Gallina models; models tied to /repo by a Python-ast translator (coq/Gen) and by differential correspondence runs (vm_compute vs real code under stub dbus/GLib)')],
    checks=checks,
    notes=src.get('notes', ''),
    not_applicable=not_app,
)
with open(os.path.join(VERIF, 'MANIFEST.json'), 'w') as out:
    json.dump(manifest, out, indent=1)
print('MANIFEST.json: %d checks, %d not claimed' % (len(checks), len(not_app)))
