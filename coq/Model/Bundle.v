(** BPv7 bundle encoding (RFC 9171) as implemented by [bp/encoding/*.py] on top
    of [scapy_cbor]: primary block, canonical blocks, endpoint IDs, typed views
    of block-type-specific data (previous node, bundle age, hop count,
    administrative record / status report) and block CRCs.  Definitions only;
    proofs are in [Proofs/BundleProofs.v].

    Layers
    - tree level: [primary_items], [cblock_items], [bundle_items] build the
      generic CBOR tree ([Lib/Cbor.cbor]); [primary_of_items],
      [cblock_of_cbor], [bundle_of_items] convert back and are STRICT: every
      field must have exactly the RFC 9171 CBOR type (uint, bstr, ...).
    - octet level: [encode_bundle] = indefinite-length array framing of the
      block arrays; [decode_bundle] = [Cbor.decode] (permissive at the CBOR
      level: non-shortest heads, a definite-length outer array, indefinite
      inner arrays and trailing octets are accepted, as [cbor2.loads] does)
      followed by the strict tree conversion and the implementation's
      administrative-record check.
    - [impl_*] definitions reproduce behaviour of the unchanged implementation
      that deviates from the clean RFC reading:
        [impl_norm_ssp]      what [urllib.parse.urlsplit] + the recomposition in
                             [EidField.i2m] do to a dtn SSP on encoding,
        [impl_reason_known]  the [StatusReport.ReasonCode] enum (a status report
                             whose reason code is not a member cannot be decoded),
        [impl_admin_ok]      [Bundle.post_dissect] parses every type-1 block of a
                             bundle flagged PAYLOAD_ADMIN and fails as a whole if
                             that does not succeed,
        [impl_encode_bundle] = [encode_bundle] after [impl_norm_bundle]; this is
                             the model of [bytes(Bundle)].

    What the strict tree conversion does NOT accept although the implementation
    does (covered only by the harness's lax stream): negative integers in
    unsigned fields, a non-bstr BTSD (re-encoded as null), tagged blocks, bool
    status flags given as other truthy items, the text SSP "none", ipn SSPs with
    other than 2 or 3 components, floats and other CBOR outside [Lib/Cbor]. *)
From Coq Require Import List NArith Bool.
From DTN Require Import Lib.Bytes Lib.Cbor Lib.Crc.
Import ListNotations.
Local Open Scope N_scope.

Notation two64 := 18446744073709551616%N (only parsing).

(** * Endpoint IDs (RFC 9171 4.2.5.1; [fields.py] [EidField]) *)

Inductive eid : Type :=
| EidDtnNone                       (* dtn:none  = [1, 0] *)
| EidDtn (ssp : bytes)             (* dtn:<ssp> = [1, tstr]; UTF-8 octets of the SSP, e.g. "//node/svc" *)
| EidIpn (parts : list N).         (* ipn:a.b[.c] = [2, [a, b(, c)]] *)

(** the text "none" *)
Definition text_none : bytes := [110; 111; 110; 101].

Definition cbor_of_eid (e : eid) : cbor :=
  match e with
  | EidDtnNone => CArr [CUint 1; CUint 0]
  | EidDtn ssp => CArr [CUint 1; CTstr ssp]
  | EidIpn parts => CArr [CUint 2; CArr (map CUint parts)]
  end.

Definition uint_of (c : cbor) : option N :=
  match c with CUint n => Some n | _ => None end.

Fixpoint uints_of (l : list cbor) : option (list N) :=
  match l with
  | [] => Some []
  | c :: t =>
      match uint_of c with
      | None => None
      | Some n => match uints_of t with
                  | None => None
                  | Some r => Some (n :: r)
                  end
      end
  end.

Definition ipn_len_ok (n : nat) : bool := Nat.eqb n 2 || Nat.eqb n 3.

Definition eid_of_ssp (scheme : N) (ssp : cbor) : option eid :=
  if scheme =? 1 then
    match ssp with
    | CUint z => if z =? 0 then Some EidDtnNone else None
    | CTstr s => if bytes_eqb s text_none then None else Some (EidDtn s)
    | _ => None
    end
  else if scheme =? 2 then
    match ssp with
    | CArr parts =>
        match uints_of parts with
        | Some ps => if ipn_len_ok (length ps) then Some (EidIpn ps) else None
        | None => None
        end
    | _ => None
    end
  else None.

Definition eid_of_cbor (c : cbor) : option eid :=
  match c with
  | CArr [CUint scheme; ssp] => eid_of_ssp scheme ssp
  | _ => None
  end.

Definition wf_eid (e : eid) : Prop :=
  match e with
  | EidDtnNone => True
  | EidDtn ssp => N.of_nat (length ssp) < two64 /\ wf_bytes ssp /\ ssp <> text_none
  | EidIpn parts => (length parts = 2 \/ length parts = 3)%nat /\ Forall (fun n => n < two64) parts
  end.

Definition wf_eidb (e : eid) : bool :=
  match e with
  | EidDtnNone => true
  | EidDtn ssp => (N.of_nat (length ssp) <? two64) && wf_bytesb ssp && negb (bytes_eqb ssp text_none)
  | EidIpn parts => ipn_len_ok (length parts) && forallb (fun n => n <? two64) parts
  end.

(** ** What the implementation's text conversion does to a dtn SSP

    [EidField.i2m] runs ['dtn:' + ssp] through [urlsplit] and rebuilds the SSP
    as ["//" authority path] (path forced to start with "/") or, with an empty
    authority, as the path alone; query and fragment are dropped. *)

Fixpoint cut_at (c : N) (s : bytes) : bytes :=
  match s with
  | [] => []
  | x :: t => if x =? c then [] else x :: cut_at c t
  end.

Definition impl_norm_ssp (s : bytes) : bytes :=
  let s1 := cut_at 63 (cut_at 35 s) in          (* '#' = 35, '?' = 63 *)
  match s1 with
  | 47 :: 47 :: rest =>                          (* "//" authority path *)
      let auth := cut_at 47 rest in
      let path := skipn (length auth) rest in
      match auth with
      | [] => path
      | _ :: _ => match path with
                  | [] => s1 ++ [47]
                  | _ :: _ => s1
                  end
      end
  | _ => s1
  end.

Definition impl_norm_eid (e : eid) : eid :=
  match e with
  | EidDtn ssp =>
      let s := impl_norm_ssp ssp in
      if bytes_eqb s text_none then EidDtnNone else EidDtn s
  | _ => e
  end.

(** * Primary block (RFC 9171 4.3.1; [blocks.py] [PrimaryBlock]) *)

Record primary : Type := mkPrimary {
  version : N;
  flags : N;                 (* bundle processing control flags *)
  crc_type : N;              (* 0 none, 1 CRC-16 X.25, 2 CRC-32C *)
  dest : eid;
  src : eid;
  report_to : eid;
  create_time : N;           (* DTN time, ms *)
  create_seq : N;
  lifetime : N;
  frag : option (N * N);     (* (fragment offset, total ADU length); present iff flags bit 0x01 *)
  crc : option bytes         (* CRC field octets; present iff crc_type <> 0 *)
}.

Definition FLAG_IS_FRAGMENT : N := 1.
Definition FLAG_PAYLOAD_ADMIN : N := 2.
Definition is_fragment (p : primary) : bool := N.testbit (flags p) 0.
Definition is_admin (p : primary) : bool := N.testbit (flags p) 1.

Definition frag_items (f : option (N * N)) : list cbor :=
  match f with Some (o, t) => [CUint o; CUint t] | None => [] end.
Definition crc_items (c : option bytes) : list cbor :=
  match c with Some v => [CBstr v] | None => [] end.

Definition primary_items (p : primary) : list cbor :=
  [CUint (version p); CUint (flags p); CUint (crc_type p);
   cbor_of_eid (dest p); cbor_of_eid (src p); cbor_of_eid (report_to p);
   CArr [CUint (create_time p); CUint (create_seq p)]; CUint (lifetime p)]
  ++ frag_items (frag p) ++ crc_items (crc p).

(** small parsers over item lists *)
Definition pop_uint (l : list cbor) : option (N * list cbor) :=
  match l with CUint n :: t => Some (n, t) | _ => None end.
Definition pop_bstr (l : list cbor) : option (bytes * list cbor) :=
  match l with CBstr b :: t => Some (b, t) | _ => None end.
Definition pop_eid (l : list cbor) : option (eid * list cbor) :=
  match l with
  | c :: t => match eid_of_cbor c with Some e => Some (e, t) | None => None end
  | [] => None
  end.
Definition pop_ts (l : list cbor) : option (N * N * list cbor) :=
  match l with
  | CArr [CUint a; CUint b] :: t => Some (a, b, t)
  | _ => None
  end.
(** the trailing CRC field: exactly one bstr iff the CRC type is not 0 *)
Definition end_crc (ct : N) (l : list cbor) : option (option bytes) :=
  if ct =? 0 then match l with [] => Some None | _ => None end
  else match l with [CBstr v] => Some (Some v) | _ => None end.
Definition pop_frag (isf : bool) (l : list cbor) : option (option (N * N) * list cbor) :=
  if isf then
    match l with
    | CUint o :: CUint t :: r => Some (Some (o, t), r)
    | _ => None
    end
  else Some (None, l).

Definition crc_type_ok (ct : N) : bool := ct <? 3.

Definition primary_of_items (l : list cbor) : option primary :=
  match pop_uint l with None => None | Some (v, l1) =>
  match pop_uint l1 with None => None | Some (f, l2) =>
  match pop_uint l2 with None => None | Some (ct, l3) =>
  match pop_eid l3 with None => None | Some (d, l4) =>
  match pop_eid l4 with None => None | Some (s, l5) =>
  match pop_eid l5 with None => None | Some (r, l6) =>
  match pop_ts l6 with None => None | Some (t, q, l7) =>
  match pop_uint l7 with None => None | Some (lt, l8) =>
  if crc_type_ok ct then
    match pop_frag (N.testbit f 0) l8 with None => None | Some (fr, l9) =>
    match end_crc ct l9 with None => None | Some c =>
      Some (mkPrimary v f ct d s r t q lt fr c)
    end end
  else None
  end end end end end end end end.

Definition opt_bytes_ok (o : option bytes) : Prop :=
  match o with Some v => N.of_nat (length v) < two64 /\ wf_bytes v | None => True end.
Definition opt_bytes_okb (o : option bytes) : bool :=
  match o with Some v => (N.of_nat (length v) <? two64) && wf_bytesb v | None => true end.

Definition wf_primary (p : primary) : Prop :=
  version p < two64 /\ flags p < two64 /\ crc_type p < 3 /\
  wf_eid (dest p) /\ wf_eid (src p) /\ wf_eid (report_to p) /\
  create_time p < two64 /\ create_seq p < two64 /\ lifetime p < two64 /\
  (* fragment fields present iff the IS_FRAGMENT flag is set *)
  match frag p with
  | Some (o, t) => is_fragment p = true /\ o < two64 /\ t < two64
  | None => is_fragment p = false
  end /\
  (* CRC field present iff the CRC type is not 0 *)
  match crc p with
  | Some v => crc_type p <> 0 /\ N.of_nat (length v) < two64 /\ wf_bytes v
  | None => crc_type p = 0
  end.

Definition wf_primaryb (p : primary) : bool :=
  (version p <? two64) && (flags p <? two64) && (crc_type p <? 3) &&
  wf_eidb (dest p) && wf_eidb (src p) && wf_eidb (report_to p) &&
  (create_time p <? two64) && (create_seq p <? two64) && (lifetime p <? two64) &&
  match frag p with
  | Some (o, t) => is_fragment p && (o <? two64) && (t <? two64)
  | None => negb (is_fragment p)
  end &&
  match crc p with
  | Some v => negb (crc_type p =? 0) && (N.of_nat (length v) <? two64) && wf_bytesb v
  | None => crc_type p =? 0
  end.

(** * Canonical blocks (RFC 9171 4.3.2; [CanonicalBlock]) *)

Record cblock : Type := mkCBlock {
  btype : N;
  bnum : N;
  bflags : N;
  bcrc_type : N;
  btsd : bytes;               (* block-type-specific data *)
  bcrc : option bytes
}.

Definition BLOCK_PAYLOAD : N := 1.
Definition BLOCK_PREV_NODE : N := 6.
Definition BLOCK_AGE : N := 7.
Definition BLOCK_HOP_COUNT : N := 10.
Definition BLOCK_BIB : N := 11.
Definition BLOCK_BCB : N := 12.

Definition cblock_items (b : cblock) : list cbor :=
  [CUint (btype b); CUint (bnum b); CUint (bflags b); CUint (bcrc_type b); CBstr (btsd b)]
  ++ crc_items (bcrc b).

Definition cblock_of_items (l : list cbor) : option cblock :=
  match pop_uint l with None => None | Some (t, l1) =>
  match pop_uint l1 with None => None | Some (n, l2) =>
  match pop_uint l2 with None => None | Some (f, l3) =>
  match pop_uint l3 with None => None | Some (ct, l4) =>
  match pop_bstr l4 with None => None | Some (d, l5) =>
  if crc_type_ok ct then
    match end_crc ct l5 with None => None | Some c => Some (mkCBlock t n f ct d c) end
  else None
  end end end end end.

Definition cblock_of_cbor (c : cbor) : option cblock :=
  match c with CArr l => cblock_of_items l | _ => None end.

Definition wf_cblock (b : cblock) : Prop :=
  btype b < two64 /\ bnum b < two64 /\ bflags b < two64 /\ bcrc_type b < 3 /\
  N.of_nat (length (btsd b)) < two64 /\ wf_bytes (btsd b) /\
  match bcrc b with
  | Some v => bcrc_type b <> 0 /\ N.of_nat (length v) < two64 /\ wf_bytes v
  | None => bcrc_type b = 0
  end.

Definition wf_cblockb (b : cblock) : bool :=
  (btype b <? two64) && (bnum b <? two64) && (bflags b <? two64) && (bcrc_type b <? 3) &&
  (N.of_nat (length (btsd b)) <? two64) && wf_bytesb (btsd b) &&
  match bcrc b with
  | Some v => negb (bcrc_type b =? 0) && (N.of_nat (length v) <? two64) && wf_bytesb v
  | None => bcrc_type b =? 0
  end.

(** * Bundles *)

Record bundle : Type := mkBundle {
  prim : primary;
  blocks : list cblock        (* wire order; the payload block is the last one *)
}.

Definition bundle_items (b : bundle) : list cbor :=
  CArr (primary_items (prim b)) :: map (fun blk => CArr (cblock_items blk)) (blocks b).

Fixpoint cblocks_of (l : list cbor) : option (list cblock) :=
  match l with
  | [] => Some []
  | c :: t =>
      match cblock_of_cbor c with
      | None => None
      | Some b => match cblocks_of t with
                  | None => None
                  | Some r => Some (b :: r)
                  end
      end
  end.

Definition bundle_of_items (l : list cbor) : option bundle :=
  match l with
  | CArr pl :: rest =>
      match primary_of_items pl with
      | None => None
      | Some p => match cblocks_of rest with
                  | None => None
                  | Some bl => Some (mkBundle p bl)
                  end
      end
  | _ => None
  end.

Definition bundle_of_cbor (c : cbor) : option bundle :=
  match c with CArr l => bundle_of_items l | _ => None end.

(** payload block (type 1) last *)
Definition payload_last (l : list cblock) : Prop :=
  exists pre pl, l = pre ++ [pl] /\ btype pl = 1.
Definition payload_lastb (l : list cblock) : bool :=
  match rev l with pl :: _ => btype pl =? 1 | [] => false end.

(** Well-formedness needed for the encoding round trip and the RFC 9171 shape:
    field ranges, conditional fields consistent with flags / CRC types, and
    (stated here as a hypothesis on raw bundles) the payload block last. *)
Definition wf_bundle (b : bundle) : Prop :=
  wf_primary (prim b) /\ Forall wf_cblock (blocks b) /\ payload_last (blocks b).

Definition wf_bundleb (b : bundle) : bool :=
  wf_primaryb (prim b) && forallb wf_cblockb (blocks b) && payload_lastb (blocks b).

(** Further RFC 9171 requirements that the codec itself does not depend on
    (used by other properties): version 7, distinct block numbers, none 0,
    payload block number 1, exactly one payload block, CRC field widths. *)
Fixpoint nodupb (l : list N) : bool :=
  match l with
  | [] => true
  | x :: t => negb (existsb (N.eqb x) t) && nodupb t
  end.
Definition crc_width (ct : N) : nat :=
  if ct =? 1 then 2%nat else if ct =? 2 then 4%nat else 0%nat.
Definition crc_len_okb (ct : N) (c : option bytes) : bool :=
  match c with Some v => Nat.eqb (length v) (crc_width ct) | None => true end.
Definition rfc9171_extrab (b : bundle) : bool :=
  (version (prim b) =? 7) &&
  nodupb (map bnum (blocks b)) &&
  forallb (fun blk => negb (bnum blk =? 0)) (blocks b) &&
  forallb (fun blk => (btype blk =? 1) || negb (bnum blk =? 1)) (blocks b) &&
  forallb (fun blk => negb (btype blk =? 1) || (bnum blk =? 1)) (blocks b) &&
  crc_len_okb (crc_type (prim b)) (crc (prim b)) &&
  forallb (fun blk => crc_len_okb (bcrc_type blk) (bcrc blk)) (blocks b).

(** * Octet level *)

Definition encode_primary (p : primary) : bytes := encode (CArr (primary_items p)).
Definition encode_cblock (b : cblock) : bytes := encode (CArr (cblock_items b)).
Definition encode_bundle (b : bundle) : bytes := encode_indef_arr (bundle_items b).

(** nesting depth of a bundle tree is 5 (bundle > primary > EID > ipn parts > uint) *)
Definition bundle_fuel : nat := 8.

(** * Typed views of block-type-specific data *)

Definition decode_one (bs : bytes) : option cbor :=
  match decode bundle_fuel bs with Some (c, []) => Some c | _ => None end.
Definition decode_one_strict (bs : bytes) : option cbor :=
  match decode_strict bundle_fuel bs with Some (c, []) => Some c | _ => None end.

(** previous node (type 6): an EID *)
Definition encode_prev_node (e : eid) : bytes := encode (cbor_of_eid e).
Definition decode_prev_node (bs : bytes) : option eid :=
  match decode_one bs with Some c => eid_of_cbor c | None => None end.

(** bundle age (type 7): uint, ms *)
Definition encode_bundle_age (ms : N) : bytes := encode (CUint ms).
Definition decode_bundle_age (bs : bytes) : option N :=
  match decode_one bs with Some (CUint n) => Some n | _ => None end.

(** hop count (type 10): [limit, count] *)
Definition encode_hop_count (lc : N * N) : bytes := encode (CArr [CUint (fst lc); CUint (snd lc)]).
Definition decode_hop_count (bs : bytes) : option (N * N) :=
  match decode_one bs with Some (CArr [CUint l; CUint c]) => Some (l, c) | _ => None end.

(** ** Administrative records (RFC 9171 6.1; [admin.py]) *)

Definition status_item : Type := (bool * option N)%type.   (* asserted, optional DTN time *)

Record status_report : Type := mkStatusReport {
  sr_received : status_item;
  sr_forwarded : status_item;
  sr_delivered : status_item;
  sr_deleted : status_item;
  sr_reason : N;
  sr_src : eid;                  (* subject bundle: source, creation timestamp *)
  sr_time : N;
  sr_seq : N;
  sr_frag_off : option N;        (* subject fragment offset *)
  sr_pay_len : option N          (* subject payload length (only after a fragment offset) *)
}.

Definition cbor_of_bool (b : bool) : cbor := CSimple (if b then 21 else 20).
Definition bool_of_cbor (c : cbor) : option bool :=
  match c with
  | CSimple n => if n =? 21 then Some true else if n =? 20 then Some false else None
  | _ => None
  end.

Definition cbor_of_status_item (s : status_item) : cbor :=
  CArr (cbor_of_bool (fst s) :: match snd s with Some t => [CUint t] | None => [] end).
Definition status_item_of_cbor (c : cbor) : option status_item :=
  match c with
  | CArr [f] => match bool_of_cbor f with Some b => Some (b, None) | None => None end
  | CArr [f; CUint t] => match bool_of_cbor f with Some b => Some (b, Some t) | None => None end
  | _ => None
  end.

Definition opt_uint_items (o : option N) : list cbor :=
  match o with Some n => [CUint n] | None => [] end.

Definition status_report_items (r : status_report) : list cbor :=
  [CArr [cbor_of_status_item (sr_received r); cbor_of_status_item (sr_forwarded r);
         cbor_of_status_item (sr_delivered r); cbor_of_status_item (sr_deleted r)];
   CUint (sr_reason r); cbor_of_eid (sr_src r); CArr [CUint (sr_time r); CUint (sr_seq r)]]
  ++ opt_uint_items (sr_frag_off r) ++ opt_uint_items (sr_pay_len r).

Definition pop_status (l : list cbor) : option (status_item * status_item * status_item * status_item * list cbor) :=
  match l with
  | CArr [a; b; c; d] :: t =>
      match status_item_of_cbor a, status_item_of_cbor b, status_item_of_cbor c, status_item_of_cbor d with
      | Some a', Some b', Some c', Some d' => Some (a', b', c', d', t)
      | _, _, _, _ => None
      end
  | _ => None
  end.

(** trailing optional fields: nothing, [offset] or [offset; length] *)
Definition end_opts (l : list cbor) : option (option N * option N) :=
  match l with
  | [] => Some (None, None)
  | [CUint o] => Some (Some o, None)
  | [CUint o; CUint n] => Some (Some o, Some n)
  | _ => None
  end.

(** [reason_ok]: which reason codes the decoder accepts *)
Definition status_report_of_items (reason_ok : N -> bool) (l : list cbor) : option status_report :=
  match pop_status l with None => None | Some (a, b, c, d, l1) =>
  match pop_uint l1 with None => None | Some (rc, l2) =>
  match pop_eid l2 with None => None | Some (e, l3) =>
  match pop_ts l3 with None => None | Some (t, q, l4) =>
  match end_opts l4 with None => None | Some (fo, pl) =>
  if reason_ok rc then Some (mkStatusReport a b c d rc e t q fo pl) else None
  end end end end end.

(** the members of [StatusReport.ReasonCode]: 0..10 and 12..16 *)
Definition impl_reason_known (r : N) : bool := (r <=? 10) || ((12 <=? r) && (r <=? 16)).
Definition rfc_reason_any (r : N) : bool := true.

Definition wf_status_item (s : status_item) : Prop :=
  match snd s with Some t => t < two64 | None => True end.
Definition wf_status_itemb (s : status_item) : bool :=
  match snd s with Some t => t <? two64 | None => true end.

Definition wf_status_report (r : status_report) : Prop :=
  wf_status_item (sr_received r) /\ wf_status_item (sr_forwarded r) /\
  wf_status_item (sr_delivered r) /\ wf_status_item (sr_deleted r) /\
  sr_reason r < two64 /\ wf_eid (sr_src r) /\ sr_time r < two64 /\ sr_seq r < two64 /\
  match sr_frag_off r with Some o => o < two64 | None => sr_pay_len r = None end /\
  match sr_pay_len r with Some n => n < two64 | None => True end.

Definition wf_status_reportb (r : status_report) : bool :=
  wf_status_itemb (sr_received r) && wf_status_itemb (sr_forwarded r) &&
  wf_status_itemb (sr_delivered r) && wf_status_itemb (sr_deleted r) &&
  (sr_reason r <? two64) && wf_eidb (sr_src r) && (sr_time r <? two64) && (sr_seq r <? two64) &&
  match sr_frag_off r with
  | Some o => o <? two64
  | None => match sr_pay_len r with None => true | Some _ => false end
  end &&
  match sr_pay_len r with Some n => n <? two64 | None => true end.

Inductive admin_record : Type :=
| AdminStatus (r : status_report)             (* record type 1 *)
| AdminOther (rtype : N) (content : cbor).    (* any other record type, content uninterpreted *)

Definition cbor_of_admin (a : admin_record) : cbor :=
  match a with
  | AdminStatus r => CArr [CUint 1; CArr (status_report_items r)]
  | AdminOther t c => CArr [CUint t; c]
  end.

Definition admin_of_cbor (reason_ok : N -> bool) (c : cbor) : option admin_record :=
  match c with
  | CArr [CUint t; body] =>
      if t =? 1 then
        match body with
        | CArr l => match status_report_of_items reason_ok l with
                    | Some r => Some (AdminStatus r)
                    | None => None
                    end
        | _ => None
        end
      else match body with
           | CBstr _ => None      (* the implementation reads a bare bstr content as ENCODED CBOR *)
           | _ => Some (AdminOther t body)
           end
  | _ => None
  end.

Definition encode_admin_record (a : admin_record) : bytes := encode (cbor_of_admin a).
(** strict: the BTSD must be exactly one shortest-form item *)
Definition decode_admin_record_gen (reason_ok : N -> bool) (bs : bytes) : option admin_record :=
  match decode_one_strict bs with Some c => admin_of_cbor reason_ok c | None => None end.
(** as the implementation accepts it / as RFC 9171 defines it *)
Definition decode_admin_record : bytes -> option admin_record := decode_admin_record_gen impl_reason_known.
Definition rfc_decode_admin_record : bytes -> option admin_record := decode_admin_record_gen rfc_reason_any.

Definition encode_status_report (r : status_report) : bytes := encode_admin_record (AdminStatus r).
Definition decode_status_report (bs : bytes) : option status_report :=
  match decode_admin_record bs with Some (AdminStatus r) => Some r | _ => None end.
Definition rfc_decode_status_report (bs : bytes) : option status_report :=
  match rfc_decode_admin_record bs with Some (AdminStatus r) => Some r | _ => None end.

Definition impl_norm_status_report (r : status_report) : status_report :=
  mkStatusReport (sr_received r) (sr_forwarded r) (sr_delivered r) (sr_deleted r) (sr_reason r)
                 (impl_norm_eid (sr_src r)) (sr_time r) (sr_seq r) (sr_frag_off r) (sr_pay_len r).
Definition impl_norm_admin (a : admin_record) : admin_record :=
  match a with AdminStatus r => AdminStatus (impl_norm_status_report r) | _ => a end.

(** * The implementation's handling of bundles flagged PAYLOAD_ADMIN *)

(** [Bundle.post_dissect]: every type-1 block of an admin-flagged bundle is
    parsed as an administrative record; a failure fails the whole decode. *)
Definition impl_admin_ok (b : bundle) : bool :=
  if is_admin (prim b) then
    forallb (fun blk => if btype blk =? 1
                        then match decode_admin_record (btsd blk) with Some _ => true | None => false end
                        else true) (blocks b)
  else true.

(** RFC-level: an unfragmented admin-flagged bundle carries an administrative record *)
Definition rfc_admin_ok (b : bundle) : bool :=
  if is_admin (prim b) && negb (is_fragment (prim b)) then
    forallb (fun blk => if btype blk =? 1
                        then match rfc_decode_admin_record (btsd blk) with Some _ => true | None => false end
                        else true) (blocks b)
  else true.

Definition decode_bundle (bs : bytes) : option bundle :=
  match decode bundle_fuel bs with
  | Some (c, _) =>
      match bundle_of_cbor c with
      | Some b => if impl_admin_ok b then Some b else None
      | None => None
      end
  | None => None
  end.

(** [Bundle._update_from_admin] rebuilds the BTSD of such blocks from the parsed
    record when encoding; EIDs go through the text conversion. *)
Definition impl_norm_primary (p : primary) : primary :=
  mkPrimary (version p) (flags p) (crc_type p) (impl_norm_eid (dest p)) (impl_norm_eid (src p))
            (impl_norm_eid (report_to p)) (create_time p) (create_seq p) (lifetime p) (frag p) (crc p).

Definition impl_norm_cblock (admin : bool) (blk : cblock) : cblock :=
  if admin && (btype blk =? 1) then
    match decode_admin_record (btsd blk) with
    | Some a => mkCBlock (btype blk) (bnum blk) (bflags blk) (bcrc_type blk)
                         (encode_admin_record (impl_norm_admin a)) (bcrc blk)
    | None => blk
    end
  else blk.

Definition impl_norm_bundle (b : bundle) : bundle :=
  mkBundle (impl_norm_primary (prim b)) (map (impl_norm_cblock (is_admin (prim b))) (blocks b)).

(** the model of [bytes(Bundle)] *)
Definition impl_encode_bundle (b : bundle) : bytes := encode_bundle (impl_norm_bundle b).

(** Guard under which the implementation behaves as the clean codec: no EID
    is changed by the text conversion (no '?' / '#' ...), and an admin-flagged
    bundle carries records the implementation can parse (reason code a member
    of its enum; not a partial fragment of a record). *)
Definition impl_guard (b : bundle) : Prop := impl_norm_bundle b = b /\ impl_admin_ok b = true.

(** * RFC 9171 structure as a generic CBOR decoder reads the octets *)

Definition is_arr_len (lo hi : nat) (c : cbor) : Prop :=
  exists l, c = CArr l /\ (lo <= length l <= hi)%nat.

Definition rfc9171_shape (bs : bytes) : Prop :=
  exists p blks pre lastl,
    hd_error bs = Some 159 /\                                   (* indefinite-length array *)
    decode bundle_fuel bs = Some (CArr (CArr p :: blks), []) /\  (* nothing after the break *)
    (8 <= length p <= 11)%nat /\                                (* primary block *)
    Forall (is_arr_len 5 6) blks /\                             (* canonical blocks *)
    blks = pre ++ [CArr lastl] /\ hd_error lastl = Some (CUint 1).  (* payload block last *)

(** octets an independent RFC 9171 encoder emitting deterministic CBOR
    (shortest heads, definite-length blocks) can produce *)
Definition rfc9171_canonical (bs : bytes) : Prop :=
  exists items, Forall Cbor.wf items /\ bs = encode_indef_arr items.

(** * Block CRCs (RFC 9171 4.2.1; [AbstractBlock.update_crc] / [check_crc]) *)

Definition set_crc (p : primary) (c : option bytes) : primary :=
  mkPrimary (version p) (flags p) (crc_type p) (dest p) (src p) (report_to p)
            (create_time p) (create_seq p) (lifetime p) (frag p) c.
Definition set_bcrc (b : cblock) (c : option bytes) : cblock :=
  mkCBlock (btype b) (bnum b) (bflags b) (bcrc_type b) (btsd b) c.

Definition crc_zero (ct : N) : option bytes :=
  if ct =? 0 then None else Some (repeat 0 (crc_width ct)).
Definition crc_field (ct : N) (bs : bytes) : option bytes :=
  if ct =? 1 then Some (crc16_x25_field bs)
  else if ct =? 2 then Some (crc32c_field bs)
  else None.

(** encode with a zeroed CRC field of the right width, compute, store big-endian *)
Definition with_crc_primary (p : primary) : primary :=
  set_crc p (crc_field (crc_type p) (encode_primary (set_crc p (crc_zero (crc_type p))))).
Definition with_crc_block (b : cblock) : cblock :=
  set_bcrc b (crc_field (bcrc_type b) (encode_cblock (set_bcrc b (crc_zero (bcrc_type b))))).
Definition with_crc_bundle (b : bundle) : bundle :=
  mkBundle (with_crc_primary (prim b)) (map with_crc_block (blocks b)).

Definition opt_bytes_eqb (a b : option bytes) : bool :=
  match a, b with
  | Some x, Some y => bytes_eqb x y
  | None, None => true
  | _, _ => false
  end.
Definition crc_ok_primary (p : primary) : bool := opt_bytes_eqb (crc p) (crc (with_crc_primary p)).
Definition crc_ok_block (b : cblock) : bool := opt_bytes_eqb (bcrc b) (bcrc (with_crc_block b)).
Definition crc_ok_bundle (b : bundle) : bool :=
  crc_ok_primary (prim b) && forallb crc_ok_block (blocks b).

(** * Renderers for the correspondence harness (options as 0/1-element lists) *)

Definition ren_opt {A} (o : option A) : list A := match o with Some x => [x] | None => [] end.
Definition ren_eid (e : eid) : N * list N :=
  match e with EidDtnNone => (0, []) | EidDtn s => (1, s) | EidIpn p => (2, p) end.
Definition ren_primary (p : primary) :=
  ([version p; flags p; crc_type p; create_time p; create_seq p; lifetime p],
   [ren_eid (dest p); ren_eid (src p); ren_eid (report_to p)],
   ren_opt (frag p), ren_opt (crc p)).
Definition ren_cblock (b : cblock) :=
  ([btype b; bnum b; bflags b; bcrc_type b], btsd b, ren_opt (bcrc b)).
Definition ren_bundle (b : bundle) := (ren_primary (prim b), map ren_cblock (blocks b)).
Definition ren_status_item (s : status_item) : bool * list N := (fst s, ren_opt (snd s)).
Definition ren_status_report (r : status_report) :=
  ([ren_status_item (sr_received r); ren_status_item (sr_forwarded r);
    ren_status_item (sr_delivered r); ren_status_item (sr_deleted r)],
   [sr_reason r; sr_time r; sr_seq r], ren_eid (sr_src r),
   [ren_opt (sr_frag_off r); ren_opt (sr_pay_len r)]).

(** one run of the encoder side: octets of [bytes(Bundle)] with the given CRC
    octets, octets after [update_all_crc] (CRCs computed by the model over what
    is actually emitted), and the flags
    [wf_bundleb; impl guard (decidable part); rfc_admin_ok; rfc9171_extrab;
     crc_ok_bundle] *)
Definition bundle_eqb_items (a b : bundle) : bool :=
  bytes_eqb (encode_bundle a) (encode_bundle b).
Definition impl_guardb (b : bundle) : bool :=
  bundle_eqb_items (impl_norm_bundle b) b && impl_admin_ok b.
Definition run_encode (b : bundle) :=
  (impl_encode_bundle b, encode_bundle (with_crc_bundle (impl_norm_bundle b)),
   [wf_bundleb b; impl_guardb b; rfc_admin_ok b; rfc9171_extrab b; crc_ok_bundle b]).
(** decoder side: decoded fields, and the octets the model re-encodes them to *)
Definition run_decode (bs : bytes) :=
  match decode_bundle bs with
  | Some b => Some (ren_bundle b, impl_encode_bundle b, [wf_bundleb b; impl_guardb b; rfc9171_extrab b; crc_ok_bundle b])
  | None => None
  end.
Definition run_status_encode (r : status_report) := (encode_status_report r, wf_status_reportb r).
Definition run_status_decode (bs : bytes) :=
  match decode_status_report bs with Some r => Some (ren_status_report r) | None => None end.
Definition run_norm_ssp (s : bytes) := impl_norm_ssp s.
