(** The sender of the BTP-U model: every frame within the MTU for all
    bundle lengths and MTUs, the segments tile the bundle, at least two
    segments when the bundle does not fit, and every frame built decodes to
    the message it was built from. *)
From Coq Require Import ZArith NArith List Bool Lia ZifyBool ZifyN ZifyNat Arith.
From DTN Require Import Lib.Bytes Model.Btpu Proofs.BtpuProofs.
Import ListNotations.
Local Open Scope N_scope.

Ltac Zify.zify_post_hook ::= Z.div_mod_to_equations.

Definition seg_idx (s : N * bytes * bool) : N := fst (fst s).
Definition seg_data (s : N * bytes * bool) : bytes := snd (fst s).
Definition seg_last (s : N * bytes * bool) : bool := snd s.

(** What a well-formed segment list looks like: consecutive indices from
    [idx], non-empty data, the end marker exactly on the last one. *)
Fixpoint shape (idx : N) (l : list (N * bytes * bool)) : Prop :=
  match l with
  | [] => True
  | s :: t => seg_idx s = idx /\ seg_data s <> [] /\ seg_last s = is_nil t /\ shape (idx + 1) t
  end.

Lemma chunk_nil fuel rs idx : chunk fuel rs [] idx = [].
Proof. destruct fuel; reflexivity. Qed.

Lemma chunk_shape : forall fuel rs rem idx,
  (1 <= rs)%nat -> (length rem <= fuel)%nat -> shape idx (chunk fuel rs rem idx).
Proof.
  induction fuel as [|f IH]; intros rs rem idx Hrs Hf; [exact I|].
  destruct rem as [|x r]; [exact I|].
  cbn [chunk shape]. unfold seg_idx, seg_data, seg_last. cbn [fst snd].
  assert (Hlen : (length (skipn rs (x :: r)) <= f)%nat) by (rewrite skipn_length; cbn [length] in *; lia).
  repeat split.
  - destruct rs as [|k]; [lia|]. cbn [firstn]. congruence.
  - destruct (skipn rs (x :: r)) as [|y r'] eqn:E.
    + rewrite chunk_nil. reflexivity.
    + destruct f as [|f']; [cbn [length] in Hlen; lia|]. reflexivity.
  - apply IH; assumption.
Qed.

Lemma chunk_concat : forall fuel rs rem idx,
  (1 <= rs)%nat -> (length rem <= fuel)%nat ->
  concat (map seg_data (chunk fuel rs rem idx)) = rem.
Proof.
  induction fuel as [|f IH]; intros rs rem idx Hrs Hf.
  - destruct rem; [reflexivity|cbn [length] in Hf; lia].
  - destruct rem as [|x r]; [reflexivity|].
    cbn [chunk map concat]. unfold seg_data at 1. cbn [fst snd].
    rewrite IH; [apply firstn_skipn|exact Hrs|].
    rewrite skipn_length. cbn [length] in *. lia.
Qed.

Lemma chunk_data_le : forall fuel rs rem idx,
  Forall (fun s => (length (seg_data s) <= rs)%nat) (chunk fuel rs rem idx).
Proof.
  induction fuel as [|f IH]; intros rs rem idx; [constructor|].
  destruct rem as [|x r]; [constructor|]. cbn [chunk]. constructor; [|apply IH].
  unfold seg_data. cbn [fst snd]. apply firstn_le_length.
Qed.

Lemma chunk_data_wf : forall fuel rs rem idx,
  wf_bytes rem -> Forall (fun s => wf_bytes (seg_data s)) (chunk fuel rs rem idx).
Proof.
  induction fuel as [|f IH]; intros rs rem idx Hwf; [constructor|].
  destruct rem as [|x r]; [constructor|]. cbn [chunk]. constructor.
  - unfold seg_data. cbn [fst snd]. apply wf_bytes_firstn, Hwf.
  - apply IH, wf_bytes_skipn, Hwf.
Qed.

Lemma chunk_length_le : forall fuel rs rem idx,
  (1 <= rs)%nat -> (length (chunk fuel rs rem idx) <= length rem)%nat.
Proof.
  induction fuel as [|f IH]; intros rs rem idx Hrs; [cbn; lia|].
  destruct rem as [|x r]; [cbn; lia|]. cbn [chunk length].
  specialize (IH rs (skipn rs (x :: r)) (idx + 1) Hrs). rewrite skipn_length in IH. cbn [length] in IH. lia.
Qed.

Lemma chunk_ge2 : forall fuel rs rem idx,
  (1 <= rs)%nat -> (rs < length rem)%nat -> (length rem <= fuel)%nat ->
  (2 <= length (chunk fuel rs rem idx))%nat.
Proof.
  intros fuel rs rem idx Hrs Hlt Hf.
  destruct fuel as [|f]; [lia|]. destruct rem as [|x r]; [cbn [length] in Hlt; lia|].
  cbn [chunk length].
  assert (Hl : (1 <= length (skipn rs (x :: r)) <= f)%nat) by (rewrite skipn_length; cbn [length] in *; lia).
  destruct (skipn rs (x :: r)) as [|y r']; [cbn [length] in Hl; lia|].
  destruct f as [|f']; [lia|]. cbn [chunk length]. lia.
Qed.

Lemma shape_bounds : forall l idx,
  shape idx l ->
  Forall (fun s => idx <= seg_idx s /\ seg_idx s < idx + N.of_nat (length l)
                   /\ seg_data s <> []
                   /\ (seg_last s = true <-> seg_idx s + 1 = idx + N.of_nat (length l))) l.
Proof.
  induction l as [|s t IH]; intros idx H; [constructor|].
  destruct H as (Hi & Hd & Hl & Ht). specialize (IH _ Ht).
  constructor.
  - cbn [length]. repeat split; try lia; try assumption.
    + intros E. rewrite Hl in E. apply is_nil_true in E. subst t. cbn [length]. lia.
    + intros E. rewrite Hl. destruct t; [reflexivity|cbn [length] in E; lia].
  - eapply Forall_impl; [|exact IH]. cbn beta. intros a (H1 & H2 & H3 & H4). cbn [length].
    repeat split; try lia; try assumption.
    + intros E. apply H4 in E. lia.
    + intros E. apply H4. lia.
Qed.

(** * Sizes *)

Lemma seg_frame_length hs xid s :
  blen (seg_frame hs xid s) = head_len hs + 8 + blen (seg_data s).
Proof.
  destruct s as [[i d] b]. unfold seg_frame, encode_frame, encode_msgs, seg_msg, mk_seg, mk_msg, head_len, seg_data.
  cbn [f_msgs f_pad map concat fst snd]. rewrite !app_nil_r, encode_msg_length.
  cbn [m_hints m_body]. rewrite !blen_app. unfold blen at 2 3. rewrite !be_length. lia.
Qed.

Theorem within_mtu_h hs mtu xid data :
  mtu_feasible_h hs mtu = true ->
  Forall (fun f => blen f <= mtu) (send_transfer_h hs (Some mtu) xid data).
Proof.
  unfold mtu_feasible_h, send_transfer_h, fits. intros Hm. apply N.ltb_lt in Hm.
  destruct (N.ltb_spec (blen data) (mtu - 4)) as [Hfit|Hno].
  - constructor; [|constructor].
    unfold encode_frame, encode_msgs. cbn [f_msgs f_pad map concat]. rewrite !app_nil_r, encode_msg_length.
    unfold mk_bundle, mk_msg. cbn [m_hints m_body is_nil encode_hints]. change (blen []) with 0. lia.
  - apply Forall_map. unfold segments.
    eapply Forall_impl; [|apply chunk_data_le]. cbn beta. intros s Hs.
    rewrite seg_frame_length. unfold remain_size in Hs. unfold blen. lia.
Qed.

Theorem segments_concat hs mtu data :
  mtu_feasible_h hs mtu = true ->
  concat (map seg_data (segments hs mtu data)) = data.
Proof.
  unfold mtu_feasible_h, segments, remain_size. intros Hm. apply N.ltb_lt in Hm.
  apply chunk_concat; lia.
Qed.

Theorem segments_shape hs mtu data :
  mtu_feasible_h hs mtu = true -> shape 0 (segments hs mtu data).
Proof.
  unfold mtu_feasible_h, segments, remain_size. intros Hm. apply N.ltb_lt in Hm.
  apply chunk_shape; lia.
Qed.

Theorem segments_ge2 hs mtu data :
  mtu_feasible_h hs mtu = true -> fits (Some mtu) (blen data) = false ->
  (2 <= length (segments hs mtu data))%nat.
Proof.
  unfold mtu_feasible_h, fits, segments, remain_size, head_len, blen. intros Hm Hf.
  apply N.ltb_lt in Hm. apply N.ltb_ge in Hf.
  apply chunk_ge2; lia.
Qed.

Lemma segments_length_le hs mtu data :
  mtu_feasible_h hs mtu = true -> (length (segments hs mtu data) <= length data)%nat.
Proof.
  unfold mtu_feasible_h, segments, remain_size. intros Hm. apply N.ltb_lt in Hm.
  apply chunk_length_le; lia.
Qed.

(** * The frames built decode to the messages they were built from *)

Lemma be4_nonnil x rest : is_nil (be 4 x ++ rest) = false.
Proof.
  apply is_nil_false. intros E. apply (f_equal (@length N)) in E.
  rewrite app_length, be_length in E. cbn in E. lia.
Qed.

Lemma view_mk_seg hs last x i d :
  x < 4294967296 -> i < 4294967296 ->
  view (mk_seg hs last x i d) = if last then CEnd x i d else CSeg x i d.
Proof.
  intros Hx Hi. unfold view, mk_seg, mk_msg. cbn [m_body m_type]. rewrite be4_nonnil.
  unfold view_xfer. rewrite take_be_app by (rewrite pow_256_4; exact Hx).
  rewrite take_be_app by (rewrite pow_256_4; exact Hi).
  destruct last; reflexivity.
Qed.

Lemma view_mk_bundle d : d <> [] -> view (mk_bundle d) = CBundle d.
Proof. intros H. unfold view, mk_bundle, mk_msg. cbn [m_body m_type]. destruct d; [congruence|reflexivity]. Qed.

Lemma wf_mk_msg t hs body :
  t < 256 -> Forall wf_hint hs -> (length hs <= MAX_LIST)%nat -> wf_bytes body ->
  blen (encode_hints hs) + blen body < LEN_MOD ->
  wf_msg (mk_msg t hs body).
Proof.
  intros Ht Hh Hn Hb Hl. unfold wf_msg, mk_msg. cbn [m_type m_flags m_hints m_body].
  repeat split; try assumption.
  - destruct hs; cbn [is_nil]; lia.
  - apply has_h_mk.
Qed.

Lemma single_frame_decode m :
  wf_msg m -> m_type m <> 0 ->
  decode_frame (encode_frame (mkFrame [m] [])) = Some (mkFrame [m] []).
Proof.
  intros Hm Ht. apply decode_frame_encode, wf_frameb_spec. unfold wf_frame. cbn [f_msgs f_pad length].
  split; [constructor; [split; assumption|constructor]|]. split; [unfold MAX_LIST; lia|]. split; [exact I|constructor].
Qed.

(** Conditions under which the fields of a segment fit their widths. *)
Definition seg_encodable (hs : list hint) (xid : N) (s : N * bytes * bool) : Prop :=
  Forall wf_hint hs /\ (length hs <= MAX_LIST)%nat /\ xid < 4294967296 /\ seg_idx s < 4294967296
  /\ wf_bytes (seg_data s) /\ blen (encode_hints hs) + 8 + blen (seg_data s) < LEN_MOD.

Lemma seg_frame_decode hs xid s :
  seg_encodable hs xid s ->
  decode_frame (seg_frame hs xid s) = Some (mkFrame [seg_msg hs xid s] [])
  /\ view (seg_msg hs xid s)
     = if seg_last s then CEnd xid (seg_idx s) (seg_data s) else CSeg xid (seg_idx s) (seg_data s).
Proof.
  destruct s as [[i d] b]. unfold seg_encodable, seg_idx, seg_data, seg_last. cbn [fst snd].
  intros (Hh & Hn & Hx & Hi & Hd & Hl). split.
  - unfold seg_frame. apply single_frame_decode.
    + unfold seg_msg, mk_seg. apply wf_mk_msg; try assumption.
      * destruct b; lia.
      * apply wf_bytes_app; split; [apply be_wf|]. apply wf_bytes_app; split; [apply be_wf|exact Hd].
      * rewrite !blen_app. unfold blen at 2 3. rewrite !be_length. lia.
    + unfold seg_msg, mk_seg, mk_msg. cbn [m_type]. destruct b; lia.
  - unfold seg_msg. apply view_mk_seg; assumption.
Qed.

(** * The code's own hint list *)

Lemma head_len_xfer total : head_len (xfer_hints total) = 10.
Proof.
  unfold head_len, xfer_hints, blen. cbn [encode_hints length h_data h_type app is_nil].
  rewrite app_nil_r, be_length. reflexivity.
Qed.

Lemma xfer_hints_wf total : Forall wf_hint (xfer_hints total).
Proof.
  constructor; [|constructor]. unfold wf_hint, blen. cbn [h_type h_data]. rewrite be_length.
  repeat split; try lia. apply be_wf.
Qed.

Lemma mtu_feasible_xfer total mtu : mtu_feasible mtu = true -> mtu_feasible_h (xfer_hints total) mtu = true.
Proof. unfold mtu_feasible, mtu_feasible_h. rewrite head_len_xfer. intros H. apply N.ltb_lt in H. apply N.ltb_lt. lia. Qed.
