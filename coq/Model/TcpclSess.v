(** Executable model of one TCPCLv4 endpoint of /repo/src/tcpcl/session.py:
    the [Connection] octet pump, the [Messenger] message layer and the
    [ContactHandler] transfer layer, as a step function over explicit
    event-loop operations.  Definitions only.

    Scope of the model (what is modelled rather than verified is listed in
    DESIGN.md section 8): TLS is off ([tls_enable = False], so the TLS
    attempt is always false; [require_tls] still decides whether the
    endpoint proceeds), [enable_test] is empty,
    [modulate_target_ack_time] is None (the segment-size controller is not
    running; its clamp is translated separately in Gen/SessParams.v).
    Once an endpoint has closed its socket every further operation on it is
    a no-op in the model, and the harness dispatches nothing to it. *)
From Coq Require Import List NArith ZArith Arith Bool Lia.
From RecordUpdate Require Import RecordSet.
From DTN Require Import Lib.Bytes Model.TcpclMsg.
Import ListNotations RecordSetNotations.
Local Open Scope N_scope.

(** Size of stream chunks ([Connection.CHUNK_SIZE]). *)
Definition CHUNK : N := 10240.
Definition chunk_nat : nat := N.to_nat CHUNK.

Record cfg := mkCfg {
  c_passive : bool;             (* accepted (passive) side of the TCP connection *)
  c_nodeid : bytes;             (* config.node_id, UTF-8 *)
  c_keepalive : N;              (* config.keepalive_time, seconds *)
  c_idle : N;                   (* config.idle_time, seconds *)
  c_seg_mru : N;                (* config.segment_size_mru *)
  c_seg_init : N;               (* config.segment_size_tx_initial *)
  c_require_tls : option bool   (* config.require_tls *)
}.

(** Values crossing the D-Bus boundary, by Python type. *)
Inductive pyval :=
| PStr (tag : N)      (* a str constant: session state name or transfer result, by tag *)
| PStrNum (n : N)     (* str(n) for an int n (transfer IDs) *)
| PInt (n : N)        (* a Python int *)
| PDbusStr.           (* dbus.String() -- the "unknown length" variant value *)

Inductive signame :=
| SigState | SigSendStarted | SigSendInter | SigSendFinished
| SigRecvStarted | SigRecvInter | SigRecvFinished.

Inductive event :=
| ESig (s : signame) (args : list pyval)   (* D-Bus signal emission *)
| ERet (tag : N) (v : pyval)               (* D-Bus method return: 1 send_bundle_data *)
| EPop (id : N) (data : bytes)             (* recv_bundle_pop_data return value *)
| EExc (kind : N)                          (* exception escaping a callback or D-Bus method *)
| EClosed.                                 (* socket closed; on_close callback ran *)

(** String tags. *)
Definition ST_CONNECTING : N := 10.
Definition ST_CONTACT : N := 11.
Definition ST_SESSNEG : N := 12.
Definition ST_ESTABLISHED : N := 13.
Definition ST_ENDING : N := 14.
Definition RES_SUCCESS : N := 0.
Definition RES_TERMINATING : N := 1.
Definition RES_REFUSED (code : N) : N := 100 + code.

(** Exception kinds. *)
Definition EX_RUNTIME : N := 1.     (* RuntimeError *)
Definition EX_KEY : N := 2.         (* KeyError *)
Definition EX_UNICODE : N := 3.     (* UnicodeDecodeError *)
Definition EX_ATTRIBUTE : N := 4.   (* AttributeError *)

(** SESS_INIT content kept from negotiation. *)
Record sessinit := mkSI { si_keepalive : N; si_seg_mru : N; si_xfer_mru : N; si_nodeid : bytes }.

Record ep := mkEp {
  cf : cfg;
  now : N;                          (* virtual clock, ms *)
  (* Connection *)
  closed : bool;
  rx_alive : bool;                  (* the IO_IN watch is still registered (an exception escaping
                                       the receive callback removes it: the endpoint goes deaf) *)
  conn_tx : bytes;                  (* Connection.__tx_buf *)
  io_set : bool;                    (* __avail_tx_notls_id is not None *)
  pend_set : bool;                  (* __avail_tx_notls_pend is not None *)
  n_io : nat;                       (* live IO_OUT watches on _avail_tx_notls *)
  n_idle : nat;                     (* live idle sources on _avail_tx_notls *)
  (* Messenger *)
  state : N;
  in_conn : bool; in_sess : bool; in_term : bool;
  conhead_this : option N; conhead_peer : option N;
  sessinit_this : option sessinit; sessinit_peer : option sessinit;
  rx_buf : bytes;                   (* Messenger.__rx_buf *)
  msg_tx : bytes;                   (* Messenger.__tx_buf *)
  keepalive_time : N; idle_time : N;
  ka_due : option N; idle_due : option N;
  seg_size : N;                     (* _send_segment_size *)
  (* ContactHandler *)
  next_id : N;
  pend_start : list (N * bytes);    (* _tx_pend_start: (id, data) *)
  pend_ack : list N;                (* _tx_pend_ack *)
  tx_map : list (N * N);            (* _tx_map: id -> item.ack_length, insertion order *)
  tx_tmp : option (N * bytes);      (* _tx_tmp: (id, data) *)
  tx_len : N;                       (* _tx_length *)
  pq_set : bool; n_pq : nat;        (* _process_queue_pend / live idle sources *)
  rx_tmp : option (N * bytes);      (* _rx_tmp: (id, data so far) *)
  rx_map : list (N * bytes);        (* _rx_map, insertion order *)
  (* observations *)
  sent : list frame;                (* every frame given to send_message *)
  handled : list frame;             (* every frame given to recv_message, in order (ghost) *)
  t_send : N;                       (* clock value at the last send_message (ghost) *)
  t_recv : N;                       (* clock value at the last recv_raw (ghost) *)
  wire : bytes;                     (* every octet accepted by the socket *)
  trace : list event
}.

#[export] Instance eta_ep : Settable _ := settable! mkEp
  <cf; now; closed; rx_alive; conn_tx; io_set; pend_set; n_io; n_idle;
   state; in_conn; in_sess; in_term; conhead_this; conhead_peer; sessinit_this; sessinit_peer;
   rx_buf; msg_tx; keepalive_time; idle_time; ka_due; idle_due; seg_size;
   next_id; pend_start; pend_ack; tx_map; tx_tmp; tx_len; pq_set; n_pq; rx_tmp; rx_map;
   sent; handled; t_send; t_recv; wire; trace>.

Definition init (c : cfg) : ep :=
  mkEp c 0 false true [] false false 0 0
       ST_CONNECTING false false false None None None None
       [] [] 0 0 None None 0
       1 [] [] [] None 0 false 0 None []
       [] [] 0 0 [] [].   (* the 'connecting' state is set before the signal is bound: no emission *)

Inductive op :=
| OStart
| OSend (data : bytes)
| OTerm (reason : N)
| OClose
| OPop (id : N)
| OTxPump (idle : bool) (accept : N)
| ORx (data : bytes)
| ORxEof
| OPQ
| OFireKa
| OFireIdle
| OAdvance (dt : N).

(** ** Small helpers *)

Definition emit (e : event) (s : ep) : ep := s <| trace := trace s ++ [e] |>.

Definition is_nil {A} (l : list A) : bool := match l with [] => true | _ => false end.

Definition set_state (st : N) (s : ep) : ep :=
  if state s =? st then s else emit (ESig SigState [PStr st]) (s <| state := st |>).

Definition ka_reset (s : ep) : ep :=
  s <| ka_due := if 0 <? keepalive_time s then Some (now s + keepalive_time s * 1000) else None |>.

Definition idle_reset (s : ep) : ep :=
  s <| idle_due := if 0 <? idle_time s then Some (now s + idle_time s * 1000) else None |>.

Definition send_ready (s : ep) : ep :=
  let s := if io_set s then s else s <| io_set := true |> <| n_io := S (n_io s) |> in
  if pend_set s then s else s <| pend_set := true |> <| n_idle := S (n_idle s) |>.

(** [Messenger.send_message] *)
Definition send_frame (f : frame) (s : ep) : ep :=
  idle_reset (ka_reset (send_ready
    (s <| msg_tx := msg_tx s ++ encode_frame f |> <| sent := sent s ++ [f] |> <| t_send := now s |>))).

Definition send_msg (m : msg) (s : ep) : ep := send_frame (FMsg m) s.

(** ** Dictionary helpers (Python dicts keep insertion order) *)

Fixpoint dict_get {V} (k : N) (d : list (N * V)) : option V :=
  match d with
  | [] => None
  | (k', v) :: r => if k' =? k then Some v else dict_get k r
  end.

Fixpoint dict_set {V} (k : N) (v : V) (d : list (N * V)) : list (N * V) :=
  match d with
  | [] => [(k, v)]
  | (k', v') :: r => if k' =? k then (k, v) :: r else (k', v') :: dict_set k v r
  end.

Fixpoint dict_del {V} (k : N) (d : list (N * V)) : list (N * V) :=
  match d with
  | [] => []
  | (k', v') :: r => if k' =? k then r else (k', v') :: dict_del k r
  end.

(** [ContactHandler.close] / [Messenger.close] / [Connection.close] *)
Definition flush_pend_start (s : ep) : ep :=
  fold_left (fun s it =>
               emit (ESig SigSendFinished [PStrNum (fst it); PInt 0; PStr RES_TERMINATING])
                    (s <| tx_map := dict_del (fst it) (tx_map s) |>))
            (pend_start s) (s <| pend_start := [] |>).

Definition do_close (s : ep) : ep :=
  let s := s <| ka_due := None |> <| idle_due := None |> in
  if closed s then s
  else
    (* ContactHandler.close: transfers never started are reported before the connection goes down *)
    let s := flush_pend_start s in
    let s := if io_set s then s <| io_set := false |> <| n_io := pred (n_io s) |> else s in
    emit EClosed (s <| closed := true |>).

Definition pq_trigger (s : ep) : ep :=
  if pq_set s then s else s <| pq_set := true |> <| n_pq := S (n_pq s) |>.

(** [ContactHandler.send_buffer_decreased] *)
Definition send_buffer_decreased (buf_use : N) (s : ep) : ep :=
  if buf_use <? 5 * seg_size s then pq_trigger s else s.

(** [ContactHandler.is_sess_idle] *)
Definition is_sess_idle (s : ep) : bool :=
  is_nil (rx_buf s) && is_nil (msg_tx s)
  && match rx_tmp s with None => true | Some _ => false end
  && match tx_tmp s with None => true | Some _ => false end
  && is_nil (pend_start s) && is_nil (pend_ack s).

Definition check_sess_term (s : ep) : ep :=
  if in_term s && is_sess_idle s then do_close s else s.

Definition mem_N (k : N) (l : list N) : bool := existsb (N.eqb k) l.
Fixpoint remove_N (k : N) (l : list N) : list N :=
  match l with
  | [] => []
  | x :: r => if x =? k then r else x :: remove_N k r
  end.

(** ** Sending *)

Definition contact_flags (s : ep) : N := 0.   (* tls_enable = False: CAN_TLS not offered *)

Definition send_contact_header (s : ep) : ep :=
  send_frame (FContact (mkContact MAGIC 4 (contact_flags s))) s.

Definition my_sessinit (s : ep) : sessinit :=
  mkSI (c_keepalive (cf s)) (c_seg_mru (cf s)) (2^64 - 1) (c_nodeid (cf s)).

Definition send_sess_init (s : ep) : ep :=
  let si := my_sessinit s in
  (send_msg (MSessInit (si_keepalive si) (si_seg_mru si) (si_xfer_mru si) (si_nodeid si) []) s)
    <| sessinit_this := Some si |>.

(** Result of a handler: the new state, and an escaped exception if any. *)
Definition res := (ep * option N)%type.
Definition ok (s : ep) : res := (s, None).
Definition raise (k : N) (s : ep) : res := (s, Some k).

(** [Messenger.send_sess_term] *)
Definition send_sess_term (reason : N) (reply : bool) (s : ep) : res :=
  if negb (in_sess s) then raise EX_RUNTIME s
  else if in_term s then raise EX_RUNTIME s
  else
    let s := set_state ST_ENDING (s <| in_term := true |>) in
    ok (send_msg (MSessTerm (if reply then 1 else 0) reason) s).

(** The transfer-length extension item of a START segment. *)
Definition total_length_ext (total : N) : bytes :=
  encode_ext (mkExt 0 1 (be 8 total)).

(** One pass of [_process_queue] once a transfer is active. *)
Definition send_next (s : ep) : ep :=
  match tx_tmp s with
  | None => s
  | Some (id, data) =>
    let total := N.of_nat (length data) in
    if (tx_len s =? total) && (0 <? tx_len s) then s
    else
      let start := tx_len s =? 0 in
      let seg := firstn (N.to_nat (seg_size s)) (skipn (N.to_nat (tx_len s)) data) in
      let newlen := tx_len s + N.of_nat (length seg) in
      let is_end := newlen =? total in
      let flags := (if start then FLAG_START else 0) + (if is_end then FLAG_END else 0) in
      let ext := if start then total_length_ext total else [] in
      let s := s <| tx_len := newlen |> in
      let s := send_msg (MXferSeg flags id ext seg) s in
      if is_end then
        pq_trigger (s <| pend_ack := pend_ack s ++ [id] |> <| tx_tmp := None |> <| tx_len := 0 |>)
      else s
  end.

(** [ContactHandler._process_queue]; returns the state and whether the idle
    source stays registered. *)
Definition process_queue (s : ep) : ep * bool :=
  let s := s <| pq_set := false |> in
  match tx_tmp s with
  | Some _ => (send_next s, false)
  | None =>
    if negb (in_sess s) then (s, true)
    else if in_term s then (s, false)
    else
      match pend_start s with
      | [] => (s, false)
      | (id, data) :: rest =>
        let s := s <| pend_start := rest |> <| tx_tmp := Some (id, data) |> <| tx_len := 0 |> in
        let s := emit (ESig SigSendStarted [PStrNum id; PInt (N.of_nat (length data))]) s in
        (send_next s, false)
      end
  end.

(** ** Receiving *)

Definition ascii (b : bytes) : bool := forallb (fun x => x <? 128) b.

(** [Messenger.merge_session_params] (no TLS). *)
Definition merge_session_params (s : ep) : res :=
  match sessinit_this s, sessinit_peer s with
  | Some this, Some peer =>
    if negb (ascii (si_nodeid peer)) then raise EX_UNICODE s
    else
      let s := s <| keepalive_time := N.min (si_keepalive this) (si_keepalive peer) |>
                 <| idle_time := c_idle (cf s) |> in
      let s := idle_reset (ka_reset s) in
      ok (s <| seg_size := N.min (c_seg_init (cf s)) (si_seg_mru peer) |>)
  | _, _ => raise EX_ATTRIBUTE s
  end.

Inductive outcome := Done | Reject (reason : N) | Escaped (kind : N).

Definition REJ_UNKNOWN : N := 1.
Definition REJ_UNSUPPORTED : N := 2.
Definition REJ_UNEXPECTED : N := 3.

(** The body of [recv_message] for a message, before the RejectError funnel. *)
Definition handle_msg (m : msg) (s : ep) : ep * outcome :=
  match m with
  | MSessInit ka smru xmru nodeid ext =>
    let s := if c_passive (cf s) then send_sess_init s else s in
    let s := s <| sessinit_peer := Some (mkSI ka smru xmru nodeid) |> <| in_sess := true |> in
    match merge_session_params s with
    | (s, Some k) => (s, Escaped k)
    | (s, None) => (set_state ST_ESTABLISHED s, Done)
    end
  | MSessTerm flags reason =>
    if negb (in_sess s) then (s, Reject REJ_UNEXPECTED)
    else
      let '(s, exc) := if in_term s then (s, None) else send_sess_term reason true s in
      match exc with
      | Some k => (s, Escaped k)
      | None => (check_sess_term (flush_pend_start s), Done)
      end
  | MKeepalive => (s, Done)
  | MReject _ _ => (s, Done)
  | MXferSeg flags xid ext data =>
    if negb (in_sess s) then (s, Reject REJ_UNEXPECTED)
    else
      let started :=
        if has_start flags then
          Some (emit (ESig SigRecvStarted [PStrNum xid; PDbusStr]) (s <| rx_tmp := Some (xid, []) |>))
        else
          match rx_tmp s with
          | Some (cur, _) => if cur =? xid then Some s else None
          | None => None
          end in
      match started with
      | None => (s, Reject REJ_UNEXPECTED)
      | Some s =>
        let acc := match rx_tmp s with Some (_, acc) => acc ++ data | None => data end in
        let s := s <| rx_tmp := Some (xid, acc) |> in
        let len := N.of_nat (length acc) in
        let s := send_msg (MXferAck flags xid len) s in
        if has_end flags then
          let s := s <| rx_map := dict_set xid acc (rx_map s) |> in
          let s := emit (ESig SigRecvFinished [PStrNum xid; PInt len; PStr RES_SUCCESS]) s in
          (check_sess_term (s <| rx_tmp := None |>), Done)
        else
          (emit (ESig SigRecvInter [PStrNum xid; PInt len]) s, Done)
      end
  | MXferAck flags xid len =>
    if negb (in_sess s) then (s, Reject REJ_UNEXPECTED)
    else
      match dict_get xid (tx_map s) with
      | None => (s, Reject REJ_UNEXPECTED)
      | Some _ =>
        let s := s <| tx_map := dict_set xid len (tx_map s) |> in
        if has_end flags then
          if negb (mem_N xid (pend_ack s)) then (s, Reject REJ_UNEXPECTED)
          else
            let s := emit (ESig SigSendFinished [PStrNum xid; PInt len; PStr RES_SUCCESS]) s in
            let s := s <| pend_ack := remove_N xid (pend_ack s) |> <| tx_map := dict_del xid (tx_map s) |> in
            (check_sess_term s, Done)
        else (emit (ESig SigSendInter [PStrNum xid; PInt len]) s, Done)
      end
  | MXferRefuse reason xid =>
    if negb (in_sess s) then (s, Reject REJ_UNEXPECTED)
    else
      match dict_get xid (tx_map s) with
      | None => (s, Reject REJ_UNEXPECTED)
      | Some ack =>
        let s := s <| tx_map := dict_del xid (tx_map s) |> in
        let s := emit (ESig SigSendFinished [PStrNum xid; PInt ack; PStr (RES_REFUSED reason)]) s in
        let s := s <| pend_ack := remove_N xid (pend_ack s) |>
                   <| pend_start := dict_del xid (pend_start s) |> in
        let s := match tx_tmp s with
                 | Some (cur, _) => if cur =? xid then pq_trigger (s <| tx_tmp := None |> <| tx_len := 0 |>) else s
                 | None => s
                 end in
        (check_sess_term s, Done)
      end
  end.

Definition msg_id (m : msg) : N :=
  match m with
  | MXferSeg _ _ _ _ => 1 | MXferAck _ _ _ => 2 | MXferRefuse _ _ => 3 | MKeepalive => 4
  | MSessTerm _ _ => 5 | MReject _ _ => 6 | MSessInit _ _ _ _ _ => 7
  end.

(** [Messenger.recv_message] *)
Definition recv_frame (f : frame) (s : ep) : res :=
  match f with
  | FContact c =>
    if negb (bytes_eqb (ch_magic c) MAGIC) then ok (do_close s)
    else if negb (ch_version c =? 4) then ok (do_close s)
    else
      let s := if c_passive (cf s)
               then (send_contact_header s) <| conhead_this := Some (contact_flags s) |>
               else s in
      match conhead_this s with
      | None => raise EX_ATTRIBUTE s     (* start() was never called on an active endpoint *)
      | Some _ =>
        let s := s <| conhead_peer := Some (ch_flags c) |> <| in_conn := true |> in
        let s := set_state ST_SESSNEG s in
        (* tls_attempt = False and is_secure() = False *)
        match c_require_tls (cf s) with
        | Some true => ok (do_close s)
        | _ => if c_passive (cf s) then ok s else ok (send_sess_init s)
        end
      end
  | FMsg m =>
    match handle_msg m s with
    | (s, Done) => ok s
    | (s, Reject reason) => ok (send_msg (MReject (msg_id m) reason) s)
    | (s, Escaped k) => raise k s
    end
  end.

(** The loop of [Messenger.recv_raw]. *)
Fixpoint recv_loop (fuel : nat) (s : ep) : res :=
  match fuel with
  | O => ok s
  | S f =>
    if is_nil (rx_buf s) || closed s then ok s
    else
      match parse_frame (in_conn s) (rx_buf s) with
      | None => ok s
      | Some (fr, rest) =>
        match recv_frame fr (s <| rx_buf := rest |> <| handled := handled s ++ [fr] |>) with
        | (s, None) => recv_loop f s
        | (s, Some k) => raise k s
        end
      end
  end.

Definition recv_raw (data : bytes) (s : ep) : res :=
  let s := idle_reset (s <| t_recv := now s |>) in
  let s := s <| rx_buf := rx_buf s ++ data |> in
  recv_loop (S (length (rx_buf s))) s.

Definition escape (r : res) : ep :=
  match r with
  | (s, None) => s
  | (s, Some k) => emit (EExc k) s
  end.

(** ** Transmit pump: [Connection._tx_proxy] *)
Definition tx_proxy (accept : N) (s : ep) : ep * bool :=
  let '(s, up_empty) :=
    if N.of_nat (length (conn_tx s)) <? CHUNK then
      let data := firstn chunk_nat (msg_tx s) in
      let rest := skipn chunk_nat (msg_tx s) in
      let s := send_buffer_decreased (N.of_nat (length rest)) (s <| msg_tx := rest |>) in
      (s <| conn_tx := conn_tx s ++ data |>, is_nil data)
    else (s, false) in
  if is_nil (conn_tx s) then (s, negb up_empty)
  else
    let chunk := firstn chunk_nat (conn_tx s) in
    let n := N.min (N.of_nat (length chunk)) accept in
    if n =? 0 then (do_close s, false)
    else
      let k := N.to_nat n in
      let s := s <| wire := wire s ++ firstn k (conn_tx s) |> <| conn_tx := skipn k (conn_tx s) |> in
      (s, negb (is_nil (conn_tx s)) || negb up_empty).

(** ** The step function *)
Definition step (s : ep) (o : op) : ep :=
  match o with
  | OAdvance dt => s <| now := now s + dt |>
  | _ =>
  if closed s then s else
  match o with
  | OAdvance _ => s
  | OStart =>
    if negb (state s =? ST_CONNECTING) then s
    else
      let s := if c_passive (cf s) then s
               else (send_contact_header s) <| conhead_this := Some (contact_flags s) |> in
      set_state ST_CONTACT s
  | OSend data =>
    (* _add_queue_item refuses new work once terminating (RuntimeError to the caller) *)
    if in_term s then emit (EExc EX_RUNTIME) s
    else
    let id := next_id s in
    let s := s <| next_id := id + 1 |> <| pend_start := pend_start s ++ [(id, data)] |>
               <| tx_map := dict_set id 0 (tx_map s) |> in
    emit (ERet 1 (PStrNum id)) (pq_trigger s)
  | OTerm reason =>
    if negb (in_sess s) then do_close s
    else escape (send_sess_term reason false s)
  | OClose => do_close s
  | OPop id =>
    match dict_get id (rx_map s) with
    | None => emit (EExc EX_KEY) s
    | Some data => emit (EPop id data) (s <| rx_map := dict_del id (rx_map s) |>)
    end
  | OTxPump idle accept =>
    if (if idle then (0 <? n_idle s)%nat else (0 <? n_io s)%nat) then
      let s := s <| pend_set := false |> in
      let '(s, cont) := tx_proxy accept s in
      if cont then s
      else
        let s := s <| io_set := false |> in
        if idle then s <| n_idle := pred (n_idle s) |> else s <| n_io := pred (n_io s) |>
    else s
  | ORx data =>
    if is_nil data || negb (rx_alive s) then s
    else
      match recv_raw data s with
      | (s, None) => s
      | (s, Some k) => emit (EExc k) (s <| rx_alive := false |>)
      end
  | ORxEof => if rx_alive s then do_close s else s
  | OPQ =>
    if (0 <? n_pq s)%nat then
      let '(s, keep) := process_queue s in
      if keep then s else s <| n_pq := pred (n_pq s) |>
    else s
  | OFireKa =>
    match ka_due s with
    | Some due => if due <=? now s then send_msg MKeepalive (s <| ka_due := None |>) else s
    | None => s
    end
  | OFireIdle =>
    match idle_due s with
    | Some due =>
      if due <=? now s then
        let s := s <| idle_due := None |> in
        if in_term s then do_close s else escape (send_sess_term 1 false s)
      else s
    | None => s
    end
  end
  end.

Definition run (c : cfg) (ops : list op) : ep := fold_left step ops (init c).

(** ** Queries (D-Bus methods without side effects) *)
Definition q_tx_queue (s : ep) : list N := map fst (tx_map s).
Definition q_rx_queue (s : ep) : list N := map fst (rx_map s).
Definition q_idle (s : ep) : bool := is_sess_idle s.

(** ** Rendering for the correspondence files *)
Definition render_pyval (v : pyval) : list N :=
  match v with
  | PStr tag => [1; tag]
  | PStrNum n => [2; n]
  | PInt n => [3; n]
  | PDbusStr => [4; 0]
  end.

Definition signum (s : signame) : N :=
  match s with
  | SigState => 1 | SigSendStarted => 2 | SigSendInter => 3 | SigSendFinished => 4
  | SigRecvStarted => 5 | SigRecvInter => 6 | SigRecvFinished => 7
  end.

Definition render_event (e : event) : list (list N) :=
  match e with
  | ESig sg args => [1; signum sg] :: map render_pyval args
  | ERet tag v => [[2; tag]; render_pyval v]
  | EPop id data => [[3; id]; data]
  | EExc k => [[4; k]]
  | EClosed => [[5]]
  end.

Definition bool_N (b : bool) : N := if b then 1 else 0.
Definition opt_N (o : option N) : list N := match o with Some x => [1; x] | None => [0] end.

(** Length and a rolling checksum of a buffer (compared after every operation;
    the octets themselves are compared through the wire and the events). *)
Definition digest (l : bytes) : list N :=
  [N.of_nat (length l); fold_left (fun h b => (h * 31 + b) mod 4294967296) l 7].

(** Everything the harness compares after each operation. *)
Definition render_state (s : ep) : list (list N) :=
  [ [state s; bool_N (in_conn s); bool_N (in_sess s); bool_N (in_term s); bool_N (closed s); bool_N (rx_alive s)];
    digest (rx_buf s); digest (msg_tx s); digest (conn_tx s);
    [N.of_nat (n_io s); N.of_nat (n_idle s); N.of_nat (n_pq s)];
    [seg_size s; keepalive_time s];
    opt_N (ka_due s); opt_N (idle_due s);
    q_tx_queue s; q_rx_queue s;
    map fst (pend_start s); pend_ack s;
    opt_N (match tx_tmp s with Some (i, _) => Some i | None => None end);
    opt_N (match rx_tmp s with Some (i, _) => Some i | None => None end);
    [bool_N (q_idle s)] ].

Definition render_run (s : ep) : list (list (list N)) :=
  [render_state s; [wire s]; concat (map render_event (trace s))].

(** States after every operation, then the wire and the event trace. *)
Fixpoint run_states (s : ep) (ops : list op) : list (list (list N)) * ep :=
  match ops with
  | [] => ([], s)
  | o :: r => let s' := step s o in
              let '(sts, fin) := run_states s' r in (render_state s' :: sts, fin)
  end.

Definition render_full (c : cfg) (ops : list op) : list (list (list N)) :=
  let '(sts, s) := run_states (init c) ops in
  sts ++ [[wire s]; concat (map render_event (trace s))].
