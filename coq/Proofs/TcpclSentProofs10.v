(** TCPCL endpoint model: (2f) segments respect the peer's segment MRU;
    (2g) acknowledgements echo the received segments. *)
From Coq Require Import ZArith NArith List Bool Lia ZifyBool ZifyN ZifyNat Arith.
From RecordUpdate Require Import RecordSet.
From DTN Require Import Lib.Bytes Model.TcpclMsg Model.TcpclSess Proofs.TcpclSessBasics
  Proofs.TcpclSentProofs1 Proofs.TcpclSentProofs2 Proofs.TcpclSentProofs3 Proofs.TcpclSentProofs4
  Proofs.TcpclSentProofs5 Proofs.TcpclSentProofs6 Proofs.TcpclSentProofs7 Proofs.TcpclSentProofs8 Proofs.TcpclSentProofs9.
Import ListNotations RecordSetNotations.
Ltac Zify.zify_post_hook ::= Z.div_mod_to_equations.
Local Open Scope N_scope.


(** * (2f) Segments stay within the peer's segment MRU *)

Definition noseg (f : frame) : Prop := match f with FMsg (MXferSeg _ _ _ _) => False | _ => True end.
Definition segok (mru : N) (f : frame) : Prop :=
  match f with FMsg (MXferSeg _ _ _ data) => N.of_nat (length data) <= mru | _ => True end.

Lemma noseg_segok mru l : Forall noseg l -> Forall (segok mru) l.
Proof. apply Forall_impl. intros [c|[]]; cbn; auto; contradiction. Qed.

Lemma noseg_out_msg m s : Forall noseg (out_msg m s).
Proof.
  destruct m; unfold out_msg, out_term, rej;
    repeat match goal with |- context [if ?c then _ else _] => destruct c
                      | |- context [match ?c with _ => _ end] => destruct c end;
    repeat constructor.
Qed.

Lemma noseg_out_contact c s : Forall noseg (out_contact c s).
Proof.
  unfold out_contact. repeat match goal with |- context [if ?c then _ else _] => destruct c end;
    repeat constructor.
Qed.

Lemma segok_seg_of tmp len sz mru : sz <= mru -> Forall (segok mru) (seg_of tmp len sz).
Proof.
  intros H. unfold seg_of. destruct tmp as [[i d]|]; [|constructor]. cbv zeta.
  destruct ((len =? N.of_nat (length d)) && (0 <? len)); [constructor|].
  constructor; [|constructor]. cbn [segok].
  pose proof (firstn_le_length (N.to_nat sz) (skipn (N.to_nat len) d)). lia.
Qed.

Lemma segok_out_op o s mru : seg_size s <= mru -> Forall (segok mru) (out_op o s).
Proof.
  intros H. destruct o; cbn [out_op]; try constructor.
  - destruct ((state s =? ST_CONNECTING) && negb (c_passive (cf s))); repeat constructor.
  - unfold out_term. destruct (in_sess s && negb (in_term s)); repeat constructor.
  - destruct (0 <? n_pq s)%nat; [|constructor]. unfold out_pq.
    destruct (tx_tmp s); [apply segok_seg_of, H|].
    destruct (in_sess s && negb (in_term s)); [|constructor].
    destruct (pend_start s) as [|[i d] r]; [constructor|apply segok_seg_of, H].
  - destruct (ka_due s) as [due|]; [|constructor]. destruct (due <=? now s); repeat constructor.
  - destruct (idle_due s) as [due|]; [|constructor]. destruct (due <=? now s); [|constructor].
    unfold out_term. destruct (in_sess s && negb (in_term s)); repeat constructor.
Qed.

Lemma noseg_out_op o s : in_sess s = false -> tx_tmp s = None -> Forall noseg (out_op o s).
Proof.
  intros Hs Ht. destruct o; cbn [out_op]; try constructor.
  - destruct ((state s =? ST_CONNECTING) && negb (c_passive (cf s))); repeat constructor.
  - unfold out_term. rewrite Hs. constructor.
  - destruct (0 <? n_pq s)%nat; [|constructor]. unfold out_pq. rewrite Ht, Hs. constructor.
  - destruct (ka_due s) as [due|]; [|constructor]. destruct (due <=? now s); repeat constructor.
  - destruct (idle_due s) as [due|]; [|constructor]. destruct (due <=? now s); [|constructor].
    unfold out_term. rewrite Hs. constructor.
Qed.

Definition MR (s : ep) : Prop :=
  (ninit (handled s) <= 1)%nat ->
  (ninit (handled s) = 0%nat -> sessinit_peer s = None)
  /\ (in_sess s = true -> sessinit_peer s <> None)
  /\ (sessinit_peer s = None -> seg_size s = 0 /\ Forall noseg (sent s))
  /\ (forall p, sessinit_peer s = Some p -> seg_size s <= si_seg_mru p /\ Forall (segok (si_seg_mru p)) (sent s)).

Lemma MR_recv_frame fr s rest : MR s ->
  MR (fst (recv_frame fr (s <| rx_buf := rest |> <| handled := handled s ++ [fr] |>))).
Proof.
  unfold MR. rewrite handled_recv_frame. ep_cbn. rewrite ninit_app. intros H Hn.
  assert (Hn0 : (ninit (handled s) <= 1)%nat) by lia. destruct (H Hn0) as (M1&M2&M3&M4).
  destruct fr as [c|m].
  - rewrite sessinit_peer_recv_contact, in_sess_recv_contact, seg_size_recv_contact, sent_recv_contact. ep_cbn.
    change (ninit [FContact c]) with 0%nat in *. rewrite Nat.add_0_r.
    split; [exact M1|]. split; [exact M2|]. split.
    + intros E. destruct (M3 E). split; [assumption|]. apply Forall_app. split; [assumption|apply noseg_out_contact].
    + intros p E. destruct (M4 p E). split; [assumption|]. apply Forall_app. split; [assumption|].
      apply noseg_segok, noseg_out_contact.
  - rewrite sessinit_peer_recv_msg, in_sess_recv_msg, seg_size_recv_msg, sent_recv_msg. ep_cbn.
    destruct m as [fl xid ext data|fl xid len|r xid| |fl r|a b|ka smru xmru nid ext];
      try (change (ninit [FMsg _]) with 0%nat in *; rewrite Nat.add_0_r, orb_false_r;
           split; [exact M1|]; split; [exact M2|]; split;
           [ intros E; destruct (M3 E); split; [assumption|]; apply Forall_app; split; [assumption|apply noseg_out_msg]
           | intros p E; destruct (M4 p E); split; [assumption|]; apply Forall_app; split; [assumption|];
             apply noseg_segok, noseg_out_msg ]).
    change (ninit [FMsg (MSessInit ka smru xmru nid ext)]) with 1%nat in Hn |- *.
    assert (Hz : ninit (handled s) = 0%nat) by lia. pose proof (M1 Hz) as Ep. destruct (M3 Ep) as [Ez Hs].
    split; [intros; lia|]. split; [intros _; discriminate|]. split; [discriminate|].
    intros p E. inversion E. try subst p. cbn [si_seg_mru]. split.
    + match goal with |- context [init_ok ?a ?b] => destruct (init_ok a b) end;
        [apply N.le_min_r|rewrite Ez; apply N.le_0_l].
    + apply Forall_app. split; apply noseg_segok; [exact Hs|apply noseg_out_msg].
Qed.

Lemma MR_step_o o s : I2 s -> MR s -> closed s = false -> not_rx o = true -> MR (step s o).
Proof.
  intros (_&F2&_) H Hc Ho. unfold MR.
  rewrite (handled_step_o o s Ho), (sessinit_peer_step_o o s Ho), (in_sess_step_o o s Ho),
    (seg_size_step_o o s Ho), (sent_step o s Hc Ho).
  intros Hn. destruct (H Hn) as (M1&M2&M3&M4). split; [exact M1|]. split; [exact M2|]. split.
  - intros E. destruct (M3 E) as [Ez Hs]. split; [exact Ez|]. apply Forall_app. split; [exact Hs|].
    assert (Es : in_sess s = false).
    { destruct (in_sess s) eqn:Es; [|reflexivity]. elim (M2 eq_refl). exact E. }
    apply noseg_out_op; [exact Es|]. destruct (tx_tmp s) eqn:Et; [|reflexivity].
    rewrite F2 in Es; [discriminate|congruence].
  - intros p E. destruct (M4 p E) as [Hle Hs]. split; [exact Hle|]. apply Forall_app. split; [exact Hs|].
    apply segok_out_op, Hle.
Qed.

Definition InvM (s : ep) : Prop := I2 s /\ MR s.

Lemma InvM_step s o : InvM s -> InvM (step s o).
Proof.
  revert s o. apply (step_inv InvM).
  - intros s dt H. exact H.
  - intros s o (H1&H2) Hc Ho. split; [apply I2_step_o; assumption|apply MR_step_o; assumption].
  - intros s fr rest (H1&H2) Hc Hk. split; [apply I2_recv_frame; [exact H1|exact Hk]|apply MR_recv_frame; exact H2].
  - intros s b i t H. exact H.
  - intros s k H. exact H.
Qed.

Lemma InvM_run c ops : InvM (run c ops).
Proof.
  apply (run_invariant InvM); [|intros s o; apply InvM_step].
  split.
  - unfold I2, init. cbn. repeat split; intros; try discriminate; try congruence.
  - intros _. cbn. repeat split; try discriminate; try constructor.
Qed.

(** (2f) If at most one SESS_INIT was handled, every segment sent is within the
    segment MRU it announced. *)
Theorem seg_within_mru c ops : let s := run c ops in
  (length (filter is_initf (handled s)) <= 1)%nat ->
  forall p, sessinit_peer s = Some p ->
  Forall (fun f => match f with FMsg (MXferSeg _ _ _ data) => N.of_nat (length data) <= si_seg_mru p | _ => True end)
         (sent s).
Proof.
  cbv zeta. intros Hn p E. destruct (InvM_run c ops) as (_&H). destruct (H Hn) as (_&_&_&M4).
  exact (proj2 (M4 p E)).
Qed.

(** * (2g) Acknowledgements echo the received segments *)

(** The receiver rule, replayed over the handled frames: state = (a SESS_INIT
    was handled, current transfer id and octets received for it so far). *)
Definition ack_st := (bool * option (N * N))%type.

Definition ack_len (st : ack_st) (fl xid : N) (data : bytes) : option N :=
  if has_start fl then Some (N.of_nat (length data))
  else match snd st with
       | Some (cur, n) => if cur =? xid then Some (n + N.of_nat (length data)) else None
       | None => None
       end.

Definition ack_step (st : ack_st) (f : frame) : ack_st * list msg :=
  match f with
  | FMsg (MSessInit _ _ _ _ _) => ((true, snd st), [])
  | FMsg (MXferSeg fl xid _ data) =>
      if fst st then
        match ack_len st fl xid data with
        | Some L => ((true, if has_end fl then None else Some (xid, L)), [MXferAck fl xid L])
        | None => (st, [])
        end
      else (st, [])
  | _ => (st, [])
  end.

Definition ack_fold (acc : ack_st * list msg) (f : frame) : ack_st * list msg :=
  let '(st', o) := ack_step (fst acc) f in (st', snd acc ++ o).

Definition ack_run (hs : list frame) : ack_st * list msg := fold_left ack_fold hs ((false, None), []).

(** The acknowledgements an endpoint owes for the frames [hs] it has handled. *)
Definition ack_spec (hs : list frame) : list msg := snd (ack_run hs).

Definition is_ackf (f : frame) : bool := match f with FMsg (MXferAck _ _ _) => true | _ => false end.

Lemma ack_run_snoc hs f : ack_run (hs ++ [f]) = ack_fold (ack_run hs) f.
Proof. unfold ack_run. rewrite fold_left_app. reflexivity. Qed.

Definition rx_view (s : ep) : option (N * N) :=
  match rx_tmp s with Some (i, a) => Some (i, N.of_nat (length a)) | None => None end.

Definition AK (s : ep) : Prop :=
  fst (ack_run (handled s)) = (in_sess s, rx_view s)
  /\ filter is_ackf (sent s) = map FMsg (snd (ack_run (handled s))).

Lemma noack_seg_of tmp len sz : filter is_ackf (seg_of tmp len sz) = [].
Proof.
  unfold seg_of. destruct tmp as [[i d]|]; [|reflexivity]. cbv zeta.
  destruct ((len =? N.of_nat (length d)) && (0 <? len)); reflexivity.
Qed.

Lemma noack_out_op o s : filter is_ackf (out_op o s) = [].
Proof.
  destruct o; cbn [out_op]; try reflexivity.
  - destruct ((state s =? ST_CONNECTING) && negb (c_passive (cf s))); reflexivity.
  - unfold out_term. destruct (in_sess s && negb (in_term s)); reflexivity.
  - destruct (0 <? n_pq s)%nat; [|reflexivity]. unfold out_pq.
    destruct (tx_tmp s); [apply noack_seg_of|].
    destruct (in_sess s && negb (in_term s)); [|reflexivity].
    destruct (pend_start s) as [|[i d] r]; [reflexivity|apply noack_seg_of].
  - destruct (ka_due s) as [due|]; [|reflexivity]. destruct (due <=? now s); reflexivity.
  - destruct (idle_due s) as [due|]; [|reflexivity]. destruct (due <=? now s); [|reflexivity].
    unfold out_term. destruct (in_sess s && negb (in_term s)); reflexivity.
Qed.

Lemma noack_out_contact c s : filter is_ackf (out_contact c s) = [].
Proof.
  unfold out_contact. repeat match goal with |- context [if ?c then _ else _] => destruct c end; reflexivity.
Qed.

Lemma AK_step_o o s : AK s -> closed s = false -> not_rx o = true -> AK (step s o).
Proof.
  intros [A1 A2] Hc Ho. unfold AK, rx_view.
  rewrite (handled_step_o o s Ho), (in_sess_step_o o s Ho), (rx_tmp_step_o o s Ho), (sent_step o s Hc Ho).
  split; [exact A1|]. rewrite filter_app, noack_out_op, app_nil_r. exact A2.
Qed.

Lemma AK_recv_frame fr s rest : AK s ->
  AK (fst (recv_frame fr (s <| rx_buf := rest |> <| handled := handled s ++ [fr] |>))).
Proof.
  intros [A1 A2]. unfold AK, rx_view. rewrite handled_recv_frame. ep_cbn. rewrite ack_run_snoc.
  unfold ack_fold. destruct (ack_run (handled s)) as [st acks]. cbn [fst snd] in *. subst st. unfold rx_view.
  destruct fr as [c|m].
  - rewrite in_sess_recv_contact, rx_tmp_recv_contact, sent_recv_contact. ep_cbn. cbn [ack_step fst snd].
    rewrite filter_app, noack_out_contact, !app_nil_r. split; [reflexivity|exact A2].
  - rewrite in_sess_recv_msg, rx_tmp_recv_msg, sent_recv_msg. ep_cbn. rewrite filter_app, A2.
    destruct m as [fl xid ext data|fl xid len|r xid| |fl r|a b|ka smru xmru nid ext];
      cbn [ack_step fst snd is_init orb]; rewrite ?orb_false_r.
    + (* XFER_SEGMENT *)
      unfold out_msg, seg_acc, ack_len, rx_view. cbn [fst snd]. ep_cbn.
      destruct (in_sess s); [|cbn; rewrite ?app_nil_r; split; reflexivity].
      destruct (has_start fl).
      * destruct (has_end fl); cbn; rewrite map_app; split; reflexivity.
      * destruct (rx_tmp s) as [[cur a]|]; [|cbn; rewrite ?app_nil_r; split; reflexivity].
        destruct (cur =? xid); [|cbn; rewrite ?app_nil_r; split; reflexivity].
        destruct (has_end fl); cbn; rewrite ?app_length, ?Nat2N.inj_add, ?map_app; split; reflexivity.
    + unfold out_msg, rej. cbn [fst snd].
      repeat match goal with |- context [if ?c then _ else _] => destruct c
                        | |- context [match ?c with _ => _ end] => destruct c end;
        cbn; rewrite ?app_nil_r; split; reflexivity.
    + unfold out_msg, rej. cbn [fst snd].
      repeat match goal with |- context [if ?c then _ else _] => destruct c
                        | |- context [match ?c with _ => _ end] => destruct c end;
        cbn; rewrite ?app_nil_r; split; reflexivity.
    + cbn. rewrite ?app_nil_r. split; reflexivity.
    + unfold out_msg, out_term, rej. cbn [fst snd].
      repeat match goal with |- context [if ?c then _ else _] => destruct c end;
        cbn; rewrite ?app_nil_r; split; reflexivity.
    + cbn. rewrite ?app_nil_r. split; reflexivity.
    + unfold out_msg. rewrite orb_true_r.
      match goal with |- context [if ?c then _ else _] => destruct c end; cbn; rewrite ?app_nil_r; split; reflexivity.
Qed.

Lemma AK_step s o : AK s -> AK (step s o).
Proof.
  revert s o. apply (step_inv AK).
  - intros s dt H. exact H.
  - intros s o H Hc Ho. apply AK_step_o; assumption.
  - intros s fr rest H Hc Hk. apply AK_recv_frame, H.
  - intros s b i t H. exact H.
  - intros s k H. exact H.
Qed.

(** (2g) Unconditionally (the receive loop stops at close, so nothing is handled
    without being answered): the acknowledgements sent are exactly those owed
    for the handled frames, with the flags octet, the transfer id and the
    cumulative length of each acknowledged segment. *)
Theorem ack_echo c ops : let s := run c ops in
  filter is_ackf (sent s) = map FMsg (ack_spec (handled s)).
Proof.
  cbv zeta. apply (run_invariant AK); [|intros s o; apply AK_step].
  split; reflexivity.
Qed.
