class SSLConnection(object):
    pass


class sslconnection(object):
    PROTOCOL_DTLS = 256
    PROTOCOL_DTLSv1 = 257
    PROTOCOL_DTLSv1_2 = 258
    CERT_REQUIRED = 2


def do_patch():
    pass
