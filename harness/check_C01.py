''' C01 -- TCPCL delivers every queued bundle exactly once, intact and in order. '''
import env  # noqa: F401
import json

import tcpcl_corr as TC
import tcpcl_suite as TS


def large_backpressure(chk, count):
    ''' Messages longer than one stream chunk (10240 octets) under back-pressure: short writes then full writes. '''
    recs = []
    for idx in range(count):
        rng = chk.rng
        runner = TC.Runner(cfg_a=dict(segment_size_tx_initial=102400), cfg_b=dict(segment_size_tx_initial=102400))
        runner.apply(('start', 'A'))
        runner.apply(('start', 'B'))
        TC.drain(runner)
        for _ in range(rng.randrange(1, 3)):
            runner.apply(('send', 'A', ('gen', rng.randrange(1 << 30), rng.choice([10241, 13000, 25000, 30719]))))
        if rng.random() < 0.5:
            runner.apply(('send', 'B', ('gen', rng.randrange(1 << 30), rng.choice([10240, 20481]))))
        for _ in range(400):
            ena = TC.enabled_ops(runner, rng)
            if not ena:
                break
            pick = rng.choice(ena)
            if pick[0] == 'txpump':
                runner.apply(('txpump', pick[1], pick[2], rng.choice([1000, 3000, 7000, 10239, 10240, 1 << 30])))
            elif pick[0] == 'rxpump':
                runner.apply(('rxpump', pick[1], rng.choice([4000, 10240, 1 << 30])))
            else:
                runner.apply(('pq', pick[1]))
        stuck = not TC.enabled_ops(runner, None)
        recs.append(TS.finish(runner, 'large-backpressure', dict(drained=stuck)))
    return recs


def term_midtransfer(chk, count):
    ''' terminate() on either side while a multi-segment transfer is between two of its segments: the transfer in
    progress still reaches the peer (full socket writes, so the recorded C09 finding about a partially written
    buffer is not in play). '''
    recs = []
    for idx in range(count):
        rng = chk.rng
        seg = rng.choice([1, 7, 64])
        runner = TC.Runner(cfg_a=dict(segment_size_tx_initial=seg), cfg_b=dict(segment_size_tx_initial=rng.choice([3, 64])))
        runner.apply(('start', 'A'))
        runner.apply(('start', 'B'))
        TC.drain(runner)
        runner.apply(('send', 'A', ('gen', rng.randrange(1 << 30), seg * rng.choice([4, 9, 40]) + rng.choice([0, 1]))))
        if rng.random() < 0.5:
            runner.apply(('send', 'A', ('gen', rng.randrange(1 << 30), rng.choice([0, 1, 50]))))
        if rng.random() < 0.5:
            runner.apply(('send', 'B', ('gen', rng.randrange(1 << 30), rng.choice([5, 200]))))
        nread = rng.choice([1, 5, 1 << 30])
        for _ in range(rng.randrange(2, 40)):
            ena = TC.enabled_ops(runner, rng)
            if not ena:
                break
            pick = rng.choice(ena)
            if pick[0] == 'txpump':
                runner.apply(('txpump', pick[1], pick[2], 1 << 30))
            elif pick[0] == 'rxpump':
                runner.apply(('rxpump', pick[1], nread))
            else:
                runner.apply(('pq', pick[1]))
        who = ('A', 'B', 'AB')[idx % 3]
        for e in who:
            runner.apply(('term', e, 0))
        TC.drain(runner, accept=1 << 30, nread=nread)
        recs.append(TS.finish(runner, 'term-midtransfer', dict(drained=False, started_complete=True, who=who)))
    return recs


def search(chk):
    ''' More of the expensive schedule classes, oracle only. '''
    recs = large_backpressure(chk, 60) + term_midtransfer(chk, 200)
    for idx in range(200):
        runner = TS.gen_coop(chk.rng, nops=chk.rng.choice([90, 160]), full_io=(idx % 4 == 0))
        TC.drain(runner)
        recs.append(TS.finish(runner, 'coop', dict(drained=True)))
    return recs


def build(chk):
    recs = []
    nruns = 30 if chk.quick() else 400
    for idx in range(nruns):
        runner = TS.gen_coop(chk.rng, nops=chk.rng.choice([40, 90, 160]), full_io=(idx % 4 == 0))
        drained = (idx % 2 == 0)
        if drained:
            TC.drain(runner)
        recs.append(TS.finish(runner, 'coop', dict(drained=drained)))
    # zero-length and one-octet bundles, many segments (always present)
    for (datas, seg) in (([b'', b'x', b''], 3), ([bytes(range(40))], 1), ([b'ab', b'', bytes(range(9))], 4)):
        runner = TC.Runner(cfg_a=dict(segment_size_tx_initial=seg), cfg_b=dict(segment_size_mru=max(seg, 2)))
        runner.apply(('start', 'A'))
        runner.apply(('start', 'B'))
        TC.drain(runner)
        for data in datas:
            runner.apply(('send', 'A', ('lit', data)))
        TC.drain(runner, accept=chk.rng.choice([1, 5, 1 << 30]), nread=chk.rng.choice([1, 4, 1 << 30]))
        recs.append(TS.finish(runner, 'boundary', dict(drained=True)))
    recs += large_backpressure(chk, 3 if chk.quick() else 40)
    recs += term_midtransfer(chk, 12 if chk.quick() else 150)
    return recs


def evaluate(chk, recs):
    for rec in recs:
        nsend = sum(len(rec.queued[e]) for e in 'AB')
        nseg = sum(1 for e in 'AB' for f in TS.decode_stream(rec.wire[e])[0] if f['t'] == 'seg')
        chk.count('bundles_per_run', nsend)
        chk.count('segments_per_run', min(nseg, 50) // 5 * 5)
        for e in 'AB':
            for data in rec.queued[e]:
                chk.count('bundle_length', 0 if not data else 1 if len(data) == 1 else '2-64' if len(data) <= 64 else '65+')
        chk.case(ident=json.dumps(rec.replay_obj(), sort_keys=True), nontrivial=(nsend > 0 and nseg > 0),
                 sample=dict(cfg_a=rec.runner.cfg_a, cfg_b=rec.runner.cfg_b, ops=len(rec.runner.applied),
                             bundles=[len(q) for e in 'AB' for q in rec.queued[e]], segments=nseg))
        for (sig, what) in TS.oracle_c01(rec, quiescent_complete=rec.meta.get('drained', False), started_complete=rec.meta.get('started_complete', False)):
            chk.fail(sig, what, rec.replay_obj())


if __name__ == '__main__':
    TS.run_check('C01', build, evaluate,
                 rule='two real ContactHandler endpoints over fake sockets; random interleavings of both event loops, '
                      'reads/writes of 1,2,3,7,64 or all octets, user sends at random positions, segment sizes 1..102400 and MRUs 1..10MiB; '
                      'half the runs are drained to quiescence by a fair scheduler (then every queued bundle must have arrived); '
                      'fixed boundary runs with zero-length, one-octet and many-segment bundles; terminate() by either or both sides while a multi-segment transfer is in progress (that transfer must still arrive); '
                      'non-trivial = at least one bundle queued and one segment on the wire; distinct by the full op list',
                 search=search)
