(** Proofs about Model/BpAgent.v used by Props/C10.v and Props/C19.v. *)
From Coq Require Import ZArith NArith List Bool Lia ZifyBool ZifyN ZifyNat.
From DTN Require Import Gen.ReportTable Gen.RecvTail Model.BpAgent.
Import ListNotations.
Local Open Scope N_scope.

(** * Identities *)

Lemma frag_eqb_eq x y : frag_eqb x y = true <-> x = y.
Proof.
  destruct x as [[a b]|], y as [[c d]|]; cbn; split; intros H; try discriminate; try reflexivity.
  - apply andb_true_iff in H. destruct H as [H1 H2]. apply N.eqb_eq in H1, H2. subst. reflexivity.
  - inversion H; subst. rewrite !N.eqb_refl. reflexivity.
Qed.

Lemma ident_eqb_eq (i j : ident) : ident_eqb i j = true <-> i = j.
Proof.
  destruct i as [[[s1 t1] q1] f1], j as [[[s2 t2] q2] f2]. cbn. split.
  - intros H. repeat (apply andb_true_iff in H; destruct H as [H ?]).
    apply N.eqb_eq in H. apply N.eqb_eq in H1. apply N.eqb_eq in H2. apply frag_eqb_eq in H0. subst. reflexivity.
  - intros H. inversion H; subst. rewrite !N.eqb_refl. cbn. apply frag_eqb_eq. reflexivity.
Qed.

Lemma ident_eqb_refl i : ident_eqb i i = true.
Proof. apply ident_eqb_eq. reflexivity. Qed.

Lemma seen_existsb_In i l : existsb (ident_eqb i) l = true <-> In i l.
Proof.
  rewrite existsb_exists. split.
  - intros [x [Hx He]]. apply ident_eqb_eq in He. subst. exact Hx.
  - intros H. exists i. split; [exact H | apply ident_eqb_refl].
Qed.

(** * Actions *)

Lemma action_eqb_eq x y : action_eqb x y = true <-> x = y.
Proof. destruct x, y; cbn; split; intros H; try discriminate; reflexivity. Qed.

Lemma mem_In x l : mem x l = true <-> In x l.
Proof.
  unfold mem. rewrite existsb_exists. split.
  - intros [y [Hy He]]. apply action_eqb_eq in He. subst. exact Hy.
  - intros H. exists x. split; [exact H | apply action_eqb_eq; reflexivity].
Qed.

Lemma mem_add x y l : mem x (add y l) = mem x l || action_eqb x y.
Proof.
  unfold add. destruct (mem y l) eqn:E.
  - destruct (action_eqb x y) eqn:F; [|rewrite orb_false_r; reflexivity].
    apply action_eqb_eq in F. subst. rewrite E. reflexivity.
  - unfold mem. rewrite existsb_app. cbn. rewrite orb_false_r. reflexivity.
Qed.

Lemma mem_remove x y l : mem x (remove y l) = mem x l && negb (action_eqb y x).
Proof.
  unfold mem, remove. induction l as [|z l IH]; cbn; [reflexivity|].
  destruct (action_eqb y z) eqn:E; cbn.
  - rewrite IH. apply action_eqb_eq in E. subst.
    destruct (action_eqb x z) eqn:F; cbn; [|reflexivity].
    apply action_eqb_eq in F. subst.
    replace (action_eqb z z) with true by (symmetry; apply action_eqb_eq; reflexivity).
    cbn. rewrite andb_false_r. reflexivity.
  - rewrite IH. destruct (action_eqb x z) eqn:F; cbn; [|reflexivity].
    apply action_eqb_eq in F. subst. rewrite E. reflexivity.
Qed.

(** * State components untouched by the clock *)

Lemma seen_tick a : a_seen (tick a) = a_seen a. Proof. reflexivity. Qed.
Lemma node_tick a : a_node (tick a) = a_node a. Proof. reflexivity. Qed.
Lemma tx_tick a : a_tx (tick a) = a_tx a. Proof. reflexivity. Qed.

Section WithMatch.
  Variable matches : N -> eid -> bool.

  Notation recv_core := (recv_core matches).
  Notation recv := (recv matches).
  Notation run := (run matches).
  Notation finish := (finish matches).
  Notation do_fwd := (do_fwd matches).
  Notation fwd_plan := (fwd_plan matches).
  Notation final := (final matches).
  Notation send_path := (send_path matches).
  Notation route_actions := (route_actions matches).
  Notation rx_lookup := (rx_lookup matches).

  (** ** Events of the building blocks *)

  Definition is_report_ev (e : event) : bool :=
    match e with EvReport _ _ _ => true | EvReportFrags _ _ _ => true | EvSendFail _ true => true | _ => false end.

  Notation send_report_path := (send_report_path matches).

  Lemma finish_shape a sub cur acts rsn :
    (snd (finish a sub cur acts rsn) = [] /\ fst (finish a sub cur acts rsn) = a
       /\ create_report (a_node a) (a_now a, a_tsn a) cur acts rsn = None)
    \/ (exists r, create_report (a_node a) (a_now a, a_tsn a) cur acts rsn = Some r
         /\ fst (finish a sub cur acts rsn) = tick a
         /\ ((exists k, snd (finish a sub cur acts rsn) = [EvReport sub r k]
                        /\ send_report_path a (r_dst r) = SentWhole k)
             \/ (exists k, snd (finish a sub cur acts rsn) = [EvReportFrags sub r k])
             \/ (snd (finish a sub cur acts rsn) = [EvSendFail sub true]
                 /\ forall k, send_report_path a (r_dst r) <> SentWhole k))).
  Proof.
    unfold BpAgent.finish.
    destruct (create_report (a_node a) (a_now a, a_tsn a) cur acts rsn) as [r|]; [right|left; auto].
    exists r. split; [reflexivity|].
    assert (E : send_report_path (tick a) (r_dst r) = send_report_path a (r_dst r)) by reflexivity.
    rewrite E.
    destruct (send_report_path a (r_dst r)) as [k|k [|]|]; cbn; split; eauto.
    - right; right. split; [reflexivity|]. discriminate.
    - right; right. split; [reflexivity|]. discriminate.
  Qed.

  Ltac finish_cases a sub cur acts rsn H :=
    destruct (finish_shape a sub cur acts rsn) as [[H _]|[?r [?Hc [_ [[?k [H _]]|[[?k H]|[H _]]]]]]].

  Lemma finish_seen a sub cur acts rsn : a_seen (fst (finish a sub cur acts rsn)) = a_seen a.
  Proof.
    destruct (finish_shape a sub cur acts rsn) as [[_ [H _]]|[r [_ [H _]]]]; rewrite H; reflexivity.
  Qed.

  Lemma finish_node a sub cur acts rsn : a_node (fst (finish a sub cur acts rsn)) = a_node a.
  Proof.
    destruct (finish_shape a sub cur acts rsn) as [[_ [H _]]|[r [_ [H _]]]]; rewrite H; reflexivity.
  Qed.

  Lemma finish_tx a sub cur acts rsn : a_tx (fst (finish a sub cur acts rsn)) = a_tx a.
  Proof.
    destruct (finish_shape a sub cur acts rsn) as [[_ [H _]]|[r [_ [H _]]]]; rewrite H; reflexivity.
  Qed.

  Lemma finish_no_deliver a sub cur acts rsn : has_deliver (snd (finish a sub cur acts rsn)) = false.
  Proof. finish_cases a sub cur acts rsn H; rewrite H; reflexivity. Qed.

  Lemma finish_no_tx a sub cur acts rsn : has_tx (snd (finish a sub cur acts rsn)) = false.
  Proof. finish_cases a sub cur acts rsn H; rewrite H; reflexivity. Qed.

  Lemma finish_report a sub cur acts rsn sub' r k :
    In (EvReport sub' r k) (snd (finish a sub cur acts rsn)) \/ In (EvReportFrags sub' r k) (snd (finish a sub cur acts rsn)) ->
    sub' = sub /\ create_report (a_node a) (a_now a, a_tsn a) cur acts rsn = Some r.
  Proof.
    finish_cases a sub cur acts rsn H; rewrite H; cbn.
    - intros [[]|[]].
    - intros [[E|[]]|[E|[]]]; inversion E; subst; auto.
    - intros [[E|[]]|[E|[]]]; inversion E; subst; auto.
    - intros [[E|[]]|[E|[]]]; discriminate.
  Qed.

  Lemma finish_report_route a sub cur acts rsn sub' r k :
    In (EvReport sub' r k) (snd (finish a sub cur acts rsn)) -> send_report_path a (r_dst r) = SentWhole k.
  Proof.
    destruct (finish_shape a sub cur acts rsn) as [[H _]|[r0 [Hc [_ [[k0 [H Hs]]|[[k0 H]|[H _]]]]]]]; rewrite H; cbn.
    - intros [].
    - intros [E|[]]. inversion E; subst. exact Hs.
    - intros [E|[]]. discriminate.
    - intros [E|[]]. discriminate.
  Qed.

  Lemma finish_subject a sub cur acts rsn e :
    In e (snd (finish a sub cur acts rsn)) -> ev_subject e = sub.
  Proof.
    finish_cases a sub cur acts rsn H; rewrite H; cbn.
    - intros [].
    - intros [E|[]]; subst; reflexivity.
    - intros [E|[]]; subst; reflexivity.
    - intros [E|[]]; subst; reflexivity.
  Qed.

  Lemma has_deliver_app x y : has_deliver (x ++ y) = has_deliver x || has_deliver y.
  Proof. apply existsb_app. Qed.
  Lemma has_tx_app x y : has_tx (x ++ y) = has_tx x || has_tx y.
  Proof. apply existsb_app. Qed.

  (** ** The forwarding plan *)

  Definition tx_ok (a : agent) (b : bundle) : bool :=
    match send_path a (b_dst b) (b_size b) (has_flag (b_flags b) FLAG_NO_FRAGMENT) (is_frag b) (b_fragfeas b) with
    | SentWhole _ => true
    | SentFrags _ cl => cl
    | SendRaise => false
    end.

  (** Projections of the plan. *)
  Definition plan_agent (p : agent * bundle * list action * option N * list event) := fst (fst (fst (fst p))).
  Definition plan_cur (p : agent * bundle * list action * option N * list event) := snd (fst (fst (fst p))).
  Definition plan_acts (p : agent * bundle * list action * option N * list event) := snd (fst (fst p)).
  Definition plan_reason (p : agent * bundle * list action * option N * list event) := snd (fst p).
  Definition plan_pre (p : agent * bundle * list action * option N * list event) := snd p.

  Lemma send_path_tx a a' dst size nf fr c : a_tx a' = a_tx a -> send_path a' dst size nf fr c = send_path a dst size nf fr c.
  Proof. intros H. unfold BpAgent.send_path. rewrite H. reflexivity. Qed.

  (** Everything [fwd_plan] can do, in one statement. *)
  Lemma fwd_plan_spec a b acts rsn :
    let p := fwd_plan a b acts rsn in
    a_seen (plan_agent p) = a_seen a /\ a_node (plan_agent p) = a_node a /\ a_tx (plan_agent p) = a_tx a
    /\ a_reasm (plan_agent p) = a_reasm a
    /\ b_src (plan_cur p) = b_src b /\ b_rpt (plan_cur p) = b_rpt b /\ b_flags (plan_cur p) = b_flags b
    /\ (b_time b <> 0 -> plan_cur p = b)
    /\ has_deliver (plan_pre p) = false
    /\ (forall e, In e (plan_pre p) -> ev_subject e = b)
    /\ (forall e, In e (plan_pre p) -> is_report_ev e = false)
    /\ has_tx (plan_pre p) = negb (prep_fails b) && tx_ok a b
    /\ ( (* send_bundle returned: 'forward' recorded *)
         (prep_fails b = false /\ plan_acts p = add AFwd acts /\ plan_reason p = rsn
            /\ (tx_ok a b = true
                \/ exists k, send_path a (b_dst b) (b_size b) (has_flag (b_flags b) FLAG_NO_FRAGMENT) (is_frag b) (b_fragfeas b)
                             = SentFrags k false))
         \/ (* an exception: 'forward' withdrawn, 'delete' / NO_ROUTE recorded, nothing reached a CL *)
         (plan_acts p = add ADel (remove AFwd acts) /\ plan_reason p = Some fwd_fail_reason /\ has_tx (plan_pre p) = false) ).
  Proof.
    unfold BpAgent.fwd_plan, prep_fails, plan_agent, plan_cur, plan_acts, plan_reason, plan_pre, tx_ok.
    destruct (b_prep b =? 1) eqn:P1; cbn [fst snd orb negb andb].
    { repeat split; auto; try (intros; contradiction). }
    destruct (b_time b =? 0) eqn:T0; cbn [negb andb].
    - (* creation time zero: no age block, timestamp rewritten *)
      set (b' := set_ts b (a_now a) (a_tsn a)).
      assert (Hsp : send_path (tick a) (b_dst b') (b_size b') (has_flag (b_flags b') FLAG_NO_FRAGMENT) (is_frag b') (b_fragfeas b')
                    = send_path a (b_dst b) (b_size b) (has_flag (b_flags b) FLAG_NO_FRAGMENT) (is_frag b) (b_fragfeas b))
        by (apply send_path_tx; reflexivity).
      rewrite Hsp.
      destruct (send_path a (b_dst b) (b_size b) (has_flag (b_flags b) FLAG_NO_FRAGMENT) (is_frag b) (b_fragfeas b)) as [k|k [|]|] eqn:S;
        cbn [fst snd]; (repeat split; auto;
          first [ (intros H; apply N.eqb_eq in T0; contradiction)
                | (intros e [E|[]]; subst; reflexivity)
                | (left; repeat split; auto; left; reflexivity)
                | (left; repeat split; auto; right; eexists; reflexivity)
                | (right; repeat split; auto) ]).
    - (* creation time known: bundle age block added *)
      destruct (b_prep b =? 2) eqn:P2; cbn [fst snd].
      { repeat split; auto; try (intros; contradiction). }
      assert (Hsp : send_path (tick a) (b_dst b) (b_size b) (has_flag (b_flags b) FLAG_NO_FRAGMENT) (is_frag b) (b_fragfeas b)
                    = send_path a (b_dst b) (b_size b) (has_flag (b_flags b) FLAG_NO_FRAGMENT) (is_frag b) (b_fragfeas b))
        by (apply send_path_tx; reflexivity).
      rewrite Hsp.
      destruct (send_path a (b_dst b) (b_size b) (has_flag (b_flags b) FLAG_NO_FRAGMENT) (is_frag b) (b_fragfeas b)) as [k|k [|]|] eqn:S;
        cbn [fst snd]; (repeat split; auto;
          first [ (intros e [E|[]]; subst; reflexivity)
                | (left; repeat split; auto; left; reflexivity)
                | (left; repeat split; auto; right; eexists; reflexivity)
                | (right; repeat split; auto) ]).
  Qed.

  Lemma fwd_plan_has_tx a b acts rsn :
    has_tx (plan_pre (fwd_plan a b acts rsn)) = negb (prep_fails b) && tx_ok a b.
  Proof.
    destruct (fwd_plan_spec a b acts rsn) as (_ & _ & _ & _ & _ & _ & _ & _ & _ & _ & _ & H & _). exact H.
  Qed.

  Lemma do_fwd_eq a b acts rsn :
    do_fwd a b acts rsn =
    (fst (finish (plan_agent (fwd_plan a b acts rsn)) b (plan_cur (fwd_plan a b acts rsn))
                 (plan_acts (fwd_plan a b acts rsn)) (plan_reason (fwd_plan a b acts rsn))),
     plan_pre (fwd_plan a b acts rsn)
       ++ snd (finish (plan_agent (fwd_plan a b acts rsn)) b (plan_cur (fwd_plan a b acts rsn))
                      (plan_acts (fwd_plan a b acts rsn)) (plan_reason (fwd_plan a b acts rsn)))).
  Proof.
    unfold BpAgent.do_fwd, plan_agent, plan_cur, plan_acts, plan_reason, plan_pre.
    destruct (fwd_plan a b acts rsn) as [[[[a2 cur] acts'] rsn'] pre]. cbn [fst snd].
    destruct (finish a2 b cur acts' rsn'). reflexivity.
  Qed.

  Lemma do_fwd_seen a b acts rsn : a_seen (fst (do_fwd a b acts rsn)) = a_seen a.
  Proof.
    rewrite do_fwd_eq. cbn [fst]. rewrite finish_seen.
    destruct (fwd_plan_spec a b acts rsn) as (H & _). exact H.
  Qed.

  Lemma do_fwd_node a b acts rsn : a_node (fst (do_fwd a b acts rsn)) = a_node a.
  Proof.
    rewrite do_fwd_eq. cbn [fst]. rewrite finish_node.
    destruct (fwd_plan_spec a b acts rsn) as (_ & H & _). exact H.
  Qed.

  Lemma do_fwd_no_deliver a b acts rsn : has_deliver (snd (do_fwd a b acts rsn)) = false.
  Proof.
    rewrite do_fwd_eq. cbn [snd]. rewrite has_deliver_app, finish_no_deliver.
    destruct (fwd_plan_spec a b acts rsn) as (_ & _ & _ & _ & _ & _ & _ & _ & H & _). rewrite H. reflexivity.
  Qed.

  Lemma do_fwd_has_tx a b acts rsn : has_tx (snd (do_fwd a b acts rsn)) = negb (prep_fails b) && tx_ok a b.
  Proof.
    rewrite do_fwd_eq. cbn [snd]. rewrite has_tx_app, finish_no_tx, orb_false_r. apply fwd_plan_has_tx.
  Qed.

  Lemma do_fwd_subject a b acts rsn e : In e (snd (do_fwd a b acts rsn)) -> ev_subject e = b.
  Proof.
    rewrite do_fwd_eq. cbn [snd]. intros H. apply in_app_or in H. destruct H as [H|H].
    - destruct (fwd_plan_spec a b acts rsn) as (_ & _ & _ & _ & _ & _ & _ & _ & _ & Hs & _). apply Hs. exact H.
    - eapply finish_subject. exact H.
  Qed.

  Lemma tx_ok_tx a a' b : a_tx a' = a_tx a -> tx_ok a' b = tx_ok a b.
  Proof. intros H. unfold tx_ok. rewrite (send_path_tx a a') by exact H. reflexivity. Qed.

  (** ** [final] *)

  Lemma final_eq a b acts rsn c :
    final a b acts rsn c =
    if mem ADel acts then
      (fst (finish a b b acts rsn), (if c then [EvDeliver b] else []) ++ snd (finish a b b acts rsn))
    else
      let a1 := if mem ADlv acts then fst (finish a b b acts rsn) else a in
      let ev1 := if mem ADlv acts then snd (finish a b b acts rsn) else [] in
      let a2 := if mem AFwd acts then fst (do_fwd a1 b acts rsn) else a1 in
      let ev2 := if mem AFwd acts then snd (do_fwd a1 b acts rsn) else [] in
      (a2, (if c then [EvDeliver b] else []) ++ ev1 ++ ev2).
  Proof.
    (* [tail_delete_returns] comes from the source: the delete branch of recv_bundle returns *)
    unfold BpAgent.final, Gen.RecvTail.tail_delete_returns. destruct (mem ADel acts); cbn [andb].
    - destruct (finish a b b acts rsn). reflexivity.
    - cbn [app]. destruct (mem ADlv acts).
      + destruct (finish a b b acts rsn) as [a1 ev1]. cbn [fst snd].
        destruct (mem AFwd acts); [destruct (do_fwd a1 b acts rsn)|]; reflexivity.
      + cbn [fst snd]. destruct (mem AFwd acts); [destruct (do_fwd a b acts rsn)|]; reflexivity.
  Qed.

  Lemma final_seen a b acts rsn c : a_seen (fst (final a b acts rsn c)) = a_seen a.
  Proof.
    rewrite final_eq. destruct (mem ADel acts); cbn [fst].
    - apply finish_seen.
    - destruct (mem ADlv acts), (mem AFwd acts); cbn [fst]; rewrite ?do_fwd_seen, ?finish_seen; reflexivity.
  Qed.

  Lemma final_has_deliver a b acts rsn c : has_deliver (snd (final a b acts rsn c)) = c.
  Proof.
    rewrite final_eq. destruct (mem ADel acts); cbn [snd].
    - rewrite has_deliver_app, finish_no_deliver. destruct c; reflexivity.
    - rewrite !has_deliver_app.
      destruct (mem ADlv acts), (mem AFwd acts); rewrite ?do_fwd_no_deliver, ?finish_no_deliver; destruct c; reflexivity.
  Qed.

  Lemma final_has_tx a b acts rsn c :
    has_tx (snd (final a b acts rsn c)) = negb (mem ADel acts) && mem AFwd acts && negb (prep_fails b) && tx_ok a b.
  Proof.
    rewrite final_eq. destruct (mem ADel acts); cbn [snd negb andb].
    - rewrite has_tx_app, finish_no_tx. destruct c; reflexivity.
    - rewrite !has_tx_app.
      assert (H0 : has_tx (if c then [EvDeliver b] else []) = false) by (destruct c; reflexivity).
      rewrite H0. cbn [orb].
      destruct (mem ADlv acts), (mem AFwd acts); cbn [andb]; rewrite ?finish_no_tx; cbn [orb];
        rewrite ?do_fwd_has_tx; try reflexivity.
      rewrite (tx_ok_tx a); [reflexivity|].
      destruct (finish_shape a b b acts rsn) as [[_ [H _]]|[r [_ [H _]]]]; rewrite H; reflexivity.
  Qed.

  Lemma final_subject a b acts rsn c e : In e (snd (final a b acts rsn c)) -> ev_subject e = b.
  Proof.
    rewrite final_eq. destruct (mem ADel acts); cbn [snd]; intros H.
    - apply in_app_or in H. destruct H as [H|H].
      + destruct c; [destruct H as [H|[]]; subst; reflexivity | destruct H].
      + eapply finish_subject; exact H.
    - apply in_app_or in H. destruct H as [H|H].
      + destruct c; [destruct H as [H|[]]; subst; reflexivity | destruct H].
      + apply in_app_or in H. destruct H as [H|H].
        * destruct (mem ADlv acts); [eapply finish_subject; exact H | destruct H].
        * destruct (mem AFwd acts); [eapply do_fwd_subject; exact H | destruct H].
  Qed.

  (** Where a report in the events of [final] comes from. *)
  Definition report_in (r : report) (evs : list event) : Prop :=
    exists s k, In (EvReport s r k) evs \/ In (EvReportFrags s r k) evs.

  Lemma report_in_app r x y : report_in r (x ++ y) <-> report_in r x \/ report_in r y.
  Proof.
    unfold report_in. split.
    - intros (s & k & [H|H]); apply in_app_or in H; destruct H as [H|H]; [left|right|left|right]; exists s, k; auto.
    - intros [(s & k & [H|H])|(s & k & [H|H])]; exists s, k; [left|right|left|right]; apply in_or_app; auto.
  Qed.

  Lemma finish_report_in a sub cur acts rsn r :
    report_in r (snd (finish a sub cur acts rsn)) -> create_report (a_node a) (a_now a, a_tsn a) cur acts rsn = Some r.
  Proof. intros (s & k & H). apply finish_report in H. apply H. Qed.

  Lemma final_report a b acts rsn c r :
    report_in r (snd (final a b acts rsn c)) ->
    exists ts cur acts' rsn',
      create_report (a_node a) ts cur acts' rsn' = Some r
      /\ b_src cur = b_src b /\ b_rpt cur = b_rpt b /\ b_flags cur = b_flags b /\ (b_time b <> 0 -> cur = b)
      /\ ( (cur = b /\ acts' = acts /\ rsn' = rsn /\ (mem ADel acts = true \/ mem ADlv acts = true))
           \/ (mem ADel acts = false /\ mem AFwd acts = true /\ acts' = add AFwd acts /\ rsn' = rsn
                 /\ prep_fails b = false
                 /\ (has_tx (snd (final a b acts rsn c)) = true
                     \/ exists k, send_path a (b_dst b) (b_size b) (has_flag (b_flags b) FLAG_NO_FRAGMENT) (is_frag b) (b_fragfeas b)
                                  = SentFrags k false))
           \/ (mem ADel acts = false /\ mem AFwd acts = true /\ acts' = add ADel (remove AFwd acts) /\ rsn' = Some fwd_fail_reason
                 /\ has_tx (snd (final a b acts rsn c)) = false) ).
  Proof.
    intros H. pose proof (final_has_tx a b acts rsn c) as Htxall.
    remember (has_tx (snd (final a b acts rsn c))) as htx eqn:Eh. clear Eh. revert H.
    rewrite final_eq. destruct (mem ADel acts) eqn:Hdel; cbn [snd]; intros H.
    - apply report_in_app in H. destruct H as [H|H].
      { destruct H as (s & k & [H|H]); destruct c; cbn in H; try contradiction; destruct H as [H|[]]; discriminate. }
      apply finish_report_in in H.
      exists (a_now a, a_tsn a), b, acts, rsn. repeat (split; [auto; fail|]). left. auto.
    - apply report_in_app in H. destruct H as [H|H].
      { destruct H as (s & k & [H|H]); destruct c; cbn in H; try contradiction; destruct H as [H|[]]; discriminate. }
      apply report_in_app in H. destruct H as [H|H].
      + destruct (mem ADlv acts) eqn:Hdlv; [|destruct H as (s & k & [[]|[]])].
        apply finish_report_in in H.
        exists (a_now a, a_tsn a), b, acts, rsn. repeat (split; [auto; fail|]). left. auto.
      + destruct (mem AFwd acts) eqn:Hfwd; [|destruct H as (s & k & [[]|[]])].
        set (a1 := if mem ADlv acts then fst (finish a b b acts rsn) else a) in *.
        assert (Hn : a_node a1 = a_node a) by (subst a1; destruct (mem ADlv acts); [apply finish_node|reflexivity]).
        assert (Ht : a_tx a1 = a_tx a) by (subst a1; destruct (mem ADlv acts); [apply finish_tx|reflexivity]).
        pose proof (do_fwd_eq a1 b acts rsn) as Hd.
        pose proof (fwd_plan_spec a1 b acts rsn) as Hs. cbv zeta in Hs.
        destruct Hs as (_ & Hnode & _ & _ & Hsrc & Hrpt & Hfl & Htime & _ & _ & Hnr & Hptx & Hcase).
        rewrite Hd in H. cbn [snd] in H. apply report_in_app in H. destruct H as [H|H].
        { exfalso. destruct H as (s & k & [H|H]); apply Hnr in H; discriminate. }
        apply finish_report_in in H. rewrite Hnode, Hn in H.
        eexists _, (plan_cur (fwd_plan a1 b acts rsn)), (plan_acts (fwd_plan a1 b acts rsn)), (plan_reason (fwd_plan a1 b acts rsn)).
        split; [exact H|]. repeat (split; [assumption|]).
        destruct Hcase as [(Hp & Ha & Hr & Hok)|(Ha & Hr & Hx)].
        * right; left. repeat (split; [auto; fail|]).
          destruct Hok as [Hok|(k0 & Hok)].
          -- left. rewrite Htxall. cbn [negb andb]. rewrite Hp. cbn [negb andb].
             rewrite <- (tx_ok_tx a a1 b Ht). exact Hok.
          -- right. exists k0. rewrite <- (send_path_tx a a1) by exact Ht. exact Hok.
        * right; right. repeat split; auto.
          rewrite Htxall. cbn [negb andb]. rewrite <- (tx_ok_tx a a1 b Ht), <- Hptx. exact Hx.
  Qed.

  (** ** One call of [recv_bundle] *)

  Lemma recv_core_rejected a b : accepted a b = false -> recv_core a b = (a, [], None).
  Proof. intros H. unfold BpAgent.recv_core. rewrite H. reflexivity. Qed.

  Definition seen_add (a : agent) (b : bundle) : agent := set_seen a (a_seen a ++ [ident_of b]).

  (** The action record when the RX chain has run to its end (no reassembly). *)
  Definition chain_acts (a : agent) (b : bundle) : list action :=
    app_step a b (fst (sec_step b (route_actions a b))).

  Lemma recv_core_accepted a b :
    accepted a b = true ->
    recv_core a b =
    if mem ADlv (route_actions a b) && is_frag b then
      match snd (reasm_step (a_reasm a) b) with
      | RPending => (set_reasm (seen_add a b) (fst (reasm_step (a_reasm a) b)), [], None)
      | RDone rb => (set_reasm (seen_add a b) (fst (reasm_step (a_reasm a) b)), [], Some rb)
      | RGlitch =>
        (fst (final (set_reasm (seen_add a b) (fst (reasm_step (a_reasm a) b))) b (route_actions a b) None false),
         snd (final (set_reasm (seen_add a b) (fst (reasm_step (a_reasm a) b))) b (route_actions a b) None false),
         None)
      end
    else
      (fst (final (seen_add a b) b (chain_acts a b) (snd (sec_step b (route_actions a b)))
                  (mem ADlv (fst (sec_step b (route_actions a b))))),
       snd (final (seen_add a b) b (chain_acts a b) (snd (sec_step b (route_actions a b)))
                  (mem ADlv (fst (sec_step b (route_actions a b))))),
       None).
  Proof.
    intros H. unfold BpAgent.recv_core. rewrite H. cbn [negb].
    change (BpAgent.route_actions matches (set_seen a (a_seen a ++ [ident_of b])) b) with (route_actions a b).
    change (a_reasm (set_seen a (a_seen a ++ [ident_of b]))) with (a_reasm a).
    change (app_step (set_seen a (a_seen a ++ [ident_of b])) b) with (app_step a b).
    fold (chain_acts a b).
    fold (seen_add a b).
    destruct (mem ADlv (route_actions a b) && is_frag b).
    - destruct (reasm_step (a_reasm a) b) as [rs res]. cbn [fst snd].
      destruct res; try reflexivity.
      destruct (final (set_reasm (seen_add a b) rs) b (route_actions a b) None false). reflexivity.
    - destruct (final (seen_add a b) b (chain_acts a b) (snd (sec_step b (route_actions a b)))
                      (mem ADlv (fst (sec_step b (route_actions a b))))). reflexivity.
  Qed.

  Lemma recv_core_seen a b :
    a_seen (fst (fst (recv_core a b))) = if accepted a b then a_seen a ++ [ident_of b] else a_seen a.
  Proof.
    destruct (accepted a b) eqn:H.
    - rewrite recv_core_accepted by exact H.
      destruct (mem ADlv (route_actions a b) && is_frag b).
      + destruct (snd (reasm_step (a_reasm a) b)); cbn [fst]; try reflexivity.
        rewrite final_seen. reflexivity.
      + cbn [fst]. rewrite final_seen. reflexivity.
    - rewrite recv_core_rejected by exact H. reflexivity.
  Qed.

  Lemma recv_core_silent a b : accepted a b = false -> snd (fst (recv_core a b)) = [] /\ snd (recv_core a b) = None /\ fst (fst (recv_core a b)) = a.
  Proof. intros H. rewrite recv_core_rejected by exact H. auto. Qed.

  Lemma recv_core_reinject_silent a b rb : snd (recv_core a b) = Some rb -> snd (fst (recv_core a b)) = [].
  Proof.
    destruct (accepted a b) eqn:H.
    - rewrite recv_core_accepted by exact H.
      destruct (mem ADlv (route_actions a b) && is_frag b).
      + destruct (snd (reasm_step (a_reasm a) b)); cbn [fst snd]; intros E; try discriminate; reflexivity.
      + cbn [snd]. discriminate.
    - rewrite recv_core_rejected by exact H. reflexivity.
  Qed.

  Lemma recv_core_subject a b e : In e (snd (fst (recv_core a b))) -> ev_subject e = b.
  Proof.
    destruct (accepted a b) eqn:H.
    - rewrite recv_core_accepted by exact H.
      destruct (mem ADlv (route_actions a b) && is_frag b).
      + destruct (snd (reasm_step (a_reasm a) b)); cbn [fst snd]; try (intros []).
        apply final_subject.
      + cbn [fst snd]. apply final_subject.
    - rewrite recv_core_rejected by exact H. intros [].
  Qed.

  Lemma seen_mono a b i : In i (a_seen a) -> In i (a_seen (fst (fst (recv_core a b)))).
  Proof.
    intros H. rewrite recv_core_seen. destruct (accepted a b); [apply in_or_app; left|]; exact H.
  Qed.

  Lemma accepted_not_seen a b : In (ident_of b) (a_seen a) -> accepted a b = false.
  Proof.
    intros H. unfold accepted. apply seen_existsb_In in H. rewrite H. cbn. rewrite andb_false_r. reflexivity.
  Qed.

  (** ** At most once *)

  Definition nonsilent (p : proc) : bool := negb (match snd p with [] => true | _ => false end).

  Lemma acts_on_app i x y : acts_on i (x ++ y) = acts_on i x ++ acts_on i y.
  Proof. unfold acts_on. apply filter_app. Qed.

  (** The state after [recv] and its processings, spelled out. *)
  Lemma recv_eq a b :
    recv a b =
    match snd (recv_core a b) with
    | None => (fst (fst (recv_core a b)), [(b, snd (fst (recv_core a b)))])
    | Some rb =>
      (fst (fst (recv_core (fst (fst (recv_core a b))) rb)),
       [(b, snd (fst (recv_core a b))); (rb, snd (fst (recv_core (fst (fst (recv_core a b))) rb)))])
    end.
  Proof.
    unfold BpAgent.recv. destruct (recv_core a b) as [[a1 ev1] re]. cbn [fst snd].
    destruct re as [rb|]; [|reflexivity].
    destruct (recv_core a1 rb) as [[a2 ev2] re2]. reflexivity.
  Qed.

  Lemma recv_seen_mono a b i : In i (a_seen a) -> In i (a_seen (fst (recv a b))).
  Proof.
    intros H. rewrite recv_eq. destruct (snd (recv_core a b)); cbn [fst].
    - apply seen_mono. apply seen_mono. exact H.
    - apply seen_mono. exact H.
  Qed.

  (** A processing with events is of an accepted bundle, whose identity is in the seen list afterwards. *)
  Lemma recv_core_acted a b :
    snd (fst (recv_core a b)) <> [] -> ~ In (ident_of b) (a_seen a) /\ In (ident_of b) (a_seen (fst (fst (recv_core a b)))).
  Proof.
    intros H. destruct (accepted a b) eqn:Hacc.
    - split.
      + intros Hin. apply accepted_not_seen in Hin. congruence.
      + rewrite recv_core_seen, Hacc. apply in_or_app. right. left. reflexivity.
    - exfalso. apply H. apply recv_core_silent. exact Hacc.
  Qed.

  Lemma recv_seen_silent a b i : In i (a_seen a) -> acts_on i (snd (recv a b)) = [].
  Proof.
    intros Hin. rewrite recv_eq.
    assert (S1 : forall a' b', In i (a_seen a') -> ident_eqb (ident_of b') i = true -> snd (fst (recv_core a' b')) = []).
    { intros a' b' Hi He. apply ident_eqb_eq in He. subst i.
      apply recv_core_silent. apply accepted_not_seen. exact Hi. }
    assert (S2 : forall a' b', In i (a_seen a') ->
               ident_eqb (ident_of b') i && negb (match snd (fst (recv_core a' b')) with [] => true | _ => false end) = false).
    { intros a' b' Hi. destruct (ident_eqb (ident_of b') i) eqn:E; [|reflexivity].
      rewrite (S1 a' b' Hi E). reflexivity. }
    destruct (snd (recv_core a b)) as [rb|]; unfold acts_on; cbn [filter fst snd].
    - rewrite (S2 a b Hin). rewrite (S2 _ rb (seen_mono a b i Hin)). reflexivity.
    - rewrite (S2 a b Hin). reflexivity.
  Qed.

  Lemma run_seen_silent hist : forall a i, In i (a_seen a) -> acts_on i (snd (run a hist)) = [].
  Proof.
    induction hist as [|b t IH]; intros a i Hin; cbn [BpAgent.run]; [reflexivity|].
    destruct (recv a b) as [a1 p1] eqn:E1. destruct (run a1 t) as [a2 p2] eqn:E2. cbn [snd].
    rewrite acts_on_app.
    replace p1 with (snd (recv a b)) by (rewrite E1; reflexivity).
    rewrite (recv_seen_silent a b i Hin). cbn [app].
    replace p2 with (snd (run a1 t)) by (rewrite E2; reflexivity).
    apply IH. replace a1 with (fst (recv a b)) by (rewrite E1; reflexivity). apply recv_seen_mono. exact Hin.
  Qed.

  (** One [recv] acts on an identity at most once, and then that identity is in the seen list. *)
  Lemma recv_once a b i :
    (length (acts_on i (snd (recv a b))) <= 1)%nat
    /\ (acts_on i (snd (recv a b)) <> [] -> In i (a_seen (fst (recv a b)))).
  Proof.
    rewrite recv_eq. destruct (snd (recv_core a b)) as [rb|] eqn:Hre; cbn [snd fst].
    - pose proof (recv_core_reinject_silent a b rb Hre) as Hs. rewrite Hs.
      unfold acts_on. cbn [filter fst snd]. rewrite andb_false_r.
      destruct (ident_eqb (ident_of rb) i) eqn:E2; cbn [andb].
      + destruct (snd (fst (recv_core (fst (fst (recv_core a b))) rb))) as [|e l] eqn:Hev; cbn [negb length].
        * split; [lia|intros H; exfalso; apply H; reflexivity].
        * split; [cbn; lia|]. intros _. apply ident_eqb_eq in E2. subst i.
          apply recv_core_acted. rewrite Hev. discriminate.
      + split; [cbn; lia|intros H; exfalso; apply H; reflexivity].
    - unfold acts_on. cbn [filter fst snd].
      destruct (ident_eqb (ident_of b) i) eqn:E1; cbn [andb].
      + destruct (snd (fst (recv_core a b))) as [|e l] eqn:Hev; cbn [negb length].
        * split; [lia|intros H; exfalso; apply H; reflexivity].
        * split; [cbn; lia|]. intros _. apply ident_eqb_eq in E1. subst i.
          apply recv_core_acted. rewrite Hev. discriminate.
      + split; [cbn; lia|intros H; exfalso; apply H; reflexivity].
  Qed.

  Theorem at_most_once hist : forall a i, (length (acts_on i (snd (run a hist))) <= 1)%nat.
  Proof.
    induction hist as [|b t IH]; intros a i; cbn [BpAgent.run]; [cbn; lia|].
    destruct (recv a b) as [a1 p1] eqn:E1. destruct (run a1 t) as [a2 p2] eqn:E2. cbn [snd].
    rewrite acts_on_app, app_length.
    destruct (recv_once a b i) as [Hlen Hin]. rewrite E1 in Hlen, Hin. cbn [fst snd] in Hlen, Hin.
    destruct (acts_on i p1) as [|x l] eqn:Ha.
    - cbn [length]. specialize (IH a1 i). rewrite E2 in IH. exact IH.
    - assert (Hs : In i (a_seen a1)) by (apply Hin; discriminate).
      pose proof (run_seen_silent t a1 i Hs) as Hz. rewrite E2 in Hz. cbn [snd] in Hz. rewrite Hz.
      cbn [length] in *. lia.
  Qed.

  (** ** Gates *)

  Theorem own_source_ignored a b : b_src b = a_node a -> recv a b = (a, [(b, [])]).
  Proof.
    intros H. assert (Hacc : accepted a b = false).
    { unfold accepted. rewrite H, N.eqb_refl. cbn. rewrite andb_false_r. reflexivity. }
    rewrite recv_eq, (recv_core_rejected a b Hacc). reflexivity.
  Qed.

  Theorem duplicate_ignored a b : In (ident_of b) (a_seen a) -> recv a b = (a, [(b, [])]).
  Proof.
    intros H. rewrite recv_eq, (recv_core_rejected a b (accepted_not_seen a b H)). reflexivity.
  Qed.

  Theorem bad_crc_ignored a b : b_crc_ok b = false -> recv a b = (a, [(b, [])]).
  Proof.
    intros H. assert (Hacc : accepted a b = false) by (unfold accepted; rewrite H; reflexivity).
    rewrite recv_eq, (recv_core_rejected a b Hacc). reflexivity.
  Qed.

  (** ** Routing *)

  Definition rx_action (a : agent) (b : bundle) : option action :=
    option_map snd (find (fun r => matches (fst r) (b_dst b)) (a_rx a)).

  Lemma route_actions_local a b : local_dest a b = true -> route_actions a b = [ARecv; ADlv].
  Proof. intros H. unfold BpAgent.route_actions. rewrite H. reflexivity. Qed.

  Lemma route_actions_routed a b :
    local_dest a b = false ->
    route_actions a b = match rx_action a b with Some x => add x [ARecv] | None => [ARecv] end.
  Proof.
    intros H. unfold BpAgent.route_actions, rx_action, BpAgent.rx_lookup. rewrite H.
    destruct (find (fun r => matches (fst r) (b_dst b)) (a_rx a)); reflexivity.
  Qed.

  Lemma route_actions_deliver a b : mem ADlv (route_actions a b) = true -> route_actions a b = [ARecv; ADlv].
  Proof.
    destruct (local_dest a b) eqn:L.
    - intros _. apply route_actions_local. exact L.
    - rewrite (route_actions_routed a b L). destruct (rx_action a b) as [[]|]; cbn; intros H; try discriminate; reflexivity.
  Qed.

  Lemma app_step_nonlocal a b acts : local_dest a b = false -> app_step a b acts = acts.
  Proof.
    unfold local_dest, app_step. intros H. apply orb_false_iff in H. destruct H as [H _]. rewrite H.
    rewrite andb_false_r. reflexivity.
  Qed.

  Lemma mem_app_step x a b acts : x <> ADel -> mem x (app_step a b acts) = mem x acts.
  Proof.
    intros Hx. unfold app_step.
    destruct (b_refuse b && mem ADlv acts && (b_dst b =? a_node a) && negb (is_frag b)); [|reflexivity].
    rewrite mem_add. destruct (action_eqb x ADel) eqn:E; [|apply orb_false_r].
    apply action_eqb_eq in E. contradiction.
  Qed.

  Lemma chain_acts_nonlocal a b : local_dest a b = false -> chain_acts a b = fst (sec_step b (route_actions a b)).
  Proof. intros H. unfold chain_acts. apply app_step_nonlocal. exact H. Qed.

  (** Deliveries and transmissions of one processing, as a function of the routing decision. *)
  Lemma recv_core_outcome a b :
    accepted a b = true ->
    let evs := snd (fst (recv_core a b)) in
    let acts0 := route_actions a b in
    if mem ADlv acts0 && is_frag b then has_deliver evs = false /\ has_tx evs = false
    else has_deliver evs = mem ADlv (fst (sec_step b acts0))
         /\ has_tx evs = negb (mem ADel (chain_acts a b)) && mem AFwd (chain_acts a b)
                          && negb (prep_fails b) && tx_ok a b.
  Proof.
    intros Hacc. cbv zeta. rewrite (recv_core_accepted a b Hacc).
    destruct (mem ADlv (route_actions a b) && is_frag b) eqn:C.
    - apply andb_true_iff in C. destruct C as [C _]. rewrite (route_actions_deliver a b C).
      destruct (snd (reasm_step (a_reasm a) b)); cbn [fst snd]; try (split; reflexivity).
      rewrite final_has_deliver, final_has_tx. cbn. split; reflexivity.
    - cbn [fst snd]. rewrite final_has_deliver, final_has_tx. split; [reflexivity|].
      rewrite (tx_ok_tx a (seen_add a b) b) by reflexivity. reflexivity.
  Qed.

  Theorem first_match a b :
    accepted a b = true -> local_dest a b = false ->
    let act := rx_action a b in
    let evs := snd (fst (recv_core a b)) in
    (has_deliver evs = true -> act = Some ADlv)
    /\ (has_tx evs = true -> act = Some AFwd)
    /\ (act = Some ADlv -> b_frag b = None -> (has_deliver evs = true <-> b_sec b = None) /\ has_tx evs = false)
    /\ (act = Some AFwd -> has_deliver evs = false /\ has_tx evs = negb (prep_fails b) && tx_ok a b)
    /\ (act <> Some ADlv -> act <> Some AFwd -> has_deliver evs = false /\ has_tx evs = false).
  Proof.
    intros Hacc Hloc. cbv zeta.
    pose proof (recv_core_outcome a b Hacc) as H. cbv zeta in H.
    rewrite (chain_acts_nonlocal a b Hloc) in H.
    rewrite (route_actions_routed a b Hloc) in H.
    unfold BpAgent.sec_step in H.
    destruct (rx_action a b) as [[]|] eqn:Hact; cbn in H.
    - (* 'receive' as a route action: nothing *)
      destruct (b_sec b); destruct H as [H1 H2]; rewrite H1, H2;
        repeat split; intros; try discriminate; try congruence.
    - (* forward *)
      destruct (b_sec b); destruct H as [H1 H2]; rewrite H1, H2;
        repeat split; intros; try discriminate; try congruence.
    - (* deliver *)
      destruct (is_frag b) eqn:F.
      + destruct H as [H1 H2]. rewrite H1, H2.
        assert (Hnf : b_frag b <> None) by (unfold is_frag in F; destruct (b_frag b); [discriminate|discriminate]).
        repeat split; intros; try discriminate; try congruence; contradiction.
      + destruct (b_sec b) eqn:S; cbn in H; destruct H as [H1 H2]; rewrite H1, H2;
          repeat split; intros; try discriminate; try congruence.
    - (* delete *)
      destruct (b_sec b); destruct H as [H1 H2]; rewrite H1, H2;
        repeat split; intros; try discriminate; try congruence.
    - (* any other action string *)
      destruct (b_sec b); destruct H as [H1 H2]; rewrite H1, H2;
        repeat split; intros; try discriminate; try congruence.
    - (* no route *)
      destruct (b_sec b); destruct H as [H1 H2]; rewrite H1, H2;
        repeat split; intros; try discriminate; try congruence.
  Qed.

  Theorem local_delivered a b :
    accepted a b = true -> local_dest a b = true -> b_frag b = None ->
    let evs := snd (fst (recv_core a b)) in
    (has_deliver evs = true <-> b_sec b = None) /\ has_tx evs = false.
  Proof.
    intros Hacc Hloc Hf. cbv zeta.
    pose proof (recv_core_outcome a b Hacc) as H. cbv zeta in H.
    unfold chain_acts in H. rewrite (mem_app_step AFwd) in H by discriminate.
    rewrite (route_actions_local a b Hloc) in H. unfold is_frag in H. rewrite Hf in H.
    unfold BpAgent.sec_step in H. cbn in H. rewrite ?andb_false_r in H. cbn in H.
    destruct (b_sec b); cbn in H; destruct H as [H1 H2]; rewrite H1, H2, ?andb_false_r; cbn [andb];
      split; try reflexivity; split; intros; congruence.
  Qed.

  Theorem no_route_no_action a b :
    accepted a b = true -> local_dest a b = false -> rx_action a b = None ->
    snd (fst (recv_core a b)) = [] /\ snd (recv_core a b) = None.
  Proof.
    intros Hacc Hloc Hact. rewrite (recv_core_accepted a b Hacc).
    rewrite (chain_acts_nonlocal a b Hloc).
    rewrite (route_actions_routed a b Hloc), Hact. cbn [mem existsb action_eqb orb andb].
    unfold BpAgent.sec_step. destruct (b_sec b); cbn [mem existsb action_eqb orb fst snd];
      rewrite final_eq; cbn; auto.
  Qed.

  (** ** Status reports: [create_report] *)

  Lemma mem_filter x p l : mem x (filter p l) = mem x l && p x.
  Proof.
    unfold mem. induction l as [|y l IH]; cbn; [reflexivity|].
    destruct (p y) eqn:Py; cbn; rewrite IH.
    - destruct (action_eqb x y) eqn:E; cbn; [|reflexivity].
      apply action_eqb_eq in E. subst. rewrite Py. reflexivity.
    - destruct (action_eqb x y) eqn:E; cbn; [|reflexivity].
      apply action_eqb_eq in E. subst. rewrite Py. rewrite andb_false_r. reflexivity.
  Qed.

  Lemma filter_nonempty_iff (p : action -> bool) l : filter p l <> [] <-> exists s, In s l /\ p s = true.
  Proof.
    split.
    - intros H. destruct (filter p l) as [|x t] eqn:E; [contradiction|].
      assert (Hx : In x (filter p l)) by (rewrite E; left; reflexivity).
      apply filter_In in Hx. exists x. exact Hx.
    - intros [s [Hin Hp]] E. assert (Hx : In s (filter p l)) by (apply filter_In; auto).
      rewrite E in Hx. destruct Hx.
  Qed.

  Theorem create_report_iff node ts b acts rsn :
    create_report node ts b acts rsn <> None
    <-> b_rpt b <> EID_NONE /\ exists s, In s acts /\ requested b s = true.
  Proof.
    unfold create_report. destruct (b_rpt b =? EID_NONE) eqn:E.
    - apply N.eqb_eq in E. split; [intros H; contradiction | intros [H _]; contradiction].
    - apply N.eqb_neq in E. rewrite <- filter_nonempty_iff.
      destruct (filter (fun s => requested b s) acts); split.
      + intros H; contradiction.
      + intros [_ H]; contradiction.
      + intros _. split; [exact E | discriminate].
      + intros _. discriminate.
  Qed.

  (** The status array position of an action identifies the action (computed from the generated table). *)
  Lemma status_index_inj s k :
    status_index s = Some k ->
    forall s', (match status_index s' with Some j => Nat.eqb j k | None => false end) = action_eqb s s'.
  Proof. destruct s; cbv; intros H; inversion H; subst; intros s'; destruct s'; reflexivity. Qed.

  Lemma status_index_bound s k : status_index s = Some k -> (k < status_array_len)%nat.
  Proof. destruct s; cbv; intros H; inversion H; subst; lia. Qed.

  Lemma existsb_ext_action (f g : action -> bool) l : (forall x, f x = g x) -> existsb f l = existsb g l.
  Proof. intros H. induction l as [|y l IH]; cbn; [reflexivity|]. rewrite H, IH. reflexivity. Qed.

  Lemma status_nth (hit : list action) k :
    (k < status_array_len)%nat ->
    nth k (map (fun k0 => existsb (fun s0 => match status_index s0 with Some j => Nat.eqb j k0 | None => false end) hit)
               (seq 0 status_array_len)) false
    = existsb (fun s0 => match status_index s0 with Some j => Nat.eqb j k | None => false end) hit.
  Proof.
    intros Hb.
    set (f := fun k0 => existsb (fun s0 => match status_index s0 with Some j => Nat.eqb j k0 | None => false end) hit).
    rewrite (nth_indep _ false (f O)) by (rewrite map_length, seq_length; exact Hb).
    rewrite (map_nth f). rewrite seq_nth by exact Hb. reflexivity.
  Qed.

  Lemma create_report_asserted node ts b acts rsn r s :
    create_report node ts b acts rsn = Some r -> asserted r s = mem s acts && requested b s.
  Proof.
    unfold create_report. destruct (b_rpt b =? EID_NONE); [discriminate|].
    destruct (filter (fun s0 => requested b s0) acts) as [|h t] eqn:F; [discriminate|].
    intros H. match goal with H0 : Some ?x = Some r |- _ => replace r with x by congruence end. clear H. unfold asserted. cbv beta iota delta [r_status].
    destruct (status_index s) as [k|] eqn:K.
    - rewrite status_nth by (eapply status_index_bound; exact K).
      rewrite (existsb_ext_action _ (action_eqb s) (h :: t) (status_index_inj s k K)).
      rewrite <- F. apply mem_filter.
    - destruct s; cbv in K; try discriminate. unfold requested. cbn. rewrite andb_false_r. reflexivity.
  Qed.

  Lemma create_report_fields node ts b acts rsn r :
    create_report node ts b acts rsn = Some r ->
    b_rpt b <> EID_NONE /\ r_dst r = b_rpt b /\ r_src r = node /\ r_rpt r = EID_NONE
    /\ r_flags r = report_bundle_flags /\ r_crc r = report_crc_type /\ r_time r = fst ts /\ r_seq r = snd ts
    /\ r_with_time r = has_flag (b_flags b) status_time_flag
    /\ r_subj_src r = b_src b /\ r_subj_time r = b_time b /\ r_subj_seq r = b_seq b
    /\ length (r_status r) = status_array_len
    /\ r_reason r = match rsn with Some rc => if rc =? 0 then default_reason else rc | None => default_reason end.
  Proof.
    unfold create_report. destruct (b_rpt b =? EID_NONE) eqn:E; [discriminate|]. apply N.eqb_neq in E.
    destruct (filter (fun s0 => requested b s0) acts); [discriminate|].
    intros H. match goal with H0 : Some ?x = Some r |- _ => replace r with x by congruence end. clear H.
    cbv beta iota delta [r_dst r_src r_rpt r_flags r_crc r_time r_seq r_with_time r_subj_src r_subj_time r_subj_seq r_status r_reason].
    rewrite map_length, seq_length. repeat split; auto.
  Qed.

  (** A report never requests reports about itself. *)
  Definition flags_request (flags : N) (s : action) : bool :=
    match req_flag s with Some f => has_flag flags f | None => false end.

  Lemma requested_flags b s : requested b s = flags_request (b_flags b) s.
  Proof. reflexivity. Qed.

  Lemma report_flags_request_nothing s : flags_request report_bundle_flags s = false.
  Proof. destruct s; vm_compute; reflexivity. Qed.

  Lemma report_flags_no_time : has_flag report_bundle_flags status_time_flag = false.
  Proof. vm_compute. reflexivity. Qed.

  Lemma report_flags_admin : has_flag report_bundle_flags FLAG_PAYLOAD_ADMIN = true.
  Proof. vm_compute. reflexivity. Qed.

  Theorem no_cascade node ts b acts rsn r :
    create_report node ts b acts rsn = Some r ->
    (forall s, flags_request (r_flags r) s = false)
    /\ has_flag (r_flags r) status_time_flag = false
    /\ has_flag (r_flags r) FLAG_PAYLOAD_ADMIN = true
    /\ r_rpt r = EID_NONE
    /\ (forall node' ts' b' acts' rsn', b_flags b' = r_flags r -> create_report node' ts' b' acts' rsn' = None).
  Proof.
    intros H. destruct (create_report_fields _ _ _ _ _ _ H) as (_ & _ & _ & Hrpt & Hfl & _).
    rewrite Hfl.
    split; [intros s; apply report_flags_request_nothing|].
    split; [apply report_flags_no_time|].
    split; [apply report_flags_admin|].
    split; [exact Hrpt|].
    intros node' ts' b' acts' rsn' Hb.
    destruct (create_report node' ts' b' acts' rsn') eqn:E; [|reflexivity].
    exfalso. assert (Hne : create_report node' ts' b' acts' rsn' <> None) by (rewrite E; discriminate).
    apply create_report_iff in Hne. destruct Hne as [_ [s [_ Hs]]].
    rewrite requested_flags, Hb, report_flags_request_nothing in Hs. discriminate.
  Qed.

  (** ** Status reports: the agent *)

  Lemma recv_core_report a b r :
    report_in r (snd (fst (recv_core a b))) ->
    accepted a b = true /\
    exists a' acts rsn c,
      snd (fst (recv_core a b)) = snd (final a' b acts rsn c)
      /\ a_node a' = a_node a /\ a_tx a' = a_tx a
      /\ ( (mem ADlv (route_actions a b) && is_frag b = true
             /\ acts = route_actions a b /\ rsn = None /\ c = false)
         \/ (mem ADlv (route_actions a b) && is_frag b = false
             /\ acts = chain_acts a b /\ rsn = snd (sec_step b (route_actions a b))
             /\ c = mem ADlv (fst (sec_step b (route_actions a b)))) ).
  Proof.
    destruct (accepted a b) eqn:Hacc.
    - rewrite (recv_core_accepted a b Hacc).
      destruct (mem ADlv (route_actions a b) && is_frag b) eqn:C.
      + destruct (snd (reasm_step (a_reasm a) b)); cbn [fst snd]; intros H.
        * destruct H as (s & k & [[]|[]]).
        * destruct H as (s & k & [[]|[]]).
        * split; [reflexivity|]. eexists _, _, _, _. split; [reflexivity|].
          split; [reflexivity|]. split; [reflexivity|]. left. auto.
      + cbn [fst snd]. intros H. split; [reflexivity|]. eexists _, _, _, _. split; [reflexivity|].
        split; [reflexivity|]. split; [reflexivity|]. right. auto.
    - rewrite (recv_core_rejected a b Hacc). cbn. intros (s & k & [[]|[]]).
  Qed.

  Theorem report_sound a b r :
    report_in r (snd (fst (recv_core a b))) ->
    b_rpt b <> EID_NONE /\ r_dst r = b_rpt b /\ r_src r = a_node a /\ r_rpt r = EID_NONE
    /\ r_flags r = report_bundle_flags /\ r_crc r = report_crc_type
    /\ r_with_time r = has_flag (b_flags b) status_time_flag
    /\ r_subj_src r = b_src b
    /\ (b_time b <> 0 -> r_subj_time r = b_time b /\ r_subj_seq r = b_seq b)
    /\ (exists s, asserted r s = true)
    /\ (forall s, asserted r s = true -> requested b s = true).
  Proof.
    intros Hrep.
    destruct (recv_core_report a b r Hrep) as (_ & a' & acts & rsn & c & Hev & Hn & _ & _).
    rewrite Hev in Hrep.
    destruct (final_report a' b acts rsn c r Hrep) as (ts & cur & acts' & rsn' & Hcr & Hsrc & Hrpt & Hfl & Htime & _).
    pose proof (create_report_fields _ _ _ _ _ _ Hcr) as (F1 & F2 & F3 & F4 & F5 & F6 & _ & _ & F9 & F10 & F11 & F12 & _).
    assert (Hreq : forall s, requested cur s = requested b s) by (intros s; unfold requested; rewrite Hfl; reflexivity).
    rewrite Hrpt in F1, F2. rewrite Hfl in F9. rewrite Hsrc in F10. rewrite Hn in F3.
    repeat (split; [assumption|]).
    split.
    { intros Ht. rewrite (Htime Ht) in F11, F12. auto. }
    split.
    - assert (Hne : create_report (a_node a') ts cur acts' rsn' <> None) by (rewrite Hcr; discriminate).
      apply create_report_iff in Hne. destruct Hne as [_ [s [Hin Hs]]]. exists s.
      rewrite (create_report_asserted _ _ _ _ _ _ s Hcr), Hs. apply mem_In in Hin. rewrite Hin. reflexivity.
    - intros s Hs. rewrite (create_report_asserted _ _ _ _ _ _ s Hcr) in Hs.
      apply andb_true_iff in Hs. rewrite <- Hreq. apply Hs.
  Qed.

  Lemma final_fwd_not_del a b acts rsn c r :
    report_in r (snd (final a b acts rsn c)) -> has_tx (snd (final a b acts rsn c)) = true -> asserted r ADel = false.
  Proof.
    intros Hrep Htx.
    destruct (final_report a b acts rsn c r Hrep) as (ts & cur & acts' & rsn' & Hcr & _ & _ & _ & _ & Horigin).
    rewrite (create_report_asserted _ _ _ _ _ _ ADel Hcr).
    rewrite final_has_tx in Htx.
    destruct (mem ADel acts) eqn:Hdel; [cbn in Htx; discriminate|].
    destruct Horigin as [(_ & Ha & _)|[(_ & _ & Ha & _)|(_ & _ & _ & _ & Hx)]].
    - subst acts'. rewrite Hdel. reflexivity.
    - subst acts'. rewrite mem_add, Hdel. reflexivity.
    - rewrite final_has_tx, Hdel in Hx. congruence.
  Qed.

  Theorem forwarded_not_deleted a b r :
    report_in r (snd (fst (recv_core a b))) -> has_tx (snd (fst (recv_core a b))) = true -> asserted r ADel = false.
  Proof.
    intros Hrep Htx.
    destruct (recv_core_report a b r Hrep) as (_ & a' & acts & rsn & c & Hev & _).
    rewrite Hev in Hrep, Htx. eapply final_fwd_not_del; eassumption.
  Qed.

  Lemma route_actions_shape a b :
    route_actions a b = [ARecv] \/ exists x, x <> ARecv /\ route_actions a b = [ARecv; x].
  Proof.
    destruct (local_dest a b) eqn:L.
    - right. exists ADlv. split; [discriminate | apply route_actions_local; exact L].
    - rewrite (route_actions_routed a b L). destruct (rx_action a b) as [[]|]; cbn; auto;
        right; eexists; (split; [|reflexivity]); discriminate.
  Qed.

  (** The asserted statuses are exactly the requested ones that occurred - provided the bundle is not a
      fragment routed to delivery (whose actions the reassembly step clears) and the fragment step did not
      take the bundle over on a route whose CL is not attached (then 'forward' is recorded although every
      fragment fails in its own [send_bundle]; see [asserted_occurred_refuted]). *)
  Theorem asserted_occurred_partial a b r :
    report_in r (snd (fst (recv_core a b))) ->
    mem ADlv (route_actions a b) && is_frag b = false ->
    (forall k, send_path a (b_dst b) (b_size b) (has_flag (b_flags b) FLAG_NO_FRAGMENT) (is_frag b) (b_fragfeas b)
               <> SentFrags k false) ->
    b_refuse b = false ->
    forall s, asserted r s = requested b s && occurred (snd (fst (recv_core a b))) s.
  Proof.
    intros Hrep Hnf Hnc Hnr s.
    destruct (recv_core_report a b r Hrep) as (_ & a' & acts & rsn & c & Hev & _ & Htx' & [(Hc & _)|(_ & Ha & Hr & Hcc)]).
    { rewrite Hnf in Hc. discriminate. }
    assert (Hca : chain_acts a b = fst (sec_step b (route_actions a b)))
      by (unfold chain_acts, app_step; rewrite Hnr; reflexivity).
    rewrite Hca in Ha.
    rewrite Hev in *.
    pose proof (final_has_deliver a' b acts rsn c) as Hd.
    pose proof (final_has_tx a' b acts rsn c) as Ht.
    destruct (final_report a' b acts rsn c r Hrep) as (ts & cur & acts' & rsn' & Hcr & _ & _ & Hfl & _ & Horigin).
    rewrite (create_report_asserted _ _ _ _ _ _ s Hcr).
    assert (Hreq : requested cur s = requested b s) by (unfold requested; rewrite Hfl; reflexivity).
    rewrite Hreq. clear Hreq Hcr.
    assert (Hnc' : forall k, send_path a' (b_dst b) (b_size b) (has_flag (b_flags b) FLAG_NO_FRAGMENT) (is_frag b) (b_fragfeas b)
                             <> SentFrags k false)
      by (intros k; rewrite (send_path_tx a a') by exact Htx'; apply Hnc).
    remember (snd (final a' b acts rsn c)) as evs eqn:Eevs. clear Eevs Hev Hrep.
    unfold BpAgent.sec_step in Ha, Hcc.
    destruct (route_actions_shape a b) as [Hs|(x & Hx & Hs)]; rewrite Hs in *.
    - (* no routing action at all: no report can have been produced *)
      destruct (b_sec b); cbn in Ha, Hcc; subst acts c; cbn in Horigin;
        destruct Horigin as [(_ & _ & _ & [H|H])|[(_ & H & _)|(_ & H & _)]]; discriminate.
    - destruct x; try (exfalso; apply Hx; reflexivity);
        destruct (b_sec b); cbn in Ha, Hcc; subst acts c; cbn in Horigin, Ht;
        destruct Horigin as [(_ & Hacts & _ & [H|H])|[(_ & H & Hacts & _ & _ & Hok)|(_ & H & Hacts & _ & Hx2)]];
        try discriminate; subst acts';
        try (destruct Hok as [Hok|(k0 & Hok)]; [|exfalso; exact (Hnc' k0 Hok)]);
        destruct s; unfold occurred;
        try (match goal with H0 : has_tx evs = true |- _ => rewrite H0 end);
        try (match goal with H0 : has_tx evs = false |- _ => rewrite H0 end);
        rewrite ?Hd, ?Ht;
        cbn [add mem existsb action_eqb orb andb negb app remove filter];
        try (match goal with |- context [requested b ?z] => destruct (requested b z) end); reflexivity.
  Qed.

  Lemma reports_of_in evs r : In r (reports_of evs) <-> report_in r evs.
  Proof.
    unfold reports_of, report_in. rewrite in_flat_map. split.
    - intros (e & He & Hr). destruct e; cbn in Hr; try contradiction; destruct Hr as [Hr|[]]; subst; eauto.
    - intros (s & k & [H|H]); eexists; (split; [exact H|]); left; reflexivity.
  Qed.

  Lemma mem_recv_route a b : mem ARecv (route_actions a b) = true.
  Proof. destruct (route_actions_shape a b) as [H|(x & _ & H)]; rewrite H; reflexivity. Qed.

  Lemma mem_recv_sec a b : mem ARecv (fst (sec_step b (route_actions a b))) = true.
  Proof.
    unfold BpAgent.sec_step. destruct (b_sec b); [|apply mem_recv_route].
    destruct (mem ADlv (route_actions a b)); [|apply mem_recv_route].
    cbn [fst]. rewrite mem_add, mem_remove, mem_recv_route. reflexivity.
  Qed.

  Lemma finish_attempt a sub cur acts rsn :
    b_rpt cur <> EID_NONE -> mem ARecv acts = true -> requested cur ARecv = true ->
    exists e, In e (snd (finish a sub cur acts rsn)) /\ is_report_ev e = true.
  Proof.
    intros Hr Hm Hq.
    assert (Hne : create_report (a_node a) (a_now a, a_tsn a) cur acts rsn <> None).
    { apply create_report_iff. split; [exact Hr|]. exists ARecv. split; [apply mem_In; exact Hm | exact Hq]. }
    destruct (finish_shape a sub cur acts rsn) as [[_ [_ Hc]]|[r0 [_ [_ [[k [H _]]|[[k H]|[H _]]]]]]].
    - contradiction.
    - rewrite H. eexists. split; [left; reflexivity|reflexivity].
    - rewrite H. eexists. split; [left; reflexivity|reflexivity].
    - rewrite H. eexists. split; [left; reflexivity|reflexivity].
  Qed.

  (** If a reception report is requested, a report-to endpoint is named and the bundle reaches a final
      disposition (deleted, delivered or taken for forwarding), a status report is built and handed to
      [send_bundle].  (Not so for bundles matching no route and for fragments routed to delivery, see
      Props/C19.v.) *)
  Theorem report_attempted_if a b :
    accepted a b = true ->
    mem ADlv (route_actions a b) && is_frag b = false ->
    b_rpt b <> EID_NONE -> requested b ARecv = true ->
    mem ADel (chain_acts a b) || mem ADlv (chain_acts a b) || mem AFwd (chain_acts a b) = true ->
    exists e, In e (snd (fst (recv_core a b))) /\ is_report_ev e = true.
  Proof.
    intros Hacc Hnf Hr Hq Hdisp.
    rewrite (recv_core_accepted a b Hacc), Hnf. cbn [fst snd].
    assert (Hm : mem ARecv (chain_acts a b) = true)
      by (unfold chain_acts; rewrite mem_app_step by discriminate; apply mem_recv_sec).
    set (acts := chain_acts a b) in *.
    set (rsn := snd (sec_step b (route_actions a b))).
    rewrite final_eq.
    destruct (mem ADel acts) eqn:Hdel; cbn [snd].
    - destruct (finish_attempt (seen_add a b) b b acts rsn Hr Hm Hq) as (e & He & Hk).
      exists e. split; [apply in_or_app; right; exact He | exact Hk].
    - destruct (mem ADlv acts) eqn:Hdlv.
      + destruct (finish_attempt (seen_add a b) b b acts rsn Hr Hm Hq) as (e & He & Hk).
        exists e. split; [apply in_or_app; right; apply in_or_app; left; exact He | exact Hk].
      + cbn in Hdisp. rewrite Hdisp. cbn [app].
        rewrite do_fwd_eq. cbn [snd].
        pose proof (fwd_plan_spec (seen_add a b) b acts rsn) as Hs. cbv zeta in Hs.
        destruct Hs as (_ & _ & _ & _ & _ & Hrpt & Hfl & _ & _ & _ & _ & _ & Hcase).
        assert (Hm' : mem ARecv (plan_acts (fwd_plan (seen_add a b) b acts rsn)) = true).
        { destruct Hcase as [(_ & Ha & _)|(Ha & _)]; rewrite Ha, mem_add, ?mem_remove, Hm; reflexivity. }
        assert (Hq' : requested (plan_cur (fwd_plan (seen_add a b) b acts rsn)) ARecv = true)
          by (unfold requested; rewrite Hfl; exact Hq).
        rewrite <- Hrpt in Hr.
        destruct (finish_attempt (plan_agent (fwd_plan (seen_add a b) b acts rsn)) b _ _
                                 (plan_reason (fwd_plan (seen_add a b) b acts rsn)) Hr Hm' Hq') as (e & He & Hk).
        exists e. split; [|exact Hk].
        repeat (apply in_or_app; right). exact He.
  Qed.

  (** ** At most one finish, one delivery, one transmission per received bundle *)

  Definition count (p : event -> bool) (evs : list event) : nat := length (filter p evs).
  Definition is_deliver_ev (e : event) : bool := match e with EvDeliver _ => true | _ => false end.
  Definition is_tx_ev (e : event) : bool := match e with EvTx _ _ _ | EvFrags _ _ _ => true | _ => false end.

  Lemma count_app p x y : count p (x ++ y) = (count p x + count p y)%nat.
  Proof. unfold count. rewrite filter_app, app_length. reflexivity. Qed.

  Lemma count_le_length p x : (count p x <= length x)%nat.
  Proof. unfold count. induction x as [|e x IH]; cbn; [lia|]. destruct (p e); cbn; lia. Qed.

  Lemma count_none p x : (forall e, In e x -> p e = false) -> count p x = 0%nat.
  Proof.
    unfold count. induction x as [|e x IH]; intros H; cbn; [reflexivity|].
    rewrite (H e (or_introl eq_refl)). apply IH. intros e' He'. apply H. right. exact He'.
  Qed.

  Lemma finish_counts a sub cur acts rsn :
    (count is_report_ev (snd (finish a sub cur acts rsn)) <= 1)%nat
    /\ count is_deliver_ev (snd (finish a sub cur acts rsn)) = 0%nat
    /\ count is_tx_ev (snd (finish a sub cur acts rsn)) = 0%nat.
  Proof.
    destruct (finish_shape a sub cur acts rsn) as [[H _]|[r [_ [_ [[k [H _]]|[[k H]|[H _]]]]]]]; rewrite H; cbn; lia.
  Qed.

  Lemma fwd_plan_pre_len a b acts rsn : (length (plan_pre (fwd_plan a b acts rsn)) <= 1)%nat.
  Proof.
    unfold plan_pre, BpAgent.fwd_plan.
    destruct (b_prep b =? 1); [cbn; lia|].
    destruct (negb (b_time b =? 0) && (b_prep b =? 2)); [cbn; lia|].
    match goal with |- context [match ?x with SentWhole _ => _ | SentFrags _ _ => _ | SendRaise => _ end] => destruct x as [k|k [|]|] end;
      cbn; lia.
  Qed.

  Lemma do_fwd_counts a b acts rsn :
    (count is_report_ev (snd (do_fwd a b acts rsn)) <= 1)%nat
    /\ count is_deliver_ev (snd (do_fwd a b acts rsn)) = 0%nat
    /\ (count is_tx_ev (snd (do_fwd a b acts rsn)) <= 1)%nat.
  Proof.
    rewrite do_fwd_eq. cbn [snd]. rewrite !count_app.
    destruct (finish_counts (plan_agent (fwd_plan a b acts rsn)) b (plan_cur (fwd_plan a b acts rsn))
                            (plan_acts (fwd_plan a b acts rsn)) (plan_reason (fwd_plan a b acts rsn))) as (F1 & F2 & F3).
    destruct (fwd_plan_spec a b acts rsn) as (_ & _ & _ & _ & _ & _ & _ & _ & Hd & _ & Hnr & _).
    rewrite (count_none is_report_ev _ Hnr), F2, F3.
    pose proof (count_le_length is_tx_ev (plan_pre (fwd_plan a b acts rsn))) as L1.
    pose proof (fwd_plan_pre_len a b acts rsn) as L2.
    assert (D0 : count is_deliver_ev (plan_pre (fwd_plan a b acts rsn)) = 0%nat).
    { apply count_none. intros e He. destruct e; try reflexivity.
      exfalso.
      assert (Hx : has_deliver (plan_pre (fwd_plan a b acts rsn)) = true)
        by (unfold has_deliver; apply existsb_exists; eexists; split; [exact He|reflexivity]).
      congruence. }
    rewrite D0. lia.
  Qed.

  (** For EVERY action record: when 'delete' is in it the bundle is finished once and nothing else happens
      (also when 'deliver' or 'forward' are in it too); otherwise one finish per 'deliver' and per
      'forward'. *)
  Theorem final_counts a b acts rsn c :
    let evs := snd (final a b acts rsn c) in
    (mem ADel acts = true -> (count is_report_ev evs <= 1)%nat /\ count is_tx_ev evs = 0%nat)
    /\ (mem ADlv acts && mem AFwd acts = false -> (count is_report_ev evs <= 1)%nat)
    /\ (count is_deliver_ev evs <= 1)%nat /\ (count is_tx_ev evs <= 1)%nat.
  Proof.
    cbv zeta. rewrite final_eq.
    assert (E0 : count is_report_ev (if c then [EvDeliver b] else []) = 0%nat
                 /\ (count is_deliver_ev (if c then [EvDeliver b] else []) <= 1)%nat
                 /\ count is_tx_ev (if c then [EvDeliver b] else []) = 0%nat) by (destruct c; cbn; lia).
    destruct E0 as (E1 & E2 & E3).
    destruct (finish_counts a b b acts rsn) as (F1 & F2 & F3).
    destruct (mem ADel acts) eqn:Hdel; cbn [snd].
    - rewrite !count_app, E1, E3, F2, F3. repeat split; intros; lia.
    - set (a1 := if mem ADlv acts then fst (finish a b b acts rsn) else a).
      destruct (do_fwd_counts a1 b acts rsn) as (G1 & G2 & G3).
      rewrite !count_app, E1, E3.
      destruct (mem ADlv acts), (mem AFwd acts); cbn [andb]; rewrite ?F2, ?F3, ?G2; cbn [count filter length];
        repeat split; intros; try discriminate; lia.
  Qed.

  Lemma chain_acts_exclusive a b : mem ADlv (chain_acts a b) && mem AFwd (chain_acts a b) = false.
  Proof.
    unfold chain_acts. rewrite (mem_app_step AFwd) by discriminate. rewrite (mem_app_step ADlv) by discriminate.
    unfold BpAgent.sec_step.
    destruct (route_actions_shape a b) as [H|(x & _ & H)]; rewrite H.
    - destruct (b_sec b); reflexivity.
    - destruct x, (b_sec b); reflexivity.
  Qed.

  (** One call of recv_bundle: at most one status report is built, at most one delivery callback fires, the
      bundle is handed to a CL at most once (whole or as one set of fragments), and a bundle whose record
      holds 'delete' is not handed to a CL. *)
  Theorem one_finish a b :
    let evs := snd (fst (recv_core a b)) in
    (count is_report_ev evs <= 1)%nat /\ (count is_deliver_ev evs <= 1)%nat /\ (count is_tx_ev evs <= 1)%nat.
  Proof.
    cbv zeta. destruct (accepted a b) eqn:Hacc.
    - rewrite (recv_core_accepted a b Hacc).
      destruct (mem ADlv (route_actions a b) && is_frag b) eqn:C.
      + destruct (snd (reasm_step (a_reasm a) b)); cbn [fst snd]; try (cbn; lia).
        apply andb_true_iff in C. destruct C as [C _]. rewrite (route_actions_deliver a b C).
        destruct (final_counts (set_reasm (seen_add a b) (fst (reasm_step (a_reasm a) b))) b [ARecv; ADlv] None false)
          as (_ & H2 & H3 & H4).
        split; [apply H2; reflexivity|]. split; assumption.
      + cbn [fst snd].
        destruct (final_counts (seen_add a b) b (chain_acts a b) (snd (sec_step b (route_actions a b)))
                               (mem ADlv (fst (sec_step b (route_actions a b))))) as (_ & H2 & H3 & H4).
        split; [apply H2; apply chain_acts_exclusive|]. split; assumption.
    - rewrite (recv_core_rejected a b Hacc). cbn. lia.
  Qed.
End WithMatch.

(** * Closed witnesses (evaluated inside Coq) *)

Definition ALL_REPORT_FLAGS : N :=
  FLAG_REQ_DELETION_REPORT + FLAG_REQ_DELIVERY_REPORT + FLAG_REQ_FORWARDING_REPORT + FLAG_REQ_RECEPTION_REPORT
  + FLAG_REQ_STATUS_TIME.

(** EIDs: 1 this node, 2 the SAND group endpoint, 5 a source, 7 a report-to endpoint, 9 a destination.
    Route patterns: 0 (rx) matches EID 9 only, 1000 (tx) matches EID 7 only, 1001 (tx) matches EID 9 only. *)
Definition w_matches : N -> eid -> bool := table_matches [(0, 9); (1000, 7); (1001, 9)].
Definition w_bundle (time seq : N) (frag : option (N * N)) : bundle :=
  mkBundle 5 9 7 time seq frag ALL_REPORT_FLAGS 5 true None 0 95 true false.
Definition w_agent (rx : list (N * action)) (tx : list txroute) : agent :=
  mkAgent 1 [2] rx tx [] [] 800000000000 0.
Definition w_rpt_route : txroute := mkTx 1000 true None 0.
Definition w_fwd_route : txroute := mkTx 1001 true None 0.
Definition w_events (a : agent) (b : bundle) : list event := snd (fst (recv_core w_matches a b)).

(** The fragment step takes the bundle over (MTU 60 < size 95, feasible) on a route whose CL is not
    attached: every fragment fails in [send_bundle], nothing reaches a CL, yet 'forwarded' is reported. *)
Lemma asserted_occurred_refuted :
  exists a b r,
    In r (reports_of (w_events a b))
    /\ mem ADlv (route_actions w_matches a b) && is_frag b = false
    /\ requested b AFwd = true
    /\ asserted r AFwd = true /\ occurred (w_events a b) AFwd = false
    /\ asserted r ADel = false.
Proof.
  exists (w_agent [(0, AFwd)] [w_rpt_route; mkTx 1001 false (Some 60) 0]), (w_bundle 1000 1 None). eexists.
  split; [vm_compute; left; reflexivity|]. vm_compute. repeat split.
Qed.

(** A forward that fails outright (no transmit route) is reported as deleted and NOT as forwarded. *)
Lemma failed_forward_reported_deleted_only :
  let a := w_agent [(0, AFwd)] [w_rpt_route] in
  let b := w_bundle 1000 1 None in
  map (fun r => (map (asserted r) [ARecv; AFwd; ADlv; ADel], r_reason r)) (reports_of (w_events a b))
  = [([true; false; false; true], fwd_fail_reason)].
Proof. vm_compute. reflexivity. Qed.

(** A forwarded bundle with creation time zero: the report names the rewritten timestamp. *)
Lemma subject_refuted :
  exists a b r,
    In r (reports_of (w_events a b))
    /\ has_tx (w_events a b) = true
    /\ (r_subj_time r =? b_time b) = false.
Proof.
  exists (w_agent [(0, AFwd)] [w_rpt_route; w_fwd_route]), (w_bundle 0 7 None). eexists.
  split; [vm_compute; left; reflexivity|]. vm_compute. repeat split.
Qed.

(** No route: the bundle is dropped without any report although a reception report was requested. *)
Lemma attempted_if_refuted_no_route :
  exists a b,
    accepted a b = true /\ b_rpt b <> EID_NONE /\ requested b ARecv = true /\ requested b ADel = true
    /\ w_events a b = [].
Proof.
  exists (w_agent [] [w_rpt_route]), (w_bundle 1000 1 None). vm_compute. repeat split; discriminate.
Qed.

(** A fragment routed to delivery: its actions are cleared, no reception report. *)
Lemma attempted_if_refuted_fragment :
  exists a b,
    accepted a b = true /\ b_rpt b <> EID_NONE /\ requested b ARecv = true /\ is_frag b = true
    /\ w_events a b = [].
Proof.
  exists (w_agent [(0, ADlv)] [w_rpt_route]), (w_bundle 1000 1 (Some (0, 10))). vm_compute. repeat split; discriminate.
Qed.

(** * Statements over [reports_of] (as exported to Props/C19.v) and [ident_of] *)

Lemma ident_inj (b1 b2 : bundle) :
  ident_eqb (ident_of b1) (ident_of b2) = true
  <-> b_src b1 = b_src b2 /\ b_time b1 = b_time b2 /\ b_seq b1 = b_seq b2 /\ b_frag b1 = b_frag b2.
Proof.
  rewrite ident_eqb_eq. unfold ident_of. split.
  - intros H. inversion H. auto.
  - intros (H1 & H2 & H3 & H4). rewrite H1, H2, H3, H4. reflexivity.
Qed.

Lemma report_sound_r matches a b r :
  In r (reports_of (snd (fst (recv_core matches a b)))) ->
  b_rpt b <> EID_NONE /\ r_dst r = b_rpt b /\ r_src r = a_node a /\ r_rpt r = EID_NONE
  /\ r_flags r = report_bundle_flags /\ r_crc r = report_crc_type
  /\ r_with_time r = has_flag (b_flags b) status_time_flag
  /\ r_subj_src r = b_src b
  /\ (b_time b <> 0 -> r_subj_time r = b_time b /\ r_subj_seq r = b_seq b)
  /\ (exists s, asserted r s = true)
  /\ (forall s, asserted r s = true -> requested b s = true).
Proof. intros H. apply reports_of_in in H. apply (report_sound matches a b r H). Qed.

Lemma forwarded_not_deleted_r matches a b r :
  In r (reports_of (snd (fst (recv_core matches a b)))) ->
  has_tx (snd (fst (recv_core matches a b))) = true -> asserted r ADel = false.
Proof. intros H. apply reports_of_in in H. apply (forwarded_not_deleted matches a b r H). Qed.

Lemma asserted_occurred_partial_r matches a b r :
  In r (reports_of (snd (fst (recv_core matches a b)))) ->
  mem ADlv (route_actions matches a b) && is_frag b = false ->
  (forall k, send_path matches a (b_dst b) (b_size b) (has_flag (b_flags b) FLAG_NO_FRAGMENT) (is_frag b) (b_fragfeas b)
             <> SentFrags k false) ->
  b_refuse b = false ->
  forall s, asserted r s = requested b s && occurred (snd (fst (recv_core matches a b))) s.
Proof. intros H. apply reports_of_in in H. apply (asserted_occurred_partial matches a b r H). Qed.

Lemma no_cascade_r matches a b r :
  In r (reports_of (snd (fst (recv_core matches a b)))) ->
  (forall s, flags_request (r_flags r) s = false)
  /\ has_flag (r_flags r) status_time_flag = false
  /\ has_flag (r_flags r) FLAG_PAYLOAD_ADMIN = true
  /\ r_rpt r = EID_NONE
  /\ (forall node' ts' b' acts' rsn', b_flags b' = r_flags r -> create_report node' ts' b' acts' rsn' = None).
Proof.
  intros H. apply reports_of_in in H.
  destruct (recv_core_report matches a b r H) as (_ & a' & acts & rsn & c & Hev & _).
  rewrite Hev in H.
  destruct (final_report matches a' b acts rsn c r H) as (ts & cur & acts' & rsn' & Hcr & _).
  exact (no_cascade _ _ _ _ _ _ Hcr).
Qed.

(** At most one report per processing. *)
Lemma finish_reports_le1 matches a sub cur acts rsn :
  (length (reports_of (snd (finish matches a sub cur acts rsn))) <= 1)%nat.
Proof.
  destruct (finish_shape matches a sub cur acts rsn) as [[H _]|[r [_ [_ [[k [H _]]|[[k H]|[H _]]]]]]];
    rewrite H; cbn; lia.
Qed.

(** * Processing-chain order (Gen/Chain.v: the [order=] constants of every registered ChainStep)

    [chain_ids l] is what Agent.__init__'s stable [list.sort()] makes of the steps in registration order. *)
From Coq Require Import String.
From DTN Require Import Gen.Chain.

Fixpoint chain_insert (x : Z * string * string) (l : list (Z * string * string)) : list (Z * string * string) :=
  match l with
  | [] => [x]
  | y :: t => if Z.leb (fst (fst x)) (fst (fst y)) then x :: y :: t else y :: chain_insert x t
  end.
Definition chain_sort (l : list (Z * string * string)) : list (Z * string * string) := fold_right chain_insert [] l.
Definition chain_ids (l : list (Z * string * string)) : list (string * string) :=
  map (fun s => (snd (fst s), snd s)) (chain_sort l).

(** The order Model/BpAgent.v follows: application routing, static routing, reassembly, BPSec verification,
    application handlers on reception; discovered routes, static routing, BPSec application, fragmentation
    on transmission. *)
Lemma chain_order :
  chain_ids rx_steps =
    [("admin", "_rx_route"); ("sand", "_rx_route"); ("safe", "_rx_route"); ("agent", "_do_rx_step");
     ("fragment", "_reassemble"); ("bpsec", "_verify_bcb"); ("bpsec", "_verify_bib");
     ("admin", "_recv_bundle"); ("sand", "_recv_bundle"); ("safe", "_recv_bundle")]%string
  /\ chain_ids tx_steps =
    [("sand", "_tx_route"); ("agent", "_do_tx_step"); ("bpsec", "_apply_bib"); ("bpsec", "_apply_bcb");
     ("fragment", "_create")]%string.
Proof. vm_compute. split; reflexivity. Qed.
