(** TCPCL endpoint model: what the event-loop operations other than a read do
    to the session flags, field by field. *)
From Coq Require Import ZArith NArith List Bool Lia ZifyBool ZifyN ZifyNat Arith.
From RecordUpdate Require Import RecordSet.
From DTN Require Import Lib.Bytes Model.TcpclMsg Model.TcpclSess Proofs.TcpclSessBasics
  Proofs.TcpclSentProofs1 Proofs.TcpclSentProofs2 Proofs.TcpclSentProofs3 Proofs.TcpclSentProofs4
  Proofs.TcpclSentProofs5.
Import ListNotations RecordSetNotations.
Ltac Zify.zify_post_hook ::= Z.div_mod_to_equations.
Local Open Scope N_scope.

Ltac same_tac o Ho := destruct o; try discriminate Ho; st_unfold; p_split; s_leaf.

Lemma in_conn_step_o o s : not_rx o = true -> in_conn (step s o) = in_conn s.
Proof. intros Ho. same_tac o Ho. Qed.
Lemma in_sess_step_o o s : not_rx o = true -> in_sess (step s o) = in_sess s.
Proof. intros Ho. same_tac o Ho. Qed.
Lemma keepalive_time_step_o o s : not_rx o = true -> keepalive_time (step s o) = keepalive_time s.
Proof. intros Ho. same_tac o Ho. Qed.
Lemma sessinit_peer_step_o o s : not_rx o = true -> sessinit_peer (step s o) = sessinit_peer s.
Proof. intros Ho. same_tac o Ho. Qed.
Lemma seg_size_step_o o s : not_rx o = true -> seg_size (step s o) = seg_size s.
Proof. intros Ho. same_tac o Ho. Qed.
Lemma rx_tmp_step_o o s : not_rx o = true -> rx_tmp (step s o) = rx_tmp s.
Proof. intros Ho. same_tac o Ho. Qed.

Definition is_sess_term (f : frame) : bool :=
  match f with FMsg (MSessTerm _ _) => true | _ => false end.

Lemma in_term_step_o o s : closed s = false -> not_rx o = true ->
  in_term (step s o) = in_term s || existsb is_sess_term (out_op o s).
Proof.
  intros Hc Ho. destruct o; try discriminate Ho; st_unfold; so_unfold; rewrite ?Hc; p_split;
    cbn [existsb is_sess_term orb]; rewrite ?orb_false_r, ?orb_true_r; s_leaf.
Qed.

Lemma conhead_this_step_o o s : not_rx o = true ->
  conhead_this (step s o) = conhead_this s \/ (conhead_this (step s o) = Some 0 /\ out_op o s = [CH]).
Proof.
  intros Ho. destruct o; try discriminate Ho; st_unfold; so_unfold; p_split; auto.
  all: right; split; s_leaf.
Qed.

Lemma state_step_o o s : not_rx o = true ->
  state (step s o) = ST_CONNECTING -> state s = ST_CONNECTING.
Proof.
  intros Ho. destruct o; try discriminate Ho; st_unfold; p_split; intros H; try discriminate H; try assumption.
Qed.

Lemma state_step_start s : closed s = false -> out_op OStart s <> [] -> state (step s OStart) <> ST_CONNECTING.
Proof.
  intros Hc. st_unfold; so_unfold; rewrite ?Hc; p_split; intros H; try congruence; try discriminate; try bool_contra2.
Qed.

Lemma tx_tmp_step_o o s : not_rx o = true ->
  tx_tmp (step s o) <> None -> tx_tmp s <> None \/ in_sess s = true.
Proof.
  intros Ho. destruct o; try discriminate Ho; st_unfold; p_split; intros H; auto; try congruence; try (left; discriminate).
Qed.

Lemma ka_due_step_o o s : not_rx o = true -> (ka_due s <> None -> keepalive_time s <> 0) ->
  ka_due (step s o) <> None -> keepalive_time (step s o) <> 0.
Proof.
  intros Ho H. destruct o; try discriminate Ho; st_unfold; p_split; unfold ka_next; p_split; intros H1;
    first [ exact (H H1) | congruence | (apply H; congruence)
          | match goal with E : (0 <? _) = true |- _ => apply N.ltb_lt in E; lia end ].
Qed.
