(* C09 -- session termination (safety clauses).

   Model: Model/TcpclSess.v.

   Proved so far:
     C09_closed_is_final   once the socket is closed, no operation changes
                           anything but the clock.

   NOT YET PROVED (in progress): C09_one_term (at most one SESS_TERM; the one
   answering a received SESS_TERM carries REPLY, the one from terminate() or
   the idle timeout does not), C09_no_new_transfer (no START segment after
   SESS_TERM; needs a positive negotiated segment size, see C04.v),
   C09_unstarted_reported (transfers still queued when a SESS_TERM is handled
   are reported finished with result "terminating"). *)
From Coq Require Import List NArith Bool.
From RecordUpdate Require Import RecordSet.
Import ListNotations RecordSetNotations.
From DTN Require Import Lib.Bytes Model.TcpclMsg Model.TcpclSess Proofs.TcpclSessBasics Proofs.TcpclSentProofs.
Local Open Scope N_scope.

Theorem C09_closed_is_final : forall (s : ep) (o : op), closed s = true ->
  step s o = match o with OAdvance dt => s <| now := now s + dt |> | _ => s end.
Proof. exact step_closed. Qed.
Print Assumptions C09_closed_is_final.

(* Non-vacuity: a reachable closed state. *)
Example C09_example_closed :
  closed (run (mkCfg false [100] 30 60 1000 500 None) [OStart; OClose]) = true.
Proof. reflexivity. Qed.
