''' C15 -- TCPCL enforces its TLS and peer-authentication policy.

 1. proof obligations: coq/Props/C15.v over the regenerated coq/Gen/TlsPolicy.v;
 2. translator status (target `tlspolicy`);
 3. exhaustive differential evaluation of the REAL tcpcl.session code against
    the generated Coq definitions over the full decision table
      contact:  role x tls_enable x peer flags octet (reserved bits too) x require_tls x handshake result
      authn:    role x address family x every SAN subset (and no SAN extension)
                x require_host x require_node
    with real X.509 certificates and a simulated secure() (impl_C15.py);
 4. an independent Python oracle of the property text on every row.
'''
import env  # noqa: F401  (FIRST)
import itertools
import json
import os
import sys
import time

from common import Check, CoqError, coq_list, coq_bool, coq_opt
import impl_C15 as I

HERE = os.path.dirname(os.path.abspath(__file__))
CORPUS = os.path.join(HERE, 'corpus', 'C15_host_authn.json')
CONTACT_FAILURE = 4  # RFC 9174 section 4.3 / 6.1: SESS_TERM reason "Contact Failure"

chk = Check('C15', level='proof', description=__doc__)


# ============================================================ row enumeration
PEER_FLAGS = (0x00, 0x01, 0x02, 0x03, 0x05, 0x81, 0xfe, 0xff)  # CAN_TLS is bit 0; the other bits are reserved


def contact_rows():
    rows = []
    for (role, ena, peer, req, hs) in itertools.product(
            ('passive', 'active'), (False, True), PEER_FLAGS, (None, True, False), (True, False)):
        rows.append(dict(kind='contact', role=role, tls_enable=ena, peer_flags=peer, require_tls=req, hs_ok=hs))
    return rows


def san_sets():
    out = [None]
    for size in range(len(I.SAN_TAGS) + 1):
        for comb in itertools.combinations(I.SAN_TAGS, size):
            out.append(list(comb))
    return out


def authn_rows(quick):
    rows = []
    for (fam, role, san, rh, rn) in itertools.product(('v4', 'v6'), I.ROLES, san_sets(), (False, True), (False, True)):
        if quick and fam == 'v6' and san is not None and len(san) > 2:
            continue  # v6 rows map to the same model inputs as the v4 rows; the quick tier keeps the small certificates
        rows.append(dict(kind='authn', role=role, fam=fam, san=san, require_host=rh, require_node=rn))
    # the peer announces the other node ID / the endpoint connected to the other name
    extra = []
    sans = san_sets() if not quick else [None, [], ['uri_ok'], ['uri_other'], ['uri_ok', 'uri_other'], ['dns_ok'], ['dns_other'],
                                         ['dns_ok', 'dns_other'], ['ip_ok', 'dns_other', 'uri_other']]
    for (role, san, rh, rn) in itertools.product(I.ROLES, sans, (False, True), (False, True)):
        extra.append(dict(kind='authn', role=role, fam='v4', san=san, require_host=rh, require_node=rn, nodeid=I.NODE_OTHER))
        if role == 'active-name':
            extra.append(dict(kind='authn', role=role, fam='v4', san=san, require_host=rh, require_node=rn,
                              peer_name=I.DNS_OTHER))
    # EMPTY identifiers (falsy references): the peer announces an empty node ID (SESS_INIT nodeid_length = 0);
    # the active endpoint has an empty connect name; certificates carrying empty SAN values.  Full SAN table each.
    for (role, san, rh, rn) in itertools.product(I.ROLES, san_sets(), (False, True), (False, True)):
        extra.append(dict(kind='authn', role=role, fam='v4', san=san, require_host=rh, require_node=rn, nodeid=''))
        if role == 'active-name':
            extra.append(dict(kind='authn', role=role, fam='v4', san=san, require_host=rh, require_node=rn, peer_name=''))
    empties = [['uri_empty'], ['uri_empty', 'uri_ok'], ['uri_empty', 'uri_other'], ['dns_empty'], ['dns_empty', 'dns_ok'],
               ['dns_empty', 'dns_other'], ['ip_ok', 'dns_empty', 'uri_empty'], ['dns_empty', 'uri_empty']]
    for (role, san, rh, rn, nodeid) in itertools.product(I.ROLES, empties, (False, True), (False, True), ('', I.NODE_OK)):
        extra.append(dict(kind='authn', role=role, fam='v4', san=san, require_host=rh, require_node=rn, nodeid=nodeid))
        if role == 'active-name':
            extra.append(dict(kind='authn', role=role, fam='v4', san=san, require_host=rh, require_node=rn, nodeid=nodeid, peer_name=''))
    # no TLS in use: nothing is authenticated, nothing is refused
    for (role, rh, rn) in itertools.product(I.ROLES, (False, True), (False, True)):
        extra.append(dict(kind='authn', role=role, fam='v4', san=None, require_host=rh, require_node=rn, tls=False))
    return rows + extra


MATCH_REFS = (None, 'a.example', 'b.example')
MATCH_CERTS = (None, [], ['a.example'], ['b.example'], ['a.example', 'b.example'], ['c.example', 'b.example', 'a.example'])
MATCH_IDS = {'a.example': 1, 'b.example': 2, 'c.example': 3}


# ============================================================ abstraction to the model's inputs
def abstract_authn(row):
    ''' The row in the vocabulary of Gen/TlsPolicy.v (abstract identifiers). '''
    node = {I.NODE_OK: I.ID_NODE, I.NODE_OTHER: I.ID_NODE_OTHER, '': I.ID_EMPTY}[row.get('nodeid', I.NODE_OK)]
    if row['role'] == 'active-name':
        peer_name = {I.DNS_OK: I.ID_DNS, I.DNS_OTHER: I.ID_DNS_OTHER, '': I.ID_EMPTY}[row.get('peer_name', I.DNS_OK)]
    else:
        peer_name = I.ID_ADDR  # fromaddr[0] / the address literal connected to
    san = row['san'] or []
    table = dict(ip_ok=I.ID_ADDR, ip_other=I.ID_ADDR_OTHER, dns_ok=I.ID_DNS, dns_other=I.ID_DNS_OTHER,
                 uri_ok=I.ID_NODE, uri_other=I.ID_NODE_OTHER, dns_empty=I.ID_EMPTY, uri_empty=I.ID_EMPTY)
    return dict(
        passive=(row['role'] == 'passive'), peer_name=peer_name, peer_addr=I.ID_ADDR, node=node,
        ips=[table[t] for t in san if t.startswith('ip_')],
        dnss=[table[t] for t in san if t.startswith('dns_')],
        uris=[table[t] for t in san if t.startswith('uri_')],
        rh=row['require_host'], rn=row['require_node'])


def coq_authn(row):
    ab = abstract_authn(row)

    def nums(items):
        return coq_list(['%d' % v for v in items], 'N')
    return '(%s, %d, %d, %d, %s, %s, %s, %s, %s)' % (
        coq_bool(ab['passive']), ab['peer_name'], ab['peer_addr'], ab['node'],
        nums(ab['ips']), nums(ab['dnss']), nums(ab['uris']), coq_bool(ab['rh']), coq_bool(ab['rn']))


def local_flags(row, obs):
    ''' The flags octet of the local contact header: as seen on the wire; when the connection was closed
    before the header left the buffer, what the configuration says it would have been. '''
    if obs['contact_flags']:
        return obs['contact_flags'][0]
    return 1 if row['tls_enable'] else 0


def coq_contact(row, obs):
    return '%s, %d, %d, %s' % (coq_opt(row['require_tls'], coq_bool, 'bool'), local_flags(row, obs),
                               row['peer_flags'], coq_bool(row['hs_ok']))


PRELUDE = '''
From DTN Require Import Gen.TlsPolicy Model.TlsSpec.
Definition run_authn (c : bool * N * N * N * list N * list N * list N * bool * bool) :=
  let '(p, nm, ad, nd, ips, dnss, uris, rh, rn) := c in
  (authn_refuses p nm ad nd ips dnss uris rh rn,
   (let '(a, (b, d)) := authn_results p nm ad nd ips dnss uris in [mres_code a; mres_code b; mres_code d],
    policy_okb ad (known_dns_name p nm ad) nd ips dnss uris rh rn)).
Definition run_contact (c : option bool * N * N * bool * bool * bool) :=
  let '(req, tf, pf, ok, obs_went_on, obs_secured) := c in
  (tls_attempt tf pf, (outcome_code (contact_outcome req (tls_attempt tf pf) ok),
    (if obs_went_on then tls_use_okb req (offers_tls tf) (offers_tls pf) obs_secured else true))).
Definition run_match (c : option N * list N) := mres_code (match_id (fst c) (snd c)).
'''


# ============================================================ the oracle (property text, concrete values)
def concrete_refs(row):
    fam = row.get('fam', 'v4')
    (addr, addr_other) = I.ADDRS[fam]
    san = row['san'] or []
    table = dict(ip_ok=addr, ip_other=addr_other, dns_ok=I.DNS_OK, dns_other=I.DNS_OTHER,
                 uri_ok=I.NODE_OK, uri_other=I.NODE_OTHER, dns_empty='', uri_empty='')
    ips = [table[t] for t in san if t.startswith('ip_')]
    dnss = [table[t] for t in san if t.startswith('dns_')]
    uris = [table[t] for t in san if t.startswith('uri_')]
    # the DNS name this endpoint knows for its peer: only an active endpoint that connected by name
    # (an empty name is no name)
    dns = (row.get('peer_name', I.DNS_OK) or None) if row['role'] == 'active-name' else None
    node = row.get('nodeid', I.NODE_OK)
    return dict(addr=addr, dns=dns, node=node, ips=ips, dnss=dnss, uris=uris)


def policy_clauses(row):
    ''' Which clauses of the authentication policy the certificate satisfies. '''
    ref = concrete_refs(row)
    contra = []
    if ref['ips'] and ref['addr'] not in ref['ips']:
        contra.append('ip')
    if ref['dns'] is not None and ref['dnss'] and ref['dns'] not in ref['dnss']:
        contra.append('dns')
    if ref['uris'] and ref['node'] not in ref['uris']:
        contra.append('uri')
    host_ok = (ref['addr'] in ref['ips']) or (ref['dns'] is not None and ref['dns'] in ref['dnss'])
    node_ok = ref['node'] in ref['uris']
    failed = ['contradiction-' + k for k in contra]
    if row['require_host'] and not host_ok:
        failed.append('host')
    if row['require_node'] and not node_ok:
        failed.append('node')
    return (failed, ref)


def role_class(row):
    return {'passive': 'passive', 'active-addr': 'active-by-address', 'active-name': 'active-by-name'}[row['role']]


def cert_class(ref):
    if ref['ips'] and ref['dnss']:
        return 'ip+dns-cert'
    if ref['dnss']:
        return 'dns-only-cert'
    if ref['ips']:
        return 'ip-only-cert'
    return 'no-host-id-cert'


def oracle_authn(row, obs):
    ''' -> list of (signature, what) for every way the observation violates the property. '''
    out = []
    (failed, ref) = policy_clauses(row)
    if not obs['secure']:
        # not under TLS: the authentication clauses do not apply; nothing may be reported authenticated
        for key in ('authn_ipaddrid', 'authn_dnsid', 'authn_nodeid'):
            if obs['params'].get(key) not in ('absent', None):
                out.append(('clear/' + key + '-reported', 'authentication result reported without TLS: %r' % (obs['params'],)))
        return out
    if obs['established'] and failed:
        first = failed[0]
        if first == 'host':
            sig = '%s/require_host/%s' % (role_class(row), cert_class(ref))
        elif first == 'node':
            sig = '%s/require_node/%s' % (role_class(row), 'uri-absent' if not ref['uris'] else 'uri-mismatch')
        else:
            sig = '%s/%s' % (role_class(row), first)
        if ref['node'] == '':
            sig += '/empty-node-id'
        if row['role'] == 'active-name' and ref['dns'] is None:
            sig += '/empty-connect-name'
        out.append((sig, 'session established under TLS although the certificate fails the policy clause(s) %s; '
                         'references %s; authn fields %s' % (failed, json.dumps(ref, sort_keys=True), json.dumps(obs['params'], sort_keys=True))))
    if failed and not obs['established']:
        if CONTACT_FAILURE not in obs['term_reasons']:
            out.append(('%s/refusal-without-contact-failure' % role_class(row),
                        'policy clause(s) %s fail but no SESS_TERM(contact failure) was sent: reasons %s, state %s, escaped %s' % (
                            failed, obs['term_reasons'], obs['state'], obs['escaped'])))
    if obs['established'] and obs['term_reasons']:
        out.append(('%s/established-and-terminated' % role_class(row), 'established and SESS_TERM %s' % obs['term_reasons']))
    # authn fields of get_session_parameters(): "matched" only for an identifier that is the reference and is in the certificate
    if obs['established']:
        for (key, refval, ids) in (('authn_ipaddrid', ref['addr'], ref['ips']), ('authn_dnsid', ref['dns'], ref['dnss']),
                                   ('authn_nodeid', ref['node'], ref['uris'])):
            val = obs['params'].get(key)
            # an empty string in the field is falsy for every consumer: it does not report a match
            if isinstance(val, list) and val[1] != '':
                if val[1] != refval or refval not in ids:
                    out.append(('params/%s-false-match' % key, '%s reported matched %r; reference %r, certificate %r' % (key, val, refval, ids)))
    if obs['sessinit_clear'] or obs['clear_after_tls']:
        out.append(('%s/clear-traffic-under-tls' % role_class(row), 'plain-text traffic after TLS was established'))
    return out


def oracle_contact(row, obs):
    out = []
    # RFC 9174 4.2: a contact header offers TLS iff bit 0 (CAN_TLS) of its flags octet is set; other bits are reserved
    wire = obs['contact_flags']
    local_offer = bool(wire[0] & 1) if wire else bool(row['tls_enable'])
    if wire and local_offer != bool(row['tls_enable']):
        out.append(('contact/offer-differs-from-config', 'contact header flags=0x%02x with tls_enable=%s' % (wire[0], row['tls_enable'])))
    peer_offer = bool(row['peer_flags'] & 1)
    both = bool(local_offer and peer_offer)
    req = row['require_tls']
    went_on = obs['sessinit_clear'] or obs['sessinit_tls'] or obs['established']
    tag = 'role=%s/offer=%s/peer_flags=0x%02x/require=%s/handshake=%s' % (
        row['role'], row['tls_enable'], row['peer_flags'], req, 'ok' if row['hs_ok'] else 'fail')
    if obs['secure_calls'] > 0 and not both:
        out.append(('contact/tls-attempted-without-both-offers/' + tag, 'TLS handshake started although not both contact headers offer TLS'))
    if went_on:
        secured = obs['secure']
        if obs['sessinit_clear'] and obs['sessinit_tls']:
            out.append(('contact/sessinit-on-both-channels/' + tag, 'SESS_INIT both in the clear and under TLS'))
        if obs['sessinit_clear'] and both:
            out.append(('contact/clear-sessinit-although-both-offer/' + tag, 'SESS_INIT sent in the clear although both sides offer TLS'))
        if not py_tls_use_ok(req, local_offer, peer_offer, secured):
            if secured != both:
                out.append(('contact/tls-use-differs-from-offers/' + tag, 'proceeded with secure=%s but both-offer=%s' % (secured, both)))
            elif req is True:
                out.append(('contact/require-tls-proceeds-clear/' + tag, 'require_tls=True but proceeded in the clear'))
            else:
                out.append(('contact/forbid-tls-proceeds-secured/' + tag, 'require_tls=False but proceeded secured'))
        if req is True and obs['sessinit_clear']:
            out.append(('contact/require-tls-sessinit-clear/' + tag, 'require_tls=True but SESS_INIT was sent in the clear'))
        if req is False and obs['sessinit_tls']:
            out.append(('contact/forbid-tls-sessinit-secured/' + tag, 'require_tls=False but SESS_INIT was sent under TLS'))
        if both and not row['hs_ok']:
            out.append(('contact/proceeds-after-failed-handshake/' + tag, 'proceeded although the TLS handshake failed'))
    if obs['closed'] and obs['established']:
        out.append(('contact/established-on-closed-connection/' + tag, 'state established after close'))
    return out


# ============================================================ evaluation
reported = set()
viol_counts = {}
PHASES = {}


def report(sig, what, row):
    ''' One report (replay file, VIOLATION / KNOWN-FINDING line) per class of failure: the first row that
    shows it; the signature still names the exact input class.  All failing rows are counted in the evidence. '''
    viol_counts[sig] = viol_counts.get(sig, 0) + 1
    cls = '/'.join(sig.split('/')[:2]) if sig.startswith('contact/') else sig
    if cls in reported:
        return
    reported.add(cls)
    chk.fail(signature=sig, what=what, replay_obj=dict(row=row))


def canon_model_authn(res):
    (refuses, (codes, okb)) = res
    names = {0: 'absent', 1: 'matched', 2: 'mismatch'}
    return dict(refuses=bool(refuses), authn=[names[c] for c in codes], policy_ok=bool(okb))


def impl_authn_view(obs):
    ''' What the implementation decided, in the model's vocabulary. '''
    par = obs['params']
    fields = []
    for key in ('authn_ipaddrid', 'authn_dnsid', 'authn_nodeid'):
        val = par.get(key)
        fields.append('matched' if isinstance(val, list) else val)
    return dict(refuses=(not obs['established']) and (CONTACT_FAILURE in obs['term_reasons']),
                established=obs['established'], authn=fields)


def py_tls_use_ok(req, this_offers, peer_offers, secured):
    ''' The property text on the use of TLS by an endpoint that goes on to session negotiation. '''
    return (secured == bool(this_offers and peer_offers)) and (req is None or secured == req)


class Outcome(object):
    def __init__(self):
        self.agree = True        # real code == generated model on every row
        self.first_diff = None
        self.spec_agree = True   # Coq rendering of the specification == Python oracle's reading, row by row
        self.spec_diff = None
        self.model_err = None

    def differ(self, row, impl, model):
        self.agree = False
        if self.first_diff is None:
            self.first_diff = dict(row=row, implementation=impl, model=model)

    def spec_differ(self, row, coq, python):
        self.spec_agree = False
        if self.spec_diff is None:
            self.spec_diff = dict(row=row, coq_spec=coq, python_oracle=python)


def run_rows(rows):
    ''' Real code first (observations), then the generated model and the Coq specification on the same
    rows (vm_compute), then comparison and oracle. '''
    res = Outcome()
    contact = [r for r in rows if r['kind'] == 'contact']
    authn = [r for r in rows if r['kind'] == 'authn']
    mids = [r for r in rows if r['kind'] == 'match_id']

    t_start = time.time()
    obs_contact = [I.run_contact_row(row) for row in contact]
    obs_authn = [(I.run_authn_row(row, 'e2e'), I.run_authn_row(row, 'direct')) for row in authn]
    obs_mid = [I.run_match_id(row['ref'], row['cert']) for row in mids]
    PHASES['real_code_s'] = round(time.time() - t_start, 1)
    t_start = time.time()

    def went_on(obs):
        return bool(obs['sessinit_clear'] or obs['sessinit_tls'] or obs['established'])

    mod_contact = mod_authn = mod_mid = None
    try:
        # ONE batch of shards for the three tables (every case is a closed term `run_xxx input`, the evaluated
        # function is the identity), one model evaluation per distinct model input (v4/v6 and TLS/no-TLS rows share them)
        t_contact = ['(run_contact (%s, %s, %s))' % (coq_contact(row, obs), coq_bool(went_on(obs)), coq_bool(obs['secure']))
                     for (row, obs) in zip(contact, obs_contact)]
        t_authn = ['(run_authn %s)' % coq_authn(r) for r in authn]
        t_mid = ['(run_match (%s, %s))' % (coq_opt(MATCH_IDS.get(r['ref']), lambda v: '%d' % v, 'N'),
                                           coq_list(['%d' % MATCH_IDS[x] for x in (r['cert'] or [])], 'N')) for r in mids]
        uniq = sorted(set(t_contact + t_authn + t_mid))
        pos = dict((term, idx) for (idx, term) in enumerate(uniq))
        vals = chk.coq_eval('table', [], uniq, '(fun x => x)', prelude=PRELUDE, chunk=max(120, (len(uniq) + 7) // 8))
        mod_contact = [vals[pos[term]] for term in t_contact]
        mod_authn = [vals[pos[term]] for term in t_authn]
        mod_mid = [vals[pos[term]] for term in t_mid]
    except CoqError as err:
        res.model_err = str(err)[:600]
        mod_contact = mod_authn = mod_mid = None

    PHASES['model_eval_s'] = round(time.time() - t_start, 1)
    # ---- contact-header / TLS-use table
    for (idx, (row, obs)) in enumerate(zip(contact, obs_contact)):
        chk.count('contact.role', row['role'])
        chk.count('contact.require_tls', str(row['require_tls']))
        mid = obs['after_contact']
        impl = dict(proceeds=not mid['closed'], secured=mid['secure'],
                    sessinit=obs['sessinit_clear'] or obs['sessinit_tls'], established=obs['established'])
        nontrivial = mid['closed'] or mid['secure']
        if mod_contact is not None:
            (attempt, (proceeds, secured, spec_ok)) = mod_contact[idx]   # Coq prints ((a, b), c) as (a, b, c)
            model = dict(attempt=bool(attempt), proceeds=bool(proceeds), secured=bool(secured))
            # the model's Proceed = the endpoint goes on: SESS_INIT is emitted (by the active side at once,
            # by the passive side in reply to the peer's) and, the certificate being fine, the session is established
            if (impl['proceeds'], impl['secured'] if impl['proceeds'] else False) != (model['proceeds'], model['secured']) \
                    or impl['sessinit'] != model['proceeds'] or impl['established'] != model['proceeds'] \
                    or obs['secure_calls'] > 1 or (obs['secure_calls'] == 1 and not model['attempt']) \
                    or (model['proceeds'] and model['secured'] and obs['secure_calls'] != 1):
                res.differ(row, dict(impl, secure_calls=obs['secure_calls']), model)
            py_ok = (not went_on(obs)) or py_tls_use_ok(row['require_tls'], bool(local_flags(row, obs) & 1),
                                                        bool(row['peer_flags'] & 1), obs['secure'])
            if bool(spec_ok) != py_ok:
                res.spec_differ(row, dict(tls_use_okb=bool(spec_ok)), dict(tls_use_ok=py_ok, went_on=went_on(obs), secured=obs['secure']))
        chk.case(ident=('contact', json.dumps(row, sort_keys=True)), nontrivial=nontrivial,
                 sample=dict(row=row, observed=impl) if idx in (5, 30) else None)
        for (sig, what) in oracle_contact(row, obs):
            report(sig, what, row)

    # ---- authentication table
    for (idx, (row, (obs, direct))) in enumerate(zip(authn, obs_authn)):
        chk.count('authn.role', row['role'])
        chk.count('authn.san_count', 'no-extension' if row['san'] is None else len(row['san']))
        view = impl_authn_view(obs)
        chk.count('authn.outcome', 'established' if obs['established'] else ('contact-failure' if view['refuses'] else 'other'))
        # the two ways of driving the real code must tell the same story
        direct_refused = direct['refused'] == CONTACT_FAILURE
        if direct_refused != view['refuses'] or (direct['refused'] not in (None, CONTACT_FAILURE)):
            res.differ(row, dict(e2e=view, direct=direct), 'direct call of merge_session_params() disagrees with the message-driven run')
        use_tls = row.get('tls', True)
        # distinct = distinct input of the model (v4/v6 rows with the same abstract identifiers count once);
        # non-trivial = under TLS and the decision leaves the default path (a SAN is presented or a requirement is set)
        nontrivial = bool(use_tls and (row['san'] or row['require_host'] or row['require_node']))
        abstract_key = json.dumps(dict(abstract_authn(row), tls=use_tls), sort_keys=True)
        if mod_authn is not None:
            model = canon_model_authn(mod_authn[idx])
            (failed, _ref) = policy_clauses(row)
            if use_tls:
                direct_fields = [('matched' if isinstance(direct['params'][k], list) else direct['params'][k])
                                 for k in ('authn_ipaddrid', 'authn_dnsid', 'authn_nodeid')]
                if view['refuses'] != model['refuses'] or obs['established'] != (not model['refuses']):
                    res.differ(row, view, model)
                elif obs['established'] and view['authn'] != model['authn']:
                    res.differ(row, view, model)
                elif direct['refused'] is None and direct_fields != model['authn']:
                    res.differ(row, direct, model)
                # the Coq rendering of the specification and the Python oracle read the property alike
                if model['policy_ok'] != (not failed):
                    res.spec_differ(row, dict(policy_okb=model['policy_ok']), dict(failed_clauses=failed))
            else:
                if not obs['established'] or view['authn'] != ['absent'] * 3:
                    res.differ(row, view, 'no TLS: established, nothing authenticated')
        chk.case(ident=('authn', abstract_key), nontrivial=nontrivial,
                 sample=dict(row=row, observed=view) if idx in (7, 333, 801) else None)
        for (sig, what) in oracle_authn(row, obs):
            report(sig, what, row)

    # ---- match_id() on its own
    for (idx, (row, got)) in enumerate(zip(mids, obs_mid)):
        chk.count('match_id.result', got)
        if mod_mid is not None:
            want = {0: 'absent', 1: 'matched', 2: 'mismatch'}[mod_mid[idx]]
            if got != want:
                res.differ(row, got, want)
        # oracle: matched only if the reference is in the certificate
        if got == 'matched' and (row['ref'] is None or row['ref'] not in (row['cert'] or [])):
            report('match_id/false-match', 'match_id(%r, %r) reports a match' % (row['ref'], row['cert']), row)
        chk.case(ident=('match_id', json.dumps(row, sort_keys=True)), nontrivial=bool(row['cert']),
                 sample=dict(row=row, observed=got) if idx == 8 else None)
    return res


def runtime_assumptions():
    ''' Facts the translator relies on, re-checked on the live objects. '''
    import ipaddress
    from tcpcl import contact
    bad = []
    for text in ('0.0.0.0', '::', I.ADDRS['v4'][0], I.ADDRS['v6'][0]):
        if not bool(ipaddress.ip_address(text)):
            bad.append('ipaddress object %s is falsy' % text)
    if int(contact.ContactV4.Flag.CAN_TLS) != 1:
        bad.append('CAN_TLS != 1')
    hdr = contact.ContactV4(flags=1)
    val = (hdr.flags & contact.ContactV4.Flag.CAN_TLS)
    if (val != True) or not (val and val):  # noqa: E712  (the comparison the code performs)
        bad.append('flags & CAN_TLS does not compare equal to True')
    return bad


def load_corpus():
    if not os.path.exists(CORPUS):
        return []
    with open(CORPUS) as infile:
        return [ent['row'] for ent in json.load(infile)['witnesses']]


def main():
    if chk.args.replay:
        with open(chk.args.replay) as infile:
            rep = json.load(infile)
        row = (rep.get('replay') or {}).get('row')
        if row is None:
            # a broken obligation without failing input: re-check the obligations
            ok = chk.coq_props()
            chk.obligation('replay:obligations', ok, getattr(chk, 'coq_failure', ''))
            chk.finish(rule='replay of a broken-obligation report: the proof obligations are re-checked')
        chk.coq_props()
        res = run_rows([row])
        print('replayed row: %s' % json.dumps(row, sort_keys=True))
        if row['kind'] == 'authn':
            print('observed   : %s' % json.dumps(I.run_authn_row(row, 'e2e'), sort_keys=True))
        elif row['kind'] == 'contact':
            print('observed   : %s' % json.dumps(I.run_contact_row(row), sort_keys=True))
        chk.obligation('correspondence:replayed-row', res.agree and res.model_err is None,
                       json.dumps(res.first_diff, default=repr)[:600] if res.first_diff else (res.model_err or ''))
        chk.finish(rule='replay of exactly one stored row through the real code, the model and the oracle')

    quick = chk.quick()
    t_props = time.time()
    props_ok = chk.coq_props()
    PHASES['coq_props_s'] = round(time.time() - t_props, 1)
    (tr_ok, tr_err) = chk.translate_ok('tlspolicy')

    corpus = load_corpus()
    rows = list(corpus)  # witnesses of recorded findings first
    seen = set(json.dumps(r, sort_keys=True) for r in rows)
    table = contact_rows() + authn_rows(quick) + [dict(kind='match_id', ref=ref, cert=cert) for ref in MATCH_REFS for cert in MATCH_CERTS]
    for row in table:
        key = json.dumps(row, sort_keys=True)
        if key not in seen:
            seen.add(key)
            rows.append(row)
    # the model can be evaluated as long as Gen/TlsPolicy.v and Model/TlsSpec.v compile, even if a proof broke
    res = run_rows(rows)

    bad = runtime_assumptions()
    chk.obligation('assumptions:translator-runtime-facts', not bad, '; '.join(bad))
    detail = ''
    if res.model_err:
        detail = 'model does not evaluate: ' + res.model_err
    elif res.first_diff:
        detail = 'first difference: ' + json.dumps(res.first_diff, sort_keys=True, default=repr)[:900]
    corr_ok = res.agree and res.model_err is None
    chk.obligation('correspondence:decision-table(real code vs Gen/TlsPolicy.v)', corr_ok, detail)
    chk.obligation('spec-agreement:Model/TlsSpec.v(policy_okb, tls_use_okb) vs python oracle on every row',
                   res.spec_agree and res.model_err is None,
                   json.dumps(res.spec_diff, sort_keys=True, default=repr)[:900] if res.spec_diff else (res.model_err or ''))
    if tr_ok:
        chk.obligation('translator:tlspolicy', True, '')
    else:
        # fail-closed translator: the last generated model stays in place; the tie is then carried by the
        # exhaustive differential evaluation above (DESIGN 3.1) -- it holds only if every row agreed
        chk.obligation('translator:tlspolicy (failed: %s) -> fallback: exhaustive differential against the last generated model' % tr_err[:300],
                       corr_ok and props_ok, detail)

    # informational (outside the property's quantifier "for all certificates"): the peer presents NO certificate
    # (verify_mode is CERT_OPTIONAL, so getpeercert(True) is None)
    probe = []
    for (role, rh) in itertools.product(I.ROLES, (False, True)):
        obs = I.run_authn_row(dict(kind='authn', role=role, fam='v4', san=None, cert=False, require_host=rh, require_node=False), 'e2e')
        probe.append(dict(role=role, require_host=rh, established=obs['established'], state=obs['state'],
                          term_reasons=obs['term_reasons'], escaped=obs['escaped']))
        if obs['established'] and rh:
            report('%s/require_host/no-peer-certificate' % role_class(dict(role=role)),
                   'session established under TLS with host authentication required and no peer certificate at all',
                   dict(kind='authn', role=role, fam='v4', san=None, cert=False, require_host=rh, require_node=False))
    chk.coverage['no_peer_certificate_probe'] = probe

    if not quick and props_ok:
        # independent re-check of the compiled proofs by the stand-alone checker
        (ret, out) = chk._run(['timeout', '1200', 'coqchk', '-silent', '-o', '-Q', '.', 'DTN', 'DTN.Props.C15'], 1300)
        okay = (ret == 0 and 'Axioms: <none>' in out)
        chk.obligation('coqchk:DTN.Props.C15', okay, out[-600:] if not okay else '')
        chk.trusted_base.append('coqchk -o on DTN.Props.C15: ' + ' '.join(out.split())[-300:])

    chk.coverage['exhaustive'] = True
    chk.coverage['phase_wall_s'] = PHASES
    # none standing: C15_authn is proved at full strength since repository commit 55f212b; the witnesses of the former
    # host-authentication defect (harness/corpus/C15_host_authn.json) are run first and must satisfy the oracle
    chk.coverage['refuted_or_partial_theorems'] = []
    chk.coverage['corpus_rows_run_first'] = len(corpus)
    chk.coverage['oracle_failures_by_signature'] = dict(sorted(viol_counts.items()))
    chk.coverage['translator'] = dict(ok=tr_ok, error=tr_err)
    chk.finish(
        rule=('exhaustive enumeration, no sampling: contact table = role{passive,active} x tls_enable x peer flags octet{00,01,02,03,05,81,fe,ff} (injected as raw octets) x require_tls{None,True,False} '
              'x handshake{ok,fail}; authentication table = address family{v4; v6 (quick tier: v6 only for certificates with at most 2 SANs)} x role{passive, active by address, active by name} x every subset of '
              '{matching IP, other IP, matching DNS, other DNS, matching URI, other URI} SANs + SAN extension without any of these + no SAN extension '
              'x require_host x require_node, plus the full SAN table again with an EMPTY announced node ID and with an EMPTY connect name, certificates with empty '
              'URI/DNS SAN values, rows with the other announced node ID / other connect name / no TLS; match_id() table = 3 references x 6 '
              'certificates.  Each row runs the real ContactHandler (message-driven, and merge_session_params() called directly), the generated Coq definitions '
              '(vm_compute) and the oracle.  distinct = distinct input of the model (authentication rows that differ only in the address family or in '
              'which concrete name plays which role map to the same abstract identifiers and count once); non-trivial = contact row that closes or '
              'secures, authentication row under TLS with at least one SAN or one requirement set, match_id row whose certificate carries identifiers.'),
        assumptions=[
            'harness stubs (dbus, gi.repository.GLib virtual main context) and ssl.match_hostname no-op shim are trusted',
            'Connection.secure() is replaced: on success the connection reports is_secure() and uses a fake TLS socket whose getpeercert(True) returns the '
            'real DER certificate; on failure ssl.SSLError.  Real TLS handshakes and certificate-chain validation are outside the model',
            'translator translate/targets/tlspolicy.py is trusted; bounded by the exhaustive differential evaluation of every translated definition',
            'identifiers are abstract (equality only; the empty string is identifier 0 and is falsy); a peer that presents no certificate at all '
            '(getpeercert() None) is outside the quantifier of the property',
        ])


if __name__ == '__main__':
    main()
