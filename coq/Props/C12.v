(** C12 - A bundle with an unverifiable security block is never delivered.

    Model: Model/BpSecChain.v, [recv_sec c secs data] = the receive chain of bp/agent.py from the BPSec
    steps (order 19 [_verify_bcb], order 20 [_verify_bib]) to the application steps (order 30) and the
    'delete' / 'deliver' tail of [recv_bundle], for a bundle the routing steps marked 'deliver'.
    [secs] = the type-11/12 blocks of the bundle in wire order, each with its verdicts as INPUT
    ([s_visible], [s_ctx], [s_pre], per target [TOk] / [TFail code] / [TRaise]; their cryptographic
    meaning is C03 / C16); [blk_result s] = what [ctx.verify_bib/bcb] answers for the block
    ([VNone] = verified for every target, [VCode c], [VRaised] = an exception escaped).
    Result: [r_reached] (the chain got to the application steps), [r_app] (what an application step
    finds when 'deliver' is recorded), [r_out] = [Delivered payload blocks] | [Deleted reason] | [Dropped].

    Full-strength statement demanded by the property (FALSE for the code as it is, see
    [C12_invisible_refuted]):

      forall c secs data,
        (exists s, In s secs /\ (s_visible s = false \/ blk_result s <> VNone)) ->
        r_reached (recv_sec c secs data) = false /\ r_app (recv_sec c secs data) = None
        /\ exists code, r_out (recv_sec c secs data) = Deleted code /\ 12 <= code <= 16.

    What is proved:
      [C12_fail_closed_partial]  the statement for VISIBLE blocks (the guard excludes exactly the known
                                 finding), for any number and order of blocks, whether the context answers
                                 a failure code or an exception escapes it: no application step, marked
                                 deleted, reason in 12..16 (the codes the contexts answer being security
                                 reasons); [C12_never_delivered] is the part that needs no premise on codes;
      [C12_invisible_refuted]    a type-11/12 block whose BTSD does not dissect is not verified at all and
                                 the bundle is delivered  (DESIGN section 7 #12, known finding);
      [C12_pass_through_accept], [C12_pass_through_keep], [C12_no_security_blocks];
      [C12_live_iteration_refuted]  what the original tree (iteration over the live list) got wrong and
                                 the fixed iteration gets right (DESIGN section 7 #11).
    Fixed since the first version of this file (regression witnesses in harness/corpus): an exception
    escaping [verify_bib]/[verify_bcb] used to give a text reason (no report) or, next to a numeric
    failure, made [max()] raise so that the bundle was neither delivered nor marked deleted; the model
    now has [step_code VRaised = Some FAILED_SEC] and the no-exception guard is gone. *)
From Coq Require Import NArith List Bool.
From DTN Require Import Model.BpSecChain Proofs.BpSecChainProofs.
From DTN Require Import Gen.BpsecLoops Proofs.BpsecLoopsProofs.
Import ListNotations.
Local Open Scope N_scope.

Theorem C12_never_delivered :
  forall (c : cfg) (secs : list secblk) (data : datamap),
    (exists s, In s secs /\ s_visible s = true /\ blk_result s <> VNone) ->
    r_reached (recv_sec c secs data) = false
    /\ r_app (recv_sec c secs data) = None
    /\ exists code, r_out (recv_sec c secs data) = Deleted code.
Proof. exact never_delivered. Qed.
Print Assumptions C12_never_delivered.

(* non-vacuity: BCB fine, first BIB fine, third block (a BIB, last on the wire) fails on its 2nd target *)
Example C12_never_delivered_example :
  let secs := [mkSec false 2 true true PreOk [(1, TOk 0)];
               mkSec true 3 true true PreOk [(1, TOk 8)];
               mkSec false 4 true true PreOk [(5, TOk 0); (1, TFail 15)]] in
  (exists s, In s secs /\ s_visible s = true /\ blk_result s <> VNone)
  /\ render (recv_sec (mkCfg true) secs [(5, 6); (1, 9)]) = (false, [], (1, 15, ([], []))).
Proof.
  split; [|vm_compute; reflexivity].
  eexists. split; [right; right; left; reflexivity|]. split; [reflexivity|]. vm_compute. discriminate.
Qed.

Theorem C12_fail_closed_partial :
  forall (c : cfg) (secs : list secblk) (data : datamap),
    (exists s, In s secs /\ s_visible s = true /\ blk_result s <> VNone) ->
    (forall s code, In s secs -> s_visible s = true -> blk_result s = VCode code -> sec_reason code = true) ->
    r_reached (recv_sec c secs data) = false
    /\ r_app (recv_sec c secs data) = None
    /\ exists code, r_out (recv_sec c secs data) = Deleted code /\ 12 <= code <= 16.
Proof. exact fail_closed. Qed.
Print Assumptions C12_fail_closed_partial.

(* non-vacuity: unknown context (13) in one BIB, an exception escaping the next one (absent target), a third
   that verifies: deleted with the larger code 15 *)
Example C12_fail_closed_partial_example :
  let secs := [mkSec false 2 true false PreOk [(1, TOk 0)];
               mkSec false 3 true true PreOk [(77, TRaise)];
               mkSec false 4 true true PreOk [(1, TOk 0)]] in
  (exists s, In s secs /\ s_visible s = true /\ blk_result s = VRaised)
  /\ forallb (fun s => match blk_result s with VCode code => sec_reason code | _ => true end) secs = true
  /\ render (recv_sec (mkCfg true) secs [(1, 9)]) = (false, [], (1, 15, ([], []))).
Proof.
  split; [|vm_compute; split; reflexivity].
  eexists. split; [right; left; reflexivity|]. split; reflexivity.
Qed.

Theorem C12_invisible_refuted :
  exists (c : cfg) (secs : list secblk) (data : datamap),
    (exists s, In s secs /\ s_visible s = false)
    /\ exists p v, r_out (recv_sec c secs data) = Delivered p v /\ r_app (recv_sec c secs data) = Some (p, v).
Proof. exact invisible_refuted. Qed.
Print Assumptions C12_invisible_refuted.

(** All visible security blocks verify, acceptance configured: delivered, every verified block removed,
    every BCB target replaced by its plaintext, everything else (including blocks the chain cannot see)
    untouched. *)
Theorem C12_pass_through_accept :
  forall (c : cfg) (secs : list secblk) (data : datamap),
    accept_after_verify c = true ->
    (forall s, In s secs -> s_visible s = true -> blk_result s = VNone) ->
    let v := mkView (decrypted secs data) [] in
    recv_sec c secs data = mkRes true (Some (btsd_of PAYLOAD_NUM (v_data v), v))
                                 (Delivered (btsd_of PAYLOAD_NUM (v_data v)) v).
Proof. exact pass_through_accept. Qed.
Print Assumptions C12_pass_through_accept.

Example C12_pass_through_accept_example :
  let secs := [mkSec false 2 true true PreOk [(5, TOk 0)];
               mkSec true 3 true true PreOk [(1, TOk 8)];
               mkSec false 4 true true PreOk [(1, TOk 0); (5, TOk 0)]] in
  forallb (fun s => match blk_result s with VNone => true | _ => false end) secs = true
  /\ render (recv_sec (mkCfg true) secs [(5, 6); (1, 9)])
     = (true, [(8, ([(5, 6); (1, 8)], []))], (0, 8, ([(5, 6); (1, 8)], []))).
Proof. vm_compute. split; reflexivity. Qed.

(** All visible security blocks verify, acceptance not configured: delivered exactly as received.
    (Block numbers are unique - [BundleContainer.reload] refuses a bundle otherwise - and every block
    lists at least one target, RFC 9172 3.6; a block with an empty target list is removed by
    [verify_bib] even without acceptance, see the example below.) *)
Theorem C12_pass_through_keep :
  forall (c : cfg) (secs : list secblk) (data : datamap),
    accept_after_verify c = false ->
    NoDup (map s_num (filter s_visible secs)) ->
    (forall s, In s secs -> s_visible s = true -> s_tgts s <> []) ->
    (forall s, In s secs -> s_visible s = true -> blk_result s = VNone) ->
    let v := view_of secs data in
    recv_sec c secs data = mkRes true (Some (btsd_of PAYLOAD_NUM data, v)) (Delivered (btsd_of PAYLOAD_NUM data) v).
Proof. exact pass_through_keep. Qed.
Print Assumptions C12_pass_through_keep.

Example C12_pass_through_keep_example :
  let secs := [mkSec false 2 true true PreOk [(5, TOk 0)];
               mkSec true 3 true true PreOk [(1, TOk 8)];
               mkSec false 4 true true PreOk [(1, TOk 0); (5, TOk 0)]] in
  forallb (fun s => match blk_result s with VNone => true | _ => false end) secs = true
  /\ render (recv_sec (mkCfg false) secs [(5, 6); (1, 9)])
     = (true, [(9, ([(5, 6); (1, 9)], [(2, [5]); (3, [1]); (4, [1; 5])]))],
        (0, 9, ([(5, 6); (1, 9)], [(2, [5]); (3, [1]); (4, [1; 5])]))).
Proof. vm_compute. split; reflexivity. Qed.

(* the quirk excluded by the third hypothesis: a BIB with no target is dropped without acceptance *)
Example C12_empty_target_list_removed :
  render (recv_sec (mkCfg false) [mkSec false 2 true true PreOk []] [(1, 9)])
  = (true, [(9, ([(1, 9)], []))], (0, 9, ([(1, 9)], []))).
Proof. vm_compute. reflexivity. Qed.

Theorem C12_no_security_blocks :
  forall (c : cfg) (data : datamap),
    recv_sec c [] data =
    mkRes true (Some (btsd_of PAYLOAD_NUM data, mkView data [])) (Delivered (btsd_of PAYLOAD_NUM data) (mkView data [])).
Proof. exact no_security_blocks. Qed.
Print Assumptions C12_no_security_blocks.

(** The original tree walked the live list: with acceptance on, a verified first BIB is removed and the
    BIB after it is skipped - delivered although it does not verify; the fixed iteration deletes it. *)
Theorem C12_live_iteration_refuted :
  exists (c : cfg) (secs : list secblk) (data : datamap),
    (exists s, In s secs /\ s_visible s = true /\ blk_result s <> VNone)
    /\ (exists p v, r_out (recv_sec_live c secs data) = Delivered p v)
    /\ r_out (recv_sec c secs data) = Deleted FAILED_SEC.
Proof. exact live_iteration_refuted. Qed.
Print Assumptions C12_live_iteration_refuted.

(** The detached-payload rule of [decode_msg]: the verdict of a security operation is computed on the target
    block's current data; a payload / ciphertext attached inside the COSE structure never takes its place
    (so a target that differs from what the security source protected cannot be covered up by attaching
    the original).  [open] is the cryptographic check, any function. *)
Theorem C12_verdict_ignores_payload_slot :
  forall (open : N -> N -> option N) (data : datamap) (t auth : N) (slot1 slot2 : option N),
    target_verdict open data t (mkMsg auth slot1) = target_verdict open data t (mkMsg auth slot2).
Proof. exact verdict_ignores_slot. Qed.
Print Assumptions C12_verdict_ignores_payload_slot.

Theorem C12_verdict_on_current_target_data :
  forall (open : N -> N -> option N) (data : datamap) (t : N) (m : cose_msg),
    target_verdict open data t m =
    match open (m_auth m) (btsd_of t data) with Some p => TOk p | None => TFail FAILED_SEC end.
Proof. exact verdict_on_current_data. Qed.
Print Assumptions C12_verdict_on_current_target_data.

(** * Tie to the source: the loop structure the translator reads off bp/app/bpsec.py (Gen/BpsecLoops.v,
    regenerated on every run; any other shape of the loops makes the translator fail closed).

    (1) [Bpsec._verify_bcb] / [_verify_bib] iterate over a snapshot of [ctr.block_type(...)]: the chain with
        the iteration kinds of the source IS [recv_sec], so the fail-closed theorem holds for it.  (Were either
        generated boolean [false] - iteration over the live list - this proof would not type-check;
        [C12_live_walk_skips_a_block] shows what would go wrong.) *)
Theorem C12_source_chain_fail_closed :
  forall (c : cfg) (secs : list secblk) (data : datamap),
    (exists s, In s secs /\ s_visible s = true /\ blk_result s <> VNone) ->
    (forall s code, In s secs -> s_visible s = true -> blk_result s = VCode code -> sec_reason code = true) ->
    let r := recv_sec_as verify_bcb_iterates_snapshot verify_bib_iterates_snapshot c secs data in
    r_reached r = false /\ r_app r = None /\ exists code, r_out r = Deleted code /\ 12 <= code <= 16.
Proof. exact source_chain_fail_closed. Qed.
Print Assumptions C12_source_chain_fail_closed.

Theorem C12_snapshot_walk_counts_every_block :
  forall (c : cfg) (l : list secblk) (v : view) (s : secblk),
    In s l -> blk_result s <> VNone -> snd (verify_all c l v) <> [].
Proof. exact snapshot_counts_every_block. Qed.
Print Assumptions C12_snapshot_walk_counts_every_block.

Theorem C12_live_walk_skips_a_block :
  exists (c : cfg) (secs : list secblk) (v : view) (s : secblk),
    In s secs /\ blk_result s <> VNone /\ snd (verify_live (S (length secs)) c secs false 0 v) = [].
Proof. exact live_skips_a_block. Qed.
Print Assumptions C12_live_walk_skips_a_block.

(** (2) [CoseContext.verify_bib] / [verify_bcb] look the result of every target up by its index: with the loop
        kinds of the source every target is visited, and a target that has no result makes the block fail. *)
Theorem C12_source_target_loop_covers_every_target :
  forall (R : Type) (targets : list N) (results : list R),
    map fst (target_loop R verify_bib_results_by_index targets results) = targets
    /\ map fst (target_loop R verify_bcb_results_by_index targets results) = targets.
Proof. exact source_target_loop_covers. Qed.
Print Assumptions C12_source_target_loop_covers_every_target.

Theorem C12_source_target_without_result_fails :
  forall (R : Type) (judge : N -> R -> tres) (targets : list N) (results : list R) (t : N) (k : nat),
    nth_error targets k = Some t -> nth_error results k = None ->
    tgts_result (verdicts R judge (target_loop R verify_bib_results_by_index targets results)) <> VNone
    /\ tgts_result (verdicts R judge (target_loop R verify_bcb_results_by_index targets results)) <> VNone.
Proof. exact source_target_without_result_fails. Qed.
Print Assumptions C12_source_target_without_result_fails.

Theorem C12_zip_skips_a_target :
  exists (targets : list N) (results : list N) (t : N),
    In t targets /\ ~ In t (map fst (target_loop N false targets results))
    /\ tgts_result (verdicts N (fun _ r => TOk r) (target_loop N false targets results)) = VNone.
Proof. exact zip_skips_a_target. Qed.
Print Assumptions C12_zip_skips_a_target.

Theorem C12_zip_covers_only_the_shorter_list :
  forall (R : Type) (targets : list N) (results : list R),
    length (target_loop R false targets results) = Nat.min (length targets) (length results).
Proof. exact by_zip_length. Qed.
Print Assumptions C12_zip_covers_only_the_shorter_list.

(** (3) an exception escaping [ctx.verify_bib] / [ctx.verify_bcb] is entered into the failure list as FAILED_SEC,
        which is what the model's [step_code VRaised] says. *)
Theorem C12_source_exception_is_failed_sec :
  exception_code verify_bib_exception_failed_sec = step_code VRaised
  /\ exception_code verify_bcb_exception_failed_sec = step_code VRaised.
Proof. exact source_exception_is_failed_sec. Qed.
Print Assumptions C12_source_exception_is_failed_sec.
