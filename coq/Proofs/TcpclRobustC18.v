(** C18: the D-Bus view of the endpoint model [Model/TcpclSess.v] is
    type-correct (every signal and return value conforms to its declared
    signature, [Gen/DBusSigs.v]) and consistent (queues, idle flag). *)
From Coq Require Import ZArith NArith List Bool Lia ZifyBool ZifyN ZifyNat Arith.
From RecordUpdate Require Import RecordSet.
From DTN Require Import Lib.Bytes Model.TcpclMsg Model.TcpclSess Gen.DBusSigs Model.DbusSig
  Proofs.TcpclMsgProofs Proofs.TcpclSessBasics Proofs.TcpclRobustLib.
Import ListNotations RecordSetNotations.
Local Open Scope N_scope.
Ltac Zify.zify_post_hook ::= Z.div_mod_to_equations.

(** * 18c: the idle flag is sound *)
Theorem idle_sound : forall s,
  q_idle s = true ->
  pend_start s = [] /\ tx_tmp s = None /\ pend_ack s = [] /\ rx_tmp s = None
  /\ rx_buf s = [] /\ msg_tx s = [].
Proof.
  intros s. unfold q_idle, is_sess_idle, is_nil. intros H.
  destruct (rx_buf s), (msg_tx s), (rx_tmp s), (tx_tmp s), (pend_start s), (pend_ack s);
    cbn in H; try discriminate H; repeat split.
Qed.

(** * 18a: every event conforms to the declared signature *)

Definition conf (e : event) : Prop := event_conforms e = true.

Lemma conf_state st : conf (ESig SigState [PStr st]).
Proof. reflexivity. Qed.
Lemma conf_closed : conf EClosed.
Proof. reflexivity. Qed.
Lemma conf_exc k : conf (EExc k).
Proof. reflexivity. Qed.
Lemma conf_pop id d : conf (EPop id d).
Proof. reflexivity. Qed.
Lemma conf_ret id : conf (ERet 1 (PStrNum id)).
Proof. reflexivity. Qed.
Lemma conf_rstart xid : conf (ev_rstart xid).
Proof. reflexivity. Qed.

Lemma conf_int2 sg a n :
  (sg = SigSendStarted \/ sg = SigSendInter \/ sg = SigRecvInter) ->
  n < 2^64 -> conf (ESig sg [PStrNum a; PInt n]).
Proof.
  intros Hs H. apply N.ltb_lt in H. unfold conf.
  destruct Hs as [ -> | [ -> | -> ] ]; cbn in *; rewrite H; reflexivity.
Qed.

Lemma conf_sstarted id n : n < 2^64 -> conf (ESig SigSendStarted [PStrNum id; PInt n]).
Proof. apply conf_int2. auto. Qed.
Lemma conf_sinter id n : n < 2^64 -> conf (ev_sinter id n).
Proof. apply conf_int2. auto. Qed.
Lemma conf_rinter id n : n < 2^64 -> conf (ev_rinter id n).
Proof. apply conf_int2. auto. Qed.

Lemma conf_sfin id n res : n < 2^64 -> conf (ev_sfin id n res).
Proof. intros H. apply N.ltb_lt in H. unfold conf. cbn in *. rewrite H. reflexivity. Qed.
Lemma conf_rfin id n : n < 2^64 -> conf (ev_rfin id n).
Proof. intros H. apply N.ltb_lt in H. unfold conf. cbn in *. rewrite H. reflexivity. Qed.

Lemma conf_flush l : Forall conf (map fin_term_ev l).
Proof.
  induction l; cbn [map]; constructor; [|assumption].
  apply (conf_sfin (fst a) 0 RES_TERMINATING). lia.
Qed.

(** ** The quantities that must stay below 2^64 *)

Definition K1 (s : ep) : Prop := Forall (fun kv : N * N => snd kv < 2^64) (tx_map s).
Definition K3 (s : ep) : Prop :=
  Forall (fun it : N * bytes => N.of_nat (length (snd it)) < 2^64) (pend_start s).
Definition rx_acc_len (s : ep) : nat := match rx_tmp s with Some (_, a) => length a | None => 0%nat end.
Definition seg_len (m : msg) : nat := match m with MXferSeg _ _ _ d => length d | _ => 0%nat end.
Definition fseg_len (f : frame) : nat := match f with FMsg m => seg_len m | FContact _ => 0%nat end.

Lemma Forall_dict_set {V} (P : N * V -> Prop) k v d : P (k, v) -> Forall P d -> Forall P (dict_set k v d).
Proof.
  intros Hv. induction d as [|[k' v'] d IH]; cbn [dict_set]; intros F.
  - constructor; [exact Hv|constructor].
  - inversion F; subst. destruct (k' =? k); constructor; auto.
Qed.

Lemma Forall_dict_del {V} (P : N * V -> Prop) k d : Forall P d -> Forall P (dict_del k d).
Proof.
  induction d as [|[k' v'] d IH]; cbn [dict_del]; intros F; [constructor|].
  inversion F; subst. destruct (k' =? k); [assumption|constructor; auto].
Qed.

Lemma Forall_del_all (P : N * N -> Prop) l d : Forall P d -> Forall P (del_all l d).
Proof.
  unfold del_all. revert d. induction l as [|it l IH]; cbn [fold_left]; intros d F; [exact F|].
  apply IH, Forall_dict_del, F.
Qed.

Lemma dict_get_Forall {V} (P : N * V -> Prop) k d v : Forall P d -> dict_get k d = Some v -> P (k, v).
Proof.
  induction d as [|[k' v'] d IH]; cbn [dict_get]; intros F H; [discriminate|].
  inversion F; subst. destruct (N.eqb_spec k' k) as [->|].
  - injection H as <-. assumption.
  - auto.
Qed.

Ltac has_end_split :=
  try match goal with |- context[seg_result ?f _ _ _] =>
    let He := fresh "He" in
    destruct (has_end f) eqn:He; [rewrite seg_result_end by exact He|rewrite seg_result_more by exact He]
  end.

Lemma hm_rx_buf m s r : hm_spec m s r -> rx_buf (fst r) = rx_buf s.
Proof. intros H; destruct H; has_end_split; ep_cbn; reflexivity. Qed.

Lemma hm_acc m s r : hm_spec m s r -> (rx_acc_len (fst r) <= rx_acc_len s + seg_len m)%nat.
Proof.
  intros H; destruct H; has_end_split; unfold rx_acc_len; ep_cbn; cbn [seg_len];
    repeat match goal with H : rx_tmp _ = _ |- _ => rewrite H end;
    rewrite ?app_length; cbn [length]; try lia.
  all: destruct (rx_tmp s) as [[? ?]|]; lia.
Qed.

Lemma hm_K3 m s r : hm_spec m s r -> K3 s -> K3 (fst r).
Proof.
  intros H J; destruct H; has_end_split; unfold K3 in *; ep_cbn;
    first [exact J | apply Forall_nil | apply Forall_dict_del; exact J].
Qed.

Lemma hm_K1 m s r : hm_spec m s r -> wf_msg m -> K1 s -> K1 (fst r).
Proof.
  intros H W J; destruct H; has_end_split; unfold K1 in *; ep_cbn; cbn [wf_msg] in W;
    repeat first [ exact J | apply Forall_del_all | apply Forall_dict_del | apply Forall_dict_set
                 | progress cbn [snd]; lia ].
Qed.

(** Conformance of the events one message adds. *)
Lemma hm_conf m s r :
  hm_spec m s r -> wf_msg m -> K1 s -> N.of_nat (rx_acc_len s + seg_len m) < 2^64 ->
  ext_by conf s (fst r).
Proof.
  intros H W J Hb; destruct H; has_end_split; cbn [wf_msg seg_len] in *; unfold rx_acc_len in *;
    repeat match goal with H : rx_tmp _ = _ |- _ => rewrite H in Hb end;
    try match goal with H : dict_get _ (tx_map _) = Some _ |- _ =>
          pose proof (dict_get_Forall _ _ _ _ J H) as Hack; cbn [snd] in Hack end;
    unfold ext_by; ep_cbn; repeat brk_any;
    ext_close ltac:(first [ apply conf_state | apply conf_closed | apply conf_rstart | apply conf_flush
                          | apply conf_sinter; lia | apply conf_rinter; rewrite ?app_length; lia
                          | apply conf_sfin; lia | apply conf_rfin; rewrite ?app_length; lia ]).
Qed.

(** ** The same for one frame *)

Lemma rf_rx_buf f s r : rf_spec f s r -> rx_buf (fst r) = rx_buf s.
Proof.
  intros H; destruct H; try (apply hm_rx_buf in H; ep_cbn_all); ep_cbn; try assumption; reflexivity.
Qed.

Lemma rf_acc f s r : rf_spec f s r -> (rx_acc_len (fst r) <= rx_acc_len s + fseg_len f)%nat.
Proof.
  intros H; destruct H; try (apply hm_acc in H); unfold rx_acc_len in *; cbn [fseg_len]; ep_cbn_all; ep_cbn;
    try assumption; lia.
Qed.

Lemma rf_K3 f s r : rf_spec f s r -> K3 s -> K3 (fst r).
Proof.
  intros H J; destruct H; try (apply hm_K3 in H; [|exact J]); unfold K3 in *; ep_cbn_all; ep_cbn;
    repeat brk_any; first [assumption | apply Forall_nil].
Qed.

Lemma rf_K1 f s r : rf_spec f s r -> wf_frame f -> K1 s -> K1 (fst r).
Proof.
  intros H W J; destruct H; try (apply hm_K1 in H; [|exact W|exact J]); unfold K1 in *; ep_cbn_all; ep_cbn;
    repeat brk_any; first [assumption | apply Forall_del_all; assumption].
Qed.

Lemma rf_conf f s r :
  rf_spec f s r -> wf_frame f -> K1 s -> N.of_nat (rx_acc_len s + fseg_len f) < 2^64 ->
  ext_by conf s (fst r).
Proof.
  intros H W J Hb; destruct H.
  7-9: (apply hm_conf in H; [|exact W|exact J|exact Hb]; cbn [fst] in *;
        first [exact H | eapply ext_trans; [exact H|]; apply ext_same; ep_cbn; reflexivity]).
  all: unfold ext_by; ep_cbn; repeat brk_any;
       ext_close ltac:(first [ apply conf_state | apply conf_closed | apply conf_flush ]).
Qed.

(** ** The receive loop *)

Record inv18 (B : nat) (s : ep) : Prop := {
  k_map : K1 s;
  k_buf : wf_bytes (rx_buf s);
  k_pend : K3 s;
  k_acc : (rx_acc_len s + length (rx_buf s) <= B)%nat
}.

Lemma encode_frame_len f : (fseg_len f <= length (encode_frame f))%nat.
Proof.
  destruct f as [c|m]; cbn [fseg_len]; [lia|].
  destruct m; cbn [seg_len]; try lia.
  unfold encode_frame, encode_msg. rewrite !app_length. lia.
Qed.

Lemma recv_loop_conf B fuel s0 :
  N.of_nat B < 2^64 -> inv18 B s0 ->
  inv18 B (fst (recv_loop fuel s0)) /\ ext_by conf s0 (fst (recv_loop fuel s0)).
Proof.
  intros HB I0.
  apply (recv_loop_inv (fun s => inv18 B s /\ ext_by conf s0 s)); [|split; [exact I0|apply ext_refl]].
  intros s fr rest [[J1 J2 J3 J4] He] Hc Hp.
  set (s1 := s <| rx_buf := rest |> <| handled := handled s ++ [fr] |>).
  pose proof (recv_frame_spec fr s1) as Hs.
  destruct (frame_parse_sound _ _ _ _ J2 Hp) as (Eb & [Wf _] & Wr).
  pose proof (encode_frame_len fr) as Hl.
  assert (Hlen : length (rx_buf s) = (length (encode_frame fr) + length rest)%nat)
    by (rewrite Eb, app_length; reflexivity).
  assert (A1 : rx_acc_len s1 = rx_acc_len s) by reflexivity.
  assert (Hb : N.of_nat (rx_acc_len s1 + fseg_len fr) < 2^64) by lia.
  assert (K1s : K1 s1) by exact J1.
  assert (K3s : K3 s1) by exact J3.
  split; [split|].
  - apply (rf_K1 _ _ _ Hs Wf K1s).
  - rewrite (rf_rx_buf _ _ _ Hs). exact Wr.
  - apply (rf_K3 _ _ _ Hs K3s).
  - rewrite (rf_rx_buf _ _ _ Hs). pose proof (rf_acc _ _ _ Hs) as X.
    change (rx_buf s1) with rest. lia.
  - eapply ext_trans; [exact He|].
    destruct (rf_conf _ _ _ Hs Wf K1s Hb) as [evs [E F]]. exists evs. split; [exact E|exact F].
Qed.

(** ** One operation *)

Definition op_ok (o : op) : Prop :=
  match o with
  | OSend d => N.of_nat (length d) < 2^64
  | ORx d => wf_bytes d
  | _ => True
  end.
Definition rx_len (o : op) : nat := match o with ORx d => length d | _ => 0%nat end.
Definition rx_total (ops : list op) : nat := list_sum (map rx_len ops).

Lemma inv18_mono B B' s : (B <= B')%nat -> inv18 B s -> inv18 B' s.
Proof. intros H [J1 J2 J3 J4]. split; try assumption. lia. Qed.

Ltac k_solve :=
  repeat first [ assumption | apply Forall_nil | apply Forall_app; split
               | apply Forall_dict_set | apply Forall_dict_del | apply Forall_del_all
               | apply Forall_cons | progress cbn [snd fst] | lia ].
Ltac conf_all :=
  first [ apply conf_state | apply conf_closed | apply conf_exc | apply conf_pop | apply conf_ret
        | apply conf_flush | apply conf_sstarted; cbn [snd] in *; first [assumption | lia] ].
Ltac k18_leaf :=
  try match goal with J : Forall _ (_ :: _) |- _ => inversion J; subst end;
  split; [split; [ unfold K1; ep_cbn; repeat brk_any; k_solve | ep_cbn; assumption
                 | unfold K3; ep_cbn; repeat brk_any; try match goal with H : pend_start _ = _ |- _ => rewrite H end; k_solve
                 | unfold rx_acc_len in *; ep_cbn; lia ]
         | unfold ext_by; ep_cbn; repeat brk_any; ext_close conf_all ].

Lemma step_conf B s o :
  inv18 B s -> op_ok o -> N.of_nat (B + rx_len o) < 2^64 ->
  inv18 (B + rx_len o) (step s o) /\ ext_by conf s (step s o).
Proof.
  intros I Hok HB. destruct o; cbn [rx_len op_ok] in *.
  7:{ (* ORx *)
    cbn [step].
    assert (Triv : inv18 (B + length data) s /\ ext_by conf s s)
      by (split; [eapply inv18_mono; [|exact I]; lia|apply ext_refl]).
    destruct (closed s); [exact Triv|].
    destruct (is_nil data || negb (rx_alive s)); [exact Triv|]. clear Triv.
    unfold recv_raw.
    match goal with |- context[recv_loop ?f ?x] =>
      assert (Ix : inv18 (B + length data) x);
      [|destruct (recv_loop_conf _ f x HB Ix) as [I' He]; destruct (recv_loop f x) as [s' r]] end.
    { destruct I as [J1 J2 J3 J4]. split; [exact J1| | exact J3|].
      - ep_unf. ep_cbn. apply wf_bytes_app. split; assumption.
      - unfold rx_acc_len in *. ep_unf. ep_cbn. rewrite app_length. lia. }
    cbn [fst] in *.
    assert (He0 : ext_by conf s s').
    { destruct He as [evs [E F]]. exists evs. split; [|exact F]. rewrite E. ep_unf. ep_cbn. reflexivity. }
    destruct r as [k|]; [|split; assumption].
    destruct I' as [J1 J2 J3 J4]. split.
    - split; [exact J1|exact J2|exact J3|exact J4].
    - eapply ext_trans; [exact He0|]. exists [EExc k]. split; [reflexivity|].
      constructor; [apply conf_exc|constructor]. }
  all: rewrite Nat.add_0_r; destruct I as [J1 J2 J3 J4]; unfold K1, K3 in J1, J3; cbn [step].
  all: try (unfold tx_proxy); try (unfold process_queue, send_next); try (unfold send_sess_term).
  all: brk.
  all: k18_leaf.
Qed.

(** ** 18a *)

Lemma rx_total_snoc ops o : rx_total (ops ++ [o]) = (rx_total ops + rx_len o)%nat.
Proof. unfold rx_total. rewrite map_app, list_sum_app. simpl. lia. Qed.

Lemma inv18_init c : inv18 0 (init c).
Proof. split; cbn; try constructor. Qed.

(** Every length that crosses the D-Bus boundary stays below 2^64 provided
    every bundle handed to [send_bundle_data] is shorter than 2^64 octets, what is
    received are octets, and fewer than 2^64 of them are received in all. *)
Theorem conforms_run : forall c ops,
  Forall op_ok ops -> N.of_nat (rx_total ops) < 2^64 ->
  Forall (fun e => event_conforms e = true) (trace (run c ops)).
Proof.
  intros c ops.
  enough (G : Forall op_ok ops -> N.of_nat (rx_total ops) < 2^64 ->
              inv18 (rx_total ops) (run c ops) /\ Forall conf (trace (run c ops)))
    by (intros H1 H2; exact (proj2 (G H1 H2))).
  induction ops as [|o ops IH] using rev_ind; intros Hok HB.
  - split; [apply inv18_init|constructor].
  - rewrite rx_total_snoc in *. apply Forall_app in Hok. destruct Hok as [Hok Ho].
    inversion Ho; subst. destruct IH as [I F]; [exact Hok|lia|].
    rewrite run_snoc. destruct (step_conf _ _ o I) as [I' [evs [E Fe]]]; [assumption|exact HB|].
    split; [exact I'|]. rewrite E. apply Forall_app. split; assumption.
Qed.
