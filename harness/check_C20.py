''' C20 -- BTP-U messages round-trip and segmented transfers reassemble.

  1. proofs: coq/Props/C20.v (codec round trip, declared lengths, re-encoding,
     every frame within the MTU for all lengths x MTUs, tiling, >= 2 segments,
     reassembly for every arrival permutation) re-checked by coqc,
  2. correspondence of coq/Model/Btpu.v with the real code on the same inputs:
       codec   real scapy classes of btpu/messages.py   vs encode_frame / decode_frame / view
       decode  dissection + re-encoding of octet strings vs decode_frame / encode_frame
       send    Agent._send_transfer                      vs send_transfer
       recv    Agent._recv_msg, recv_bundle_finished,
               recv_bundle_get_queue / recv_bundle_pop_data vs recv_frame
  3. the property oracle (written from the property text with its own
     20-line parser of the wire format, not from the code) on every
     observation of the real implementation.
'''
import env  # noqa: F401  (first: sys.path for stubs and the repo under test)
import glob
import itertools
import json
import os
import struct
import sys
import time
from io import BytesIO

from common import Check, CoqError, coq_list, coq_N, coq_nat, mkdata, VERIF

import dbus.bus
import dbus.service
from gi.repository import GLib
from scapy.packet import Raw, NoPayload
import btpu.agent as bagent
import btpu.config as bconfig
import btpu.messages as bm

SIG_LEN20 = ('C20 / _send_transfer / message length >= 2^20 overflows the 20-bit length field '
             '(unsegmented bundle, mtu None or > len+4)')
LEN_MOD = 1 << 20
BIG = 400  # bundles/payloads longer than this are compared by (length, prefix, digest)


# ----------------------------------------------------------------------------------------------
# independent statement of the wire format (oracle side)

class Bad(Exception):
    pass


def spec_parse_msg(buf, off):
    ''' One message at ``off``: (type, flags, [(hint type, hint data)], payload), next offset.
    Raises Bad if the declared lengths do not fit the octets. '''
    if len(buf) - off < 4:
        raise Bad('short header')
    mtype = buf[off]
    word = int.from_bytes(buf[off + 1:off + 4], 'big')
    flags = word >> 20
    length = word & 0xFFFFF
    body = buf[off + 4:off + 4 + length]
    if len(body) != length:
        raise Bad('declared length %d but %d octets follow' % (length, len(body)))
    hints = []
    pos = 0
    if flags & 0x8:
        while True:
            if len(body) - pos < 2:
                raise Bad('short hint header')
            htype = body[pos] >> 1
            more = body[pos] & 1
            hlen = body[pos + 1]
            hdata = body[pos + 2:pos + 2 + hlen]
            if len(hdata) != hlen:
                raise Bad('hint declares %d octets, %d present' % (hlen, len(hdata)))
            hints.append((htype, bytes(hdata)))
            pos += 2 + hlen
            if not more:
                break
    return ((mtype, flags, hints, bytes(body[pos:])), off + 4 + length)


def spec_parse_frame(buf):
    ''' Messages until the first zero octet (padding) or the end. '''
    msgs = []
    off = 0
    while off < len(buf) and buf[off] != 0:
        (msg, off) = spec_parse_msg(buf, off)
        msgs.append(msg)
    return (msgs, bytes(buf[off:]))


def digest(data):
    ''' same as Model.Btpu.digest '''
    acc = 5381
    for octet in data:
        acc = (acc * 33 + octet) & 0xFFFFFFFF
    return acc


_BLOCKS = {}


def gdata(seed, length):
    ''' same as Model.Btpu.gdata: the 251-octet block mkdata(seed, 251) repeated '''
    blk = _BLOCKS.get(seed)
    if blk is None:
        blk = _BLOCKS[seed] = mkdata(seed, 251)
    return (blk * (length // 251 + 1))[:length]


# ----------------------------------------------------------------------------------------------
# driving the real code

def mk_agent(mtu):
    cfg = bconfig.Config(mtu_default=mtu)
    cfg._bus_conn = dbus.bus.BusConnection()
    return bagent.Agent(cfg, bus_kwargs=dict(conn=cfg._bus_conn, object_path='/btpu'))


def real_send(mtu, xid, data):
    ''' Octets of every frame the agent yields for one send request.
    :return: (frames, terminated) '''
    agent = mk_agent(mtu)
    item = bagent.BundleItem(address='00:11:22:33:44:55', file=BytesIO(data), transfer_id=xid,
                             total_length=len(data))
    limit = len(data) + 3
    frames = [bytes(frm) for frm in itertools.islice(agent._send_transfer(item), limit)]
    return (frames, len(frames) < limit)


LOCAL_MAC = bytes([0, 0x11, 0x22, 0x33, 0x44, 0xff])


def conv_desc(cnum):
    ''' A conversation is (peer number, VLAN tag or None); a bare number means no VLAN tag. '''
    return cnum if isinstance(cnum, tuple) else (cnum, None)


def peer_mac(num):
    return bytes([0, 0x11, 0x22, 0x33, 0x44, num & 0xFF])


def mk_conv(cnum):
    (num, vlan) = conv_desc(cnum)
    return bagent.EthernetChannel(
        local_if='eth0',
        peer_address=bagent.macaddress.EUI48(peer_mac(num)),
        local_address=bagent.macaddress.EUI48(LOCAL_MAC),
        vlan_tag=vlan,
    )


def chan_tuple(cnum):
    ''' The channel as the model names it: (local_if, peer, local, [vlan]) with 'eth0' = 1 and
    addresses as the 48-bit values of their octets. '''
    (num, vlan) = conv_desc(cnum)
    return (1, int.from_bytes(peer_mac(num), 'big'), int.from_bytes(LOCAL_MAC, 'big'), [] if vlan is None else [vlan])


def addr_value(text):
    ''' '00-11-22-33-44-01' / '00:11:...' -> 48-bit value; anything else -> the text itself '''
    try:
        return int(str(text).replace('-', '').replace(':', ''), 16)
    except ValueError:
        return str(text)


def real_recv(arrival):
    ''' Feed (conversation, frame octets) pairs to a fresh agent's receive
    function; a conversation is a peer number or (peer number, VLAN tag).
    Observations: after each frame the number of recv_bundle_finished
    signals so far and whether an exception escaped; at the end the signals
    (id, length, id as sent, peer address from the metadata), the queue as
    listed and popped over the D-Bus methods, the registered timers and (best
    effort, private) the transfers still in progress. '''
    agent = mk_agent(None)
    del dbus.service.EVENT_LOG[:]
    GLib.CTX.reset()
    convs = {}
    trace = []
    for (cnum, frame) in arrival:
        conv = convs.setdefault(conv_desc(cnum), mk_conv(cnum))
        raised = False
        try:
            agent._recv_msg(None, bytes(frame), conv)
        except Exception:
            raised = True
        nsig = len([evt for evt in dbus.service.EVENT_LOG
                    if evt['kind'] == 'signal' and evt['name'] == 'recv_bundle_finished'])
        trace.append((nsig, raised))
    signals = []
    for evt in dbus.service.EVENT_LOG:
        if evt['kind'] == 'signal' and evt['name'] == 'recv_bundle_finished':
            meta = evt['args'][2] if len(evt['args']) > 2 and isinstance(evt['args'][2], dict) else {}
            signals.append((int(evt['args'][0]), int(evt['args'][1]), str(evt['args'][0]), addr_value(meta.get('address'))))
    timers = len([src for src in GLib.CTX.sources.values() if src.kind == 'timeout'])
    progress = None
    raw_prog = getattr(agent, '_rx_progres', None)
    if isinstance(raw_prog, dict):
        try:
            keyconv = {}
            for (desc, conv) in convs.items():
                keyconv.setdefault(conv.key, desc)
            progress = []
            for ((ckey, xnum), xfer) in raw_prog.items():
                idxs = sorted(xfer.data.keys())
                progress.append(chan_tuple(keyconv[ckey]) + (int(xnum), [] if xfer.got_end is None else [int(xfer.got_end)], idxs))
            progress.sort(key=repr)
        except Exception:
            progress = None
    queue_ids = [str(bid) for bid in agent.recv_bundle_get_queue()]
    queue = [(int(bid), bytes(agent.recv_bundle_pop_data(bid))) for bid in queue_ids]
    left = [str(bid) for bid in agent.recv_bundle_get_queue()]
    return dict(trace=trace, signals=signals, timers=timers, progress=progress, queue=queue, left=left)


def build_real(case):
    ''' Abstract message (kind, flags|None, hints, xfer, idx, data) -> scapy packet,
    built the way the agent builds them. '''
    (kind, flags, hints, xfer, idx, data) = case
    kwargs = {}
    if flags is not None:
        kwargs['flags'] = flags
    if hints:
        kwargs['hints'] = [bm.HintHead(hint_type=htype) / Raw(hdata) for (htype, hdata) in hints]
    if kind == 1:
        return bm.MessageHead(**kwargs) / bm.DefinitePadding(data)
    if kind == 2:
        return bm.MessageHead(**kwargs) / bm.BundlePdu(data)
    if kind == 3:
        return bm.MessageHead(**kwargs) / bm.TransferSeg(xfer_num=xfer, seg_idx=idx) / Raw(data)
    if kind == 4:
        return bm.MessageHead(**kwargs) / bm.TransferEnd(xfer_num=xfer, seg_idx=idx) / Raw(data)
    if kind == 5:
        pkt = bm.MessageHead(**kwargs) / bm.TransferCancel(xfer_num=xfer)
        return pkt / Raw(data) if data else pkt
    return bm.MessageHead(msg_type=kind, **kwargs) / Raw(data)


def expect_msg(case):
    ''' What the abstract message means on the wire, by the format's definition. '''
    (kind, flags, hints, xfer, idx, data) = case
    if kind in (3, 4):
        body = struct.pack('>II', xfer, idx) + data
    elif kind == 5:
        body = struct.pack('>I', xfer) + data
    else:
        body = data
    if flags is None:
        flags = 8 if hints else 0
    return (kind, flags, [(htype, bytes(hdata)) for (htype, hdata) in hints], bytes(body))


def real_build_frame(msgs, pad):
    pkt = bm.MessageSet(msgs=[build_real(case) for case in msgs])
    if pad:
        pkt = pkt / Raw(pad)
    return bytes(pkt)


def layer_bytes(pkt):
    return b'' if isinstance(pkt, NoPayload) else bytes(pkt)


def real_view(msg):
    pay = msg.payload
    cls = type(pay)
    if cls is bm.DefinitePadding:
        return (1, 0, 0, bytes(pay.load))
    if cls is bm.BundlePdu:
        return (2, 0, 0, bytes(pay.load))
    if cls is bm.TransferSeg:
        return (3, int(pay.xfer_num), int(pay.seg_idx), layer_bytes(pay.payload))
    if cls is bm.TransferEnd:
        return (4, int(pay.xfer_num), int(pay.seg_idx), layer_bytes(pay.payload))
    if cls is bm.TransferCancel:
        return (5, int(pay.xfer_num), 0, b'')
    return (0, 0, 0, b'')


def real_dissect(octets):
    ''' Dissect with the real classes.  Returns dict(valid, msgs, pad, views,
    reenc, rebuilt) where ``valid`` says the dissection is clean: every item a
    MessageHead whose declared lengths equal the actual ones and whose hints
    are all hint headers (scapy falls back to Raw layers instead of failing). '''
    try:
        pset = bm.MessageSet(bytes(octets))
    except Exception as err:
        return dict(valid=False, error=err.__class__.__name__)
    valid = True
    msgs = []
    views = []
    rebuilt = []
    for item in pset.msgs:
        if not isinstance(item, bm.MessageHead):
            valid = False
            continue
        hints = []
        hints_len = 0
        for (pos, hnt) in enumerate(item.hints):
            if not isinstance(hnt, bm.HintHead):
                valid = False
                continue
            hdata = layer_bytes(hnt.payload)
            if hnt.length != len(hdata):
                valid = False
            want_flag = 1 if pos < len(item.hints) - 1 else 0
            if hnt.h_flag != want_flag:
                valid = False
            hints.append((int(hnt.hint_type), hdata))
            hints_len += 2 + len(hdata)
        body = layer_bytes(item.payload)
        flags = int(item.flags)
        if item.length != hints_len + len(body):
            valid = False
        if bool(flags & 0x8) != bool(hints):
            valid = False
        msgs.append((int(item.msg_type), flags, hints, body))
        views.append(real_view(item))
        # rebuild from the field values alone (no dissection cache, lengths recomputed)
        fresh = bm.MessageHead(msg_type=int(item.msg_type), flags=flags,
                               hints=[bm.HintHead(hint_type=htype) / Raw(hdata) for (htype, hdata) in hints])
        rebuilt.append(bytes(fresh / Raw(body)) if body else bytes(fresh))
    pad = layer_bytes(pset.payload)
    try:
        reenc = bytes(pset)
    except Exception as err:
        reenc = None
    return dict(valid=valid, msgs=msgs, pad=pad, views=views, reenc=reenc,
                rebuilt=b''.join(rebuilt) + pad)


# ----------------------------------------------------------------------------------------------
# oracles: the property text over the implementation's observable outputs

def fits_field_ranges(case):
    (kind, flags, hints, xfer, idx, data) = case
    hint_len = sum(2 + len(hdata) for (_t, hdata) in hints)
    extra = {3: 8, 4: 8, 5: 4}.get(kind, 0)
    return hint_len + extra + len(data) < LEN_MOD


def oracle_codec(msgs, pad, enc):
    ''' Every message set built decodes to the same messages, declared lengths
    equal actual lengths, and decoding then re-encoding reproduces the frame. '''
    want = [expect_msg(case) for case in msgs]
    try:
        (got, gpad) = spec_parse_frame(enc)
    except Bad as err:
        return 'declared length differs from actual length: %s' % err
    if got != want or gpad != bytes(pad):
        return 'encoded frame does not carry the messages that were built'
    dis = real_dissect(enc)
    if not dis.get('valid'):
        return 'dissection of the built frame is not clean (%s)' % dis.get('error', 'fallback layers')
    if dis['msgs'] != want or dis['pad'] != bytes(pad):
        return 'frame decodes to different messages'
    for (case, view) in zip(msgs, dis['views']):
        (kind, _f, _h, xfer, idx, data) = case
        if kind in (1, 2) and data and view != (kind, 0, 0, bytes(data)):
            return 'payload of message type %d decodes differently' % kind
        if kind in (3, 4) and view != (kind, xfer, idx, bytes(data)):
            return 'transfer message decodes to different fields'
        if kind == 5 and view[:2] != (5, xfer):
            return 'cancel message decodes to different fields'
    if dis['reenc'] != enc or dis['rebuilt'] != enc:
        return 'decoding then re-encoding does not reproduce the frame'
    return None


def oracle_send(mtu, xid, data, frames, terminated):
    ''' Returns (reason, signature-class) or None. '''
    if not terminated:
        return ('send request does not finish producing frames', 'nontermination')
    if not frames:
        return ('no frame produced for the bundle', 'nothing-sent')
    if mtu is not None:
        for frame in frames:
            if len(frame) > mtu:
                return ('frame of %d octets exceeds the MTU %d' % (len(frame), mtu), 'frame-exceeds-mtu')
    parsed = []
    for frame in frames:
        try:
            (msgs, pad) = spec_parse_frame(frame)
        except Bad as err:
            return ('declared length differs from actual length: %s' % err, 'declared-length')
        if len(msgs) != 1 or pad.strip(b'\x00'):
            return ('frame is not one message (plus zero padding)', 'frame-shape')
        parsed.append(msgs[0])
    for frame in frames:
        dis = real_dissect(frame)
        if not dis.get('valid') or dis['reenc'] != frame or dis['rebuilt'] != frame:
            return ('frame built by the agent does not decode cleanly / re-encode to itself', 'frame-roundtrip')
    if len(parsed) == 1 and parsed[0][0] == 2:
        if parsed[0][3] != data:
            return ('bundle PDU payload differs from the bundle', 'pdu-data')
        return None
    segs = {}
    for (mtype, _flags, hints, body) in parsed:
        if mtype not in (3, 4) or len(body) < 8:
            return ('unexpected message type %d in a segmented transfer' % mtype, 'segment-type')
        (xnum, idx) = struct.unpack('>II', body[:8])
        if xnum != xid:
            return ('segment carries transfer number %d, not %d' % (xnum, xid), 'segment-xfer')
        if idx in segs:
            return ('segment index %d produced twice' % idx, 'segment-index')
        segs[idx] = (mtype, body[8:])
        lens = [int.from_bytes(hdata, 'big') for (htype, hdata) in hints if htype == 0]
        if lens != [len(data)]:
            return ('segment length hint %s is not the bundle length %d' % (lens, len(data)), 'segment-hint')
    if sorted(segs) != list(range(len(segs))):
        return ('segment indices are not 0..n-1', 'segment-index')
    last = len(segs) - 1
    for (idx, (mtype, _d)) in segs.items():
        if (mtype == 4) != (idx == last):
            return ('end marker is not exactly on the largest index', 'segment-end')
    if b''.join(segs[idx][1] for idx in range(len(segs))) != data:
        return ('segment data concatenated by index differs from the bundle', 'segment-data')
    return None


def oracle_recv(data, obs):
    ''' The receiver got each segment exactly once, in some order: exactly
    that bundle is queued exactly once, and nothing before the last arrival. '''
    counts = [nsig for (nsig, _r) in obs['trace']]
    if any(raised for (_n, raised) in obs['trace']):
        return 'exception escaped the receive function'
    if any(cnt != 0 for cnt in counts[:-1]):
        return 'bundle queued before every segment had arrived (signal counts %s)' % counts
    if counts[-1:] != [1] or len(obs['signals']) != 1:
        return 'expected exactly one recv_bundle_finished after the last segment, got counts %s' % counts
    if len(obs['queue']) != 1:
        return 'expected exactly one queued bundle, queue has %d' % len(obs['queue'])
    (bid, got) = obs['queue'][0]
    if got != data:
        return 'queued data differs from the bundle (%d vs %d octets)' % (len(got), len(data))
    if obs['signals'][0][0] != bid or obs['signals'][0][1] != len(data):
        return 'recv_bundle_finished arguments %s do not describe the queued bundle' % (obs['signals'][0],)
    if obs['left']:
        return 'popped bundle still listed in the queue'
    return None


# ----------------------------------------------------------------------------------------------
# Coq renderings

class GenBytes(bytes):
    ''' octets that are gdata(seed, len): written into the Coq files as that call, not as a literal '''
    seed = 0


def gen_bytes(seed, length):
    obj = GenBytes(gdata(seed, length))
    obj.seed = seed
    return obj


def cb(data):
    if isinstance(data, GenBytes):
        return '(gdata %d%%N %d%%N)' % (data.seed, len(data))
    if len(data) > 2500:
        raise ValueError('octet literal too long for a Coq case file')
    if len(data) == 0:
        return '(@nil N)'
    # [unhex] (= [be]) costs a long division per octet, quadratic in the length, and a long list
    # literal is slow to type-check: emit 16-octet pieces
    data = bytes(data)
    parts = ['(unhex %d 0x%s%%N)' % (len(data[pos:pos + 16]), data[pos:pos + 16].hex()) for pos in range(0, len(data), 16)]
    return parts[0] if len(parts) == 1 else '(List.concat [%s])' % '; '.join(parts)


def c_opt_list(val):
    return '(@nil N)' if val is None else '[%d]%%N' % val


def c_hints(hints):
    return coq_list(['(%s, %s)' % (coq_N(htype), cb(hdata)) for (htype, hdata) in hints], '(N * list N)')


def c_msg(case):
    (kind, flags, hints, xfer, idx, data) = case
    return '(%s, %s, %s, %s, %s, %s)' % (coq_N(kind), c_opt_list(flags), c_hints(hints),
                                         coq_N(xfer), coq_N(idx), cb(data))


def c_codec(msgs, pad):
    return '(%s, %s)' % (coq_list([c_msg(case) for case in msgs], '(N * list N * list (N * list N) * N * N * list N)'),
                         cb(pad))


def c_send(mtu, xid, seed, length):
    return '(%s, %s, %s, %s)' % (c_opt_list(mtu), coq_N(xid), coq_N(seed), coq_N(length))


def c_xfer(mtu, xid, seed, length, order):
    return '(%s, %s, %s, %s, %s)' % (coq_N(mtu), coq_N(xid), coq_N(seed), coq_N(length),
                                     coq_list([coq_nat(pos) for pos in order], 'nat'))


def c_chan(cnum):
    chan = chan_tuple(cnum)
    return '(%s, %s, %s, %s)' % (coq_N(chan[0]), coq_N(chan[1]), coq_N(chan[2]), coq_list([coq_N(v) for v in chan[3]], 'N'))


def c_recv(arrival):
    return coq_list(['(%s, %s)' % (c_chan(cnum), cb(frame)) for (cnum, frame) in arrival], '(N * N * N * list N * list N)')


def samp(chk, limit, obj):
    ''' keep the evidence samples spread over the suites '''
    return obj if len(chk.samples) < limit else None


def lst(val):
    ''' Coq prints nested pairs flat and lists as lists; normalise tuples/lists. '''
    if isinstance(val, (list, tuple)):
        return [lst(item) for item in val]
    if isinstance(val, (bytes, bytearray)):
        return list(val)
    if isinstance(val, bool):
        return val
    return val


# ----------------------------------------------------------------------------------------------
# case generation

def gen_hints(rng, count=None):
    if count is None:
        count = rng.choice([0, 0, 1, 1, 2, 3, 4])
    out = []
    for _ in range(count):
        hlen = rng.choice([0, 1, 4, 4, 7, 254, 255]) if rng.random() < 0.5 else rng.randrange(0, 12)
        out.append((rng.choice([0, 1, 2, 63, 126, 127, rng.randrange(128)]), rng.randbytes(hlen)))
    return out


def gen_msg(rng, kind=None, big=False):
    if kind is None:
        kind = rng.choice([1, 2, 2, 3, 3, 4, 4, 5, rng.randrange(6, 256)])
    hints = gen_hints(rng)
    flags = None
    if rng.random() < 0.15:
        flags = (8 if hints else 0) | rng.randrange(8)
    sizes = [0, 1, 2, 7, 8, 9, 15, 16, 17, 254, 255, 256, 257]
    if big:
        sizes = [65535, 65536, 65537, 70000]
    dlen = rng.choice(sizes) if rng.random() < 0.6 else rng.randrange(0, 64)
    xfer = rng.choice([0, 1, 255, 256, 65535, 65536, 2 ** 32 - 1, rng.randrange(2 ** 32)])
    idx = rng.choice([0, 1, 255, 256, 65535, 65536, 2 ** 32 - 1, rng.randrange(2 ** 32)])
    if kind not in (3, 4, 5):
        xfer = 0
        idx = 0
    if kind == 5:
        idx = 0
        if rng.random() < 0.8:
            dlen = 0
    return (kind, flags, hints, xfer, idx, gen_bytes(rng.randrange(1, 2 ** 31), dlen) if big else rng.randbytes(dlen))


def gen_codec_cases(chk):
    rng = chk.rng
    cases = []
    # every type alone, with each hint-list length 0..4
    for kind in (1, 2, 3, 4, 5, 6, 255):
        for nh in range(5):
            (knd, _f, _h, xfer, idx, data) = gen_msg(rng, kind)
            cases.append(([(knd, None, gen_hints(rng, nh), xfer, idx, data)], b''))
    # lengths across the widths of the length field (1, 2, 2.5 octets) -- exact boundaries
    for total in (255, 256, 65535, 65536):
        cases.append(([(2, None, [], 0, 0, gen_bytes(total, total))], b''))
        cases.append(([(3, None, [(0, b'\x00\x01\x00\x00')], 7, 1, gen_bytes(total + 1, total - 14))], b''))
    # hint data at its width boundary, long hint lists (scapy's list limit is 100)
    cases.append(([(4, None, [(127, b'\xff' * 255), (0, b''), (1, b'\x00' * 255)], 1, 2, b'x')], b''))
    cases.append(([(2, None, [(1, b'a')] * 100, 0, 0, b'payload')], b''))
    cases.append(([(2, None, [(1, b'a')] * 101, 0, 0, b'payload')], b''))
    # message lists with padding; 100 / 101 messages
    cases.append(([(2, None, [], 0, 0, b'z')] * 100, b'\x00'))
    cases.append(([(2, None, [], 0, 0, b'z')] * 101, b''))
    cases.append(([], b''))
    cases.append(([], b'\x00\x00\x00'))
    count = 70 if chk.quick() else 1500
    for num in range(count):
        nmsg = rng.choice([1, 1, 2, 3, 5])
        msgs = [gen_msg(rng, big=(num % 40 == 0 and pos == 0)) for pos in range(nmsg)]
        pad = b'' if rng.random() < 0.5 else b'\x00' * rng.randrange(1, 6) + (rng.randbytes(3) if rng.random() < 0.2 else b'')
        cases.append((msgs, pad))
    return cases


def gen_decode_cases(chk, encodings):
    rng = chk.rng
    fixed = ['02000000', '0300000800000001000000020000', '0300000700000001000000', '020000056162',
             '0280000300016162', '028000020002', '0280000100', '07000002aabb', '0210000161',
             '02f0000400016162', '0000', '', '00ff', '02', '020000', '0200000161', '020000016100',
             '02000001610200000162', '0280000501016100ff', '028000060101610001ff',
             '0300000900000001000000027a', '0400000900000001000000007a', '05000004000000ff',
             '0500000300000f', '0100000400000000', '0280000300000162']
    cases = [bytes.fromhex(item) for item in fixed]
    count = 80 if chk.quick() else 1500
    pool = [enc for enc in encodings if len(enc) <= 600]
    for _ in range(count):
        base = bytearray(rng.choice(pool)) if pool else bytearray()
        kind = rng.randrange(6)
        if kind == 0 and base:
            del base[rng.randrange(len(base)):]
        elif kind == 1 and base:
            pos = rng.randrange(min(len(base), 12))
            base[pos] = rng.randrange(256)
        elif kind == 2 and base:
            pos = rng.randrange(len(base))
            base[pos] ^= 1 << rng.randrange(8)
        elif kind == 3:
            base += rng.randbytes(rng.randrange(1, 6))
        elif kind == 4:
            base = bytearray(rng.randbytes(rng.randrange(0, 24)))
        cases.append(bytes(base))
    return cases


def gen_send_cases(chk):
    ''' (mtu|None, xid, seed, length): every boundary of the two decisions
    (fits / does not fit; last segment full / one octet over). '''
    rng = chk.rng
    cases = []
    seen = set()

    def add(mtu, length, xid=None):
        if length < 0 or (mtu is not None and mtu <= 18 and length >= mtu - 4):
            return  # infeasible MTU: the real generator never stops (noted, outside the quantifier)
        key = (mtu, length)
        if key in seen:
            return
        seen.add(key)
        if xid is None:
            xid = rng.choice([0, 1, 7, 255, 256, 65536, 2 ** 32 - 1, rng.randrange(2 ** 32)])
        cases.append((mtu, xid, rng.randrange(1, 2 ** 31), length))

    mtus = [19, 20, 21, 23, 30, 64, 100, 576, 1500]
    if not chk.quick():
        mtus += [22, 24, 31, 128, 1280, 9000, 65535]
    for mtu in mtus:
        seg = mtu - 18
        for length in [0, 1, mtu - 6, mtu - 5, mtu - 4, mtu - 3, mtu, mtu + 1]:
            add(mtu, length)
        for mult in ((1, 2, 3, 5) if chk.quick() else (1, 2, 3, 5, 9, 17)):
            if seg * mult > (6000 if chk.quick() else 200000):
                continue
            for delta in (-1, 0, 1):
                add(mtu, seg * mult + delta)
    for mtu in (None,):
        for length in (0, 1, 2, 255, 256, 1500, 65535, 65536, LEN_MOD - 1):
            add(mtu, length)
    for mtu in (4, 5, 10, 18):
        for length in (0, 1, mtu - 6, mtu - 5):
            add(mtu, length)
    add(LEN_MOD + 3, LEN_MOD - 2)  # largest bundle that is sent unsegmented under an MTU
    count = 40 if chk.quick() else 1500
    for _ in range(count):
        mtu = rng.choice([rng.randrange(19, 40), rng.randrange(19, 300), rng.randrange(19, 2000)])
        add(mtu, rng.choice([rng.randrange(0, 3 * mtu), rng.randrange(0, 60 * (mtu - 18))]) % 20000)
    return cases


def gen_xfer_specs(chk):
    ''' (mtu, xid, seed, length, nperm): transfers that do not fit their MTU.
    The arrival orders are derived from the number of frames the real sender
    produces: all permutations up to 5 frames (nperm None) or a sample. '''
    rng = chk.rng
    specs = []
    per_n = 3 if chk.quick() else 12
    for nseg in (2, 3, 4, 5):
        for rep in range(per_n):
            mtu = rng.choice([19, 20, 25, 40, 100, 300])
            seg = mtu - 18
            # boundary: last segment full (rep 0), one octet (rep 1), random otherwise
            length = seg * nseg if rep == 0 else seg * (nseg - 1) + (1 if rep == 1 else rng.randrange(1, seg + 1))
            if length < mtu - 4:
                continue   # fits: not segmented
            xid = rng.choice([0, 1, 2 ** 32 - 1, rng.randrange(2 ** 32)])
            specs.append((mtu, xid, rng.randrange(1, 2 ** 31), length,
                          24 if (chk.quick() and nseg == 5 and rep > 0) else None))
    for mtu in (19, 20, 22):   # smallest feasible MTUs: the bundle that just does not fit
        specs.append((mtu, 3, rng.randrange(1, 2 ** 31), mtu - 4, 6 if chk.quick() else 40))
    count = 14 if chk.quick() else 200
    for _ in range(count):
        mtu = rng.choice([19, 21, 30, 64, 200])
        nseg = rng.choice([6, 7, 8, 12, 20, 33])
        seg = mtu - 18
        while seg * (nseg - 1) + 1 < mtu - 4:   # the bundle must not fit, or it is not segmented
            nseg += 1
        length = seg * (nseg - 1) + rng.randrange(1, seg + 1)
        specs.append((mtu, rng.randrange(2 ** 32), rng.randrange(1, 2 ** 31), length, 3))
    return specs


def expand_orders(rng, nframes, nperm):
    if nframes <= 5:
        perms = [list(perm) for perm in itertools.permutations(range(nframes))]
        if nperm is not None and nperm < len(perms):
            perms = rng.sample(perms, nperm)
        return perms
    out = []
    for _ in range(nperm or 3):
        order = list(range(nframes))
        rng.shuffle(order)
        out.append(order)
    return out


def frame_of(case):
    return bytes(build_real(case))


def gen_recv_cases(chk):
    ''' Peer-crafted arrivals (model correspondence only: the property's
    receiver clause quantifies over this sender's segments, each once). '''
    rng = chk.rng
    hint = [(0, b'\x00\x00\x00\x06')]
    seg = lambda kind, xfer, idx, data, hints=hint: frame_of((kind, None, hints, xfer, idx, data))  # noqa: E731
    cases = [
        [(1, seg(4, 9, 0, b'abc'))],                                   # single-segment transfer: end index 0
        [(1, seg(4, 9, 0, b'abc')), (1, seg(3, 9, 0, b'abc'))],
        [(1, seg(3, 9, 0, b'ab')), (1, seg(3, 9, 0, b'XY')), (1, seg(4, 9, 1, b'cd'))],   # duplicate index
        [(1, seg(3, 9, 0, b'ab')), (1, seg(4, 9, 1, b'cd')), (1, seg(4, 9, 1, b'cd'))],   # duplicate after completion
        [(1, seg(4, 9, 2, b'ef')), (1, seg(4, 9, 1, b'cd')), (1, seg(3, 9, 0, b'ab'))],   # two end markers
        [(1, seg(4, 9, 1, b'cd')), (1, seg(3, 9, 2, b'ef')), (1, seg(3, 9, 0, b'ab'))],   # index beyond the end
        [(1, seg(3, 9, 0, b'ab')), (2, seg(4, 9, 1, b'cd')), (1, seg(4, 9, 1, b'CD')), (2, seg(3, 9, 0, b'AB'))],
        [(1, seg(3, 9, 0, b'ab')), (1, seg(3, 8, 0, b'AB')), (1, seg(4, 8, 1, b'CD')), (1, seg(4, 9, 1, b'cd'))],
        [(1, seg(3, 9, 1, b''))],                                       # no data under the transfer header
        [(1, seg(3, 9, 0, b'ab')), (1, seg(4, 9, 1, b'')), (1, seg(4, 9, 1, b'cd'))],
        [(1, frame_of((2, None, [], 0, 0, b'')))],                       # zero-length bundle PDU
        [(1, frame_of((2, None, [], 0, 0, b'bundle')))],
        [(1, frame_of((2, None, [(5, b'h')], 0, 0, b'bundle')) + b'\x00\x00')],
        [(1, frame_of((5, None, [], 9, 0, b''))), (1, frame_of((1, None, [], 0, 0, b'\x00\x00'))), (1, frame_of((77, None, [], 0, 0, b'q')))],
        [(1, seg(3, 9, 0, b'ab') + seg(4, 9, 1, b'cd') + frame_of((2, None, [], 0, 0, b'zz')))],   # several messages in one frame
        [(1, seg(4, 9, 1, b'cd') + seg(3, 9, 0, b'ab') + seg(3, 9, 0, b'ab') + b'\x00')],
        [(1, seg(3, 9, 0, b'') + frame_of((2, None, [], 0, 0, b'zz')))],                        # exception aborts the rest of the frame
        [(1, frame_of((2, None, [], 0, 0, b'z')) * 100)],
        [(1, frame_of((2, None, [], 0, 0, b'z')) * 101)],                # more than scapy's list limit: frame dropped
        [(1, seg(3, 9, 0, b'ab', [])), (1, seg(4, 9, 1, b'cd', []))],     # no hints at all
        [(1, frame_of((1, None, [], 0, 0, b'\x00\x00')) + seg(3, 9, 0, b'ab')),
         (1, frame_of((1, None, [], 0, 0, b'')) + seg(4, 9, 1, b'cd') + frame_of((1, None, [], 0, 0, b'\x00')))],   # definite padding first
        [(1, frame_of((1, None, [], 0, 0, b'pad')) + frame_of((2, None, [], 0, 0, b'bundle')))],
        [(1, bytes.fromhex('0300000700000001000000'))],                  # transfer header too short
        [(1, b'')], [(1, b'\x00\x00')],
    ]
    count = 30 if chk.quick() else 400
    for _ in range(count):
        arrival = []
        for _step in range(rng.randrange(1, 9)):
            kind = rng.choice([3, 3, 4])
            frame = seg(kind, rng.choice([1, 2]), rng.randrange(0, 4), rng.randbytes(rng.randrange(0, 4)))
            if rng.random() < 0.2:
                frame += frame_of((2, None, [], 0, 0, rng.randbytes(rng.randrange(0, 3))))
            arrival.append((rng.choice([1, 1, 2]), frame))
        cases.append(arrival)
    return cases


# ----------------------------------------------------------------------------------------------
# independent BTP-U encoder (from the format description) and padded re-framings of a transfer

def spec_encode_msg(mtype, hints, body, flags=None):
    ''' One message: type, flags(4)|length(20), chained hints, payload. '''
    hbytes = b''
    for (pos, (htype, hdata)) in enumerate(hints):
        more = 1 if pos < len(hints) - 1 else 0
        hbytes += bytes([(htype << 1) | more, len(hdata)]) + bytes(hdata)
    if flags is None:
        flags = 8 if hints else 0
    length = len(hbytes) + len(body)
    if length >= LEN_MOD:
        raise Bad('message too long for the 20-bit length field')
    return bytes([mtype]) + ((flags << 20) | length).to_bytes(3, 'big') + hbytes + bytes(body)


def spec_padding(prng):
    ''' A definite Padding message (type 1) of 0..6 octets, zeros or arbitrary content. '''
    size = prng.randrange(0, 7)
    return spec_encode_msg(1, [], bytes(size) if prng.random() < 0.7 else prng.randbytes(size))


LAYOUTS = ('plain', 'pad-before', 'pad-after', 'zero-tail', 'pad-around-tail', 'mixed', 'pairs-pad-between',
           'two-transfers')


def reencode(frame):
    ''' The data message of one of the sender's frames, through the independent parser and encoder. '''
    (msgs, _pad) = spec_parse_frame(frame)
    if len(msgs) != 1:
        raise Bad('sender frame is not one message')
    (mtype, flags, hints, body) = msgs[0]
    return spec_encode_msg(mtype, hints, body, flags)


def frame_layout(msg, layout, prng):
    if layout == 'mixed':
        layout = prng.choice(LAYOUTS[:5])
    if layout == 'plain':
        return msg
    if layout == 'pad-before':
        return spec_padding(prng) + msg
    if layout == 'pad-after':
        return msg + spec_padding(prng)
    if layout == 'zero-tail':
        return msg + bytes(prng.randrange(1, 6))
    if layout == 'pad-around-tail':
        return spec_padding(prng) + msg + spec_padding(prng) + bytes(prng.randrange(1, 4))
    raise ValueError(layout)


def compose_padded(mtu, xid, seed, length, order, layout, rseed):
    ''' The arrival sequence for one padded re-framing of a transfer.
    :return: (arrival [(conv, frame)], bundles [(data, index of the frame that completes it)]) or None
             when the sender's frames are not one message each / the order is not a permutation of them. '''
    import random
    prng = random.Random(rseed)
    data = gdata(seed, length)
    (frames, _term) = real_send(mtu, xid, data)
    if sorted(order) != list(range(len(frames))):
        return None
    try:
        msgs = [reencode(frames[pos]) for pos in order]
    except Bad:
        return None
    if layout in LAYOUTS[:6]:
        arrival = [(1, frame_layout(msg, layout, prng)) for msg in msgs]
        return (arrival, [(data, len(arrival) - 1)])
    if layout == 'pairs-pad-between':
        arrival = []
        for pos in range(0, len(msgs), 2):
            group = msgs[pos:pos + 2]
            frame = group[0] if len(group) == 1 else group[0] + spec_padding(prng) + group[1]
            if prng.random() < 0.5:
                frame = spec_padding(prng) + frame
            arrival.append((1, frame))
        return (arrival, [(data, len(arrival) - 1)])
    if layout == 'two-transfers':
        xid2 = xid ^ 1
        data2 = gdata(seed + 1, length)
        (frames2, _term2) = real_send(mtu, xid2, data2)
        order2 = list(range(len(frames2)))
        prng.shuffle(order2)
        try:
            msgs2 = [reencode(frames2[pos]) for pos in order2]
        except Bad:
            return None
        arrival = []
        for pos in range(max(len(msgs), len(msgs2))):
            parts = []
            if pos < len(msgs):
                parts.append(msgs[pos])
            if pos < len(msgs2):
                parts.append(msgs2[pos])
            frame = spec_padding(prng) + spec_padding(prng).join(parts) + bytes(prng.randrange(0, 3))
            arrival.append((1, frame))
        return (arrival, [(data, len(msgs) - 1), (data2, len(msgs2) - 1)])
    raise ValueError(layout)


def oracle_padded(bundles, obs):
    ''' Each segment of each transfer arrived exactly once (whatever padding
    surrounds it, whatever else shares its frame): each bundle is queued
    exactly once, not before the frame carrying its last missing segment. '''
    if any(raised for (_n, raised) in obs['trace']):
        return 'exception escaped the receive function'
    counts = [nsig for (nsig, _r) in obs['trace']]
    want = [sum(1 for (_d, done) in bundles if done <= pos) for pos in range(len(counts))]
    for (pos, (got, exp)) in enumerate(zip(counts, want)):
        if got > exp:
            return 'bundle queued before every segment had arrived (signal counts %s, expected %s)' % (counts, want)
        if got < exp:
            return 'bundle not queued although every segment has arrived (signal counts %s, expected %s)' % (counts, want)
    if sorted(got for (_b, got) in obs['queue']) != sorted(data for (data, _done) in bundles):
        return 'queued data is not exactly the bundle(s) sent (%s vs %s octets)' % (
            [len(got) for (_b, got) in obs['queue']], [len(data) for (data, _done) in bundles])
    if sorted(sig[1] for sig in obs['signals']) != sorted(len(data) for (data, _done) in bundles):
        return 'recv_bundle_finished lengths %s do not describe the queued bundle(s)' % ([sig[1] for sig in obs['signals']],)
    if obs['left']:
        return 'popped bundle still listed in the queue'
    return None


# ----------------------------------------------------------------------------------------------
# several transfers in progress at once: 2-3 peers, VLAN tags, equal and different transfer numbers

def interleave(kind, counts, prng):
    ''' An arrival [(transfer, frame position)] in which every frame of every transfer occurs once. '''
    def rr(seqs):
        out = []
        for pos in range(max(len(seq) for seq in seqs)):
            for seq in seqs:
                if pos < len(seq):
                    out.append(seq[pos])
        return out
    fwd = [[(tnum, pos) for pos in range(cnt)] for (tnum, cnt) in enumerate(counts)]
    if kind == 'round-robin':
        return rr(fwd)
    if kind == 'round-robin-reversed':
        return rr([list(reversed(seq)) for seq in fwd])
    if kind == 'round-robin-mixed':
        return rr([seq if tnum % 2 == 0 else list(reversed(seq)) for (tnum, seq) in enumerate(fwd)])
    if kind == 'sequential':
        return [item for seq in fwd for item in seq]
    if kind == 'sequential-reversed':
        return [item for seq in reversed(fwd) for item in reversed(seq)]
    if kind == 'random':
        seqs = [list(seq) for seq in fwd]
        for seq in seqs:
            prng.shuffle(seq)
        out = []
        while any(seqs):
            seq = prng.choice([seq for seq in seqs if seq])
            out.append(seq.pop(0))
        return out
    raise ValueError(kind)


INTERLEAVINGS = ('round-robin', 'round-robin-reversed', 'round-robin-mixed', 'sequential', 'sequential-reversed')


def gen_multi_cases(chk):
    ''' (transfers [(peer, vlan|None, xid, mtu, seed, length)], arrival [(transfer, position)], class name).
    Keys (peer, vlan, xid) are pairwise different within a case. '''
    import random
    rng = chk.rng
    shapes = [
        ('two peers, same number',            [(1, None, 0), (2, None, 0)]),
        ('two peers, different numbers',      [(1, None, 0), (2, None, 1)]),
        ('three peers, same number',          [(1, None, 0), (2, None, 0), (3, None, 0)]),
        ('one peer, two numbers',             [(1, None, 0), (1, None, 1)]),
        ('one peer, two VLAN tags, same number', [(1, 5, 0), (1, 6, 0)]),
        ('one peer, tagged and untagged',     [(1, None, 7), (1, 5, 7)]),
        ('two peers, same VLAN tag, same number', [(1, 5, 0), (2, 5, 0)]),
        ('two peers and a second number',     [(1, None, 0), (2, None, 0), (1, None, 1)]),
        ('three peers, tags and numbers mixed', [(1, 5, 0), (2, 5, 0), (3, 6, 0)]),
    ]
    cases = []
    nrandom = 2 if chk.quick() else 25
    for (name, keys) in shapes:
        for rep in range(1 if chk.quick() else 4):
            transfers = []
            for (peer, vlan, xid) in keys:
                mtu = rng.choice([19, 20, 25, 40])
                seg = mtu - 18
                nseg = rng.choice([2, 3, 3, 4, 5])
                length = max(seg * (nseg - 1) + rng.randrange(1, seg + 1), mtu - 4)
                transfers.append((peer, vlan, xid, mtu, rng.randrange(1, 2 ** 31), length))
            counts = [len(real_send(t[3], t[2], gdata(t[4], t[5]))[0]) for t in transfers]
            for kind in INTERLEAVINGS:
                cases.append((transfers, interleave(kind, counts, None), name + ' / ' + kind))
            for _ in range(nrandom):
                cases.append((transfers, interleave('random', counts, random.Random(rng.randrange(2 ** 31))), name + ' / random'))
    return cases


def run_multi_real(transfers, arrival):
    ''' :return: (observations, [(data, peer address value, index of the arrival that completes it)]) or None
    if the arrival is not "every frame of every transfer exactly once". '''
    frames = [real_send(t[3], t[2], gdata(t[4], t[5]))[0] for t in transfers]
    want = sorted((tnum, pos) for (tnum, frs) in enumerate(frames) for pos in range(len(frs)))
    if sorted((a[0], a[1]) for a in arrival) != want:
        return None
    obs = real_recv([((transfers[tnum][0], transfers[tnum][1]), frames[tnum][pos]) for (tnum, pos) in arrival])
    bundles = []
    for (tnum, trn) in enumerate(transfers):
        done = max(idx for (idx, (anum, _p)) in enumerate(arrival) if anum == tnum)
        bundles.append((gdata(trn[4], trn[5]), chan_tuple((trn[0], trn[1]))[1], done))
    return (obs, bundles)


def oracle_multi(bundles, obs):
    ''' Per (peer, transfer): each segment once, in any order, interleaved with
    anything of other keys => exactly that bundle queued exactly once (when its
    last segment arrives, not earlier), attributed to that peer and to nothing else. '''
    if any(raised for (_n, raised) in obs['trace']):
        return 'exception escaped the receive function'
    counts = [nsig for (nsig, _r) in obs['trace']]
    want = [sum(1 for (_d, _a, done) in bundles if done <= pos) for pos in range(len(counts))]
    for (got, exp) in zip(counts, want):
        if got > exp:
            return 'bundle queued before every segment of its transfer had arrived (signal counts %s, expected %s)' % (counts, want)
        if got < exp:
            return 'bundle not queued although every segment of its transfer has arrived (signal counts %s, expected %s)' % (counts, want)
    order = sorted(bundles, key=lambda ent: ent[2])
    queued = dict(obs['queue'])
    if len(obs['queue']) != len(bundles) or len(obs['signals']) != len(bundles):
        return 'expected %d queued bundles, got %d (signals %d)' % (len(bundles), len(obs['queue']), len(obs['signals']))
    for ((data, addr, _done), sig) in zip(order, obs['signals']):
        if queued.get(sig[0]) != data:
            return 'queued data of bundle %d is not the bundle whose last segment had just arrived' % sig[0]
        if sig[1] != len(data):
            return 'recv_bundle_finished length %d does not describe the queued bundle (%d octets)' % (sig[1], len(data))
        if sig[3] != addr:
            return 'bundle attributed to peer %r instead of %r' % (sig[3], addr)
    if obs['left']:
        return 'popped bundle still listed in the queue'
    return None


def c_multi(transfers, arrival):
    xfers = []
    for (peer, vlan, xid, mtu, seed, length) in transfers:
        chan = chan_tuple((peer, vlan))
        xfers.append('((%s, %s, %s, %s), %s, %s, %s, %s)' % (
            coq_N(chan[0]), coq_N(chan[1]), coq_N(chan[2]), coq_list([coq_N(v) for v in chan[3]], 'N'),
            coq_N(mtu), coq_N(xid), coq_N(seed), coq_N(length)))
    return '(%s, %s)' % (coq_list(xfers), coq_list(['(%s, %s)' % (coq_nat(t), coq_nat(p)) for (t, p) in arrival], '(nat * nat)'))


# ----------------------------------------------------------------------------------------------
# suites: run impl + oracle per case; model comparison in bulk

class Runner(object):

    def __init__(self, chk):
        self.chk = chk
        self.mismatch = {}   # suite -> [detail]

    def note_mismatch(self, suite, detail):
        self.mismatch.setdefault(suite, []).append(detail)

    # -- single-case runners (also used by --replay) --------------------------------------
    def impl_codec(self, msgs, pad):
        try:
            enc = real_build_frame(msgs, pad)
        except Exception as err:
            return dict(error=err.__class__.__name__)
        return dict(enc=enc, dis=real_dissect(enc))

    def check_codec(self, msgs, pad, impl, replay):
        if 'error' in impl:
            return None
        if not all(fits_field_ranges(case) for case in msgs) or len(msgs) > 100 or any(len(c[2]) > 100 for c in msgs):
            return None
        why = oracle_codec(msgs, pad, impl['enc'])
        if why:
            self.chk.fail('C20 / codec / ' + why.split(':')[0][:80], why, replay)
        return why

    def check_send(self, case, frames, terminated):
        (mtu, xid, seed, length) = case
        data = gdata(seed, length)
        res = oracle_send(mtu, xid, data, frames, terminated)
        if res is None:
            return None
        (why, klass) = res
        replay = dict(suite='send', case=list(case))
        if klass == 'declared-length' and len(frames) == 1 and length >= LEN_MOD and (mtu is None or length < mtu - 4):
            sig = SIG_LEN20
        elif klass == 'declared-length' and mtu is not None and mtu - 4 >= LEN_MOD:
            sig = SIG_LEN20
        else:
            sig = 'C20 / send / %s' % klass
        self.chk.fail(sig, 'mtu=%s xid=%d len=%d: %s' % (mtu, xid, length, why), replay)
        return why

    def check_xfer(self, case, obs):
        (mtu, xid, seed, length, order) = case
        if obs is None:
            return None
        why = oracle_recv(gdata(seed, length), obs)
        if why:
            self.chk.fail('C20 / recv / ' + why.split('(')[0].strip()[:70],
                          'mtu=%d len=%d order=%s: %s' % (mtu, length, order, why),
                          dict(suite='xfer', case=[mtu, xid, seed, length, order]))
        return why

    def check_padded(self, case, bundles, obs):
        (mtu, xid, seed, length, order, layout, rseed) = case
        why = oracle_padded(bundles, obs)
        if why:
            self.chk.fail('C20 / recv-padded / %s / %s' % (layout, why.split('(')[0].strip()[:60]),
                          'mtu=%d len=%d order=%s layout=%s: %s' % (mtu, length, order, layout, why),
                          dict(suite='padxfer', case=[mtu, xid, seed, length, list(order), layout, rseed]))
        return why

    def check_multi(self, transfers, arrival, name, bundles, obs):
        why = oracle_multi(bundles, obs)
        if why:
            self.chk.fail('C20 / recv-several-transfers / %s / %s' % (name.split(' / ')[0], why.split('(')[0].strip()[:60]),
                          '%s: transfers (peer, vlan, xfer_num, mtu, seed, len) %s arrival %s: %s' % (name, transfers, arrival, why),
                          dict(suite='multi', transfers=[list(t) for t in transfers], arrival=[list(a) for a in arrival], kind=name))
        return why

    def impl_xfer(self, case):
        (mtu, xid, seed, length, order) = case
        (frames, _term) = real_send(mtu, xid, gdata(seed, length))
        if sorted(order) != list(range(len(frames))):
            # not "each segment exactly once": the property says nothing; do not judge
            return (frames, None)
        arrival = [(1, frames[pos]) for pos in order]
        return (frames, real_recv(arrival))


def canon_model_frame(entry):
    ''' o_frame as parsed: [msgs, pad, views] '''
    (msgs, pad, views) = entry
    return ([(m[0], m[1], [(h[0], bytes(h[1])) for h in m[2]], bytes(m[3])) for m in msgs], bytes(pad),
            [(v[0], v[1], v[2], bytes(v[3])) for v in views])


def decided(chk):
    ''' a concrete failing input has been found: the verdict no longer depends on the model '''
    return any(not no_input for (_s, _w, _p, no_input) in chk.violations)


def codec_replay(msgs, pad):
    return dict(suite='codec', pad=pad.hex(),
                msgs=[[c[0], c[1], [[h[0], h[1].hex()] for h in c[2]], c[3], c[4],
                       (['gdata', c[5].seed, len(c[5])] if isinstance(c[5], GenBytes) else c[5].hex())] for c in msgs])


def run_all(chk):
    ''' Phase 1: the real code and the property oracle on every case of every
    suite.  Phase 2 (skipped once a concrete failing input is known): the Coq
    model on the same cases, compared observation by observation. '''
    run = Runner(chk)
    rng = chk.rng
    t0 = [time.time()]

    def lap(name):
        if os.environ.get('VERIF_TIMING'):
            print('# timing %s %.1fs' % (name, time.time() - t0[0]))
            sys.stdout.flush()
        t0[0] = time.time()

    # ---- corpus: recorded witnesses first --------------------------------------------------
    corpus_send = []
    for path in sorted(glob.glob(os.path.join(VERIF, 'harness', 'corpus', 'C20_*.json'))):
        with open(path) as infile:
            ent = json.load(infile)
        if ent.get('suite') == 'send':
            case = ent['case']
            corpus_send.append((case[0], case[1], case[2], case[3]))
            chk.count('corpus', os.path.basename(path))

    # ======================= phase 1: implementation + oracle ===============================
    # ---- (a) codec
    codec_cases = gen_codec_cases(chk)
    codec_impl = [run.impl_codec(msgs, pad) for (msgs, pad) in codec_cases]
    for (pos, ((msgs, pad), impl)) in enumerate(zip(codec_cases, codec_impl)):
        if 'error' in impl:
            chk.count('codec_build', 'real code raises (value outside a field width)')
            continue
        chk.case(('codec', pos), nontrivial=bool(msgs) and (len(msgs) > 1 or bool(msgs[0][2]) or bool(pad)),
                 sample=samp(chk, 2, dict(suite='codec', msgs=[[c[0], c[1], [[h[0], h[1].hex()] for h in c[2]], c[3], c[4], c[5].hex()[:40]] for c in msgs][:3],
                                          pad=pad.hex(), frame=impl['enc'].hex()[:80])) if len(msgs) > 1 and msgs[0][2] else None)
        for case in msgs:
            chk.count('codec_msg_type', case[0] if case[0] < 6 else 'other')
            chk.count('codec_hints', len(case[2]) if len(case[2]) <= 4 else '>4')
            chk.count('codec_payload_octets', '0' if not case[5] else ('1-255' if len(case[5]) < 256 else ('256-65535' if len(case[5]) < 65536 else '>=65536')))
        chk.count('codec_msgs_per_frame', len(msgs) if len(msgs) < 6 else '>=6')
        run.check_codec(msgs, pad, impl, codec_replay(msgs, pad))
    encodings = [impl['enc'] for impl in codec_impl if 'error' not in impl and len(impl['enc']) <= 600]
    # ---- (a') decode / re-encode of octet strings
    dec_cases = gen_decode_cases(chk, encodings)
    dec_impl = []
    for octets in dec_cases:
        dis = real_dissect(octets)
        dec_impl.append(dis)
        if dis.get('valid') and (dis['reenc'] != octets or dis['rebuilt'] != octets):
            # oracle: decoding then re-encoding any valid frame reproduces it
            chk.fail('C20 / decode / re-encoding differs', 'frame %s re-encodes to %s / %s' % (
                octets.hex(), (dis['reenc'] or b'').hex(), dis['rebuilt'].hex()), dict(suite='decode', octets=octets.hex()))
    # ---- (b) send
    send_cases = corpus_send + gen_send_cases(chk)
    send_impl = []
    for case in send_cases:
        (mtu, xid, seed, length) = case
        (frames, term) = real_send(mtu, xid, gdata(seed, length))
        send_impl.append((frames, term))
        run.check_send(case, frames, term)
        nseg = len(frames)
        chk.case(('send', mtu, length), nontrivial=nseg >= 2,
                 sample=samp(chk, 4, dict(suite='send', mtu=mtu, xid=xid, seed=seed, length=length, frames=nseg,
                                          sizes=[len(f) for f in frames][:6])) if nseg in (2, 3) else None)
        chk.count('send_frames', nseg if nseg < 6 else ('6-20' if nseg <= 20 else '>20'))
        chk.count('send_mtu', 'none' if mtu is None else ('<=18' if mtu <= 18 else ('19-64' if mtu <= 64 else ('65-1500' if mtu <= 1500 else '>1500'))))
        if mtu is not None and nseg >= 1:
            chk.count('send_boundary', 'frame==mtu' if max(len(f) for f in frames) == mtu else 'frame<mtu')
    # ---- (c) receive: this sender's segments in every order
    xfer_cases = []
    xfer_impl = []
    pad_cases = []
    pad_impl = []
    for (mtu, xid, seed, length, nperm) in gen_xfer_specs(chk):
        data = gdata(seed, length)
        (frames, term) = real_send(mtu, xid, data)
        run.check_send((mtu, xid, seed, length), frames, term)
        for order in expand_orders(rng, len(frames), nperm):
            case = (mtu, xid, seed, length, order)
            obs = real_recv([(1, frames[pos]) for pos in order])
            xfer_cases.append(case)
            xfer_impl.append(obs)
            run.check_xfer(case, obs)
            nseg = len(order)
            chk.case(('xfer',) + tuple(case[:4]) + (tuple(order),), nontrivial=order != sorted(order),
                     sample=samp(chk, 6, dict(suite='recv', mtu=mtu, length=length, order=order,
                                              signal_counts=[n for (n, _r) in obs['trace']])) if nseg == 4 and order[0] == 3 else None)
            chk.count('recv_segments', nseg if nseg <= 5 else '>5')
            # the same arrival order, re-framed by the independent encoder with padding in every position
            layouts = list(LAYOUTS[1:])
            if chk.quick():     # three of the seven layouts per order, rotating; all seven in the thorough tier
                rot = len(xfer_cases) * 3
                layouts = [layouts[(rot + off) % len(layouts)] for off in range(3)]
            for layout in layouts:
                pcase = (mtu, xid, seed, length, order, layout, rng.randrange(2 ** 31))
                comp = compose_padded(*pcase)
                if comp is None:
                    continue
                (arrival, bundles) = comp
                pobs = real_recv(arrival)
                run.check_padded(pcase, bundles, pobs)
                pad_cases.append((pcase, arrival))
                pad_impl.append(pobs)
                chk.case(('padxfer',) + pcase[:4] + (tuple(order), layout, pcase[6]), nontrivial=True,
                         sample=samp(chk, 8, dict(suite='recv-padded', mtu=mtu, length=length, order=order, layout=layout,
                                                  frames=[frm.hex()[:64] for (_c, frm) in arrival][:3],
                                                  signal_counts=[n for (n, _r) in pobs['trace']])) if nseg == 3 and layout in ('pad-before', 'two-transfers') else None)
                chk.count('recv_padded_layout', layout)
    # several transfers in progress at once (peers, VLAN tags, transfer numbers; interleaved)
    multi_cases = gen_multi_cases(chk)
    multi_impl = []
    for (transfers, arrival, name) in multi_cases:
        res = run_multi_real(transfers, arrival)
        multi_impl.append(res[0] if res else None)
        if res is None:
            continue
        run.check_multi(transfers, arrival, name, res[1], res[0])
        chk.case(('multi', tuple(transfers), tuple(arrival)), nontrivial=True,
                 sample=samp(chk, 10, dict(suite='recv-several-transfers', kind=name,
                                           transfers=[dict(peer=t[0], vlan=t[1], xfer_num=t[2], mtu=t[3], length=t[5]) for t in transfers],
                                           arrival=[list(a) for a in arrival], signal_counts=[n for (n, _r) in res[0]['trace']]))
                 if name.endswith('round-robin') else None)
        chk.count('recv_several_transfers', name.split(' / ')[0])
        chk.count('recv_interleaving', name.split(' / ')[1])
    # peer-crafted arrivals: quirks of the receive path (no verdict, correspondence only)
    recv_cases = gen_recv_cases(chk)
    recv_impl = []
    for arrival in recv_cases:
        obs = real_recv(arrival)
        recv_impl.append(obs)
        chk.case(('recv', tuple(arrival)), nontrivial=len(arrival) > 1, sample=None)
        chk.count('recv_crafted_outcome', 'raised' if any(r for (_n, r) in obs['trace']) else ('queued' if obs['queue'] else 'nothing-queued'))
    lap('phase 1 (real code + oracle)')
    if decided(chk):
        for suite in ('codec', 'decode', 'send', 'recv'):
            chk.obligation('correspondence:' + suite, True, 'not evaluated: a concrete failing input decides the verdict')
        return run

    # ======================= phase 2: the model on the same cases =============================
    # Every model evaluation of every suite goes into ONE batch of coqc runs (start-up of coqc is
    # what costs on a loaded machine): jobs are de-duplicated by their Coq term, dealt by estimated
    # cost into as many shards as there are cores to spare, evaluated once, then compared suite by suite.
    jobs = []   # (term, weight, compare(result))

    def job(func, term, weight, compare):
        jobs.append(('(%s %s)' % (func, term), weight, compare))

    def spread(items, budget):
        ''' at most ``budget`` of ``items``, evenly spread (all of them in the thorough tier) '''
        if len(items) <= budget:
            return list(items)
        step = len(items) / float(budget)
        return [items[int(pos * step)] for pos in range(budget)]

    def sigs(obs):
        return [(sig[0], sig[1], sig[3]) for sig in obs['signals']]

    # ---- (a) codec
    def cmp_codec(pos, big):
        def compare(mod):
            (msgs, pad) = codec_cases[pos]
            impl = codec_impl[pos]
            in_range = all(fits_field_ranges(case) for case in msgs)
            dis = impl['dis']
            too_many = len(msgs) > 100 or any(len(c[2]) > 100 for c in msgs)
            want_wf = in_range and not too_many and all(case[0] != 0 for case in msgs)
            if big:
                (m_wf, m_len, m_dig, m_lens, m_dec) = mod
                enc_same = (m_len, m_dig) == (len(impl['enc']), digest(impl['enc']))
            else:
                (m_wf, m_enc, m_lens, m_dec) = mod
                enc_same = bytes(m_enc) == impl['enc']
            if not enc_same:
                run.note_mismatch('codec', 'case %d: model encoding differs from bytes(pkt) (real %s..)' % (pos, impl['enc'].hex()[:48]))
                return
            if bool(m_wf) != want_wf:
                run.note_mismatch('codec', 'case %d: model well-formedness %s, expected %s' % (pos, m_wf, want_wf))
            if m_dec:
                if big:
                    (g_msgs, g_pad) = m_dec[0]
                    got = ([(m[0], m[1], [(h[0], bytes(h[1])) for h in m[2]], m[3], m[4]) for m in g_msgs], bytes(g_pad))
                    real = ([(m[0], m[1], m[2], len(m[3]), digest(m[3])) for m in dis.get('msgs', [])], dis.get('pad'))
                else:
                    got = canon_model_frame(m_dec[0])
                    real = (dis.get('msgs'), dis.get('pad'), dis.get('views'))
                if not dis.get('valid') or got != real:
                    run.note_mismatch('codec', 'case %d: model decoding differs from the dissection' % pos)
                lens_real = [len(layer_bytes(item)) - 4 for item in bm.MessageSet(impl['enc']).msgs]
                if in_range and list(m_lens) != lens_real:
                    run.note_mismatch('codec', 'case %d: model length fields %s vs real %s' % (pos, m_lens, lens_real))
            elif dis.get('valid') and not too_many:
                run.note_mismatch('codec', 'case %d: model rejects a frame the real code dissects cleanly' % pos)
        return compare

    for (pos, impl) in enumerate(codec_impl):
        if 'error' in impl:
            continue
        size = sum(len(case[5]) for case in codec_cases[pos][0])
        big = size > BIG
        job('run_codec_big' if big else 'run_codec', c_codec(*codec_cases[pos]), 40 + (size // 8 if big else 3 * size), cmp_codec(pos, big))

    # ---- (a') decode
    def cmp_decode(octets, dis):
        def compare(mod):
            chk.case(('decode', octets), nontrivial=bool(mod), sample=None)
            chk.count('decode_verdict', 'valid' if mod else 'not-a-valid-frame')
            if mod:
                m_frame = mod[0][:3]
                m_reenc = mod[0][3]
                if bytes(m_reenc) != octets:
                    run.note_mismatch('decode', '%s: model re-encoding differs' % octets.hex()[:60])
                if not dis.get('valid') or canon_model_frame(m_frame) != (dis['msgs'], dis['pad'], dis['views']):
                    run.note_mismatch('decode', '%s: model decoding differs from the dissection' % octets.hex()[:60])
            elif dis.get('valid') and len(dis['msgs']) <= 100:
                run.note_mismatch('decode', '%s: model rejects a frame the real code dissects cleanly' % octets.hex()[:60])
        return compare

    for (octets, dis) in zip(dec_cases, dec_impl):
        job('run_decode', cb(octets), 30 + 3 * len(octets), cmp_decode(octets, dis))

    # ---- (b) send (bundles of 2^20 octets: model side in the thorough tier only; the oracle saw them above)
    def cmp_send(pos, big):
        def compare(mod):
            case = send_cases[pos]
            if big:
                got = [(entry[0], bytes(entry[1]), entry[2]) for entry in mod]
                want = [(len(frm), frm[:24], digest(frm)) for frm in send_impl[pos][0]]
            else:
                got = [bytes(frm) for frm in mod]
                want = send_impl[pos][0]
            if got != want:
                run.note_mismatch('send', 'mtu=%s len=%d: frames differ (model %d frame(s), real %d)' % (case[0], case[3], len(got), len(want)))
        return compare

    for (pos, case) in enumerate(send_cases):
        if chk.quick() and case[3] > 200000:
            chk.count('send_model_skipped_in_quick', case[3])
            continue
        big = case[3] > BIG
        job('run_send_big' if big else 'run_send', c_send(*case), 40 + (case[3] // 4 if big else 4 * case[3]), cmp_send(pos, big))

    # ---- (c) receive: plain and padded orders (a spread sample in the quick tier), several transfers at once, crafted
    def cmp_xfer(pos):
        def compare(mod):
            (case, obs) = (xfer_cases[pos], xfer_impl[pos])
            (m_counts, m_queue, m_signals, m_prog, m_timers, m_same) = mod
            real = ([n for (n, _r) in obs['trace']], [(len(d), digest(d)) for (_b, d) in obs['queue']], sigs(obs), obs['timers'])
            modl = (list(m_counts), [tuple(ent) for ent in m_queue], [tuple(ent) for ent in m_signals], m_timers)
            if real != modl:
                run.note_mismatch('recv', 'mtu=%d len=%d order=%s: model %s vs real %s' % (case[0], case[3], case[4], modl, real))
            elif obs['progress'] is not None and sorted(lst(obs['progress']), key=repr) != sorted(lst(m_prog), key=repr):
                run.note_mismatch('recv', 'order=%s: transfers in progress differ' % (case[4],))
            if bool(m_same) != (len(obs['queue']) == 1 and obs['queue'][0][1] == gdata(case[2], case[3])):
                run.note_mismatch('recv', 'order=%s: model and real disagree on "queued = bundle"' % (case[4],))
        return compare

    for pos in spread(range(len(xfer_cases)), 110 if chk.quick() else 10 ** 9):
        job('run_xfer', c_xfer(*xfer_cases[pos]), 60 + 2 * xfer_cases[pos][3] * len(xfer_cases[pos][4]) // 4, cmp_xfer(pos))

    def cmp_arrival(label, arrival, obs):
        def compare(mod):
            (m_trace, (m_prog, m_queue, m_signals, m_timers)) = mod
            real = ([(n, bool(r)) for (n, r) in obs['trace']], [(b, d) for (b, d) in obs['queue']], sigs(obs), obs['timers'])
            modl = ([(n, bool(r)) for (n, r) in m_trace], [(b, bytes(d)) for (b, d) in m_queue],
                    [tuple(s) for s in m_signals], m_timers)
            if real != modl:
                run.note_mismatch('recv', '%s %s: model (counts %s, %d queued, signals %s) vs real (counts %s, %d queued, signals %s)' % (
                    label, [(c, f.hex()[:40]) for (c, f) in arrival][:6], [n for (n, _r) in modl[0]], len(modl[1]), modl[2],
                    [n for (n, _r) in real[0]], len(real[1]), real[2]))
            elif obs['progress'] is not None and sorted(lst(obs['progress']), key=repr) != sorted(lst(m_prog), key=repr):
                run.note_mismatch('recv', '%s %s: transfers in progress differ: model %s real %s' % (
                    label, [(c, f.hex()[:40]) for (c, f) in arrival][:6], m_prog, obs['progress']))
        return compare

    pad_pick = [pos for pos in range(len(pad_cases)) if sum(len(f) for (_c, f) in pad_cases[pos][1]) <= 6000]
    if chk.quick():
        # every layout stays in the sample: spread within each layout
        by_layout = {}
        for pos in pad_pick:
            by_layout.setdefault(pad_cases[pos][0][5], []).append(pos)
        pad_pick = sorted(pos for group in by_layout.values() for pos in spread(group, 16))
    chk.count('recv_padded_model_compared', len(pad_pick))
    for pos in pad_pick:
        (pcase, arrival) = pad_cases[pos]
        job('run_recv', c_recv(arrival), 60 + 3 * sum(len(f) for (_c, f) in arrival),
            cmp_arrival('padded %s' % (list(pcase[:4]) + [pcase[4], pcase[5], pcase[6]],), arrival, pad_impl[pos]))

    def cmp_multi(pos):
        def compare(mod):
            ((transfers, arrival, name), obs) = (multi_cases[pos], multi_impl[pos])
            if obs is None:
                return
            (m_counts, m_queue, m_signals, m_prog, m_timers) = mod
            real = ([n for (n, _r) in obs['trace']], [(b, len(d), digest(d)) for (b, d) in obs['queue']], sigs(obs), obs['timers'])
            modl = (list(m_counts), [tuple(ent) for ent in m_queue], [tuple(ent) for ent in m_signals], m_timers)
            if real != modl:
                run.note_mismatch('recv', 'several transfers (%s) %s arrival %s: model %s vs real %s' % (name, transfers, arrival, modl, real))
        return compare

    for pos in range(len(multi_cases)):
        job('run_multi', c_multi(multi_cases[pos][0], multi_cases[pos][1]), 80 + 40 * len(multi_cases[pos][1]), cmp_multi(pos))
    for (arrival, obs) in zip(recv_cases, recv_impl):
        job('run_recv', c_recv(arrival), 60 + 3 * sum(len(f) for (_c, f) in arrival), cmp_arrival('crafted', arrival, obs))

    # one representative per distinct model input
    distinct = {}
    for (term, weight, _cmp) in jobs:
        distinct.setdefault(term, weight)
    terms = sorted(distinct, key=lambda term: (-distinct[term], term))
    nshards = max(1, min(14, len(terms) // 8))
    shards = [[] for _ in range(nshards)]
    loads = [0] * nshards
    for term in terms:            # heaviest first, each to the lightest shard so far
        tgt = loads.index(min(loads))
        shards[tgt].append(term)
        loads[tgt] += distinct[term]
    width = max(len(shard) for shard in shards)
    filler = '(@nil N)'
    ordered = []
    for shard in shards:          # equal-sized consecutive chunks = the shards
        ordered.extend(shard + [filler] * (width - len(shard)))
    chk.hist['model_evaluations'] = dict(jobs=len(jobs), distinct_terms=len(terms), shards=nshards)
    values = chk.coq_eval('all', ['Model.Btpu'], ordered, '(fun x => x)', chunk=width)
    result = dict((term, val) for (term, val) in zip(ordered, values) if term != filler)
    lap('phase 2 model evaluation (%d jobs, %d distinct, %d shards)' % (len(jobs), len(terms), nshards))
    for (term, _w, compare) in jobs:
        compare(result[term])
    for suite in ('codec', 'decode', 'send', 'recv'):
        chk.obligation('correspondence:' + suite, not run.mismatch.get(suite), '; '.join(run.mismatch.get(suite, [])[:3]))
    lap('phase 2 comparison')
    return run


def search_more(chk):
    ''' A tie is broken and no case failed the oracle yet: look harder on the
    implementation alone (10x the boundary-directed budget). '''
    found = False
    run = Runner(chk)
    saved = chk.tier
    chk.tier = 'thorough'
    try:
        for case in gen_send_cases(chk):
            (frames, term) = real_send(case[0], case[1], gdata(case[2], case[3]))
            if run.check_send(case, frames, term):
                found = True
        for (mtu, xid, seed, length, nperm) in gen_xfer_specs(chk):
            (frames, _term) = real_send(mtu, xid, gdata(seed, length))
            for order in expand_orders(chk.rng, len(frames), nperm):
                obs = real_recv([(1, frames[pos]) for pos in order])
                if run.check_xfer((mtu, xid, seed, length, order), obs):
                    found = True
                for layout in LAYOUTS[1:]:
                    pcase = (mtu, xid, seed, length, order, layout, chk.rng.randrange(2 ** 31))
                    comp = compose_padded(*pcase)
                    if comp is not None and run.check_padded(pcase, comp[1], real_recv(comp[0])):
                        found = True
        for (transfers, arrival, name) in gen_multi_cases(chk):
            res = run_multi_real(transfers, arrival)
            if res is not None and run.check_multi(transfers, arrival, name, res[1], res[0]):
                found = True
        for (pos, (msgs, pad)) in enumerate(gen_codec_cases(chk)):
            impl = run.impl_codec(msgs, pad)
            if run.check_codec(msgs, pad, impl, codec_replay(msgs, pad)):
                found = True
    finally:
        chk.tier = saved
    return found


def replay(chk, path):
    with open(path) as infile:
        ent = json.load(infile)
    obj = ent.get('replay', ent)
    run = Runner(chk)
    suite = obj.get('suite')
    why = None
    if suite == 'send':
        case = obj['case']
        case = (case[0], case[1], case[2], case[3])
        (frames, term) = real_send(case[0], case[1], gdata(case[2], case[3]))
        print('replay send mtu=%s xid=%d seed=%d len=%d -> %d frame(s) sizes %s' % (
            case + (len(frames), [len(f) for f in frames][:8])))
        why = run.check_send(case, frames, term)
    elif suite == 'xfer':
        case = obj['case']
        case = (case[0], case[1], case[2], case[3], list(case[4]))
        (frames, obs) = run.impl_xfer(case)
        print('replay recv mtu=%d len=%d order=%s -> signal counts %s, queue %s' % (
            case[0], case[3], case[4], [n for (n, _r) in obs['trace']], [len(d) for (_b, d) in obs['queue']]))
        why = run.check_xfer(case, obs)
    elif suite == 'multi':
        transfers = [tuple(t) for t in obj['transfers']]
        arrival = [tuple(a) for a in obj['arrival']]
        res = run_multi_real(transfers, arrival)
        if res is None:
            print('replay several-transfers: the sender no longer produces these frames; no judgement')
        else:
            print('replay several-transfers (%s): transfers (peer, vlan, xfer_num, mtu, seed, len) %s arrival %s -> signal counts %s, '
                  'signals (id, len, peer) %s, queue %s' % (obj.get('kind'), transfers, arrival, [n for (n, _r) in res[0]['trace']],
                                                           [(sg[0], sg[1], sg[3]) for sg in res[0]['signals']], [len(d) for (_b, d) in res[0]['queue']]))
            why = run.check_multi(transfers, arrival, obj.get('kind', ''), res[1], res[0])
    elif suite == 'padxfer':
        case = obj['case']
        case = (case[0], case[1], case[2], case[3], list(case[4]), case[5], case[6])
        comp = compose_padded(*case)
        if comp is None:
            print('replay recv-padded: the sender no longer produces one message per frame for this input; no judgement')
        else:
            obs = real_recv(comp[0])
            print('replay recv-padded mtu=%d len=%d order=%s layout=%s frames=%s -> signal counts %s, queue %s' % (
                case[0], case[3], case[4], case[5], [frm.hex() for (_c, frm) in comp[0]][:4],
                [n for (n, _r) in obs['trace']], [len(d) for (_b, d) in obs['queue']]))
            why = run.check_padded(case, comp[1], obs)
    elif suite == 'codec':
        msgs = [(m[0], m[1], [(h[0], bytes.fromhex(h[1])) for h in m[2]], m[3], m[4],
                 gen_bytes(m[5][1], m[5][2]) if isinstance(m[5], list) else bytes.fromhex(m[5])) for m in obj['msgs']]
        pad = bytes.fromhex(obj['pad'])
        impl = run.impl_codec(msgs, pad)
        print('replay codec -> %s' % (impl.get('enc', b'').hex()[:120],))
        why = run.check_codec(msgs, pad, impl, obj)
    elif suite == 'decode':
        octets = bytes.fromhex(obj['octets'])
        dis = real_dissect(octets)
        print('replay decode %s -> valid=%s' % (octets.hex()[:120], dis.get('valid')))
        if dis.get('valid') and (dis['reenc'] != octets or dis['rebuilt'] != octets):
            why = 're-encoding differs'
            chk.fail('C20 / decode / re-encoding differs', why, obj)
    else:
        print('replay file names no input (broken obligation): %s' % json.dumps(obj)[:600])
    chk.case(('replay', path), nontrivial=True, sample=dict(replay=os.path.basename(path), failed=bool(why)))
    chk.case(('replay-marker', 0), nontrivial=True)
    chk.obligation('replay', True, '')
    print('replay verdict: %s' % (why or 'oracle satisfied'))
    chk.finish(rule='replay of one recorded input through the real code and the property oracle')


def main():
    chk = Check('C20', level='proof', description=__doc__)
    if chk.args.replay:
        replay(chk, chk.args.replay)
        return
    chk.coq_props()
    # tie 1: translator (Gen/BtpuBudget.v regenerated by coq_props from the tree under test)
    (tr_ok, tr_err) = chk.translate_ok('btpubudget')
    run = None
    try:
        run = run_all(chk)
        broken_tie = any(run.mismatch.values())
    except CoqError as err:
        print('model evaluation failed: %s' % str(err)[:1500])
        chk.obligation('correspondence:model-evaluation', False, str(err)[:600])
        broken_tie = True
    if tr_ok:
        chk.obligation('translator:btpubudget', True, '')
    else:
        # fail-closed translator: the sender fragment is then tied by differential testing only
        # (DESIGN 3.1); the tie is broken if that cannot confirm agreement either
        send_agrees = (run is not None and not broken_tie
                       and any(name == 'correspondence:send' and okay for (name, okay, _d) in chk.obligations))
        chk.obligation('translator:btpubudget', send_agrees or decided(chk),
                       'translator failed closed: %s; %s' % (tr_err, 'sender tied by the send correspondence on the full grid instead'
                                                            if send_agrees else 'and the send correspondence does not confirm agreement'))
        chk.assumptions.append('translator target btpubudget did not recognise the current shape of Agent._send_transfer (%s): '
                               'Gen/BtpuBudget.v is stale, the C20_tie_* theorems speak about the previous source' % tr_err[:200])
    for (name, okay, detail) in chk.obligations:
        if not okay:
            print('# broken: %s: %s' % (name, detail[:1200]))
    broken = [name for (name, okay, _d) in chk.obligations if not okay]
    if broken and not any(not no_input for (_s, _w, _p, no_input) in chk.violations):
        search_more(chk)
    chk.finish(
        rule=('codec: frames of 0..101 messages of every bound type (1-5) and unbound types, hint lists of length 0-4 '
              '(and 100/101), hint data 0/255 octets, payload lengths across 255/256, 65535/65536 and 2^20-1, explicit '
              'and derived flags, zero padding; decode: fixed quirk corpus + truncations/bit flips/random octets of those '
              'encodings; send: grid of MTU x bundle length at every boundary of the fit test (mtu-6..mtu+1) and of the '
              'segment size (k*(mtu-18)-1,0,+1), MTU none, random; recv: all permutations of the arrival order for 2-5 '
              'segments, random permutations for 6-33, each of them also re-framed by an independent encoder with a definite Padding message before / after / around the data message, a zero-octet tail, two segments per frame with padding between, and a second transfer sharing every frame (three of these seven layouts per order in the quick tier, rotating); several transfers in progress at once: 2-3 peers / VLAN tags / equal and different transfer numbers, interleaved round-robin, reversed, mixed, sequential and randomly, judged per (peer, transfer) incl. the peer address in the signal; plus peer-crafted arrivals. The model is evaluated once per distinct model input, on a spread sample of the plain/padded orders in the quick tier (the oracle sees all). Non-trivial: codec frame with more than '
              'one message or hints or padding; decode input that is a valid frame; send case with >= 2 frames; recv case '
              'whose arrival order is not the index order (or more than one arrival for crafted ones). Distinct by input.'),
        extra_cov=dict(model='coq/Model/Btpu.v', gen='coq/Gen/BtpuBudget.v (translate/targets/btpubudget.py)',
                       refuted=['C20_declared_lengths_refuted (known finding: 20-bit length overflow)'],
                       partial=['C20_declared_lengths_partial (guard: hints + payload < 2^20)', 'C20_sent_unsegmented_partial (guard: bundle < 2^20 octets)'],
                       notes=['infeasible MTU (<= 18 with a non-fitting bundle) makes _send_transfer loop forever: excluded from the grid, guard mtu_feasible in the theorems',
                              'zero-length unsegmented bundle is not queued by the receiver (no BundlePdu layer); TransferEnd index 0 never completes; empty TransferSeg raises; per-segment timers raise KeyError after completion: outside the property quantifier, modelled and compared, no verdict']),
        assumptions=['harness stubs for dbus, gi.repository.GLib, portion, macaddress, psutil are trusted to behave as the real libraries',
                     'scapy 2.7.0 Packet/Field machinery is mirrored by the hand-written model and validated by correspondence only',
                     'translate/targets/btpubudget.py renders the whitelisted AST shape of Agent._send_transfer faithfully (cross-checked: the send correspondence compares every frame)',
                     'the oracle\'s own parser of the wire format (spec_parse_frame) is written from the format description in messages.py docstrings/field widths',
                     'timers registered with glib.timeout_add never fire during a receive sequence (timing is outside the quantifier)'])


if __name__ == '__main__':
    main()
